"""Engine `Argv` (core part: C22, C23, C24) — shared by harness/props/C22.py, C23.py, C24.py.

* generator of shell task definitions built through the public API (`shell.define`, `shell.arg`, `shell.outarg`)
  and of value assignments over a safe / an adversarial alphabet;
* implementation runner: builds the class, instantiates it, reads `task.cmdline`, runs the task with the debug
  worker while the `subprocess` module object used by `pydra.environments.base` (`sp`) is replaced by a recorder,
  so the argv handed to `sp.run` is observed without starting a process (thorough tier: a real child that dumps
  its argv NUL-separated is started as well);
* model queries for `lean/Drivers/Argv.lean`;
* straightforward spec oracles written from the property texts.

A case is plain JSON:
  {"exe": [str..], "fields": [FIELD..], "values": [VALUE..], "append": [str..]}
  FIELD = {"name", "kind", "optional", "argstr": str|None, "position": int|None, "sep": str, "out": bool}
  kind  = bool | str | int | float | path | list_str | list_int | list_path | multi_str | out
  VALUE = None | bool | str | int | float | [..]         ("out" fields: None | True)
Fields with "out": true are `shell.outarg`s (they come after the inputs in definition order, as in a class
definition where they live in `Outputs`).
"""

from __future__ import annotations

import contextlib
import itertools
import json
import keyword
import os
import shlex
import subprocess
from pathlib import Path

from harness import core

_uid = itertools.count()

SAFE = "abcxyzABZ0189_-./=:+@%"
ADV_SPECIAL = [" ", "\t", "\n", "'", '"', "\\", "$", "*", ";", "&", "|", "<", ">", "(", ")", "#", "~", "\u00e9", "\u65e5", "\U0001f600", "\u00a0", "\r"]
SHLEX_ACTIVE = set(" \t\r\n'\"\\")
PY_SPACE = {c for c in map(chr, range(0x3001)) if c.isspace()}
SEPS = [" ", " ", ",", ":", ";", "+"]
OUT_TAG = "<OUT>"


# --------------------------------------------------------------------------------------
# generator


def safe_word(rng, lo=1, hi=5):
    return "".join(rng.choice(SAFE) for _ in range(rng.randint(lo, hi)))


def adv_word(rng, lo=0, hi=5, p_special=0.4):
    n = rng.randint(lo, hi)
    return "".join(rng.choice(ADV_SPECIAL) if rng.random() < p_special else rng.choice(SAFE) for _ in range(n))


def gen_scalar(rng, kind, word):
    if kind == "str":
        return word(rng)
    if kind == "path":
        w = word(rng) or "p"
        return ("/" if rng.random() < 0.3 else "") + w + (("/" + (word(rng) or "q")) if rng.random() < 0.4 else "")
    if kind == "int":
        return rng.choice([0, 1, 2, -3, 42, 100000, 7])
    if kind == "float":
        return rng.choice([0.0, 1.5, -2.25, 1e-07, 3.0, 12.125])
    raise ValueError(kind)


ELEM = {"list_str": "str", "list_int": "int", "list_path": "path", "multi_str": "str"}


def gen_case(rng, *, word, n_max=6, allow_bad_def=0.07, blank_sep_templated=True, blank_sep_dots=False, outargs=True) -> dict:
    n = rng.choice([0, 1, 2, 2, 3, 3, 4, 4, 5, n_max])
    fields = []
    names = [f"f{chr(ord('a') + i)}" for i in range(n + 2)]
    for i in range(n):
        is_out = outargs and i >= max(1, n - 2) and rng.random() < 0.15
        kind = "out" if is_out else rng.choice(
            ["bool", "bool", "str", "str", "str", "int", "float", "path", "list_str", "list_str", "list_int", "list_path", "multi_str"]
        )
        name = names[i]
        optional = rng.random() < 0.45 if kind != "bool" else False
        # argstr
        r = rng.random()
        flag = rng.choice(["-", "--"]) + rng.choice(["a", "b", "v", "x", "opt", "long-name", "k2"])
        if kind == "bool":
            argstr = flag if r < 0.93 else ""
        elif r < 0.05:
            argstr = None
        elif r < 0.15:
            argstr = ""
        elif r < 0.55:
            argstr = flag
        elif r < 0.75:
            argstr = flag + rng.choice(["=", " ", ":"]) + "{" + name + "}"
        elif r < 0.8:
            argstr = "{" + name + "}"
        elif r < 0.85:
            argstr = flag + " {" + name + "} " + rng.choice(["--tail", "end", "-z"])
        else:
            argstr = flag  # cross reference added below
        if kind in ELEM and argstr is not None and rng.random() < 0.45:
            argstr = argstr + "..."
        sep = rng.choice(SEPS)
        fields.append({"name": name, "kind": kind, "optional": optional, "argstr": argstr, "position": None, "sep": sep, "out": is_out})
    fields.sort(key=lambda f: f["out"])  # outargs after the inputs: that is their place in the definition order
    # cross references to scalar str/int fields
    for f in fields:
        if f["argstr"] and "{" not in f["argstr"] and f["kind"] not in ("bool", "out") and rng.random() < 0.08:
            others = [g["name"] for g in fields if g is not f and g["kind"] in ("str", "int")]
            if others:
                dots = f["argstr"].endswith("...")
                base = f["argstr"][:-3] if dots else f["argstr"]
                f["argstr"] = base + "={" + f["name"] + "}_{" + rng.choice(others) + "}" + ("..." if dots else "")
    if blank_sep_dots:  # keep out of D42's region (C22's business)
        for f in fields:
            if f["argstr"] and f["argstr"].endswith("..."):
                f["sep"] = " "
    if not blank_sep_templated:
        for f in fields:
            if f["argstr"] and "{" in f["argstr"] and not f["argstr"].endswith("...") and f["kind"] in ELEM and not f["sep"].strip():
                f["sep"] = rng.choice([",", ":", "+"])
    # positions: distinct slots 1..n for the explicit ones, written as a non-negative position or, counted from the
    # end (num_args = n + 1 with the executable), as a negative one; now and then a position outside 0..n
    slots = list(range(1, n + 1))
    rng.shuffle(slots)
    far_pos = [n + 1, n + 2, n + 7]
    far_neg = [-(n + 2), -(n + 3), -(n + 9)]
    for f in fields:
        r = rng.random()
        if r < 0.45:
            f["position"] = None
        elif r < 0.52:
            f["position"] = far_pos.pop() if rng.random() < 0.6 else far_neg.pop()
        else:
            sl = slots.pop()
            f["position"] = sl if rng.random() < 0.6 else sl - (n + 1)
    if fields and rng.random() < allow_bad_def:
        f = rng.choice(fields)
        f["position"] = rng.choice([0, rng.choice(fields)["position"], 50, -50])
    # values
    values = []
    for f in fields:
        k = f["kind"]
        if f["optional"] and rng.random() < 0.3:
            values.append(None)
        elif k == "out":
            values.append(True)
        elif k == "bool":
            values.append(rng.random() < 0.6)
        elif k in ELEM:
            lo = 0 if k == "multi_str" else 1
            values.append([gen_scalar(rng, ELEM[k], word) for _ in range(rng.randint(lo, 3))])
        else:
            values.append(gen_scalar(rng, k, word))
    exe = rng.choice([["exe"], ["exe"], ["tool"], ["git", "commit"]])
    append = [word(rng) or "w" for _ in range(rng.choice([0, 0, 0, 1, 2]))]
    return {"exe": exe, "fields": fields, "values": values, "append": append}


# --------------------------------------------------------------------------------------
# implementation


class _Recorder:
    """Stands in for the `subprocess` module object inside pydra.environments.base."""

    PIPE = subprocess.PIPE
    CompletedProcess = subprocess.CompletedProcess

    def __init__(self, real: bool):
        self.calls = []
        self.real = real

    def run(self, cmd, **kw):
        cwd = os.getcwd()
        self.calls.append((list(cmd), cwd))
        if self.real:
            return subprocess.run(cmd, **kw)
        for a in cmd:  # pretend the command wrote its output files
            if isinstance(a, str) and a.startswith(cwd + os.sep) and "\0" not in a:
                with contextlib.suppress(OSError):
                    Path(a).touch()
        return subprocess.CompletedProcess(cmd, 0, b"", b"")


@contextlib.contextmanager
def recording(real: bool = False):
    import pydra.environments.base as eb

    old = eb.sp
    rec = _Recorder(real)
    eb.sp = rec
    try:
        yield rec
    finally:
        eb.sp = old


def _py_type(f):
    from fileformats.generic import File
    from pydra.utils.typing import MultiInputObj

    t = {
        "bool": bool, "str": str, "int": int, "float": float, "path": Path, "list_str": list[str], "list_int": list[int],
        "list_path": list[Path], "multi_str": MultiInputObj[str], "out": File,
    }[f["kind"]]
    return (t | None) if f["optional"] else t


def _py_value(f, v):
    if v is None:
        return None
    k = f["kind"]
    if k == "path":
        return Path(v)
    if k == "list_path":
        return [Path(x) for x in v]
    return v


def build_class(case):
    from pydra.compose import shell

    ins, outs = [], []
    for f in case["fields"]:
        assert not keyword.iskeyword(f["name"])
        kw = dict(name=f["name"], type=_py_type(f), argstr=f["argstr"], position=f["position"], sep=f["sep"])
        if f["out"]:
            if f["optional"]:
                kw["default"] = None
            outs.append(shell.outarg(path_template=f"{f['name']}_out.txt", **kw))
        else:
            if f["optional"]:
                kw["default"] = None
            elif f["kind"] == "bool":
                kw["default"] = False
            ins.append(shell.arg(**kw))
    return shell.define(" ".join(case["exe"]), inputs=ins, outputs=outs, name=f"ArgvCase{next(_uid)}")


def dumper(scratch: Path) -> str:
    """A real executable that prints its argv NUL-separated (thorough tier)."""
    p = Path(scratch) / "dumpargv"
    if not p.exists():
        p.write_text('#!/bin/sh\nprintf \'%s\\0\' "$0" "$@"\n')
        p.chmod(0o755)
    return str(p)


def canon_args(args, roots):
    out = []
    for a in args:
        a = str(a)
        for r in roots:
            if r and a.find(r + os.sep) >= 0:
                a = a.replace(r + os.sep, OUT_TAG + "/")
        out.append(a)
    return out


def run_impl(case, scratch: Path, *, real_child: bool = False, want_cmdline: bool = True) -> dict:
    """Returns {"define": tag|None, "cmdline": str|{"error": tag}, "argv": [..]|{"error": tag}, "child": [..]|None}."""
    res = {"define": None, "cmdline": None, "argv": None, "child": None}
    # private persistent hash cache: the shared one under ~/.cache is scanned by every Submitter (clean_up)
    hc = Path(scratch) / "hashcache"
    hc.mkdir(exist_ok=True)
    os.environ["PYDRA_HASH_CACHE"] = str(hc)
    case = dict(case)
    exe_names = list(case["exe"])
    if real_child:
        d = dumper(scratch)
        case["exe"] = [d] + exe_names[1:]
    try:
        klass = build_class(case)
    except Exception as e:  # definition rejected
        res["define"] = core.exc_tag(e)
        return res
    kwargs = {f["name"]: _py_value(f, v) for f, v in zip(case["fields"], case["values"]) if not (v is None and not f["optional"])}
    if case["append"]:
        kwargs["append_args"] = list(case["append"])
    try:
        task = klass(**kwargs)
    except Exception as e:
        res["define"] = "init:" + core.exc_tag(e)
        return res
    cwd = str(Path.cwd())
    if want_cmdline:
        try:
            res["cmdline"] = task.cmdline.replace(cwd + os.sep, OUT_TAG + "/")
        except Exception as e:
            res["cmdline"] = {"error": core.exc_tag(e)}
    cache = Path(scratch) / f"c{next(_uid)}"
    with recording(real=real_child) as rec:
        try:
            outputs = task(cache_root=cache, worker="debug")
            err = None
        except Exception as e:
            err, outputs = e, None
    if rec.calls:
        argv, jobdir = rec.calls[-1]
        argv = canon_args(argv, [jobdir])
        if real_child:
            argv[0] = exe_names[0]
            if outputs is not None:
                got = outputs.stdout.split("\0")
                assert got[-1] == "", got
                child = canon_args(got[:-1], [jobdir])
                child[0] = exe_names[0]
                res["child"] = child
        res["argv"] = argv
    else:
        res["argv"] = {"error": core.exc_tag(err) if err is not None else "no-subprocess-call"}
    return res


# --------------------------------------------------------------------------------------
# model


def _scalar_json(kind, v):
    if isinstance(v, bool):
        return {"b": v}
    if kind == "str":
        return {"s": v}
    if kind == "path":
        return {"p": str(Path(v))}
    if kind == "int":
        return {"i": v}
    if kind == "float":
        return {"f": str(v), "z": v == 0}
    raise ValueError(kind)


def model_query(case) -> dict:
    fields, values = [], []
    for f, v in zip(case["fields"], case["values"]):
        k = f["kind"]
        fields.append(
            {"name": f["name"], "bool": k == "bool", "multi": k == "multi_str", "argstr": f["argstr"], "position": f["position"], "sep": f["sep"]}
        )
        if v is None:
            values.append(None)
        elif k == "out":
            values.append({"p": f"{OUT_TAG}/{f['name']}_out.txt"})
        elif k in ELEM:
            values.append([_scalar_json(ELEM[k], x) for x in v])
        else:
            values.append(_scalar_json(k, v))
    return {"op": "run", "exe": case["exe"], "fields": fields, "values": values, "append": case["append"]}


def model_obs(ans, key="argv"):
    """{"ok": x} / {"err": tag} of the driver -> observable comparable with run_impl's."""
    if ans is None:
        return None
    if "error" in ans:
        return {"model-error": ans["error"]}
    r = ans[key]
    return r["ok"] if "ok" in r else {"error": MODEL_ERR.get(r["err"], r["err"])}


# Python exception class raised where the model returns the tag
MODEL_ERR = {
    "noClosingQuote": "ValueError",
    "noEscapedChar": "ValueError",
    "overlap": "ValueError",
    "dupPosition": "Exception",
    "noSlot": "IndexError",
    "format": "format",
}


# --------------------------------------------------------------------------------------
# spec oracles (from the property texts; independent of the model)


def render(kind, v) -> str:
    if kind in ("path",):
        return str(Path(v))
    return str(v)


def is_set(f, v) -> bool:
    if f["argstr"] is None or v is None:
        return False
    if f["kind"] == "multi_str" and v == []:
        return False
    return True


def spec_order(case):
    """Indices of the set fields: explicit non-negative ascending, unpositioned in definition order, negative ascending."""
    idx = [i for i, (f, v) in enumerate(zip(case["fields"], case["values"])) if is_set(f, v)]
    pos = sorted((i for i in idx if (p := case["fields"][i]["position"]) is not None and p >= 0), key=lambda i: case["fields"][i]["position"])
    none = [i for i in idx if case["fields"][i]["position"] is None]
    neg = sorted((i for i in idx if (p := case["fields"][i]["position"]) is not None and p < 0), key=lambda i: case["fields"][i]["position"])
    return pos + none + neg


def _env(case):
    env = {}
    for f, v in zip(case["fields"], case["values"]):
        if v is None:
            env[f["name"]] = ""
        elif f["kind"] == "out":
            env[f["name"]] = f"{OUT_TAG}/{f['name']}_out.txt"
        elif f["kind"] in ELEM:
            env[f["name"]] = None  # never referenced by the generator
        else:
            env[f["name"]] = render(f["kind"], v)
    return env


def _subst(token: str, env: dict) -> str:
    out = token
    for n, val in env.items():
        if val is not None:
            out = out.replace("{" + n + "}", val)
    return out


def spec_field_args(case, i, *, atomic: bool) -> list[str]:
    """Documented arguments of field i.  atomic=False (C22): the field's text is cut at blanks;
    atomic=True (C23): values are atoms that are never cut (a list joined with a blank separator gives one
    argument per element)."""
    f, v = case["fields"][i], case["values"][i]
    k = f["kind"]
    argstr = f["argstr"]
    if k == "bool":
        return [argstr] if v is True else []
    dots = argstr.endswith("...")
    toks = argstr.replace("...", "").split()
    templated = "{" in argstr
    env = _env(case)

    def one(val: str) -> list[str]:
        if templated:
            e = dict(env)
            e[f["name"]] = val
            return [_subst(t, e) for t in toks]
        return toks + [val]

    if k == "out":
        return one(f"{OUT_TAG}/{f['name']}_out.txt")
    if k in ELEM:
        elems = [render(ELEM[k], x) for x in v]
        if dots or k == "multi_str":
            return [a for x in elems for a in one(x)]
        if atomic and not f["sep"].strip() and not templated:
            return toks + elems
        joined = f["sep"].join(elems)
        if atomic:
            return one(joined)
        return [a for t in one(joined) for a in t.split()] if templated else toks + joined.split()
    return one(render(k, v))


def spec_argv(case, *, atomic: bool = False) -> list[str]:
    out = list(case["exe"])
    for i in spec_order(case):
        out += spec_field_args(case, i, atomic=atomic)
    return out + list(case["append"])


# --------------------------------------------------------------------------------------
# match rules of the known findings (predicates on the case)


def implicit_slots(case):
    """Positions after shell.define (re-implemented here for the D26 match rule only)."""
    ps = [f["position"] for f in case["fields"]] + [0]
    n = len(ps)
    occ = {(p if p >= 0 else n + p) for p in ps if p is not None}
    free = [i for i in range(n) if i not in occ]
    out = []
    for p in ps[:-1]:
        out.append(free.pop(0) if p is None else p)
    return out


def rule_D26(case) -> bool:
    """a set unpositioned field receives an implicit slot below the explicit non-negative position of another set field"""
    try:
        filled = implicit_slots(case)
    except IndexError:
        return False
    live = [i for i, (f, v) in enumerate(zip(case["fields"], case["values"])) if is_set(f, v)]
    for u in live:
        if case["fields"][u]["position"] is None:
            for e in live:
                p = case["fields"][e]["position"]
                if p is not None and p >= 0 and filled[u] < p:
                    return True
    return False


def rule_D41(case) -> bool:
    """a set non-bool field with a plain (untemplated) argstr whose value is falsy (0, 0.0; C23: empty string)"""
    for f, v in zip(case["fields"], case["values"]):
        if is_set(f, v) and f["kind"] in ("int", "float", "str") and "{" not in f["argstr"] and not v:
            return True
    return False


def rule_D42(case) -> bool:
    """a `...` argstr on a list of >= 2 elements with a separator that is not blank"""
    for f, v in zip(case["fields"], case["values"]):
        if is_set(f, v) and f["kind"] in ELEM and f["kind"] != "multi_str" and f["argstr"].endswith("...") and len(v) >= 2 and f["sep"].strip():
            return True
    return False


def str_elements(case):
    """(field index, element) for every str/path element supplied to a set field."""
    for i, (f, v) in enumerate(zip(case["fields"], case["values"])):
        if not is_set(f, v):
            continue
        k = f["kind"]
        if k in ("str", "path"):
            yield i, render(k, v)
        elif k in ELEM and ELEM[k] in ("str", "path"):
            for x in v:
                yield i, render(ELEM[k], x)


def rule_D14(case) -> bool:
    """some str/path element contains a shlex-active character (blank, quote, backslash), is empty, or — in a
    templated argstr — begins or ends with a character str.strip() removes; or an appended argument given ... (n/a)"""
    for i, e in str_elements(case):
        f = case["fields"][i]
        if e == "" or any(c in SHLEX_ACTIVE for c in e):
            return True
        if "{" in f["argstr"] and (e[0] in PY_SPACE or e[-1] in PY_SPACE):
            return True
    return False


def cmdline_safe_arg(a: str, first: bool) -> bool:
    """Is the argument rendered faithfully by `cmdline`'s quoting (single quotes iff it contains a space)?"""
    if first:
        return a != "" and not any(c in SHLEX_ACTIVE for c in a)
    if " " in a:
        return "'" not in a
    return a != "" and not any(c in SHLEX_ACTIVE for c in a)


def rule_D15(argv) -> bool:
    """some executed argument needs quoting that cmdline does not apply"""
    return any(not cmdline_safe_arg(a, i == 0) for i, a in enumerate(argv))


def load_corpus(name: str) -> list[dict]:
    p = core.VERIF / "corpus" / "argv" / name
    return [json.loads(l) for l in p.read_text().splitlines() if l.strip()]
