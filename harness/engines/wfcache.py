"""Engine WfCache (C30): drive `Workflow.construct` / `WorkflowTask.construct` / runs through a history of operations on
generated workflow definitions, in this process (history) or in a fresh interpreter (only the final operation).

Definitions (JSON):  {"kind": "plain", "tagc": 0, "split": false}   a workflow class of its own (unique source text);
                                                               "split": node `a` splits over the list `x`
                     {"kind": "factory", "group": g, "k": 2}  a class made by the factory `make_g(k)`: all classes of one
                                                               group share their constructor SOURCE and differ in closure `k`
Every definition is
    def W(x, y, n, b):   a = Enc("a", x, y);  c0..c_{n+k-1} chained on a;  if b: s = Enc("s", y, last)   -> last.out
so the graph shape depends on the non-lazy inputs `n`, `b` (and on the closure `k`).

Tasks:   [{"def": d, "x": .., "y": .., "n": .., "b": ..}, ...]     (task instances, created at the start)
Ops:     ["construct", i, [lazy fields]]   Workflow.construct(task_i, lazy=[...])        -> graph view
         ["tconstruct", i]                 task_i.construct()   (per-instance memo)      -> graph view
         ["run", i, root]                  task_i(worker="debug", cache_root=root r)     -> outputs       root: "s" shared, "f" fresh
         ["set", i, field, value]          task_i.field = value                          -> None
         ["clear"]                         Workflow.clear_cache()                        -> None
         ["mut", i, v]                     task_i.x.append(v)  (IN-PLACE change of a list input; only in the hand-written
                                           mutation histories of corpus/wfcache/mutation.jsonl, never generated)  -> None
"""

from __future__ import annotations

import copy
import importlib.util
import itertools
import json
import os
import sys
import tempfile
import typing as ty
from pathlib import Path

from harness.engines.wfstate import canon

FIELDS = ("x", "y", "n", "b")
_uid = itertools.count()


def _body(indent: str, tagc: str, k: str, split: bool = False) -> list[str]:
    first = (
        f"{indent}cur = workflow.add(Enc(tag='a{tagc}', y=y).split('x', x=x), name='a')"
        if split
        else f"{indent}cur = workflow.add(Enc(tag='a{tagc}', x=x, y=y), name='a')"
    )
    return [
        first,
        f"{indent}for i in range(n + {k}):",
        f"{indent}    cur = workflow.add(Enc(tag=f'c{{i}}', x=cur.out), name=f'c{{i}}')",
        f"{indent}if b:",
        f"{indent}    cur = workflow.add(Enc(tag='s', x=y, y=cur.out), name='s')",
        f"{indent}return cur.out",
    ]


def atag(df: dict, d: int) -> str:
    """Tag of the first node of definition number `d` (what distinguishes the definitions in the outputs)."""
    return f"a{df.get('tagc', d)}" if df["kind"] == "plain" else f"a9{df['group']}"


def for_driver(case: dict, window: int | None) -> dict:
    """The case as the Lean driver wants it: definitions annotated with their first node's tag, and the measured
    environment parameter `window` (see `superset_window`)."""
    return dict(case, defs=[dict(df, atag=atag(df, d)) for d, df in enumerate(case["defs"])], window=window)


def superset_window(scratch: Path) -> int | None:
    """Environment probe.  `Workflow.construct` hashes the temporaries `subset_vals` of its superset-of-lazy search with one
    shared id-keyed memo (`hash_cache`); when a temporary reuses the id of a freed one it is given that one's stale hash
    and cannot match.  Returns the number k such that only the first k candidate key sets can hit (CPython 3.12: 2), or
    None when a hit is still found at the fourth candidate.  The Lean machine takes this number as a parameter."""
    from pydra.engine.workflow import Workflow

    mod = load_defs([{"kind": "plain", "tagc": 0, "split": False}], scratch, f"probe{os.getpid()}_{next(_uid)}")
    W = mod.D0
    base = dict(x=1, y=2, n=1, b=False)
    # candidate key sets {y,n,b}, {x,n,b}, {x,y,n,b}: subsets of the request's keys whose cached values do not match it
    decoys = [(["x"], {"y": 91}), (["y"], {"x": 92}), ([], {"x": 93})]

    def size():
        return sum(len(l3) for l2 in Workflow._constructed_cache.values() for l3 in l2.values())

    try:
        for k in range(1, len(decoys) + 2):
            Workflow.clear_cache()
            for lz, over in decoys[: k - 1]:
                Workflow.construct(W(**{**base, **over}), lazy=lz)
            Workflow.construct(W(**base), lazy=["x", "y"])  # key set {n,b}: the k-th candidate, and it matches
            before = size()
            Workflow.construct(W(**base))  # a superset hit inserts nothing; a miss constructs and inserts
            if size() != before:
                return k - 1
        return None
    finally:
        Workflow.clear_cache()
        sys.modules.pop(mod.__name__, None)


def gen_source(defs: list[dict], uid: str) -> str:
    out = ["import typing as ty", "from pydra.compose import workflow", "from harness.engines.wfstate import Enc", ""]
    groups = set()
    for d, df in enumerate(defs):
        if df["kind"] == "plain":
            out.append("@workflow.define(outputs=['out'])")
            out.append(f"def P{uid}_{d}(x, y, n, b):")
            out += _body("    ", str(df.get("tagc", d)), "0", bool(df.get("split")))
            out.append(f"D{d} = P{uid}_{d}")
        else:
            g = df["group"]
            if g not in groups:
                groups.add(g)
                out.append(f"def make{uid}_{g}(K):")
                out.append("    @workflow.define(outputs=['out'])")
                out.append(f"    def F{uid}_{g}(x, y, n, b):")
                out += _body("        ", f"9{g}", "K", bool(df.get("split")))
                out.append(f"    return F{uid}_{g}")
            out.append(f"D{d} = make{uid}_{g}({int(df['k'])})")
        out.append("")
    return "\n".join(out)


def load_defs(defs: list[dict], scratch: Path, uid: str):
    p = Path(scratch) / f"wfc_{uid}.py"
    p.write_text(gen_source(defs, uid))
    spec = importlib.util.spec_from_file_location(f"wfc_{uid}", p)
    mod = importlib.util.module_from_spec(spec)
    sys.modules[spec.name] = mod
    spec.loader.exec_module(mod)
    return mod


def view(wf) -> dict:
    """Graph view of a constructed Workflow: nodes with their inputs, lazy workflow inputs resolved through wf.inputs."""
    from pydra.engine.lazy import LazyInField, LazyOutField
    from pydra.utils.general import attrs_values

    def src(v):
        if isinstance(v, LazyOutField):
            return ["out", v._node.name]
        if isinstance(v, LazyInField):
            cur = getattr(wf.inputs, v._field)
            if isinstance(cur, LazyInField):
                return ["lzin", v._field]
            return canon(cur)
        return canon(v)

    nodes = []
    for node in wf.nodes:
        vals = attrs_values(node._task)
        nodes.append([node.name, {f: src(vals[f]) for f in ("tag", "x", "y", "z") if f in vals}])
    ins = {f: src(getattr(wf.inputs, f)) for f in FIELDS}
    outs = {k: src(v) for k, v in attrs_values(wf.outputs).items()}
    return {"nodes": nodes, "inputs": ins, "outputs": outs}


def do_op(op, tasks, roots, scratch):
    from pydra.engine.submitter import Submitter
    from pydra.engine.workflow import Workflow
    from harness import core

    try:
        if op[0] == "construct":
            return {"view": view(Workflow.construct(tasks[op[1]], lazy=tuple(op[2])))}
        if op[0] == "tconstruct":
            return {"view": view(tasks[op[1]].construct())}
        if op[0] == "run":
            root = roots["s"] if op[2] == "s" else Path(tempfile.mkdtemp(prefix="root_", dir=scratch))
            with Submitter(worker="debug", cache_root=root) as sub:
                res = sub(tasks[op[1]], raise_errors=True)
            return {"out": canon(res.outputs.out)}
        if op[0] == "set":
            setattr(tasks[op[1]], op[2], op[3])
            return None
        if op[0] == "clear":
            Workflow.clear_cache()
            return None
        if op[0] == "mut":
            tasks[op[1]].x.append(op[2])
            return None
        raise ValueError(f"bad op {op}")
    except Exception as e:  # noqa: BLE001  (exceptions are observables)
        return {"error": core.exc_tag(e)}


def run_history(case: dict, scratch: Path, only_last_with_current_values: bool = False) -> list:
    """Run the history in this process; returns the observable of every op.
    `only_last_with_current_values`: the reference run — create the tasks with the values the history has assigned by the
    time of the final op and perform only the final op (meant for a fresh interpreter)."""
    from pydra.engine.workflow import Workflow

    uid = f"{os.getpid()}_{next(_uid)}"
    Path(scratch).mkdir(parents=True, exist_ok=True)
    hash_dir = Path(scratch) / "hash-cache"
    hash_dir.mkdir(exist_ok=True)
    old_env = os.environ.get("PYDRA_HASH_CACHE")
    os.environ["PYDRA_HASH_CACHE"] = str(hash_dir)
    Workflow.clear_cache()
    try:
        mod = load_defs(case["defs"], scratch, uid)
        specs = [dict(t) for t in case["tasks"]]
        ops = case["ops"]
        if only_last_with_current_values:
            for op in ops[:-1]:
                if op[0] == "set":
                    specs[op[1]][op[2]] = op[3]
                elif op[0] == "mut":
                    specs[op[1]]["x"] = list(specs[op[1]]["x"]) + [op[2]]
            ops = ops[-1:]
        # every task instance gets value objects of its own (twins made by the generator share their JSON lists)
        tasks = [getattr(mod, f"D{t['def']}")(x=copy.deepcopy(t["x"]), y=t["y"], n=t["n"], b=t["b"]) for t in specs]
        roots = {"s": Path(tempfile.mkdtemp(prefix="shared_", dir=scratch))}
        return [do_op(op, tasks, roots, scratch) for op in ops]
    finally:
        Workflow.clear_cache()
        sys.modules.pop(f"wfc_{uid}", None)
        if old_env is None:
            os.environ.pop("PYDRA_HASH_CACHE", None)
        else:
            os.environ["PYDRA_HASH_CACHE"] = old_env


def main():
    """Child-process entry: one JSON case per stdin line -> one JSON answer per line (reference run of the final op).
    Every line is answered by a *new* interpreter when the parent starts one child per case; several lines per child are
    accepted too (then the class-level cache is cleared between them)."""
    from harness import core

    core.assert_repo_loaded()
    scratch = Path(tempfile.mkdtemp(prefix="wfc_child_"))
    for line in sys.stdin:
        line = line.strip()
        if not line:
            continue
        case = json.loads(line)
        try:
            r = run_history(case, scratch, only_last_with_current_values=True)[-1]
        except Exception as e:  # noqa: BLE001
            r = {"harness-error": repr(e)[:300]}
        sys.stdout.write(json.dumps(r) + "\n")
        sys.stdout.flush()
    import shutil

    shutil.rmtree(scratch, ignore_errors=True)


if __name__ == "__main__":
    main()
