"""Controlled worker, task body and loop observer for the `Sched` engine (C14-C18; DESIGN §5.5).

Everything here lives *outside* /repo and is imported by name in the worker processes, so it must stay an
importable module (`harness.engines.sched_worker`).

* `Body`             python task whose body logs "S tag", blocks until `<ctl>/<tag>.finish` exists and returns or raises
                     according to its content ("ok" / "err"); logs "E tag".  All case data comes in as task INPUTS.
* `VerifWorker`      PLAIN (non-attrs: an attrs subclass gets a slotted `__getstate__` that tries to pickle the event
                     loop) subclass of `ConcurrentFuturesWorker`.  `run(job)` records the dispatch, waits for the *start
                     gate*, delegates to the real cf implementation (real process pool, real `SoftFileLock`), records
                     that the future's result is available, waits for the *completion gate* and only then lets the
                     asyncio task finish.  A job marked `vanish` completes without running anything (D24: "future
                     completes, truth unchanged").
* `ObsSubmitter`     subclass of `Submitter` that only *observes*: logs every `get_runnable_tasks` result with the
                     NodeExecution tables, and every entry into `fetch_finished` with the pending futures, then calls
                     the real method.  It also counts polls that happen without the loop ever awaiting (livelock).
* `Control`          the schedule player: an asyncio task on the *same* event loop as the submitter (no threads: the
                     process pool forks), woken at every `fetch_finished`; it performs environment moves and waits on
                     files / events only - never on timing.
"""

from __future__ import annotations

import asyncio
import os
import time
import typing as ty
from pathlib import Path

from pydra.compose import python
from pydra.engine.submitter import Submitter
from pydra.workers.cf import ConcurrentFuturesWorker

WATCHDOG = float(os.environ.get("VERIF_SCHED_WATCHDOG", "240"))  # seconds; only ever a failure path
STALL_TICK_LIMIT = 60  # sleeps of the stall detector in one submission (it gives up after 11)
SPIN_LIMIT = 60  # consecutive polls without a single await of the loop = livelock


class Livelock(BaseException):
    """raised by the observer when the async loop spins without awaiting (BaseException: passes `except Exception`)"""


class DeviceTimeout(BaseException):
    """a watchdog of the device expired: infrastructure, not an observation"""


# --------------------------------------------------------------------------------------------------
# the task body (runs in worker processes)


def tag_of(nm, idx, d0) -> str:
    """unique label of a job: node name + own split value, or the upstream job's suffix for an inherited split"""
    if idx is not None:
        return f"{nm}.{idx}"
    if isinstance(d0, (list, tuple)) and len(d0) == 3 and d0[0] == "J" and "." in d0[1]:
        return f"{nm}.{d0[1].split('@')[0].split('.', 1)[1]}"
    return nm


def _log(ctl: str, line: str):
    fd = os.open(os.path.join(ctl, "log"), os.O_WRONLY | os.O_APPEND | os.O_CREAT, 0o644)
    try:
        os.write(fd, (line + "\n").encode())
    finally:
        os.close(fd)


def _wait_token(ctl, tag) -> str:
    tok = os.path.join(ctl, tag + ".finish")
    abort = os.path.join(ctl, "ABORT")
    t0 = time.time()
    while not os.path.exists(tok):
        if os.path.exists(abort) or time.time() - t0 > WATCHDOG * 3:
            _log(ctl, f"T {tag}")
            raise TimeoutError(f"body {tag}: no finish token (schedule player gave up)")
        time.sleep(0.004)
    with open(tok) as f:
        return f.read().strip()


def body(nm, ctl, mode, idx, inherit, deps, emit=None):
    tag = tag_of(nm, idx, deps[0] if inherit else None)
    # a "lister" node (emit = m) returns a list of m values, over which a successor splits at run time (m may be 0)
    value = list(range(emit)) if emit is not None else ["J", tag, [d for d in deps if d is not None]]
    if not ctl:  # free-running mode (plain cf / debug workers, C17): no gates, no log
        return value
    if mode == "x":
        # two-pass cases (pre-existing results): what the body does is EXTERNAL STATE, read when it runs - the
        # generation stamped into the value, the failing bodies, gated or not - so that the checksums of the jobs do
        # not change between the submissions while their values do
        import json

        with open(os.path.join(ctl, "cfg.json")) as f:
            cfg = json.load(f)
        if emit is None:
            value = ["J", f"{tag}@{cfg['gen']}", [d for d in deps if d is not None]]
        _log(ctl, f"S {tag} {os.getpid()}")
        if cfg.get("gate"):
            what = _wait_token(ctl, tag)
        else:
            what = "err" if tag in cfg.get("fail", []) else "ok"
        _log(ctl, f"E {tag} {what}")
        if what == "err":
            raise ValueError(f"body {tag} fails as scheduled")
        return value
    if mode.startswith("log:"):  # no gates: log start/end, fail if listed (debug worker, C15 sync)
        _log(ctl, f"S {tag} {os.getpid()}")
        if tag in mode[4:].split(","):
            _log(ctl, f"E {tag} err")
            raise ValueError(f"body {tag} fails as scheduled")
        _log(ctl, f"E {tag} ok")
        return value
    _log(ctl, f"S {tag} {os.getpid()}")
    what = _wait_token(ctl, tag)
    _log(ctl, f"E {tag} {what}")
    if what == "err":
        raise ValueError(f"body {tag} fails as scheduled")
    return value


@python.define(outputs=["out"])
def Body(
    nm: str,
    ctl: str,
    mode: str = "gate",
    idx: ty.Any = None,
    inherit: bool = False,
    d0: ty.Any = None,
    d1: ty.Any = None,
    d2: ty.Any = None,
    d3: ty.Any = None,
    emit: ty.Any = None,
    arr: ty.Any = None,  # carried only: a multi-element numpy array, whose `!=` with the default is not a bool (D74)
) -> ty.Any:
    from harness.engines.sched_worker import body

    return body(nm, ctl, mode, idx, inherit, [d0, d1, d2, d3], emit)


@python.define(outputs=["out"])
def BodyT(
    nm: str,
    ctl: str,
    mode: str = "gate",
    idx: ty.Any = None,
    inherit: bool = False,
    d0: list | None = None,
    d1: list | None = None,
    d2: list | None = None,
    d3: list | None = None,
    emit: int | None = None,
    arr: ty.Any = None,
) -> list:
    """the same body with typed connections (C18: typed back edges)"""
    from harness.engines.sched_worker import body

    return body(nm, ctl, mode, idx, inherit, [d0, d1, d2, d3], emit)


def job_tag(job) -> str:
    t = job.task
    return tag_of(t.nm, t.idx, t.d0 if t.inherit else None)


# --------------------------------------------------------------------------------------------------
# control object (one per submission; module global so that nothing of it is pickled with jobs)


class Control:
    def __init__(self, ctl_dir: Path, k):
        self.dir = Path(ctl_dir)
        self.dir.mkdir(parents=True, exist_ok=True)
        self.k = k
        self.events: list = []  # ("P", tasks, tables) / ("W", pending) / ("D", tag) / ("R", tag) / ("Z",)
        self.start_gate: dict[str, asyncio.Future] = {}
        self.fin_gate: dict[str, asyncio.Future] = {}
        self.tag_of_ck: dict[str, str] = {}
        self.returned: set[str] = set()
        self.mode: dict[str, str] = {}  # tag -> "vanish" | "vanish-locked"
        self.wake: asyncio.Event | None = None
        self.n_wait = 0
        self.spin = 0
        self.sorted: list[str] | None = None
        self.player: ty.Callable | None = None
        self.player_error: BaseException | None = None
        self._log_pos = 0
        self.seen_s: list[str] = []
        self.seen_e: list[str] = []
        self.aborted = False
        self.ticks = 0
        self.livelock = False
        self.racer = None
        self.rerun = False
        self.hit: dict[str, bool] = {}  # tag -> Job.run will return the cached result without executing anything

    # ---- used by worker / observer (same thread, same loop)
    def ev(self, *rec):
        self.events.append(list(rec))
        if os.environ.get("VERIF_SCHED_TRACE"):
            import sys

            print("EV", rec[0], rec[1] if len(rec) > 1 else "", file=sys.stderr, flush=True)

    def gate(self, table: dict, tag: str) -> asyncio.Future:
        if tag not in table:
            table[tag] = asyncio.get_event_loop().create_future()
        if self.aborted and not table[tag].done():
            table[tag].set_result(True)
        return table[tag]

    def abort(self):
        """the schedule player has given up: open every gate, now and in future, and tell the bodies to stop waiting"""
        self.aborted = True
        try:
            (self.dir / "ABORT").write_text("abort")
        except OSError:
            pass
        for tbl in (self.start_gate, self.fin_gate):
            for f in tbl.values():
                if not f.done():
                    f.set_result(True)

    def open(self, table: dict, tag: str):
        f = self.gate(table, tag)
        if not f.done():
            f.set_result(True)

    # ---- body log
    def read_log(self):
        p = self.dir / "log"
        if not p.exists():
            return
        with open(p, "rb") as f:
            f.seek(self._log_pos)
            data = f.read()
        if not data.endswith(b"\n"):
            data = data[: data.rfind(b"\n") + 1]
        self._log_pos += len(data)
        for line in data.decode().splitlines():
            parts = line.split()
            if parts[0] == "S":
                self.seen_s.append(parts[1])
            elif parts[0] == "E":
                self.seen_e.append(parts[1])

    async def until(self, cond: ty.Callable[[], bool], what: str):
        """wait for a condition established by other coroutines / processes: yields to the loop, polls the body log"""
        t0 = time.time()
        n = 0
        while True:
            self.read_log()
            if cond():
                return
            n += 1
            await _real_sleep(0 if n < 20 else 0.004)
            if time.time() - t0 > WATCHDOG:
                raise DeviceTimeout(f"controller waited > {WATCHDOG}s for {what}")


CONTROL: Control | None = None

_real_sleep = asyncio.sleep


class _AsyncioProxy:
    """stands in for the name `asyncio` inside pydra.engine.submitter: `sleep(1)` of the stall detector only yields
    (and is recorded); everything else is the real module."""

    def __getattr__(self, name):
        return getattr(asyncio, name)

    @staticmethod
    async def sleep(delay, result=None):
        c = CONTROL
        if c is not None:
            c.ev("Z")
            c.spin = 0
            c.ticks += 1
            if c.ticks > STALL_TICK_LIMIT:
                c.livelock = True
                raise Livelock(f"the stall detector slept {c.ticks} times without giving up")
        await _real_sleep(0)
        return result


def install_fast_stall_sleep():
    import pydra.engine.submitter as S

    if not isinstance(S.asyncio, _AsyncioProxy):
        S.asyncio = _AsyncioProxy()


# --------------------------------------------------------------------------------------------------
# worker


class VerifWorker(ConcurrentFuturesWorker):
    _plugin_name = "verif"

    async def run(self, job, rerun: bool = False):
        c = CONTROL
        tag = job_tag(job)
        c.tag_of_ck[job.checksum] = tag
        if not rerun:
            # pre-existing successful result (second submission over a populated cache / readonly cache): a cache hit
            from pydra.engine.result import load_result

            r0 = load_result(job.checksum, job.all_caches)
            c.hit[tag] = r0 is not None and not r0.errored
        c.ev("D", tag)
        await c.gate(c.start_gate, tag)
        mode = c.mode.get(tag)
        exc, res = None, None
        if mode is None:
            try:
                res = await super().run(job, rerun=rerun)
            except Exception as e:  # noqa: BLE001  re-raised below, after the completion gate
                exc = e
        elif mode == "vanish-locked":
            # the job starts (lock file appears, counted as an executing body) and is then lost without a result
            job.lockfile.touch()
            _log(str(c.dir), f"S {tag} lost")
        c.returned.add(tag)
        c.ev("R", tag)
        await c.gate(c.fin_gate, tag)
        if mode == "vanish-locked":
            _log(str(c.dir), f"E {tag} lost")
        if exc is not None:
            raise exc
        return res


# --------------------------------------------------------------------------------------------------
# observer


def _tables(graph) -> dict:
    out = {}
    for n in graph.nodes:
        out[n.name] = {
            "blocked": None if n.blocked is None else [_ix(i) for i in n.blocked],
            "queued": [_ix(i) for i in n.queued],
            "running": [_ix(i) for i in n.running],
            "successful": sorted(_ix(i) for i in n.successful),
            "errored": sorted(_ix(i) for i in n.errored),
            "unrunnable": bool(n.unrunnable),
        }
    return out


def _ix(i):
    return 0 if i is None else int(i)


class ObsSubmitter(Submitter):
    def get_runnable_tasks(self, graph, *args, **kwargs):
        # pure observer: whatever signature the method has in the tree under test is passed through
        c = CONTROL
        tasks = super().get_runnable_tasks(graph, *args, **kwargs)
        if c is not None:
            if c.sorted is None:
                c.sorted = [n.name for n in graph.sorted_nodes]
            c.ev("P", [job_tag(j) for j in tasks], _tables(graph))
            c.spin += 1
            if c.spin > SPIN_LIMIT:
                c.livelock = True  # the loop's `finally` may replace the exception by the collected job errors
                raise Livelock(f"{c.spin} polls without the loop awaiting anything")
        return tasks

    async def fetch_finished(self, futures, *args, **kwargs):
        c = CONTROL
        if c is not None:
            c.ev("W", sorted(t.get_name() for t in futures))
            c.n_wait += 1
            if futures:
                c.spin = 0
                if c.wake is not None:
                    c.wake.set()
        return await super().fetch_finished(futures, *args, **kwargs)
