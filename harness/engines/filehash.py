"""Engine FileHash (DESIGN §5.3 file-cache part, property C09): drive pydra's persistent file-hash cache through
histories of file operations on real files.

Two halves:

* worker (child process, `python -m harness.engines.filehash --worker`): imports pydra.utils.hash from REPO and
  answers JSON-line commands (`hash` through a long-lived `PersistentCache` object per session or through the
  default `hash_function(obj)`, `drop` a session, `cleanup`, `reset`).  Every `hash` answer carries, besides the
  digest the code returned, a *forced recomputation* of the same object's hash through a brand-new, empty
  persistent-cache directory (the reference for "hash of the content now").
* `Runner` (parent): applies the file operations itself (`open/write`, `os.utime(ns=)`, `os.replace`,
  `shutil.copy2`), tracks what each path must contain (checked against the real file system after every step),
  learns which cache file belongs to which key by diffing the cache directory, and ages cache files (atime) so
  that `PersistentCache().clean_up()` removes exactly the chosen victims.

Sessions: in mode "objects" one worker holds one `PersistentCache` object per session (newProcess = the object
is dropped); in mode "procs" every session is its own OS process forked from a "zygote" that has imported pydra
but never hashed anything (newProcess = the process is killed, the next use forks a new one); in mode
"interpreters" every session is a freshly started Python interpreter; in mode "seeded" every session is a fresh
interpreter with its OWN `PYTHONHASHSEED` (chosen so that the iteration order of the focus file-set's raw member
set is the one the case asks for, where it asks).  The in-memory dict is lost in each case, which is all the
model says; the key the code builds must not depend on the seed.
"""

from __future__ import annotations

import hashlib
import json
import os
import shutil
import subprocess
import sys
import time
from pathlib import Path

from harness import core

# ---------------------------------------------------------------------------------------------------
# palettes shared by generator, runner and model encoding (ids are what the Lean driver sees)

T0 = 1_600_000_000_000_000_000
MTIMES = [T0, T0 + 1, T0 + 1_000, T0 + 1_000_000_000, T0 + 2_000_000_000, T0 + 5_123_456_789]
CONTENTS = {
    1: b"AAAA",
    2: b"BBBB",  # same size as 1
    3: b"AAAAAAAA",  # different size
    4: b"",
    5: b"AAAB",  # same size, one byte differs
    6: b"x" * 10_000 + b"y",  # more than one 8192-byte chunk
    7: b"x" * 10_000 + b"z",  # same size, differs in the last chunk only
}
# file-set classes (ids 0..6): single file, single directory, and multi-member file-sets
CLASSES = ["File", "BinaryFile", "Directory", "SetOf[File]", "ImageWithHeader", "Xyz", "FileSet"]
# member paths; ids 0..7 are files and are listed in the order `sorted(fileset.fspaths)` gives (asserted
# below), so "members in the code's key order" = ascending ids
FILE_PATHS = ["f0.dat", "f1.dat", "pair/p.hdr", "pair/p.img", "sub/f2.dat", "tri/t.x", "tri/t.y", "tri/t.z"]
DIR_PATHS = ["d0"]  # id 8
PATHS = FILE_PATHS + DIR_PATHS
SUBDIRS = ["pair", "sub", "tri"]
PAIR = [2, 3]  # ImageWithHeader: header + data
TRIPLE = [5, 6, 7]  # Xyz: primary + two side cars
assert [str(x) for x in sorted(Path("/r") / n for n in FILE_PATHS)] == [str(Path("/r") / n) for n in FILE_PATHS]
INNER = "inner.dat"
OLD = 40 * 86400 * 10**9  # 40 days in ns (clean-up period is 30 days)


def is_dir_path(pid: int) -> bool:
    return pid >= len(FILE_PATHS)


def own_digest(cls_qualname: str, key: str, content: bytes) -> str:
    """What hash.py + fileformats feed into BLAKE2b for a single-file file-set (information only)."""
    h = hashlib.blake2b(digest_size=16, person=b"pydra-hash")
    h.update(f"{cls_qualname}:".encode())
    h.update((",'" + key + "'=").encode())
    h.update(content)
    return h.hexdigest()


# ---------------------------------------------------------------------------------------------------
# worker


def _load():
    import fileformats.generic as ffg
    import fileformats.testing as fft
    from pydra.utils import hash as ph

    single = lambda c: (lambda paths: c(paths[0]))  # noqa: E731
    return ph, {
        "File": single(ffg.File),
        "BinaryFile": single(ffg.BinaryFile),
        "Directory": single(ffg.Directory),
        "SetOf[File]": lambda paths: ffg.SetOf[ffg.File](paths),
        "ImageWithHeader": lambda paths: fft.ImageWithHeader(paths),  # .img + .hdr (WithSeparateHeader)
        "Xyz": lambda paths: fft.Xyz(paths),  # .x + .y + .z (WithSideCars)
        "FileSet": lambda paths: ffg.FileSet(paths),
    }


def serve(inp, out, ph, classes):
    """Worker loop: one JSON command per line of `inp`, one JSON answer per line of `out`."""
    import tempfile

    sessions: dict = {}
    refroot = None
    out.write(json.dumps({"ready": True, "hash_file": str(Path(ph.__file__).resolve()), "pid": os.getpid()}) + "\n")
    out.flush()
    for line in inp:
        line = line.strip()
        if not line:
            continue
        c = json.loads(line)
        cmd = c["cmd"]
        ans: dict = {}
        try:
            if cmd == "reset":
                sessions.clear()
                os.environ["PYDRA_HASH_CACHE"] = c["cache"]
                refroot = c["refroot"]
                os.makedirs(refroot, exist_ok=True)
            elif cmd == "hash":
                make = classes[c["cls"]]
                paths = list(reversed(c["paths"]))  # the code sorts the members itself
                try:
                    obj = make(paths)
                    if c["sess"] is None:
                        ans["digest"] = ph.hash_function(obj)
                    else:
                        if c["sess"] not in sessions:
                            sessions[c["sess"]] = ph.PersistentCache()
                        ans["digest"] = ph.hash_object(obj, persistent_cache=sessions[c["sess"]]).hex()
                except Exception as e:  # noqa: BLE001
                    ans["err"] = core.exc_tag(e)
                # forced recomputation: same class, same path, brand-new empty persistent cache
                try:
                    tmp = tempfile.mkdtemp(dir=refroot)
                    try:
                        ref_obj = make(paths)
                        ans["ref"] = ph.hash_object(ref_obj, persistent_cache=Path(tmp)).hex()
                    finally:
                        shutil.rmtree(tmp, ignore_errors=True)
                    ans["qual"] = f"{type(ref_obj).__module__}.{type(ref_obj).__name__}"
                except Exception as e:  # noqa: BLE001
                    ans["ref_err"] = core.exc_tag(e)
            elif cmd == "order":
                # iteration order of the raw member set in THIS interpreter, as positions into the sorted members
                obj = classes[c["cls"]](list(reversed(c["paths"])))
                srt = sorted(obj.fspaths)
                ans["order"] = [srt.index(p) for p in obj.fspaths]
                ans["hashseed"] = os.environ.get("PYTHONHASHSEED")
            elif cmd == "drop":
                sessions.pop(c["sess"], None)
            elif cmd == "cleanup":
                ph.PersistentCache().clean_up()
            elif cmd == "exit":
                out.write("{}\n")
                out.flush()
                return
            else:
                ans["fatal"] = f"bad cmd {cmd}"
        except Exception as e:  # noqa: BLE001
            ans["fatal"] = f"{core.exc_tag(e)}: {e}"
        out.write(json.dumps(ans) + "\n")
        out.flush()


def worker_main():
    ph, classes = _load()
    serve(sys.stdin, sys.stdout, ph, classes)


def zygote_main():
    """Imports pydra once, never hashes anything, and forks a fresh worker process per request.  A forked worker
    is a new OS process with no `PersistentCache` object in it — what `newProcess` means — at a fraction of the
    cost of starting an interpreter."""
    import signal
    import socket

    ph, classes = _load()
    signal.signal(signal.SIGCHLD, signal.SIG_IGN)  # no zombies
    sys.stdout.write(json.dumps({"ready": True, "hash_file": str(Path(ph.__file__).resolve())}) + "\n")
    sys.stdout.flush()
    for line in sys.stdin:
        c = json.loads(line)
        if c["cmd"] == "fork":
            pid = os.fork()
            if pid == 0:
                try:
                    sk = socket.socket(socket.AF_UNIX, socket.SOCK_STREAM)
                    sk.connect(c["sock"])
                    f_in = sk.makefile("r", encoding="utf-8")
                    f_out = sk.makefile("w", encoding="utf-8")
                    serve(f_in, f_out, ph, classes)
                finally:
                    os._exit(0)
            sys.stdout.write(json.dumps({"pid": pid}) + "\n")
            sys.stdout.flush()
        elif c["cmd"] == "exit":
            return


ORACLE_SRC = (
    "import sys, json\n"
    "from pathlib import Path\n"
    "for line in sys.stdin:\n"
    "    ps = [Path(p) for p in json.loads(line)]\n"
    "    st = frozenset(reversed(ps))\n"
    "    print(json.dumps([ps.index(p) for p in st]), flush=True)\n"
)


class SeedOracle:
    """Cheap look-ahead: tiny interpreters (no pydra), one per PYTHONHASHSEED, that tell in which order a frozenset
    of the given `Path`s iterates under that seed.  Only used to *find* seeds; the worker confirms (`order`)."""

    MAX = 48

    def __init__(self):
        self.procs: dict = {}

    def order(self, seed: int, paths: list) -> list:
        if seed not in self.procs:
            env = dict(os.environ)
            env["PYTHONHASHSEED"] = str(seed)
            self.procs[seed] = subprocess.Popen(
                [core.PY, "-S", "-c", ORACLE_SRC], stdin=subprocess.PIPE, stdout=subprocess.PIPE, env=env, text=True, bufsize=1
            )
        p = self.procs[seed]
        p.stdin.write(json.dumps(paths) + "\n")
        p.stdin.flush()
        line = p.stdout.readline()
        if not line:
            raise core.Infra("seed oracle died")
        return json.loads(line)

    def find(self, want: list, paths: list, avoid=()) -> int | None:
        for seed in range(1, self.MAX + 1):
            if seed not in avoid and self.order(seed, paths) == want:
                return seed
        return None

    def close(self):
        for p in self.procs.values():
            p.kill()
            p.wait()
        self.procs = {}


def _worker_env(default_cache: Path, home: Path, hashseed: int | None = None) -> dict:
    extra = {"PYDRA_HASH_CACHE": str(default_cache), "HOME": str(home), "XDG_CACHE_HOME": str(home / ".cache")}
    if hashseed is not None:
        extra["PYTHONHASHSEED"] = str(hashseed)
    return core.impl_env(extra)


def _check_origin(hello: dict):
    f = hello.get("hash_file", "")
    if not f.startswith(str(core.REPO.resolve()) + os.sep):
        raise core.Infra(f"worker loaded pydra.utils.hash from {f}, not from {core.REPO}")


class Worker:
    """A worker in a freshly started interpreter (stdin/stdout pipes)."""

    def __init__(self, default_cache: Path, home: Path, flag: str = "--worker", hashseed: int | None = None):
        self.p = subprocess.Popen(
            [core.PY, "-m", "harness.engines.filehash", flag],
            stdin=subprocess.PIPE,
            stdout=subprocess.PIPE,
            env=_worker_env(default_cache, home, hashseed),
            cwd=str(home),
            text=True,
            bufsize=1,
        )
        self.r, self.w = self.p.stdout, self.p.stdin
        try:
            _check_origin(self._read())
        except core.Infra:
            self.kill()
            raise

    def _read(self) -> dict:
        line = self.r.readline()
        if not line:
            raise core.Infra("file-hash worker died")
        return json.loads(line)

    def call(self, **cmd) -> dict:
        self.w.write(json.dumps(cmd) + "\n")
        self.w.flush()
        ans = self._read()
        if "fatal" in ans:
            raise RuntimeError(f"worker: {ans['fatal']}")
        return ans

    def kill(self):
        try:
            self.w.close()
        except Exception:  # noqa: BLE001
            pass
        self.p.kill()
        self.p.wait()


class ForkedWorker(Worker):
    """A worker forked from the zygote (Unix socket)."""

    def __init__(self, zygote: Worker, sockdir: Path, n: int):
        import socket

        path = str(sockdir / f"w{n}.sock")
        srv = socket.socket(socket.AF_UNIX, socket.SOCK_STREAM)
        srv.bind(path)
        srv.listen(1)
        srv.settimeout(60)
        try:
            self.pid = zygote.call(cmd="fork", sock=path)["pid"]
            self.conn, _ = srv.accept()
        finally:
            srv.close()
            os.unlink(path)
        self.r = self.conn.makefile("r", encoding="utf-8")
        self.w = self.conn.makefile("w", encoding="utf-8")
        _check_origin(self._read())

    def kill(self):
        import signal

        try:
            os.kill(self.pid, signal.SIGKILL)
        except ProcessLookupError:
            pass
        for f in (self.r, self.w, self.conn):
            try:
                f.close()
            except Exception:  # noqa: BLE001
                pass


# ---------------------------------------------------------------------------------------------------
# parent side


class Runner:
    """Runs histories (lists of op dicts in the Lean driver's encoding) against the real code."""

    def __init__(self, scratch: Path):
        self.root = Path(scratch) / "filehash"
        self.root.mkdir(parents=True, exist_ok=True)
        self.home = self.root / "home"
        self.home.mkdir(exist_ok=True)
        self.n = 0
        self.shared: Worker | None = None
        self.zygote: Worker | None = None
        self.oracle = SeedOracle()
        self.spawned = 0  # interpreters started
        self.forked = 0  # processes forked from the zygote

    def _spawn(self, interpreter: bool = False, hashseed: int | None = None) -> Worker:
        """A new worker process: a fresh interpreter (optionally with its own hash seed), or (default) a fork of
        the zygote."""
        if interpreter or hashseed is not None:
            self.spawned += 1
            return Worker(self.root / "default-cache", self.home, hashseed=hashseed)
        if self.zygote is None:
            self.spawned += 1
            self.zygote = Worker(self.root / "default-cache", self.home, "--zygote")
        self.forked += 1
        return ForkedWorker(self.zygote, self.root, self.forked)

    def close(self):
        for w in (self.shared, self.zygote):
            if w is not None:
                w.kill()
        self.shared = self.zygote = None
        self.oracle.close()

    # -- one history --------------------------------------------------------------------------------
    def run_history(self, case: dict) -> dict:
        self.n += 1
        hdir = self.root / f"h{self.n}"
        files = hdir / "files"
        cache = hdir / "cache"
        refroot = hdir / "refs"
        files.mkdir(parents=True)
        for d in SUBDIRS:
            (files / d).mkdir()
        mode = case.get("mode", "objects")
        procs: dict = {}  # procs mode: session id (or "fresh") -> Worker
        seeds: dict = {}  # seeded mode: session key -> PYTHONHASHSEED
        orders = {"wanted": 0, "found": 0, "realised": 0}
        if mode == "seeded":
            focus_cls, focus_ps = case["focus"]
            fpaths = [str(files / PATHS[p]) for p in focus_ps]
            for k, want in sorted(case.get("iter_orders", {}).items()):
                orders["wanted"] += 1
                sd = self.oracle.find(want, fpaths, avoid=set(seeds.values()))
                if sd is not None:
                    orders["found"] += 1
                    seeds[k] = sd
            for k, sd in case.get("hashseeds", {}).items():
                seeds.setdefault(k, sd)

        def seed_of(k):
            return seeds.get(str(k), 200 + sum(map(ord, str(k))))  # deterministic default per session name

        def worker_for(sess):
            if mode == "objects":
                if self.shared is None:
                    self.shared = self._spawn()
                    self.shared.call(cmd="reset", cache=str(cache), refroot=str(refroot))
                return self.shared
            k = "fresh" if sess is None else sess
            if k not in procs:
                if mode == "seeded":
                    w = self._spawn(hashseed=seed_of(k))
                else:
                    w = self._spawn(interpreter=(mode == "interpreters"))
                w.call(cmd="reset", cache=str(cache), refroot=str(refroot))
                procs[k] = w
            return procs[k]

        if mode == "objects":
            if self.shared is None:
                self.shared = self._spawn()
            self.shared.call(cmd="reset", cache=str(cache), refroot=str(refroot))

        fs: dict = {}  # tracked: pid -> (cid, tid)
        keyfile: dict = {}  # (cls, member pids, member tids) -> cache file name
        refdig: dict = {}  # (cls, member pids, member cids) -> reference digest
        out, disk_sizes, notes = [], [], []
        spec_ok = True
        own_agree = own_total = 0
        hashed = set()  # (member pids, member tids, member cids) at which some hash op ran (D7 match rule)
        d7 = False

        def apath(pid):
            return files / PATHS[pid]

        def listing():
            return {n for n in os.listdir(cache) if not n.endswith(".lock")} if cache.exists() else set()

        def after_fs_change(_pids):
            """D7 match rule: some file-set hashed earlier has, now, every member with the mtime it had at that
            hash, and not the contents it had then."""
            nonlocal d7
            for ps_, ts_, cs_ in hashed:
                if all(q in fs for q in ps_):
                    if tuple(fs[q][1] for q in ps_) == ts_ and tuple(fs[q][0] for q in ps_) != cs_:
                        d7 = True

        try:
            for op in case["ops"]:
                kind = op["op"]
                res = None
                if kind == "write":
                    p, c, t = op["p"], op["c"], op["t"]
                    if is_dir_path(p):
                        d = apath(p)
                        if not d.exists():
                            d.mkdir()
                            (d / INNER).write_bytes(CONTENTS[c])
                            os.utime(d, ns=(MTIMES[t], MTIMES[t]))
                        else:
                            with open(d / INNER, "wb") as f:  # in place: the directory's own mtime is not changed
                                f.write(CONTENTS[c])
                            if not (op.get("natural") and d.lstat().st_mtime_ns == MTIMES[t]):
                                os.utime(d, ns=(MTIMES[t], MTIMES[t]))
                    else:
                        with open(apath(p), "wb") as f:
                            f.write(CONTENTS[c])
                        os.utime(apath(p), ns=(MTIMES[t], MTIMES[t]))
                    fs[p] = (c, t)
                    after_fs_change([p])
                elif kind == "utime":
                    p, t = op["p"], op["t"]
                    try:
                        os.utime(apath(p), ns=(MTIMES[t], MTIMES[t]))
                    except FileNotFoundError:
                        pass
                    if p in fs:
                        fs[p] = (fs[p][0], t)
                    after_fs_change([p])
                elif kind == "rename":
                    p, q = op["p"], op["q"]
                    try:
                        os.replace(apath(p), apath(q))
                    except FileNotFoundError:
                        pass
                    if p != q and p in fs:
                        fs[q] = fs.pop(p)
                    after_fs_change([q])
                elif kind == "copy2":
                    p, q = op["p"], op["q"]
                    try:
                        shutil.copy2(apath(p), apath(q))
                    except (FileNotFoundError, shutil.SameFileError):
                        pass
                    if p != q and p in fs:
                        fs[q] = fs[p]
                    after_fs_change([q])
                elif kind in ("hash", "hashFresh"):
                    ps, cls = tuple(op["ps"]), op["cls"]
                    sess = op["s"] if kind == "hash" else None
                    before = listing()
                    a = worker_for(sess).call(cmd="hash", sess=sess, cls=CLASSES[cls], paths=[str(apath(p)) for p in ps])
                    new = listing() - before
                    if all(p in fs for p in ps):
                        cids = tuple(fs[p][0] for p in ps)
                        tids = tuple(fs[p][1] for p in ps)
                        hashed.add((ps, tids, cids))
                        if len(new) == 1:
                            keyfile[(cls, ps, tids)] = next(iter(new))
                        elif len(new) > 1:
                            notes.append("more than one new cache file for one hash")
                        if "ref" in a:
                            prev = refdig.setdefault((cls, ps, cids), a["ref"])
                            if prev != a["ref"]:
                                spec_ok = False
                                notes.append("forced recomputation is not a function of (class, members, contents)")
                            if len(ps) == 1:
                                key = "." if not is_dir_path(ps[0]) else INNER
                                own_total += 1
                                own_agree += own_digest(a["qual"], key, CONTENTS[cids[0]]) == a["ref"]
                        if "digest" in a:
                            if a.get("ref") != a["digest"]:
                                spec_ok = False
                            hits = [c_ for (k_, p_, c_), d_ in refdig.items() if k_ == cls and p_ == ps and d_ == a["digest"]]
                            res = list(hits[0]) if len(hits) == 1 else ("unknown" if not hits else "ambiguous")
                        else:
                            spec_ok = False
                            res = a.get("err", "no-answer")
                    else:
                        if a.get("err") in ("FileNotFoundError", "FormatMismatchError"):
                            res = "missing"
                        else:
                            spec_ok = False
                            res = a.get("err", "digest-for-incomplete-file-set")
                elif kind == "newProcess":
                    s = op["s"]
                    if mode == "objects":
                        worker_for(s).call(cmd="drop", sess=s)
                    elif s in procs:
                        procs.pop(s).kill()
                elif kind == "cleanUp":
                    victims = {(v[0], tuple(v[1]), tuple(v[2])) for v in op["victims"]}
                    vfiles = {keyfile[v] for v in victims if v in keyfile}
                    now = time.time_ns()
                    for n in listing():
                        f = cache / n
                        st = f.lstat()
                        os.utime(f, ns=((now - OLD) if n in vfiles else now, st.st_mtime_ns))
                    if mode == "objects":
                        worker_for(None).call(cmd="cleanup")
                    else:  # a separate process, as the Submitter of another run would do it
                        w = self._spawn(interpreter=(mode in ("interpreters", "seeded")))
                        try:
                            w.call(cmd="reset", cache=str(cache), refroot=str(refroot))
                            w.call(cmd="cleanup")
                        finally:
                            w.kill()
                else:
                    raise ValueError(f"bad op {kind}")
                out.append(res)
                disk_sizes.append(len(listing()))
                self._check_fs(files, fs)
            if mode == "seeded" and all(p in fs for p in focus_ps):
                for k, want in case.get("iter_orders", {}).items():
                    kk = "fresh" if k == "fresh" else int(k)
                    if kk in procs:
                        got = procs[kk].call(cmd="order", cls=CLASSES[focus_cls], paths=fpaths)["order"]
                        orders["realised"] += got == want
            # different contents of the same file-set must have different reference digests ("reflects content")
            seen: dict = {}
            for (k_, p_, c_), d_ in refdig.items():
                other = seen.setdefault((k_, p_, d_), c_)
                if [CONTENTS[x] for x in other] != [CONTENTS[x] for x in c_]:
                    spec_ok = False
                    notes.append("forced recomputation gives equal digests for different contents")
        finally:
            for w in procs.values():
                w.kill()
            shutil.rmtree(hdir, ignore_errors=True)
        return {
            "out": out,
            "disk": disk_sizes,
            "spec_ok": spec_ok,
            "d7_rule": d7,
            "own": (own_agree, own_total),
            "orders": orders,
            "notes": notes,
        }

    @staticmethod
    def _check_fs(files: Path, fs: dict):
        """The trusted file-system contract (DESIGN §4), sampled after every step: contents and `st_mtime_ns`
        are exactly what the history set; rename/copy2 carry content and mtime along."""
        for pid, name in enumerate(PATHS):
            f = files / name
            if pid in fs:
                cid, tid = fs[pid]
                data = (f / INNER).read_bytes() if is_dir_path(pid) else f.read_bytes()
                if data != CONTENTS[cid] or f.lstat().st_mtime_ns != MTIMES[tid]:
                    raise core.Infra(f"file-system contract broken at {name}: mtime {f.lstat().st_mtime_ns} want {MTIMES[tid]}")
            elif f.exists():
                raise core.Infra(f"file-system contract broken: {name} should not exist")


if __name__ == "__main__":
    if "--worker" in sys.argv:
        worker_main()
    elif "--zygote" in sys.argv:
        zygote_main()
