"""Implementation side of engine JobProto/AuditTrace (property C36): run pool tasks with provenance auditing through a
FileMessenger into a sandbox directory, read the JSON-LD message files back, and bring implementation messages and
model messages into one canonical form.

No network: `Audit.audit_message` only *names* the remote context URL (`pydra.engine.submitter.develop` is False) and
nothing resolves it unless `collect_messages` (pyld) is called, which this harness never does.

Pool entries give the expected execution forest (label, errored, kids) from the task definitions alone; whether a job
goes through `Job.run` (audit_task record with its name) or `Job.run_async` follows from the worker: under an
asynchronous worker workflow jobs run in the submitting process via `run_async`, everything else via `run`.
Node inputs are pairwise different inside one case, so that no node is served from the cache of another (a cached job
is not an executed job and emits nothing).
"""

from __future__ import annotations

import json
import logging
from pathlib import Path

import cloudpickle as cp

from pydra.compose import python, shell, workflow
from pydra.utils.messenger import AuditFlag, FileMessenger

logging.getLogger("pydra").addHandler(logging.NullHandler())


@python.define
def Inc(x: int) -> int:
    return x + 1


@python.define
def Boom(x: int) -> int:
    raise ValueError("boom")


Echo = shell.define("echo <text:str>", name="Echo")
Fls = shell.define("false", name="Fls")


@workflow.define
def W2(x: int) -> int:
    a = workflow.add(Inc(x=x), name="a")
    b = workflow.add(Inc(x=a.out), name="b")
    return b.out


@workflow.define
def W3F(x: int) -> int:
    a = workflow.add(Inc(x=x), name="a")
    b = workflow.add(Boom(x=a.out), name="b")
    c = workflow.add(Inc(x=b.out), name="c")
    return c.out


@workflow.define
def WW(x: int) -> int:
    inner = workflow.add(W2(x=x), name="inner")
    c = workflow.add(Inc(x=inner.out), name="c")
    return c.out


@workflow.define
def WWW(x: int) -> int:
    outer = workflow.add(WW(x=x), name="outer")
    d = workflow.add(Inc(x=outer.out), name="d")
    return d.out


@workflow.define
def WWF(x: int) -> int:
    inner = workflow.add(W3F(x=x), name="inner")
    c = workflow.add(Inc(x=inner.out), name="c")
    return c.out


@workflow.define
def WPar(x: int) -> int:
    a = workflow.add(Inc(x=x), name="a")
    b = workflow.add(Inc(x=x + 50), name="b")
    return a.out


@workflow.define
def WSh(t: str) -> str:
    e = workflow.add(Echo(text=t), name="e")
    f = workflow.add(Fls(), name="f")
    return e.stdout


LABELS = ["main", "a", "b", "c", "d", "e", "f", "inner", "outer", "Inc"]


def N(label, errored=False, kids=(), wf=False):
    return {"label": label, "errored": errored, "wf": wf, "kids": list(kids)}


def pool(x: int):
    """name -> (task, expected execution forest)"""
    return {
        "inc": (Inc(x=x), [N("main")]),
        "boom": (Boom(x=x), [N("main", True)]),
        "echo": (Echo(text=f"t{x}"), [N("main")]),
        "false": (Fls(), [N("main", True)]),
        "w2": (W2(x=x), [N("main", wf=True, kids=[N("a"), N("b")])]),
        "w3f": (W3F(x=x), [N("main", True, wf=True, kids=[N("a"), N("b", True)])]),
        "ww": (WW(x=x), [N("main", wf=True, kids=[N("inner", wf=True, kids=[N("a"), N("b")]), N("c")])]),
        "www": (
            WWW(x=x),
            [N("main", wf=True, kids=[N("outer", wf=True, kids=[N("inner", wf=True, kids=[N("a"), N("b")]), N("c")]), N("d")])],
        ),
        "wwf": (WWF(x=x), [N("main", True, wf=True, kids=[N("inner", True, wf=True, kids=[N("a"), N("b", True)])])]),
        "wpar": (WPar(x=x), [N("main", wf=True, kids=[N("a"), N("b")])]),
        "wsh": (WSh(t=f"t{x}"), [N("main", True, wf=True, kids=[N("e"), N("f", True)])]),
        "split": (Inc().split(x=[x, x + 7]), [N("main", wf=True, kids=[N("Inc"), N("Inc")])]),
    }


DEBUG_ONLY = {"wpar", "split"}  # concurrent siblings under cf: nesting cannot be read off timestamps


def model_forest(forest, worker):
    return [
        {
            "label": LABELS.index(n["label"]),
            "errored": n["errored"],
            "sync": not (n["wf"] and worker == "cf"),
            "kids": model_forest(n["kids"], worker),
        }
        for n in forest
    ]


def flat_jobs(forest):
    out = []
    for n in forest:
        out.append(n)
        out += flat_jobs(n["kids"])
    return out


# ---- running the implementation ------------------------------------------------------------------------------


def run_impl(task, worker: str, flags: str, sandbox: Path):
    """-> (raw messages, [errored flag of every stored result], outcome)"""
    from pydra.engine.submitter import Submitter

    md = sandbox / "messages"
    root = sandbox / "root"
    kw = {"n_procs": 2} if worker == "cf" else {}
    try:
        with Submitter(
            cache_root=root,
            worker=worker,
            audit_flags=getattr(AuditFlag, flags),
            messengers=FileMessenger(),
            messenger_args={"message_dir": str(md)},
            **kw,
        ) as sub:
            res = sub(task)
        outcome = "err" if res.errored else "ok"
    except Exception:
        outcome = "err"
    msgs = []
    if md.exists():
        for p in sorted(md.glob("*.jsonld")):
            msgs.append(json.loads(p.read_text()))
    stored = []
    for rf in sorted(root.glob("*/_result.pklz")):
        with open(rf, "rb") as f:
            stored.append(bool(cp.load(f).errored))
    return msgs, stored, outcome


# ---- one vocabulary for implementation and model messages ---------------------------------------------------------


def classify(m: dict):
    """JSON-LD message of pydra -> (kind, fields); times stay strings (ISO format sorts chronologically).
    Whatever the kind, `opens` / `closes` say which activity the record starts / ends when it is read the way a consumer
    of the provenance log reads it: by its `@id` and the presence of `startedAtTime` / `endedAtTime`."""
    k, f = _classify(m)
    f["opens"] = m.get("@id") if "startedAtTime" in m else None
    f["closes"] = m.get("@id") if "endedAtTime" in m else None
    return (k, f)


def _classify(m: dict):
    t = m.get("@type")
    if t == "job" and "startedAtTime" in m:
        return ("start", {"aid": m["@id"], "t": m["startedAtTime"], "has_time": bool(m["startedAtTime"])})
    if t == "job" and "Label" in m:
        return ("task", {"aid": m["@id"], "label": m["Label"], "t": m["StartedAtTime"]})
    if t == "monitor":
        return ("monStart", {"mid": m["@id"], "aid": m.get("wasStartedBy"), "t": m["startedAtTime"]})
    if "wasEndedBy" in m:
        return ("monEnd", {"mid": m["@id"], "aid": m["wasEndedBy"], "t": m["endedAtTime"]})
    if t == "runtime":
        return ("runtime", {"eid": m["@id"], "aid": m.get("prov:wasGeneratedBy")})
    if t == "prov:Generation":
        return ("generation", {"eid": m.get("entity_generated"), "mid": m.get("hadActivity")})
    if "endedAtTime" in m and "errored" in m:
        return ("end", {"aid": m["@id"], "errored": m["errored"], "t": m["endedAtTime"]})
    if t == "input":
        return ("input", {})
    return ("unknown", {"keys": sorted(m)})


def from_model(trace):
    """model messages -> the same vocabulary, position in the trace as time"""
    out = []
    for pos, m in enumerate(trace):
        k = m[0]
        t = f"{pos:06d}"
        if k == "start":
            out.append(("start", {"aid": m[1], "t": t, "has_time": True}))
        elif k == "task":
            out.append(("task", {"aid": m[1], "label": LABELS[m[2]], "t": t}))
        elif k == "monStart":
            out.append(("monStart", {"mid": m[1], "aid": m[2], "t": t}))
        elif k == "monEnd":
            out.append(("monEnd", {"mid": m[1], "aid": m[2], "t": t}))
        elif k == "runtime":
            out.append(("runtime", {"eid": m[1], "aid": m[2]}))
        elif k == "generation":
            out.append(("generation", {"eid": m[1], "mid": m[2]}))
        elif k == "end":
            out.append(("end", {"aid": m[1], "errored": m[2], "t": t}))
        else:
            raise ValueError(m)
        k2, f2 = out[-1]
        f2["opens"] = m[1] if k2 in ("start", "monStart") else None
        f2["closes"] = m[1] if k2 in ("end", "monEnd") else None
    return out


def all_activities(recs):
    """{activity id: [number of records opening it, number of records closing it]} over ALL records, job and monitor"""
    acts = {}
    for _, f in recs:
        if f.get("opens") is not None:
            acts.setdefault(f["opens"], [0, 0])[0] += 1
        if f.get("closes") is not None:
            acts.setdefault(f["closes"], [0, 0])[1] += 1
    return acts


def canon(recs):
    """records -> canonical nested description (ids and times abstracted away)"""
    acts = {}
    for k, f in recs:
        if k == "start":
            a = acts.setdefault(f["aid"], {"starts": [], "labels": [], "ends": [], "mon": [0, 0, 0, 0]})
            a["starts"].append(f["t"])
    stray = []
    mon_owner = {}
    for k, f in recs:
        if k == "monStart":
            mon_owner[f["mid"]] = f["aid"]
    run_owner = {f["eid"]: f["aid"] for k, f in recs if k == "runtime"}
    for k, f in recs:
        if k == "start":
            continue
        if k in ("input",):
            continue
        if k == "unknown":
            stray.append(["unknown", f["keys"]])
            continue
        if k == "generation":
            owner = run_owner.get(f["eid"])
            if owner in acts and mon_owner.get(f["mid"]) == owner:
                acts[owner]["mon"][3] += 1
            else:
                stray.append(["generation"])
            continue
        a = acts.get(f["aid"])
        if a is None:
            stray.append([k] + ([f["errored"]] if k == "end" else []))
            continue
        if k == "task":
            a["labels"].append(f["label"])
        elif k == "end":
            a["ends"].append((f["t"], f["errored"]))
        elif k == "monStart":
            a["mon"][0] += 1
        elif k == "monEnd":
            a["mon"][1] += 1 if mon_owner.get(f["mid"]) == f["aid"] else 100
        elif k == "runtime":
            a["mon"][2] += 1
    items = []
    for aid, a in acts.items():
        t0 = min(a["starts"])
        t1 = max((t for t, _ in a["ends"]), default=None)
        items.append((aid, t0, t1, a))

    def parent(x):
        aid, t0, t1, _ = x
        best = None
        for y in items:
            if y[0] == aid:
                continue
            if y[1] <= t0 and (y[2] is None or y[2] >= (t1 if t1 is not None else t0)):
                if best is None or y[1] > best[1]:
                    best = y
        return best[0] if best else None

    kids = {}
    for x in items:
        kids.setdefault(parent(x), []).append(x)

    def build(x):
        aid, t0, t1, a = x
        node = {
            "labels": sorted(a["labels"]),
            "starts": len(a["starts"]),
            "ends": sorted(e for _, e in a["ends"]),
            "ordered": all(t >= t0 for t, _ in a["ends"]),
            "mon": a["mon"],
            "kids": sorted((build(k) for k in kids.get(aid, [])), key=lambda d: json.dumps(d, sort_keys=True)),
        }
        return node

    roots = sorted((build(x) for x in kids.get(None, [])), key=lambda d: json.dumps(d, sort_keys=True))
    return {
        "roots": roots,
        "stray": sorted(stray, key=json.dumps),
        # every activity id (job or monitor) with its number of start and end records, ids abstracted away
        "activities": sorted(all_activities(recs).values()),
    }


def spec_check(recs, forest, stored, resource: bool):
    """The property, on the implementation's messages and the pool definition alone.  -> list of complaints"""
    why = []
    starts, ends = {}, {}
    labels = {}
    for k, f in recs:
        if k == "start":
            starts.setdefault(f["aid"], []).append(f)
            if not f["has_time"]:
                why.append("start record without startedAtTime")
        elif k == "end":
            ends.setdefault(f["aid"], []).append(f)
        elif k == "task":
            labels.setdefault(f["aid"], []).append(f["label"])
        elif k == "unknown":
            why.append(f"unrecognised message {f['keys']}")
    expected = flat_jobs(forest)
    if len(starts) != len(expected):
        why.append(f"{len(starts)} activities for {len(expected)} executed jobs")
    if len(stored) != len(expected):
        why.append(f"{len(stored)} stored results for {len(expected)} executed jobs")
    for aid, ss in starts.items():
        es = ends.get(aid, [])
        if len(ss) != 1:
            why.append(f"{len(ss)} start records for one activity")
        if len(es) != 1:
            why.append(f"{len(es)} end records for activity {labels.get(aid)}")
        elif es[0]["t"] < ss[0]["t"]:
            why.append("end record before start record")
    for aid in ends:
        if aid not in starts:
            why.append("end record for an activity that never started")
    flags = sorted(e["errored"] for es in ends.values() for e in es)
    if flags != sorted(stored):
        why.append(f"end records' errored flags {flags} differ from the stored results' {sorted(stored)}")
    if flags != sorted(n["errored"] for n in expected):
        why.append("end records' errored flags differ from the jobs' outcomes")
    # labelled activities: the flag of the job of that name
    by_label = {}
    for n in expected:
        by_label.setdefault(n["label"], []).append(n["errored"])
    seen = {}
    for aid, ls in labels.items():
        for l in ls:
            for e in ends.get(aid, []):
                seen.setdefault(l, []).append(e["errored"])
    for l, fl in seen.items():
        if sorted(fl) != sorted(by_label.get(l, [])) and len(fl) == len(by_label.get(l, [])):
            why.append(f"errored flag of activity {l!r} does not match its job's result")
    # every activity of the log, job or monitor, grouped by @id: exactly one start and one end record for the same id
    acts = all_activities(recs)
    for aid, (n_open, n_close) in acts.items():
        if n_open != 1 or n_close != 1:
            kind = "job" if aid in starts else "monitor/other"
            why.append(f"{kind} activity has {n_open} start and {n_close} end records under its @id")
    want_acts = len(expected) * (2 if resource else 1)
    if len(acts) != want_acts:
        why.append(f"{len(acts)} activity ids in the log, {want_acts} expected ({len(expected)} jobs{' + their monitors' if resource else ''})")
    if resource:
        mons = [f for k, f in recs if k == "monStart"]
        if len(mons) != len(expected) or any(m["aid"] not in starts for m in mons):
            why.append("monitor records not one per executed job")
    return why


def child_case(case: dict, sandbox: Path):
    task, _ = pool(case["x"])[case["name"]]
    msgs, stored, outcome = run_impl(task, case["worker"], case["flags"], sandbox)
    return {"msgs": msgs, "stored": stored, "outcome": outcome}
