"""Engine `Hash` — shared harness code of C06 / C07 / C08 (DESIGN §5.3).

* a JSON *spec* language for Python values (so that the same value can be rebuilt in fresh interpreters with other
  PYTHONHASHSEEDs), `build(spec)`;
* `to_case(obj)`: the value as the Lean model sees it (`Drivers/Hash.lean`): object identities (`id`), the actual
  iteration order of sets, the actual insertion order of dicts, which attributes the generic fallback looks at, the
  AST dumps / code items of functions;
* `canon(spec)`: the oracle's notion of "same type and content" (independent of the model: sets and dicts as sorted
  multisets, identities dropped);
* generators: typed value grammar (depth <= 4, width <= 4), near-miss mutations, order-only variants;
* child-process protocol (`python -m harness.engines.hashing child`) used for the PYTHONHASHSEED / pickle runs;
* validation of the driver's BLAKE2b against hashlib.
"""

from __future__ import annotations

import ast
import enum
import hashlib
import importlib
import inspect
import json
import os
import re
import struct
import subprocess
import sys
import types
import typing as ty
from pathlib import Path, PurePosixPath

import attrs

from harness import core

# --------------------------------------------------------------------------------------------------------------
# classes of the object grammar (importable in child processes as harness.engines.hashing.<Name>)


@attrs.define
class AttrsA:
    x: ty.Any = 0
    y: ty.Any = None
    note: ty.Any = attrs.field(default=None, eq=False)  # not used in comparisons -> not hashed (by design)


@attrs.define
class AttrsB:  # same fields as AttrsA, other name
    x: ty.Any = 0
    y: ty.Any = None
    note: ty.Any = attrs.field(default=None, eq=False)


@attrs.define(slots=False)
class AttrsDict:
    x: ty.Any = 0
    y: ty.Any = None


class SlotsA:
    __slots__ = ("x", "y")

    def __init__(self, x=0, y=None):
        self.x, self.y = x, y


class SlotsB:
    __slots__ = ("x", "y")

    def __init__(self, x=0, y=None):
        self.x, self.y = x, y


class PlainA:
    def __init__(self, x=0, y=None):
        self.x, self.y = x, y

    def method(self):
        return self.x


class PlainB:
    def __init__(self, x=0, y=None):
        self.x, self.y = x, y

    def method(self):
        return self.x


class PlainDunder:
    """plain object with a dunder attribute and a bound method stored in __dict__ (both skipped by the fallback)"""

    def __init__(self, x=0, y=None):
        self.x, self.y = x, y
        self.__dict__["__tag__"] = "ignored"
        self.bound = self.method

    def method(self):
        return self.x


class Colour(enum.Enum):
    RED = 1
    GREEN = 2


OBJ_CLASSES = {c.__name__: c for c in (AttrsA, AttrsB, AttrsDict, SlotsA, SlotsB, PlainA, PlainB, PlainDunder)}
# which constructor arguments are part of the hashed content
HASHED_FIELDS = {n: ("x", "y") for n in OBJ_CLASSES}
UNHASHED_FIELDS = {"AttrsA": ("note",), "AttrsB": ("note",)}

CALLABLE_TYPE_EXPRS = ("int", "str", "float", "bool", "bytes", "complex", "list", "dict", "tuple", "set", "frozenset")
METHOD_CLASSES = ("PlainA", "PlainB", "PlainDunder")  # classes of the object grammar that define `method`
# classes hashed through __dict__: an attribute whose value is a bound method is skipped by the fallback (by design:
# `is_special_or_method`), so it is not content
DICT_KIND_CLASSES = ("PlainA", "PlainB", "PlainDunder")

TYPE_EXPRS = [
    "int", "str", "float", "bool", "bytes", "complex", "list", "dict", "tuple", "set", "frozenset", "type(None)",
    "ty.Any", "ty.List[int]", "ty.List[str]", "ty.Dict[str, int]", "ty.Dict[int, int]", "ty.Tuple[int, str]",
    "ty.Tuple[int, ...]", "ty.Optional[int]", "ty.Optional[str]", "ty.Union[int, str]", "ty.Union[int, float]",
    "int | str", "int | float", "int | None", "ty.Callable[[int], str]", "ty.Callable[[str], str]",
    "ty.List[ty.List[int]]", "ty.Sequence[int]", "ty.Set[int]", "ty.FrozenSet[str]", "Path",
]  # fmt: skip
PEP585_EXPRS = ["list[int]", "list[str]", "dict[str, int]", "dict[int, int]", "tuple[int, str]", "set[int]"]
TYPE_EXPRS = TYPE_EXPRS + PEP585_EXPRS  # builtin generic aliases are hashed by origin and arguments since fix 4172742a (D65)
TYPE_NS = {"ty": ty, "Path": Path}


LAYOUTS = ["C", "F", "T", "strided", "Fstrided"]


def with_layout(a, layout: str):
    """an array EQUAL to `a` (same dtype, shape, elements) with the requested memory layout:
    C = C-contiguous copy; F = Fortran-contiguous (asfortranarray); T = transposed view of C-contiguous data;
    strided = every other element of a twice as wide C buffer (non-contiguous view); Fstrided = a strided view of
    column-major data.  0-d arrays have one layout."""
    import numpy as np

    if a.ndim == 0 or layout == "C":
        return a.copy()
    if layout == "F":
        return np.asfortranarray(a)
    if layout == "T":
        return np.ascontiguousarray(a.T).T
    if layout == "strided":
        big = np.zeros(a.shape[:-1] + (2 * a.shape[-1],), dtype=a.dtype)
        v = big[..., ::2]
        v[...] = a
        return v
    if layout == "Fstrided":
        big = np.zeros((2 * a.shape[0],) + a.shape[1:], dtype=a.dtype, order="F")
        v = big[::2]
        v[...] = a
        return v
    raise ValueError(layout)


def logical_bytes(o) -> bytes:
    """the elements of an array in logical (row-major index) order, packed element by element — deliberately NOT through
    ndarray.tobytes(order=...), the code path of the implementation; cross-checked against a C-contiguous copy"""
    import numpy as np

    isz = o.dtype.itemsize  # numpy.str_ / numpy.bytes_ elements come back without their zero padding
    el = b"".join(e.tobytes().ljust(isz, b"\0") for e in o.flat) if o.ndim else o[()].tobytes().ljust(isz, b"\0")
    chk = np.ascontiguousarray(o).tobytes()
    if el != chk:
        raise AssertionError("element-wise packing and ascontiguousarray disagree")
    return el


class Unsupported(Exception):
    """the value is outside what the Lean model covers (the implementation is still checked against the oracle)"""


# --------------------------------------------------------------------------------------------------------------
# spec -> Python value


class Builder:
    def __init__(self, moddir: Path | None = None):
        self.env: dict[str, ty.Any] = {}
        self.moddir = Path(moddir) if moddir else None
        self.keep: list = []

    def __call__(self, s):
        return self.build(s)

    def build(self, s):
        k = s["k"]
        if k == "none":
            return None
        if k == "bool":
            return bool(s["v"])
        if k == "int":
            return int(s["v"])
        if k == "float":
            return struct.unpack("<d", struct.pack("<Q", int(s["bits"])))[0]
        if k == "complex":
            re_ = struct.unpack("<d", struct.pack("<Q", int(s["re"])))[0]
            im_ = struct.unpack("<d", struct.pack("<Q", int(s["im"])))[0]
            return complex(re_, im_)
        if k == "str":
            return s["v"]
        if k == "bytes":
            return bytes.fromhex(s["hex"])
        if k == "path":
            return {"PosixPath": Path, "PurePosixPath": PurePosixPath}[s["cls"]](s["v"])
        if k == "list":
            out = []
            if "name" in s:
                self.env[s["name"]] = out
            out.extend(self.build(x) for x in s["xs"])
            return out
        if k == "tuple":
            return tuple(self.build(x) for x in s["xs"])
        if k == "set":
            out = set()
            for x in s["xs"]:
                out.add(self.build(x))
            return out
        if k == "frozenset":
            return frozenset([self.build(x) for x in s["xs"]])
        if k == "dict":
            out = {}
            if "name" in s:
                self.env[s["name"]] = out
            for kk, vv in s["items"]:
                out[self.build(kk)] = self.build(vv)
            return out
        if k == "obj":
            cls = OBJ_CLASSES[s["cls"]]
            o = cls()
            if "name" in s:
                self.env[s["name"]] = o
            for n, v in s["kw"].items():
                setattr(o, n, self.build(v))
            return o
        if k == "enum":
            return Colour[s["v"]]
        if k == "ndarray":
            import numpy as np

            a = np.frombuffer(bytes.fromhex(s["hex"]), dtype=np.dtype(s["dtype"])).reshape(tuple(s["shape"]))
            return with_layout(a, s.get("layout", "C"))
        if k == "npscalar":
            import numpy as np

            return np.frombuffer(bytes.fromhex(s["hex"]), dtype=np.dtype(s["dtype"]))[0]
        if k == "type":
            return eval(s["v"], dict(TYPE_NS))
        if k == "func":
            return self.build_func(s)
        if k == "file":
            # a fileformats File over a file with the given content (created on demand next to the generated modules; the
            # same spec gives the same path, so equal specs built twice are EQUAL, separate File objects)
            from fileformats.generic import File

            d = (self.moddir.parent if self.moddir else Path(os.environ.get("VERIF_HASH_MODDIR", "/tmp"))) / "files"
            d.mkdir(parents=True, exist_ok=True)
            f = d / (s["hex"] or "empty") / s["name"]  # one path per (content, name): files are never rewritten
            f.parent.mkdir(exist_ok=True)
            data = bytes.fromhex(s["hex"])
            if not f.exists() or f.read_bytes() != data:
                f.write_bytes(data)
                os.utime(f, ns=(10**18, 10**18))  # a fixed mtime: the persistent hash cache key is (path, mtime)
            return File(f)
        if k == "partial":
            import functools

            return functools.partial(self.build(s["func"]), *[self.build(x) for x in s["xs"]], **{n: self.build(v) for n, v in s["kw"].items()})
        if k == "method":
            return getattr(self.build(s["obj"]), s.get("attr", "method"))
        if k == "def":
            v = self.build(s["v"])
            self.env[s["name"]] = v
            return v
        if k == "use":
            return self.env[s["name"]]
        raise ValueError(f"bad spec kind {k}")

    # functions --------------------------------------------------------------------------------------------
    def build_func(self, s):
        src, fname = func_source(s)
        if s.get("mode", "module") == "exec":
            ns: dict = {}
            exec(compile(src, f"<verif-exec-{hashlib.sha1(src.encode()).hexdigest()[:8]}>", "exec"), ns)
            maker = ns["make"] if s.get("closure") else None
            f = maker(*[self.build(v) for v in s["closure"].values()]) if maker else ns[fname]
            return f
        if self.moddir is None:
            raise ValueError("a module directory is needed to build functions with source")
        name = "vh_" + hashlib.sha1(src.encode()).hexdigest()[:16]
        self.moddir.mkdir(parents=True, exist_ok=True)
        f = self.moddir / f"{name}.py"
        if not f.exists():
            f.write_text(src)
        if str(self.moddir) not in sys.path:
            sys.path.insert(0, str(self.moddir))
            importlib.invalidate_caches()
        if name in sys.modules:
            mod = sys.modules[name]
        else:
            importlib.invalidate_caches()
            mod = importlib.import_module(name)
        for g, v in (s.get("globals") or {}).items():
            setattr(mod, g, self.build(v))
        if s.get("closure"):
            return mod.make(*[self.build(v) for v in s["closure"].values()])
        return getattr(mod, fname)


def func_source(s) -> tuple[str, str]:
    """Source text of a function spec: {"name","params":[...],"annots":{p:txt},"body":[lines],"closure":{var:spec}|None,
    "globals":{var:spec}|None,"lambda":bool}."""
    name = s.get("name", "f")
    if s.get("lambda"):
        return f"{name} = lambda {', '.join(s['params'])}: {s['body'][0]}\n", name
    params = ", ".join(p + (f": {s['annots'][p]}" if p in s.get("annots", {}) else "") for p in s["params"])
    ret = f" -> {s['ret']}" if s.get("ret") else ""
    body = "\n".join("    " + ln for ln in s["body"])
    glob = "".join(f"{g} = None\n" for g in (s.get("globals") or {}))
    if s.get("closure"):
        inner = f"def {name}({params}){ret}:\n{body}\n"
        inner = "".join("    " + ln + "\n" for ln in inner.splitlines())
        return f"{glob}def make({', '.join(s['closure'])}):\n{inner}    return {name}\n", name
    return f"{glob}def {name}({params}){ret}:\n{body}\n", name


# --------------------------------------------------------------------------------------------------------------
# Python value -> model case (Drivers/Hash.lean JSON)


def _bits(x: float) -> str:
    return str(struct.unpack("<Q", struct.pack("<d", x))[0])


def _utf8hex(s: str) -> str:
    return s.encode().hex()


def dump_kwargs():
    """the keyword arguments of `ast.dump` inside bytes_repr_function, read from the source (so that a changed
    flag is seen by the model side too)"""
    from harness.extractors import hash_lits

    try:
        fn = hash_lits.find_funcs(ast.parse((core.REPO / "pydra/utils/hash.py").read_text()))["bytes_repr_function"]
        for n in ast.walk(fn):
            if isinstance(n, ast.Call) and ast.unparse(n.func) == "ast.dump":
                return {k.arg: ast.literal_eval(k.value) for k in n.keywords}
    except Exception:
        pass
    return {"annotate_fields": False, "include_attributes": False}


_DUMP_KW = None


def np_generic_first(t) -> bool:
    """does numpy.generic precede the builtin scalar classes in the MRO (numpy.float64: yes; numpy.str_: no)?"""
    try:
        import numpy as np
    except ImportError:  # pragma: no cover
        return False
    mro = t.__mro__
    if np.generic not in mro:
        return False
    g = mro.index(np.generic)
    return all(mro.index(b) > g for b in (str, bytes, int, float, complex) if b in mro)


class Caser:
    """One conversion session: identities are numbered in visiting order; everything visited is kept alive."""

    def __init__(self):
        self.ids: dict[int, int] = {}
        self.keep: list = []
        self.stack: set[int] = set()

    def oid(self, o) -> int:
        k = id(o)
        if k not in self.ids:
            self.ids[k] = len(self.ids) + 1
            self.keep.append(o)
        return self.ids[k]

    def scalar(self, o):
        t = type(o)
        if o is None:
            return {"t": "none"}
        if t is bool:
            return {"t": "bool", "v": o}
        if t is int:
            return {"t": "int", "v": str(o)}
        if t is float:
            return {"t": "float", "bits": _bits(o)}
        if t is complex:
            return {"t": "complex", "re": _bits(o.real), "im": _bits(o.imag)}
        if t is str:
            return {"t": "str", "hex": _utf8hex(o)}
        if t is bytes:
            return {"t": "bytes", "hex": o.hex()}
        return None

    def case(self, o):
        sc = self.scalar(o)
        if sc is not None:
            return sc
        t = type(o)
        if hasattr(t, "__bytes_repr__"):
            raise Unsupported("__bytes_repr__")
        from fileformats.core.fileset import FileSet as _FileSet

        if isinstance(o, _FileSet):
            raise Unsupported("file sets are outside the model (C09); the implementation is still checked against the oracle")
        if isinstance(o, os.PathLike):
            return {"t": "path", "cls": f"{t.__module__}.{t.__name__}", "hex": os.fspath(o).encode().hex()}
        try:
            import numpy as np
        except ImportError:  # pragma: no cover
            np = None
        if isinstance(o, (str, bytes, int, float, complex)) and not (np_generic_first(t)):
            # subclasses of builtin scalars (numpy.str_, numpy.bytes_, IntEnum, …) reach the builtin's serializer
            raise Unsupported("subclass of a builtin scalar")
        if np is not None and isinstance(o, (np.ndarray, np.generic)):
            if o.dtype == "object":
                raise Unsupported("object array")
            return {
                "t": "ndarray",
                "cls": f"{t.__module__}{t.__name__}",
                "dtype": str(o.dtype),
                "shape": repr(tuple(int(n) for n in o.shape)),
                "hex": (logical_bytes(o) if isinstance(o, np.ndarray) else o.tobytes()).hex(),
            }
        if isinstance(o, (type, ty._GenericAlias, ty._SpecialForm, types.UnionType, types.GenericAlias)):
            return self.type_case(o)
        if id(o) in self.stack:
            return {"t": "ref", "id": self.oid(o)}
        i = self.oid(o)
        self.stack.add(id(o))
        try:
            if t in (list, tuple):
                return {"t": t.__name__, "id": i, "xs": [self.case(x) for x in o]}
            if t in (set, frozenset):
                return {"t": t.__name__, "id": i, "xs": [self.case(x) for x in o]}  # iteration order as it is
            if t is dict:
                items = []
                for k, v in o.items():
                    ks = self.scalar(k)
                    if ks is None:
                        raise Unsupported("non-scalar dict key")
                    items.append([ks, self.case(v)])
                return {"t": "dict", "id": i, "items": items}
            if t is types.CodeType:
                return {"t": "code", "id": i, "xs": [self.case(x) for x in code_items(o)]}
            if t is types.FunctionType:
                return self.func_case(o, i)
            import functools

            if t is functools.partial:
                return {"t": "partial", "id": i, "xs": [self.case(o.func), self.case(o.args), self.case(o.keywords)]}
            if t is types.MethodType:
                return {"t": "method", "id": i, "xs": [self.case(o.__func__), self.case(o.__self__)]}
            from pydra.compose.base import Task

            if isinstance(o, Task):
                return self.task_case(o, i)
            if isinstance(o, (dict, list, tuple, set, frozenset, types.ModuleType, range, slice)) or o is Ellipsis:
                raise Unsupported(f"subclass or unmodelled builtin {t.__name__}")
            return self.obj_case(o, i)
        finally:
            self.stack.discard(id(o))

    # generic fallback ------------------------------------------------------------------------------------------
    def obj_case(self, o, i):
        t = type(o)
        cls = f"{t.__module__}.{t.__name__}"
        if attrs.has(t):
            fields = [[a.name, bool(a.eq), self.case(getattr(o, a.name))] for a in attrs.fields(t)]
            return {"t": "obj", "id": i, "cls": cls, "kind": "attrs", "fields": fields}
        if hasattr(o, "__slots__") and o.__slots__ is not None:
            fields = [[n, True, self.case(getattr(o, n))] for n in o.__slots__]
            return {"t": "obj", "id": i, "cls": cls, "kind": "slots", "fields": fields}
        try:
            d = o.__dict__
        except AttributeError:
            raise Unsupported("object without __dict__")
        fields = []
        for n, v in d.items():
            if not isinstance(n, str):
                raise Unsupported("non-str attribute name")
            dunder = n.startswith("__") and n.endswith("__")
            is_method = inspect.ismethod(getattr(o, n))
            # the model drops dunder names itself; values of dropped entries are not needed
            fields.append([n, not is_method, {"t": "none"} if (dunder or is_method) else self.case(v)])
        return {"t": "obj", "id": i, "cls": cls, "kind": "dict", "fields": fields}

    # types -----------------------------------------------------------------------------------------------------
    def type_case(self, o):
        from pydra.utils.general import get_fields

        if isinstance(o, type) and (fields := get_fields(o)):
            i = self.oid(o)
            self.stack.add(id(o))
            try:
                outs = []
                if hasattr(o, "Outputs"):
                    outs = [self.type_case(o.Outputs)]
                    if outs[0].get("t") != "tyfields":
                        raise Unsupported("Outputs class without fields")
                return {"t": "tyfields", "id": i, "fields": [self.case(f) for f in fields], "outputs": outs}
            finally:
                self.stack.discard(id(o))
        return {"t": "type", "ty": self.tyexpr(o)}

    def tyexpr(self, o):
        from fileformats.core.fileset import FileSet
        from pydra.utils.general import get_fields, in_stdlib

        origin, args = ty.get_origin(o), ty.get_args(o)
        if origin and args:
            a = []
            for x in args:
                if isinstance(x, list):
                    a.append({"k": "arglist", "args": [self.tyexpr(y) for y in x]})
                else:
                    a.append(self.tyexpr(x))
            return {"k": "generic", "origin": self.tyexpr(origin), "args": a}
        if o is Ellipsis:
            return {"k": "ellipsis"}
        if inspect.isclass(o) and issubclass(o, FileSet):
            raise Unsupported("fileset class")
        if get_fields(o):
            raise Unsupported("nested class with fields")
        if in_stdlib(o):
            try:
                name = o.__name__
            except AttributeError:
                name = o._name
            mod = ".".join(p for p in o.__module__.split(".") if not p.startswith("_"))
            return {"k": "named", "loc": f"{mod}.{name}"}
        raise Unsupported("user class hashed through __dict__")

    # functions -------------------------------------------------------------------------------------------------
    def func_case(self, f, i):
        global _DUMP_KW
        from pydra.utils.general import in_stdlib

        cells = []
        if f.__closure__:
            for n, c in zip(f.__code__.co_freevars, f.__closure__):
                try:
                    cells.append([n, self.case(c.cell_contents)])
                except (Unsupported, ValueError):
                    cells.append([n, {"t": "none"}])
        base = {"t": "func", "id": i, "code": [], "cells": cells, "globals": []}
        if in_stdlib(f):
            return {**base, "body": {"k": "stdlib", "q": f"{f.__module__}.{f.__name__}"}}
        try:
            src = inspect.getsource(f)
        except OSError:
            return {**base, "body": {"k": "code"}, "code": [self.case(x) for x in code_items(f.__code__)]}
        if _DUMP_KW is None:
            _DUMP_KW = dump_kwargs()
        indent = re.match(r"(\s*)", src).group(1)
        if indent:
            src = re.sub(f"^{indent}", "", src, flags=re.MULTILINE)
        try:
            node = ast.parse(src).body[0]
        except SyntaxError:
            return {**base, "body": {"k": "raw", "hex": src.encode().hex()}}
        if not isinstance(node, (ast.FunctionDef, ast.AsyncFunctionDef)):
            # a lambda: the enclosing statement does not identify the function -> code object (fix 0b7c1de8, D67)
            return {**base, "body": {"k": "code"}, "code": [self.case(x) for x in code_items(f.__code__)]}
        chunks = []
        if hasattr(node, "args"):
            for a in node.args.args + node.args.kwonlyargs:
                a.annotation = None
            if node.args.vararg:
                node.args.vararg.annotation = None
            if node.args.kwarg:
                node.args.kwarg.annotation = None
            chunks.append(ast.dump(node.args, **_DUMP_KW).encode().hex())
        if hasattr(node, "body"):
            for st in node.body:
                chunks.append(ast.dump(st, **_DUMP_KW).encode().hex())
        return {**base, "body": {"k": "ast", "chunks": chunks}}

    # tasks as values (bytes_repr_task) ---------------------------------------------------------------------------
    def task_case(self, t, i):
        from pydra.utils.general import get_fields

        fields = [[f.name, self.case(getattr(t, f.name))] for f in get_fields(t)]
        priv = [self.case(getattr(t, n)) for n in ("_splitter", "_combiner", "_container_ndim", "_xor")]
        return {"t": "task", "id": i, "ttype": t._task_type(), "fields": fields, "priv": priv}


def code_items(c: types.CodeType):
    from harness.extractors import hash_lits

    return [getattr(c, a) for a in _code_attrs()]


_CODE_ATTRS = None
# set when the extractor no longer understands the source: the model is switched off and the harness goes on
# comparing the implementation with the oracle alone (the broken tie itself is reported by the framework)
MODEL_OFF = False
_DEFAULT_CODE_ATTRS = [
    "co_argcount", "co_posonlyargcount", "co_kwonlyargcount", "co_nlocals", "co_flags", "co_code", "co_consts",
    "co_names", "co_varnames", "co_freevars", "co_name", "co_cellvars",
]  # fmt: skip


def safe_extract():
    from harness.extractors import hash_lits

    try:
        return hash_lits.extract()
    except Exception:
        return None


def _code_attrs():
    global _CODE_ATTRS
    if _CODE_ATTRS is None:
        d = safe_extract()
        _CODE_ATTRS = d["code_attrs"] if d else _DEFAULT_CODE_ATTRS
    return _CODE_ATTRS


def model(ctx, q):
    """answers of the Lean driver, or None when the model is unavailable"""
    if MODEL_OFF or not q:
        return None if MODEL_OFF else []
    return ctx.driver("Hash", q)


def to_case(o):
    """Model case of a value, or None if the value is outside the model."""
    try:
        return Caser().case(o)
    except Unsupported:
        return None
    except RecursionError:
        return None


def to_cases(objs: list):
    """Several values converted with ONE identity numbering (values hashed with a shared Cache)."""
    c = Caser()
    try:
        return [c.case(o) for o in objs]
    except Unsupported:
        return None


# --------------------------------------------------------------------------------------------------------------
# the implementation


def impl_hash(o) -> str:
    from pydra.utils.hash import hash_function

    try:
        return hash_function(o)
    except Exception as e:
        return "!" + core.exc_tag(e)


def impl_hash_ctx(objs: list) -> list[str]:
    from pydra.utils.hash import Cache, hash_object

    cache = Cache()
    out = []
    for o in objs:
        try:
            out.append(hash_object(o, cache=cache).hex())
        except Exception as e:
            out.append("!" + core.exc_tag(e))
            break
    return out


def model_tag(ans: dict | None):
    """driver answer -> the same canonical form as impl_hash ('!TypeError' …); None = model declines"""
    if ans is None:
        return None
    if "error" in ans:
        if ans["error"] in ("unsupported", "malformed") or ans["error"] not in ("TypeError",):
            return None
        return "!" + ans["error"]
    return ans


# --------------------------------------------------------------------------------------------------------------
# oracle: same type and content


def canon(s, env=None, stack=()):
    """Canonical form of a spec: identities dropped, sets / dicts as sorted multisets.  Two specs denote values
    with the same type and content iff their canonical forms are equal."""
    env = {} if env is None else env
    k = s["k"]
    if k in ("none",):
        return ["none"]
    if k == "bool":
        return ["bool", bool(s["v"])]
    if k == "int":
        return ["int", str(int(s["v"]))]
    if k == "float":
        return ["float", str(s["bits"])]
    if k == "complex":
        return ["complex", str(s["re"]), str(s["im"])]
    if k == "str":
        return ["str", s["v"]]
    if k == "bytes":
        return ["bytes", s["hex"]]
    if k == "path":
        return ["path", s["cls"], os.fspath(PurePosixPath(s["v"]))]
    if k in ("list", "tuple"):
        st = stack + ((s.get("name"),) if s.get("name") else ())
        if s.get("name"):
            env[s["name"]] = s
        return [k, [canon(x, env, st) for x in s["xs"]]]
    if k in ("set", "frozenset"):
        seen = {}
        for x in s["xs"]:  # Python's own equality decides which elements coincide (1 == True == 1.0)
            seen.setdefault(Builder().build(x), json.dumps(canon(x, env, stack), sort_keys=True))
        return [k, sorted(seen.values())]
    if k == "dict":
        st = stack + ((s.get("name"),) if s.get("name") else ())
        if s.get("name"):
            env[s["name"]] = s
        items, keyc = {}, {}
        for kk, vv in s["items"]:  # a later insertion of an equal key overwrites the value and keeps the first key
            kv = Builder().build(kk)
            keyc.setdefault(kv, json.dumps(canon(kk, env, st), sort_keys=True))
            items[kv] = canon(vv, env, st)
        return ["dict", sorted((keyc[k], v) for k, v in items.items())]
    if k == "obj":
        st = stack + ((s.get("name"),) if s.get("name") else ())
        if s.get("name"):
            env[s["name"]] = s
        kw = {
            n: canon(v, env, st)
            for n, v in s["kw"].items()
            if n in HASHED_FIELDS[s["cls"]] and not (s["cls"] in DICT_KIND_CLASSES and v["k"] == "method")
        }
        if s["cls"] in DICT_KIND_CLASSES:
            for n, v in s["kw"].items():  # a skipped attribute is absent, not defaulted
                if v["k"] == "method" and n in HASHED_FIELDS[s["cls"]]:
                    kw[n] = ["<bound method: not hashed>"]
        for n in HASHED_FIELDS[s["cls"]]:
            kw.setdefault(n, ["int", "0"] if n == "x" else ["none"])
        return ["obj", s["cls"], sorted(kw.items())]
    if k == "enum":
        return ["enum", s["v"]]
    if k == "ndarray":
        return ["ndarray", s["dtype"], list(s["shape"]), s["hex"]]
    if k == "npscalar":
        return ["npscalar", s["dtype"], s["hex"]]
    if k == "type":
        return ["type", type_key(eval(s["v"], dict(TYPE_NS)))]
    if k == "func":
        # content of a function for C08 = parameters and body; name, annotations, closure cells and globals are not
        # part of it (closures are C06's subject)
        # … except for functions without source: they are hashed through their code object, whose co_name is content
        is_exec = s.get("mode", "module") == "exec"
        return ["func", bool(s.get("lambda")), list(s["params"]), list(s["body"]), is_exec, s.get("name", "f") if is_exec else None]
    if k == "file":
        return ["file", s["name"], s["hex"]]
    if k == "partial":
        return ["partial", canon(s["func"], env, stack), [canon(x, env, stack) for x in s["xs"]], sorted((n, canon(v, env, stack)) for n, v in s["kw"].items())]
    if k == "method":
        return ["method", s.get("attr", "method"), canon(s["obj"], env, stack)]
    if k == "def":
        c = canon(s["v"], env, stack)
        env[s["name"]] = s["v"]  # bound after the value is built (an inner definition of the same name is shadowed again)
        return c
    if k == "use":
        if s["name"] in stack:
            return ["backref", len(stack) - stack.index(s["name"])]
        return canon(env[s["name"]], env, stack)
    raise ValueError(k)


def type_key(t):
    """structural identity of a type expression: origin and arguments (typing.List[int] and list[int] are the same type;
    int | str (types.UnionType) and typing.Union[int, str] are kept apart: different origins)"""
    origin, args = ty.get_origin(t), ty.get_args(t)
    if origin and args:
        return [type_key(origin), [[type_key(y) for y in x] if isinstance(x, list) else type_key(x) for x in args]]
    if t is Ellipsis:
        return "..."
    return f"{getattr(t, '__module__', '')}.{getattr(t, '__qualname__', None) or getattr(t, '_name', None) or repr(t)}"


def canon_key(s) -> str:
    return json.dumps(canon(s), sort_keys=True)


def well_scoped(s) -> bool:
    """every `use` follows the `def` of its name (a mutation / shuffle may have moved it in front)"""
    try:
        canon_key(s)
        return True
    except KeyError:
        return False


def has_cycle(s, stack=()) -> bool:
    k = s["k"]
    st = stack + ((s["name"],) if s.get("name") else ())
    if k == "use":
        return s["name"] in stack
    if k == "def":
        return has_cycle(s["v"], stack)
    kids = list(s.get("xs", [])) + [x for kv in s.get("items", []) for x in kv] + list((s.get("kw") or {}).values())
    return any(has_cycle(x, st) for x in kids)


def walk(s):
    yield s
    for x in s.get("xs", []):
        yield from walk(x)
    for kk, vv in s.get("items", []):
        yield from walk(kk)
        yield from walk(vv)
    for v in (s.get("kw") or {}).values():
        yield from walk(v)
    if s["k"] == "def":
        yield from walk(s["v"])
    if s["k"] == "partial":
        yield from walk(s["func"])
    if s["k"] == "method":
        yield from walk(s["obj"])
    for v in (s.get("closure") or {}).values():
        yield from walk(v)


_ORDERABLE = {"int": "num", "bool": "num", "float": "num", "str": "str", "bytes": "bytes"}


def unordered_elements(s) -> str | None:
    """(Formerly the D6 / D68 match rule.)  Sets are ordered by the digests of their elements (fix 847ae56e) and mapping keys
    by their byte representations (fix e8ebe74c): nothing in a value is compared with Python's `<` any more."""
    return None


def mixed_key_dicts(s) -> bool:
    """does the value contain a dict with keys of mutually unorderable classes (the former D68 region)?"""
    for n in walk(s):
        if n["k"] == "dict":
            kinds = {_ORDERABLE.get(kv[0]["k"], kv[0]["k"]) for kv in n["items"]}
            if len(kinds) > 1:
                return True
    return False


# --------------------------------------------------------------------------------------------------------------
# generators


def _i(v):
    return {"k": "int", "v": str(v)}


def _s(v):
    return {"k": "str", "v": v}


def _f(x: float):
    return {"k": "float", "bits": _bits(x)}


STRS = ["", "a", "b", "ab", "abc", "a b", "x=1,", "é", "日本", "str:1:a", "}", ")", ":", "0", "1", "None", "True"]
INTS = [0, 1, -1, 2, 3, 7, 10, 255, 256, -256, 2**31, 2**63 - 1, 2**63, -(2**63), -(2**63) - 1, 10**20, -(10**20)]
FLOATS = [0.0, -0.0, 1.0, 1.5, -1.5, 2.0, 1e300, 5e-324, float("inf"), float("-inf")]


def gen_scalar(rng, hashable_only=False):
    r = rng.random()
    if r < 0.08:
        return {"k": "none"}
    if r < 0.16:
        return {"k": "bool", "v": rng.random() < 0.5}
    if r < 0.42:
        return _i(rng.choice(INTS) if rng.random() < 0.7 else rng.randint(-1000, 1000))
    if r < 0.55:
        return _f(rng.choice(FLOATS) if rng.random() < 0.7 else rng.uniform(-10, 10))
    if r < 0.6:
        return {"k": "complex", "re": _bits(rng.choice(FLOATS)), "im": _bits(rng.choice(FLOATS))}
    if r < 0.85:
        return _s(rng.choice(STRS))
    return {"k": "bytes", "hex": rng.choice(["", "00", "61", "6162", "ff00", "3a", "613d"])}


def gen_key(rng, kind=None):
    """a dict key / set element drawn from ONE orderable class (so that `sorted` is total)"""
    kind = kind or rng.choice(["str", "str", "str", "int", "bytes", "float"])
    if kind == "str":
        return _s(rng.choice(STRS))
    if kind == "int":
        return _i(rng.choice(INTS[:12]))
    if kind == "bytes":
        return {"k": "bytes", "hex": rng.choice(["", "00", "61", "6162", "ff00", "3a"])}
    return _f(rng.choice(FLOATS[2:]))


def gen_ndarray(rng):
    import numpy as np

    dt = rng.choice(["int64", "float64", "int32", "uint8", "float32", "bool", "complex128", "<U2", "int16"])
    shape = rng.choice([(0,), (1,), (2,), (3,), (6,), (2, 3), (3, 2), (1, 6), (6, 1), (2, 1, 3), (), (2, 2), (3, 3), (2, 3, 2)])
    n = int(np.prod(shape)) if shape else 1
    size = np.dtype(dt).itemsize
    if dt == "<U2":
        data = np.array([rng.choice(["a", "b", "ab", ""]) for _ in range(n)], dtype=dt).tobytes()
    elif dt == "bool":
        data = bytes(rng.choice([0, 1]) for _ in range(n))
    else:
        data = bytes(rng.choice([0, 0, 1, 2, 255]) if rng.random() < 0.5 else 0 for _ in range(n * size))
    if shape == ():
        # numpy.str_ is a str subclass and reaches the str serializer: string *scalars* are outside the grammar
        return {"k": "npscalar", "dtype": dt, "hex": data[:size].hex()} if (rng.random() < 0.5 and dt != "<U2") else {
            "k": "ndarray", "dtype": dt, "shape": [], "hex": data[:size].hex()}  # fmt: skip
    return {"k": "ndarray", "dtype": dt, "shape": list(shape), "hex": data.hex(), "layout": rng.choice(LAYOUTS)}


def raw_buffer_twin(n):
    """For an ndarray spec n (ndim >= 2): (A, B) with the same dtype and shape and the SAME raw memory buffer but different
    contents — A = n stored Fortran-contiguous, B = the C-contiguous array whose row-major bytes are A's column-major bytes
    (`arange(6).reshape(2,3).T` vs `arange(6).reshape(3,2)`; `a.T` vs `a` for square a).  None if the contents coincide."""
    import numpy as np

    if len(n["shape"]) < 2:
        return None
    a = np.frombuffer(bytes.fromhex(n["hex"]), dtype=np.dtype(n["dtype"])).reshape(tuple(n["shape"]))
    fbytes = np.ascontiguousarray(a.T).tobytes()  # column-major bytes of a
    if fbytes == bytes.fromhex(n["hex"]):
        return None
    return {**n, "layout": "F"}, {**n, "hex": fbytes.hex(), "layout": "C"}


# values that Python considers EQUAL (==, same hash()) although they differ in type or content: as dict keys / set elements
# they fall into one slot, and any memo keyed by the VALUE (instead of id()) confuses them
def _c(re_, im_=0.0):
    return {"k": "complex", "re": _bits(re_), "im": _bits(im_)}


EQ_FAMILIES = [
    [_i(1), {"k": "bool", "v": True}, _f(1.0), _c(1.0)],
    [_i(0), {"k": "bool", "v": False}, _f(0.0), _f(-0.0), _c(0.0)],
    [_i(2), _f(2.0), _c(2.0)],
    [{"k": "tuple", "xs": [_i(1), _i(2)]}, {"k": "tuple", "xs": [{"k": "bool", "v": True}, _f(2.0)]}, {"k": "tuple", "xs": [_f(1.0), _i(2)]}],
    [{"k": "frozenset", "xs": [_i(1)]}, {"k": "frozenset", "xs": [{"k": "bool", "v": True}]}, {"k": "frozenset", "xs": [_f(1.0)]}],
]


def gen_eq_twins(rng):
    """(k1, k2): two values with k1 == k2 in Python but different type / content"""
    import copy

    k1, k2 = rng.sample(rng.choice(EQ_FAMILIES), 2)
    return copy.deepcopy(k1), copy.deepcopy(k2)


def eq_holder(rng, k, how: str, payload):
    """a value holding k: as the key of a dict, the element of a set / frozenset, or plainly"""
    if how == "dict":
        return {"k": "dict", "items": [[k, payload]]}
    if how == "dict2":
        return {"k": "dict", "items": [[_s("z"), _i(0)], [k, payload]]}
    if how == "set":
        return {"k": "set", "xs": [k, _s("z")]}
    if how == "frozenset":
        return {"k": "frozenset", "xs": [k]}
    return {"k": "list", "xs": [k, payload]}


def gen_eq_sibling_pair(rng):
    """A = C[x, y'] and B = C[x, y]: x and y hold k1, y' holds k2 == k1 (other type/content), all inside ONE container, so
    that they are hashed in one hash_function call.  y and y' hash differently alone, hence A and B must hash differently."""
    k1, k2 = gen_eq_twins(rng)
    how = rng.choice(["dict", "dict", "dict2", "set", "frozenset", "plain"])
    payload = gen_scalar(rng)
    x, y, y2 = eq_holder(rng, k1, how, payload), eq_holder(rng, k1, how, payload), eq_holder(rng, k2, how, payload)
    c = rng.choice(["list", "tuple", "dict", "obj", "nested"])
    if how == "frozenset" and rng.random() < 0.3:
        c = "set"  # two frozensets as siblings inside a set

    def wrap(a, b):
        if c in ("list", "tuple"):
            return {"k": c, "xs": [a, b]}
        if c == "dict":
            return {"k": "dict", "items": [[_s("p"), a], [_s("q"), b]]}
        if c == "obj":
            return {"k": "obj", "cls": rng.choice(["PlainA", "SlotsA", "AttrsA"]), "kw": {"x": a, "y": b}}
        if c == "set":
            return {"k": "set", "xs": [a, b]}
        return {"k": "list", "xs": [{"k": "tuple", "xs": [a]}, {"k": "dict", "items": [[_s("deep"), {"k": "list", "xs": [b]}]]}]}

    import copy

    w = copy.deepcopy
    st = rng.getstate()
    A = wrap(w(x), w(y2))
    rng.setstate(st)
    B = wrap(w(x), w(y))
    return A, B, f"eq-twins:{how}-in-{c}", (x, y2)


def gen_file(rng):
    return {"k": "file", "name": rng.choice(["a.txt", "b.txt", "img.dat"]), "hex": rng.choice(["", "00", "6162", "ff00ff", "0a0a"])}


def gen_aliased(rng, with_files=True):
    """a value in which ONE object is referenced several times (a File, or a list / tuple / dict / object / set): the equal
    value built from separate equal objects (`unshare`) must get the same hash — aliasing is not content"""
    r = rng.random()
    if with_files and r < 0.55:
        inner = gen_file(rng)
    elif r < 0.7:
        inner = {"k": "obj", "cls": rng.choice(["PlainA", "SlotsA", "AttrsA"]), "kw": {"x": gen_scalar(rng), "y": gen_scalar(rng)}}
    elif r < 0.8:
        inner = {"k": "frozenset", "xs": [gen_key(rng, "str") for _ in range(rng.randint(1, 3))]}
    else:
        inner = {"k": rng.choice(["list", "tuple"]), "xs": [gen_scalar(rng) for _ in range(rng.randint(0, 3))]}
    name = f"al{rng.randrange(10**9)}"
    d, u = {"k": "def", "name": name, "v": inner}, {"k": "use", "name": name}
    other = gen_file(rng) if (with_files and rng.random() < 0.5) else gen_scalar(rng)
    shape = rng.choice(["pair", "list3", "dict", "obj", "nested", "mixed"])
    if shape == "pair":
        return {"k": rng.choice(["list", "tuple"]), "xs": [d, u]}
    if shape == "list3":
        return {"k": "list", "xs": [other, d, u, other, u]}
    if shape == "dict":
        return {"k": "dict", "items": [[_s("reference"), d], [_s("moving"), u], [_s("n"), _i(1)]]}
    if shape == "obj":
        return {"k": "obj", "cls": rng.choice(["PlainA", "SlotsB", "AttrsDict"]), "kw": {"x": d, "y": u}}
    if shape == "nested":
        return {"k": "tuple", "xs": [{"k": "list", "xs": [d]}, {"k": "dict", "items": [[_s("again"), {"k": "list", "xs": [u, other]}]]}]}
    return {"k": "list", "xs": [d, {"k": "list", "xs": [other, u]}, u]}


def gen_callable_attr_pair(rng):
    """two plain-class instances (hashed through __dict__) that differ ONLY in a callable stored on the instance: a function
    (other body), a functools.partial (other keyword / other function), a class.  (A, B, aspect, call) — `call` is a Python
    expression in `x` (the instance) that distinguishes them when evaluated."""
    cls = rng.choice(["PlainA", "PlainB"])
    f = lambda body, params=("x",): {"k": "func", "name": "f", "params": list(params), "body": [body]}
    kind = rng.choice(["function", "function", "partial-keyword", "partial-func", "class"])
    if kind == "function":
        b1, b2 = rng.sample(["return x * 2", "return x * x", "return x + 7", "return -x"], 2)
        v1, v2 = f(b1), f(b2)
    elif kind == "partial-keyword":
        g = f("return x * y", ("x", "y"))
        k1, k2 = rng.sample([2, 3, 5, 10], 2)
        v1, v2 = {"k": "partial", "func": g, "xs": [], "kw": {"y": _i(k1)}}, {"k": "partial", "func": g, "xs": [], "kw": {"y": _i(k2)}}
    elif kind == "partial-func":
        v1 = {"k": "partial", "func": f("return x * y", ("x", "y")), "xs": [], "kw": {"y": _i(3)}}
        v2 = {"k": "partial", "func": f("return x + y", ("x", "y")), "xs": [], "kw": {"y": _i(3)}}
    else:
        t1, t2 = rng.sample(["int", "float", "str", "complex"], 2)
        v1, v2 = {"k": "type", "v": t1}, {"k": "type", "v": t2}
    other = _i(rng.randint(0, 9))
    a = {"k": "obj", "cls": cls, "kw": {"x": v1, "y": other}}
    b = {"k": "obj", "cls": cls, "kw": {"x": v2, "y": other}}
    return a, b, f"callable-attr:{kind}", "repr(x.x(3))"


def gen_layout_pair(rng, kind: str):
    """(A, B, same): kind 'layout' = equal content in two different memory layouts (must hash EQUAL);
    kind 'raw' = different contents with an identical raw buffer (must hash DIFFERENT)."""
    import numpy as np

    for _ in range(200):
        n = gen_ndarray(rng)
        if n["k"] != "ndarray" or not n["shape"] or int(np.prod(n["shape"])) == 0:
            continue
        if kind == "layout":
            l1, l2 = rng.sample(LAYOUTS, 2)
            return {**n, "layout": l1}, {**n, "layout": l2}, True
        tw = raw_buffer_twin(n)
        if tw is not None:
            return tw[0], tw[1], False
    raise RuntimeError("no array pair found")


FUNC_BODIES = [
    (["x"], ["return x + 1"]),
    (["x"], ["return x + 2"]),
    (["x"], ["y = x * 2", "return y"]),
    (["x"], ["y = x * 2", "return y + 1"]),
    (["x", "y"], ["return x + y"]),
    (["y", "x"], ["return x + y"]),
    (["x", "y"], ["return x - y"]),
    (["x"], ["if x:", "    return 1", "return 0"]),
    (["x"], ["return 'a'"]),
    (["x"], ["return b'a'"]),
]


def gen_func(rng, allow_lambda=True):
    r = rng.random()
    if allow_lambda and r < 0.12:
        return {"k": "func", "name": "f", "params": ["x"], "body": [rng.choice(["x * 2", "x * 3", "x + 1"])], "lambda": True}
    params, body = rng.choice(FUNC_BODIES)
    s = {"k": "func", "name": rng.choice(["f", "g"]), "params": list(params), "body": list(body)}
    if rng.random() < 0.3:
        s["annots"] = {params[0]: rng.choice(["int", "str"])}
    if rng.random() < 0.2:
        s["mode"] = "exec"
    elif rng.random() < 0.3:
        s["closure"] = {"k": _i(rng.choice([1, 2, 100]))}
        s["body"] = [ln.replace("+ 1", "+ k") for ln in s["body"]]
    return s


def gen_value(rng, depth: int, names: list | None = None, allow=None):
    """typed value grammar: depth <= 4, width <= 4.  `names` = shared sub-objects that may be referenced."""
    names = names if names is not None else []
    r = rng.random()
    if depth <= 0 or r < 0.3:
        r2 = rng.random()
        if r2 < 0.7:
            return gen_scalar(rng)
        if r2 < 0.8:
            return gen_ndarray(rng)
        if r2 < 0.86:
            return {"k": "type", "v": rng.choice(TYPE_EXPRS)}
        if r2 < 0.9:
            return gen_func(rng)
        if r2 < 0.93:
            return gen_partial(rng, min(depth, 1) + 1) if rng.random() < 0.5 else gen_method(rng, min(depth, 1) + 1)
        if r2 < 0.96:
            return {"k": "path", "cls": rng.choice(["PosixPath", "PurePosixPath"]), "v": rng.choice(["/a", "/a/b", "rel/x", "/a b"])}
        return {"k": "enum", "v": rng.choice(["RED", "GREEN"])}
    if names and rng.random() < 0.15:
        return {"k": "use", "name": rng.choice(names)}
    w = rng.randint(0, 4)
    kind = rng.choice(["list", "list", "tuple", "tuple", "dict", "dict", "set", "frozenset", "obj", "obj", "def"])
    if kind in ("list", "tuple"):
        return {"k": kind, "xs": [gen_value(rng, depth - 1, names) for _ in range(w)]}
    if kind in ("set", "frozenset"):
        kk = rng.choice(["str", "int", "bytes", "float", "tuple", "frozenset", "mixed"])
        if kk == "tuple":
            ek = rng.choice(["str", "int"])
            xs = [{"k": "tuple", "xs": [gen_key(rng, ek) for _ in range(rng.randint(1, 2))]} for _ in range(w)]
        elif kk == "frozenset":  # sets of sets (incomparable ones included): ordered by digest since fix 847ae56e
            xs = [{"k": "frozenset", "xs": [gen_key(rng, rng.choice(["str", "int"])) for _ in range(rng.randint(0, 2))]} for _ in range(w)]
        elif kk == "mixed":  # elements that Python's < cannot compare
            xs = [gen_scalar(rng) for _ in range(w)]
            xs = [x for x in xs if not (x["k"] == "float" and x["bits"] in (_bits(float("nan")),))]
        else:
            xs = [gen_key(rng, kk) for _ in range(w)]
        return {"k": kind, "xs": xs}
    if kind == "dict":
        kk = rng.choice(["str", "str", "int", "bytes", "mixed"])
        if kk == "mixed":  # keys that Python's < cannot compare: ordered by representation since fix e8ebe74c
            return {"k": "dict", "items": [[gen_key(rng), gen_value(rng, depth - 1, names)] for _ in range(w)]}
        return {"k": "dict", "items": [[gen_key(rng, kk), gen_value(rng, depth - 1, names)] for _ in range(w)]}
    if kind == "obj":
        cls = rng.choice(sorted(OBJ_CLASSES))
        kw = {"x": gen_value(rng, depth - 1, names), "y": gen_value(rng, depth - 1, names)}
        if cls in UNHASHED_FIELDS and rng.random() < 0.5:
            kw["note"] = gen_scalar(rng)
        return {"k": "obj", "cls": cls, "kw": kw}
    # a shared sub-object: defined once, used again later in the enclosing structure
    name = f"s{len(names)}_{rng.randrange(10**9)}"  # unique also when definitions nest
    inner = {"k": rng.choice(["list", "tuple", "dict"]), "xs": [gen_value(rng, depth - 2, names) for _ in range(rng.randint(0, 3))]}
    if inner["k"] == "dict":
        inner = {"k": "dict", "items": [[_s(f"k{j}"), x] for j, x in enumerate(inner["xs"])]}
    names.append(name)
    return {"k": "list", "xs": [{"k": "def", "name": name, "v": inner}, {"k": "use", "name": name}] + [gen_value(rng, depth - 2, names) for _ in range(rng.randint(0, 2))]}


def gen_partial(rng, depth=1):
    """functools.partial of a generated function (or of a builtin) with positional and keyword arguments"""
    func = {"k": "type", "v": "int"} if rng.random() < 0.25 else gen_func(rng, allow_lambda=False)
    return {
        "k": "partial",
        "func": func,
        "xs": [gen_value(rng, depth - 1) for _ in range(rng.randint(0, 2))],
        "kw": {n: gen_scalar(rng) for n in rng.sample(["y", "base", "flag"], rng.randint(0, 2))},
    }


def gen_method(rng, depth=1):
    """a method bound to a generated instance"""
    cls = rng.choice(["PlainA", "PlainB", "PlainDunder"])
    return {"k": "method", "obj": {"k": "obj", "cls": cls, "kw": {"x": gen_value(rng, depth - 1), "y": gen_scalar(rng)}}}


def gen_cyclic(rng):
    """small cyclic values (lists / dicts / objects referring to themselves or to each other)"""
    r = rng.randint(0, 3)
    if r == 0:
        return {"k": "list", "name": "c0", "xs": [_i(rng.randint(0, 3)), {"k": "use", "name": "c0"}]}
    if r == 1:
        return {"k": "list", "name": "c0", "xs": [{"k": "list", "name": "c1", "xs": [{"k": "use", "name": "c0"}, _i(1)]}, _s("a")]}
    if r == 2:
        return {"k": "dict", "name": "c0", "items": [[_s("self"), {"k": "use", "name": "c0"}], [_s("v"), _i(rng.randint(0, 3))]]}
    return {"k": "obj", "cls": "PlainA", "name": "c0", "kw": {"x": _i(1), "y": {"k": "list", "xs": [{"k": "use", "name": "c0"}]}}}


# near-miss mutations: each returns (new spec, aspect) or None when it does not apply at the root -----------------


def _replace_random_node(rng, s, fn):
    """apply fn to one randomly chosen node for which it returns a replacement; returns (new spec, aspect) or None"""
    import copy

    s = copy.deepcopy(s)
    nodes = []

    def collect(n, setter):
        nodes.append((n, setter))
        if n["k"] in ("list", "tuple", "set", "frozenset"):
            for j in range(len(n["xs"])):
                collect(n["xs"][j], lambda v, n=n, j=j: n["xs"].__setitem__(j, v))
        elif n["k"] == "dict":
            for j in range(len(n["items"])):
                collect(n["items"][j][1], lambda v, n=n, j=j: n["items"][j].__setitem__(1, v))
        elif n["k"] == "obj":
            for nm in list(n["kw"]):
                collect(n["kw"][nm], lambda v, n=n, nm=nm: n["kw"].__setitem__(nm, v))
        elif n["k"] == "def":
            collect(n["v"], lambda v, n=n: n.__setitem__("v", v))
        elif n["k"] == "partial":
            collect(n["func"], lambda v, n=n: n.__setitem__("func", v))
            for j in range(len(n["xs"])):
                collect(n["xs"][j], lambda v, n=n, j=j: n["xs"].__setitem__(j, v))
            for nm in list(n["kw"]):
                collect(n["kw"][nm], lambda v, n=n, nm=nm: n["kw"].__setitem__(nm, v))
        elif n["k"] == "method":
            collect(n["obj"], lambda v, n=n: n.__setitem__("obj", v))

    box = [s]
    collect(s, lambda v: box.__setitem__(0, v))
    rng.shuffle(nodes)
    for n, setter in nodes:
        r = fn(n)
        if r is not None:
            new, aspect = r
            setter(new)
            return box[0], aspect
    return None


_HASHABLE = {"none", "bool", "int", "float", "complex", "str", "bytes", "path", "enum", "type"}


def hashable(s) -> bool:
    if s["k"] in _HASHABLE:
        return True
    if s["k"] in ("tuple", "frozenset"):
        return all(hashable(x) for x in s["xs"])
    return False


def valid(s) -> bool:
    """set elements and dict keys must be hashable Python values"""
    for n in walk(s):
        if n["k"] in ("set", "frozenset") and not all(hashable(x) for x in n["xs"]):
            return False
        if n["k"] == "dict" and not all(hashable(kv[0]) for kv in n["items"]):
            return False
        if n["k"] == "partial" and not (
            n["func"]["k"] == "func" or (n["func"]["k"] == "type" and n["func"]["v"] in CALLABLE_TYPE_EXPRS)
        ):
            return False  # functools.partial needs a callable
        if n["k"] == "method" and not (n["obj"]["k"] == "obj" and n["obj"]["cls"] in METHOD_CLASSES):
            return False
    return True


def _ck(x) -> str:
    """canonical key of a sub-spec (a sub-spec that uses a name defined elsewhere compares unequal to everything)"""
    try:
        return canon_key(x)
    except KeyError:
        return "<open:%d>" % id(x)


def mutate(rng, s):
    """(spec', aspect, same) — a near miss of s: exactly one semantic aspect changed (same=False), or a change
    that must NOT affect the hash (same=True: insertion order, identity, unhashed attribute, function name/annotation)."""
    import copy

    def leaf(n):
        k = n["k"]
        if k == "int":
            v = int(n["v"])
            return rng.choice([(_i(v + 1), "leaf"), (_f(float(v)) if abs(v) < 2**53 else _i(v + 1), "type:int->float"), (_s(str(v)), "type:int->str"), ({"k": "bool", "v": bool(v)}, "type:int->bool") if v in (0, 1) else (_i(-v - 1), "leaf")])
        if k == "bool":
            return rng.choice([({"k": "bool", "v": not n["v"]}, "leaf"), (_i(int(n["v"])), "type:bool->int"), (_s(str(bool(n["v"]))), "type:bool->str")])
        if k == "none":
            return rng.choice([(_s("None"), "type:none->str"), (_i(0), "type:none->int"), ({"k": "bool", "v": False}, "type:none->bool")])
        if k == "float":
            b = int(n["bits"])
            return rng.choice([({"k": "float", "bits": str(b ^ 1)}, "leaf"), ({"k": "float", "bits": str(b ^ (1 << 63))}, "leaf:sign"), ({"k": "complex", "re": str(b), "im": "0"}, "type:float->complex")])
        if k == "complex":
            return ({"k": "complex", "re": n["im"], "im": n["re"]}, "leaf") if n["re"] != n["im"] else ({"k": "complex", "re": n["re"], "im": str(int(n["im"]) ^ 1)}, "leaf")
        if k == "str":
            return rng.choice([(_s(n["v"] + "x"), "leaf"), ({"k": "bytes", "hex": n["v"].encode().hex()}, "type:str->bytes"), (_s(n["v"][:-1]), "leaf") if n["v"] else (_s(" "), "leaf")])
        if k == "bytes":
            return rng.choice([({"k": "bytes", "hex": n["hex"] + "00"}, "leaf"), (_s(bytes.fromhex(n["hex"]).decode("latin1")), "type:bytes->str")])
        if k == "path":
            return rng.choice([({**n, "v": n["v"] + "x"}, "leaf"), ({**n, "cls": "PurePosixPath" if n["cls"] == "PosixPath" else "PosixPath"}, "type:path-class"), (_s(n["v"]), "type:path->str")])
        if k == "enum":
            return ({"k": "enum", "v": "GREEN" if n["v"] == "RED" else "RED"}, "leaf")
        if k == "type":
            other = rng.choice([t for t in TYPE_EXPRS if t != n["v"]])
            return ({"k": "type", "v": other}, "type-expr")
        if k == "ndarray":
            return mutate_ndarray(rng, n)
        if k == "npscalar":
            import numpy as np

            if len(n["hex"]) == 16 and n["dtype"] in ("int64", "float64"):
                return ({**n, "dtype": "float64" if n["dtype"] == "int64" else "int64"}, "dtype")
            return ({"k": "ndarray", "dtype": n["dtype"], "shape": [], "hex": n["hex"]}, "type:npscalar->0d-array")
        if k == "func":
            return mutate_func(rng, n)
        return None

    def structure(n):
        k = n["k"]
        if k in ("list", "tuple"):
            xs = n["xs"]
            opts = [({**n, "k": "tuple" if k == "list" else "list"}, "type:list<->tuple")]
            opts.append(({**n, "xs": xs + [{"k": "none"}]}, "length"))
            if xs:
                opts.append(({**n, "xs": [{"k": "list", "xs": xs}]}, "nesting:wrap"))
                opts.append(({**n, "xs": xs[:-1] + [{"k": k, "xs": [xs[-1]]}]}, "nesting:wrap-last"))
            if len(xs) >= 2 and _ck(xs[0]) != _ck(xs[1]):
                opts.append(({**n, "xs": [xs[1], xs[0]] + xs[2:]}, "order:sequence"))
            if len(xs) >= 2:
                opts.append(({**n, "xs": [{"k": k, "xs": xs[:1]}, {"k": k, "xs": xs[1:]}]}, "nesting:split"))
            if xs and xs[0]["k"] in ("list", "tuple") and "name" not in xs[0]:
                opts.append(({**n, "xs": xs[0]["xs"] + xs[1:]}, "nesting:flatten"))
            return rng.choice(opts)
        if k in ("set", "frozenset"):
            opts = [({**n, "k": "frozenset" if k == "set" else "set"}, "type:set<->frozenset")]
            opts.append(({"k": "list" if k == "set" else "tuple", "xs": n["xs"]}, "type:set->sequence"))
            return rng.choice(opts)
        if k == "dict":
            it = n["items"]
            opts = []
            if len(it) >= 2 and _ck(it[0][1]) != _ck(it[1][1]) and _ck(it[0][0]) != _ck(it[1][0]):
                opts.append(({**n, "items": [[it[0][0], it[1][1]], [it[1][0], it[0][1]]] + it[2:]}, "dict:values-swapped"))
            if it and all(kv[0]["k"] == "str" and kv[0]["v"] in ("x", "y") for kv in it):
                pass
            if it:
                opts.append(({**n, "items": it[:-1]}, "dict:item-dropped") if len({_ck(kv[0]) for kv in it}) == len(it) else None)
                opts.append(({"k": "list", "xs": [{"k": "tuple", "xs": [kv[0], kv[1]]} for kv in it]}, "type:dict->items"))
            opts.append(({**n, "items": it + [[_s("zz_new"), {"k": "none"}]]}, "dict:item-added") if all(kv[0]["k"] == "str" for kv in it) else None)
            opts = [o for o in opts if o]
            return rng.choice(opts) if opts else None
        if k == "partial":
            opts = [({**n, "xs": n["xs"] + [{"k": "none"}]}, "partial:arg-added")]
            if n["xs"]:
                opts.append(({**n, "xs": n["xs"][:-1]}, "partial:arg-dropped"))
            if n["kw"]:
                nm = sorted(n["kw"])[0]
                opts.append(({**n, "kw": {a: v for a, v in n["kw"].items() if a != nm}}, "partial:keyword-dropped"))
                opts.append(({**n, "kw": {("z" + a if a == nm else a): v for a, v in n["kw"].items()}}, "partial:keyword-renamed"))
            else:
                opts.append(({**n, "kw": {"y": {"k": "int", "v": "1"}}}, "partial:keyword-added"))
            return rng.choice(opts)
        if k == "method":
            return ({"k": "partial", "func": {"k": "type", "v": "int"}, "xs": [], "kw": {}}, "type:method->partial")
        if k == "obj":
            other = {"AttrsA": "AttrsB", "AttrsB": "AttrsA", "SlotsA": "SlotsB", "SlotsB": "SlotsA", "PlainA": "PlainB", "PlainB": "PlainA", "AttrsDict": "PlainA", "PlainDunder": "PlainA"}[n["cls"]]
            opts = [({**n, "cls": other}, "type:class-name")]
            opts.append(({"k": "dict", "items": [[_s(a), v] for a, v in n["kw"].items() if a in ("x", "y")]}, "type:obj->dict"))
            if _ck(n["kw"]["x"]) != _ck(n["kw"]["y"]):
                opts.append(({**n, "kw": {**n["kw"], "x": n["kw"]["y"], "y": n["kw"]["x"]}}, "obj:fields-swapped"))
            return rng.choice(opts)
        return None

    def harmless(n):
        k = n["k"]
        if k in ("set", "frozenset") and len(n["xs"]) >= 2:
            xs = list(n["xs"])
            rng.shuffle(xs)
            return ({**n, "xs": xs}, "same:set-build-order")
        if k == "dict" and len(n["items"]) >= 2 and len({_ck(kv[0]) for kv in n["items"]}) == len(n["items"]):
            it = list(n["items"])
            rng.shuffle(it)
            return ({**n, "items": it}, "same:dict-insertion-order")
        if k == "obj" and n["cls"] in UNHASHED_FIELDS:
            return ({**n, "kw": {**n["kw"], "note": _s("changed")}}, "same:attrs-eq-false-field")
        if k == "func" and not n.get("lambda"):
            if rng.random() < 0.5:
                return ({**n, "name": "g" if n.get("name", "f") == "f" else "f"}, "same:function-name")
            return ({**n, "annots": {n["params"][0]: "float"}}, "same:function-annotation")
        if k == "ndarray" and len(n["shape"]) >= 1:
            return ({**n, "layout": rng.choice([l for l in LAYOUTS if l != n.get("layout", "C")])}, "same:array-layout")
        if k == "use":
            return None
        return None

    r = rng.random()
    order = [leaf, structure] if r < 0.5 else [structure, leaf]
    if r > 0.8:
        got = _replace_random_node(rng, s, harmless)
        if got:
            return got[0], got[1], True
        # identity only: rebuild an equal, separately constructed value (def/use unshared)
        return unshare(copy.deepcopy(s)), "same:rebuilt-unshared", True
    for fn in order:
        got = _replace_random_node(rng, s, fn)
        if got:
            return got[0], got[1], False
    return None


def unshare(s, env=None):
    """replace every `use` by a copy of the definition (acyclic specs only): same content, no shared identity"""
    import copy

    env = {} if env is None else env
    if s["k"] == "def":
        v = unshare(s["v"], env)
        env[s["name"]] = v
        return v
    if s["k"] == "use":
        return copy.deepcopy(env[s["name"]]) if s["name"] in env else s
    if "xs" in s:
        s["xs"] = [unshare(x, env) for x in s["xs"]]
    if "items" in s:
        s["items"] = [[kv[0], unshare(kv[1], env)] for kv in s["items"]]
    if "kw" in s:
        s["kw"] = {n: unshare(v, env) for n, v in s["kw"].items()}
    if s["k"] == "partial":
        s["func"] = unshare(s["func"], env)
    if s["k"] == "method":
        s["obj"] = unshare(s["obj"], env)
    return s


def mutate_ndarray(rng, n):
    import numpy as np

    shape, dt, data = list(n["shape"]), n["dtype"], bytes.fromhex(n["hex"])
    size = int(np.prod(shape)) if shape else 1
    opts = []
    # same bytes, other shape
    for alt in ([size], [1, size], [size, 1], list(reversed(shape)), [2, size // 2] if size % 2 == 0 and size else None):
        if alt is not None and alt != shape and int(np.prod(alt)) == size:
            opts.append(({**n, "shape": alt}, "shape"))
    # same bytes, other dtype of the same item size
    same_size = {8: ["int64", "float64", "uint64"], 4: ["int32", "float32", "uint32"], 2: ["int16", "uint16", "float16"], 1: ["uint8", "int8", "bool"], 16: ["complex128"]}
    isz = np.dtype(dt).itemsize
    for alt in same_size.get(isz, []):
        if alt != dt and not (alt == "bool" and any(b > 1 for b in data)):
            opts.append(({**n, "dtype": alt}, "dtype"))
    if data:
        opts.append(({**n, "hex": (bytes([data[0] ^ 1]) + data[1:]).hex()}, "leaf:array-element") if dt != "bool" else None)
    opts.append(({"k": "bytes", "hex": n["hex"]}, "type:ndarray->bytes"))
    opts = [o for o in opts if o]
    return rng.choice(opts)


def mutate_func(rng, n):
    if n.get("lambda"):
        alt = [b for b in ["x * 2", "x * 3", "x + 1"] if b != n["body"][0]]
        return ({**n, "body": [rng.choice(alt)]}, "function:lambda-body")
    alts = [(p, b) for p, b in FUNC_BODIES if (list(p), [ln.replace("+ 1", "+ k") if n.get("closure") else ln for ln in b]) != (n["params"], n["body"])]
    p, b = rng.choice(alts)
    if n.get("closure"):
        b = [ln.replace("+ 1", "+ k") for ln in b]
    return ({**n, "params": list(p), "body": list(b), "annots": {}}, "function:body-or-params")


# --------------------------------------------------------------------------------------------------------------
# child processes (fresh interpreters with their own PYTHONHASHSEED)

CHILD_CMD = [core.PY, "-m", "harness.engines.hashing", "child"]


def run_child(jobs: list[dict], seed: int, moddir: Path, timeout: int = 600) -> list[dict]:
    """jobs: {"spec":…, "pickle": bool, "want_case": bool}; answers: {"hex": … , "case": …|None}"""
    env = core.impl_env({"PYTHONHASHSEED": seed, "VERIF_HASH_MODDIR": str(moddir), "VERIF_CNT": str(Path(moddir).parent / "count.txt")})
    inp = "".join(json.dumps(j) + "\n" for j in jobs)
    p = subprocess.run(CHILD_CMD, input=inp, capture_output=True, text=True, env=env, cwd=str(core.VERIF), timeout=timeout)
    lines = [l for l in p.stdout.splitlines() if l.startswith("{")]
    if p.returncode != 0 or len(lines) != len(jobs):
        raise RuntimeError(f"hash child (seed {seed}) failed rc={p.returncode}: {len(lines)}/{len(jobs)} answers\n{p.stderr[-1500:]}")
    return [json.loads(l) for l in lines]


def child_main():
    core.assert_repo_loaded()
    moddir = Path(os.environ["VERIF_HASH_MODDIR"])
    hc = moddir.parent / "hashcache"
    hc.mkdir(parents=True, exist_ok=True)
    os.environ.setdefault("PYDRA_HASH_CACHE", str(hc))
    out = sys.stdout
    for line in sys.stdin:
        line = line.strip()
        if not line:
            continue
        job = json.loads(line)
        try:
            b = Builder(moddir)
            if "task" in job:
                ans = child_task(job, b)
            else:
                v = b.build(job["spec"])
                if job.get("pickle"):
                    import cloudpickle as cp

                    v = cp.loads(cp.dumps(v))
                ans = {"hex": impl_hash(v), "case": to_case(v) if job.get("want_case") else None}
        except Exception as e:  # the child must answer every job
            ans = {"hex": "!child:" + core.exc_tag(e), "case": None, "detail": str(e)[:300]}
        out.write(json.dumps(ans) + "\n")
        out.flush()


# --------------------------------------------------------------------------------------------------------------
# BLAKE2b of the driver vs hashlib


def validate_blake2b(ctx, n: int = 40) -> bool:
    """The driver's H (Lean BLAKE2b, digest_size/person from Gen/HashLits) against hashlib on random inputs.
    Switches the model off (MODEL_OFF) when the extractor or the driver is unavailable."""
    global MODEL_OFF
    MODEL_OFF = False
    d = safe_extract()
    if d is None:
        MODEL_OFF = True  # the extraction failure itself is already recorded as a broken tie by the framework
        ctx.model_ok = False
        return False
    msgs = [b"", b"abc", bytes(range(256)), b"\x00" * 127, b"\x00" * 128, b"\x00" * 129, b"a" * 255, b"a" * 256, b"a" * 257]
    while len(msgs) < n:
        msgs.append(bytes(ctx.rng.randrange(256) for _ in range(ctx.rng.choice([1, 7, 16, 63, 64, 65, 100, 200, 300, 1000]))))
    ans = ctx.driver("Hash", [{"op": "blake2b", "hex": m.hex()} for m in msgs])
    if ans is None:
        MODEL_OFF = True
        return False
    bad = [
        m.hex()[:40]
        for m, a in zip(msgs, ans)
        if a.get("hex") != hashlib.blake2b(m, digest_size=d["digest_size"], person=d["lits"]["person"]).hexdigest()
    ]
    ctx.extra["blake2b_validated_on"] = len(msgs)
    if bad:
        MODEL_OFF = True
        ctx.model_ok = False
        ctx.tie_broken.append({"kind": "model-driver", "engine": "Hash", "detail": f"Lean BLAKE2b differs from hashlib on {bad[:3]}"})
        return False
    return True


# --------------------------------------------------------------------------------------------------------------
# tasks (C06 / C07): task specs, builders, the model's view of a task, and the child-side runner


def task_def_case(t):
    """The Lean model's view of what `_compute_hashes` looks at: {"ttype", "fields": [{name, value|null, out, container_path}],
    "outputs": case}.  None when some value is outside the model."""
    import attrs as _attrs

    from pydra.compose.base import Out
    from pydra.utils.general import get_fields

    c = Caser()
    fields = []
    try:
        for f in get_fields(t):
            v = getattr(t, f.name)
            fields.append(
                {
                    "name": f.name,
                    "value": None if v is _attrs.NOTHING else c.case(v),
                    "out": isinstance(f, Out),
                    "container_path": bool(getattr(f, "container_path", False)),
                }
            )
        return {"ttype": t._task_type(), "fields": fields, "outputs": c.case(t.Outputs)}
    except Unsupported:
        return None


PY_TASK_HEAD = "import os\nimport typing as ty\nfrom pydra.compose import python, shell, workflow\n\n"


def python_task_source(s) -> str:
    """{"kind":"python","params":[names],"body":[lines],"ret":"int","closure":{var: int}|None,"globals":{var:int}|None,"name":str}
    The body may use COUNT() to record one execution in the file named by $VERIF_CNT."""
    params = ", ".join(f"{p}: ty.Any" for p in s["params"])
    body = "\n".join("    " + ln for ln in s["body"])
    glob = "".join(f"{g} = {v!r}\n" for g, v in (s.get("globals") or {}).items())
    fn = f"@python.define\ndef {s.get('name', 'T')}({params}) -> {s.get('ret', 'ty.Any')}:\n    COUNT()\n{body}\n"
    count = "def COUNT():\n    with open(os.environ['VERIF_CNT'], 'a') as f:\n        f.write('x')\n\n\n"
    if s.get("closure"):
        fn = "".join("    " + ln + "\n" for ln in fn.splitlines())
        return PY_TASK_HEAD + count + glob + f"def make({', '.join(s['closure'])}):\n{fn}    return {s.get('name', 'T')}\n"
    return PY_TASK_HEAD + count + glob + fn


def _module_from_source(src: str, moddir: Path, prefix="vt_"):
    name = prefix + hashlib.sha1(src.encode()).hexdigest()[:16]
    moddir.mkdir(parents=True, exist_ok=True)
    f = moddir / f"{name}.py"
    if not f.exists():
        f.write_text(src)
    if str(moddir) not in sys.path:
        sys.path.insert(0, str(moddir))
    importlib.invalidate_caches()
    if name in sys.modules:
        return sys.modules[name]
    return importlib.import_module(name)


def build_task(s, b: "Builder"):
    """task spec -> task object (class built through the public API)"""
    kind = s["kind"]
    inputs = {n: b.build(v) for n, v in (s.get("inputs") or {}).items()}
    if kind == "python":
        mod = _module_from_source(python_task_source(s), b.moddir)
        for g, v in (s.get("globals") or {}).items():
            setattr(mod, g, v)
        cls = mod.make(*s["closure"].values()) if s.get("closure") else getattr(mod, s.get("name", "T"))
        return cls(**inputs)
    if kind == "shell":
        from pydra.compose import shell

        ins = []
        for f in s["fields"]:
            kw = {k: v for k, v in f.items() if k not in ("formatter", "type")}
            kw["type"] = eval(f.get("type", "str"), {"ty": ty})
            if f.get("formatter"):
                kw["formatter"] = getattr(_module_from_source(FORMATTERS_SRC, b.moddir, "vf_"), f["formatter"])
            ins.append(shell.arg(**kw))
        cls = shell.define(s["exe"], inputs=ins, xor=[list(g) for g in s.get("xor", [])] or None, name=s.get("name", "S")) if s.get("xor") else shell.define(s["exe"], inputs=ins, name=s.get("name", "S"))
        t = cls(**inputs)
        if s.get("split"):
            t = t.split(**{n: b.build(v) for n, v in s["split"].items()})
        return t
    if kind == "workflow":
        mod = _module_from_source(WORKFLOW_SRC, b.moddir, "vw_")
        return mod.make(s["n"])(**inputs)
    raise ValueError(kind)


FORMATTERS_SRC = "def fmt_x(p):\n    return f'-x {p}'\n\n\ndef fmt_y(p):\n    return f'-y {p}'\n"

WORKFLOW_SRC = (
    PY_TASK_HEAD
    + "@python.define\ndef Inc(x: int) -> int:\n    return x + 1\n\n\n"
    + "def make(n):\n    @workflow.define\n    def V(x: int) -> int:\n        cur = x\n        for i in range(n):\n"
    + "            node = workflow.add(Inc(x=cur), name=f'n{i}')\n            cur = node.out\n        return cur\n\n    return V\n"
)


def run_task(t, cache_root: Path, worker: str = "debug"):
    """run a task; returns (outputs as canonical dict | '!Exc', error detail)"""
    try:
        o = t(cache_root=cache_root, worker=worker)
    except Exception as e:
        return "!" + core.exc_tag(e), str(e)[:300]
    from pydra.utils.general import get_fields

    out = {}
    for f in get_fields(o):
        v = getattr(o, f.name)
        if f.name in ("stderr", "return_code"):
            continue
        out[f.name] = v if isinstance(v, (int, str, bool, type(None))) else repr(v)
    return out, ""


def job_dirs(cache_root: Path) -> list[str]:
    p = Path(cache_root)
    if not p.exists():
        return []
    return sorted(d.name for d in p.iterdir() if d.is_dir() and re.match(r"^[a-z]+-[0-9a-f]{32}$", d.name))


def child_task(job, b: "Builder"):
    """job: {"task": spec, "run": {"cache_root": str, "worker": str}|None, "hash_value": bool, "want_case": bool}"""
    hc = Path(os.environ["VERIF_HASH_MODDIR"]).parent / "hashcache"
    hc.mkdir(exist_ok=True)
    os.environ["PYDRA_HASH_CACHE"] = str(hc)
    t = build_task(job["task"], b)
    ans = {"hex": None, "case": None}
    try:
        ans["checksum"] = t._checksum
    except Exception as e:
        ans["checksum"] = "!" + core.exc_tag(e)
    if job.get("hash_value"):
        ans["hex"] = impl_hash(t)
        if job.get("want_case"):
            ans["case"] = to_case(t)
    if job.get("want_def"):
        ans["def"] = task_def_case(t)
    if job.get("run"):
        cnt = Path(os.environ["VERIF_CNT"])
        before = len(cnt.read_text()) if cnt.exists() else 0
        out, detail = run_task(t, Path(job["run"]["cache_root"]), job["run"].get("worker", "debug"))
        ans["out"] = out
        ans["detail"] = detail
        ans["executions"] = (len(cnt.read_text()) if cnt.exists() else 0) - before
        ans["dirs"] = job_dirs(Path(job["run"]["cache_root"]))
    return ans


if __name__ == "__main__":
    if len(sys.argv) > 1 and sys.argv[1] == "child":
        # run the *imported* module, so that the classes of the object grammar live in `harness.engines.hashing` (as in the
        # parent) and not in `__main__`: the qualified class name is part of the hash
        from harness.engines import hashing as _self

        _self.child_main()
