"""Shared generator / implementation runner / oracle for engine StateAlg (C01, C02, C04, C05).

Splitter trees are JSON-able:  {"f": i} | {"o": [T, …]} | {"i": [T, …]}   (i = index into FIELDS; "o" = Python list,
"i" = Python tuple).  A case is

    {"splitter": T, "fields": [[i, value, container_ndim], …], "combiner": [i, …]}

Two implementation entry points are observed:
  (a) state_level(case):  State(...).prepare_states(...)            → states_val (+ internals, fidelity only)
  (b) public_level(case, root): Probe(...).split(...).combine(...)(cache_root=root, worker="debug")
                                                                    → outputs (= the inputs every job saw), task job dirs,
                                                                      number of task-body executions
The oracle (`oracle_*`) is a few lines of nested loops / group-by, independent of the Lean model.
"""

from __future__ import annotations

import itertools
import os
import typing as ty
from pathlib import Path

from harness import core

FIELDS = ["a", "b", "c", "d", "e", "f"]
NODE = "n"  # State name used at the State level
BASE = {i: -(i + 1) for i in range(len(FIELDS))}  # value of a field that is not split
Z = 99  # an input that is never split

BODY_CALLS: list = []  # the debug worker runs bodies in this process


# Elements that are not integers travel through the JSON cases (and the Lean model, which only looks at positions) as
# reserved integers; the implementation receives the real Python values.  None and the falsy values are what matters:
# a job must receive exactly the matching element whatever its truth value.
ALPHABET = {9001: None, 9002: 0, 9003: "", 9004: False, 9005: [], 9006: {}}


def decode(v):
    """reserved integers -> the Python values they stand for (recursively through lists)"""
    if isinstance(v, list):
        return [decode(x) for x in v]
    if isinstance(v, int) and not isinstance(v, bool) and v in ALPHABET:
        import copy

        return copy.deepcopy(ALPHABET[v])
    return v


def canon(v):
    """type-tagged canonical form of a value (so that False != 0, None != '' …); lists stay lists, an empty list that is an
    element is tagged like a list"""
    if isinstance(v, (list, tuple)):
        return [canon(x) for x in v]
    if v is None or isinstance(v, (bool, str, dict)):
        return f"{type(v).__name__}:{v!r}"
    return v


class Reject(Exception):
    """the reference semantics rejects the request (inner product of unequal shapes)"""


# ---------------------------------------------------------------------------------------------------------------
# trees


def F(i):
    return {"f": i}


def O(*ts):
    return {"o": list(ts)}


def I(*ts):
    return {"i": list(ts)}


def kind(t):
    return next(iter(t))


def tree_fields(t) -> list[int]:
    k = kind(t)
    if k == "f":
        return [t["f"]]
    return [x for c in t[k] for x in tree_fields(c)]


def tree_wf(t) -> bool:
    k = kind(t)
    return True if k == "f" else (len(t[k]) > 0 and all(tree_wf(c) for c in t[k]))


def tree_depth(t) -> int:
    k = kind(t)
    return 0 if k == "f" else 1 + max((tree_depth(c) for c in t[k]), default=0)


def to_py(t, prefix=""):
    """the splitter as the user writes it (lists / tuples / str)"""
    k = kind(t)
    if k == "f":
        return prefix + FIELDS[t["f"]]
    items = [to_py(c, prefix) for c in t[k]]
    return items if k == "o" else tuple(items)


def show(t) -> str:
    return repr(to_py(t))


def gen_tree(rng, fields: list[int], max_depth: int = 4, p_single: float = 0.15):
    """random n-ary tree over the given fields (left to right), depth <= max_depth, with one-element lists/tuples"""

    def build(fs, depth):
        if len(fs) == 1:
            t = F(fs[0])
        elif depth <= 1:
            t = {rng.choice("oi"): [F(x) for x in fs]}
        else:
            # split fs into k >= 2 consecutive groups
            k = rng.randint(2, len(fs))
            cuts = sorted(rng.sample(range(1, len(fs)), k - 1))
            groups = [fs[i:j] for i, j in zip([0] + cuts, cuts + [len(fs)])]
            t = {rng.choice("oi"): [build(g, depth - 1) for g in groups]}
        # singleton wrappers (only where the depth budget allows)
        while rng.random() < p_single and tree_depth(t) < depth:
            t = {rng.choice("oi"): [t]}
        return t

    return build(list(fields), max_depth)


def singleton_ok(t, after: bool = False) -> bool:
    """no one-element list/tuple at a position i > 0 of an enclosing node (those hit defect D33)"""
    k = kind(t)
    if k == "f":
        return True
    cs = t[k]
    if len(cs) == 1:
        return (not after) and singleton_ok(cs[0], after)
    return all(singleton_ok(c, i > 0) for i, c in enumerate(cs))


def fix_singletons(t, after: bool = False):
    """unwrap the one-element nodes that sit at a position i > 0"""
    k = kind(t)
    if k == "f":
        return t
    cs = t[k]
    if len(cs) == 1:
        return fix_singletons(cs[0], after) if after else {k: [fix_singletons(cs[0], after)]}
    return {k: [fix_singletons(c, i > 0) for i, c in enumerate(cs)]}


def all_trees(fields: list[int]):
    """every n-ary tree (no singleton wrappers) over the fields in the given order"""
    if len(fields) == 1:
        yield F(fields[0])
        return
    n = len(fields)
    for k in range(2, n + 1):
        for cuts in itertools.combinations(range(1, n), k - 1):
            groups = [fields[i:j] for i, j in zip((0,) + cuts, cuts + (n,))]
            for subs in itertools.product(*[list(all_trees(g)) for g in groups]):
                for op in "oi":
                    # a child with the same operator would be a re-bracketing; keep them: they are distinct spellings
                    yield {op: list(subs)}


def ndims(t) -> int:
    """number of axes of a tree whose fields are all one-dimensional"""
    k = kind(t)
    if k == "f":
        return 1
    if k == "o":
        return sum(ndims(c) for c in t[k])
    return ndims(t[k][0]) if t[k] else 0


# ---------------------------------------------------------------------------------------------------------------
# values


def leaves_at(v, n):
    """elements of the nested list v found at depth n, depth first"""
    if n == 0:
        return [v]
    out = []
    for x in v:
        if isinstance(x, list):
            out += leaves_at(x, n - 1)
        else:
            out.append(x)
    return out


def dims_of(v, n):
    """dimensions of v if it is rectangular down to depth n, else None"""
    if n <= 1:
        return [len(v)]
    if not v:
        return [0]
    subs = []
    for x in v:
        if not isinstance(x, list):
            return None
        d = dims_of(x, n - 1)
        if d is None:
            return None
        subs.append(d)
    if any(d != subs[0] for d in subs):
        return None
    return [len(v)] + subs[0]


def uniform_depth(v, n) -> bool:
    """every atom of v sits at depth >= n (so 'elements at depth n' is unambiguous)"""
    if n == 0:
        return True
    return all(isinstance(x, list) and uniform_depth(x, n - 1) for x in v)


class Counter:
    def __init__(self, start=1):
        self.v = start

    def next(self):
        self.v += 1
        return self.v - 1


def rect_value(dims: list[int], cnt: Counter):
    if len(dims) == 1:
        return [cnt.next() for _ in range(dims[0])]
    return [rect_value(dims[1:], cnt) for _ in range(dims[0])]


def ragged_value(rng, depth: int, cnt: Counter, max_len=3, min_len=0):
    """nested list, every atom at depth `depth`, inner lengths min_len..max_len chosen independently"""
    n = rng.randint(min_len, max_len)
    if depth == 1:
        return [cnt.next() for _ in range(n)]
    return [ragged_value(rng, depth - 1, cnt, max_len, min_len) for _ in range(n)]


def rand_len(rng, min_len: int, max_len: int) -> int:
    """a list length; the empty list is kept rare (it empties the whole expansion)"""
    pool = list(range(min_len, max_len + 1))
    return rng.choices(pool, weights=[1 if n == 0 else 4 for n in pool])[0]


def assign_lengths(rng, t, max_len: int, min_len: int = 0, repair: bool = True) -> dict[int, int]:
    """lengths for one-dimensional fields; with `repair` inner products get operands of equal shape where possible"""
    lens: dict[int, int] = {}

    def build(t, want):
        k = kind(t)
        if k == "f":
            n = want[0] if (want is not None and len(want) == 1) else rand_len(rng, min_len, max_len)
            lens[t["f"]] = n
            return [n]
        cs = t[k]
        if k == "o":
            if want is not None and sum(ndims(c) for c in cs) == len(want):
                out, pos = [], 0
                for c in cs:
                    d = ndims(c)
                    out += build(c, want[pos : pos + d])
                    pos += d
                return out
            out = []
            for c in cs:
                out += build(c, None)
            return out
        first = build(cs[0], want) if cs else []
        for c in cs[1:]:
            build(c, first if repair else None)
        return first

    build(t, None)
    return lens


# ---------------------------------------------------------------------------------------------------------------
# oracle: nested loops and group-by (independent of the Lean model)


def oracle_expand(t, elems: dict[int, list], shape: dict[int, list]):
    """rows (dict field -> element) in enumeration order and the shape; raises Reject on an inner shape mismatch"""
    k = kind(t)
    if k == "f":
        i = t["f"]
        return [{i: x} for x in elems[i]], list(shape[i])
    cs = t[k]
    if not cs:
        raise ValueError("empty node")
    rows, shp = oracle_expand(cs[0], elems, shape)
    for c in cs[1:]:
        rows2, shp2 = oracle_expand(c, elems, shape)
        if k == "o":
            new = []
            for r1 in rows:  # left-most slowest
                for r2 in rows2:
                    new.append({**r1, **r2})
            rows, shp = new, shp + shp2
        else:
            if shp != shp2:
                raise Reject()
            rows = [{**r1, **r2} for r1, r2 in zip(rows, rows2)]
    return rows, shp


def oracle_axes(t) -> list[list[int]]:
    k = kind(t)
    if k == "f":
        return [[t["f"]]]
    cs = t[k]
    if k == "o":
        return [ax for c in cs for ax in oracle_axes(c)]
    axes = oracle_axes(cs[0])
    for c in cs[1:]:
        axes = [a + b for a, b in zip(axes, oracle_axes(c))]
    return axes


def oracle_closure(t, comb: list[int]) -> list[int]:
    out = set()
    for ax in oracle_axes(t):
        if any(c in ax for c in comb):
            out.update(ax)
    return [x for x in tree_fields(t) if x in out]


def oracle_combine(t, comb: list[int], jobs_ind: list[dict]) -> dict:
    """{"flat": [job numbers]} or {"grouped": [[job numbers], …]}: stable group-by on the uncombined fields"""
    if not comb:
        return {"flat": list(range(len(jobs_ind)))}
    closed = oracle_closure(t, comb)
    keep = [x for x in tree_fields(t) if x not in closed]
    if not keep:
        return {"flat": list(range(len(jobs_ind)))}
    groups: dict[tuple, list[int]] = {}
    for j, row in enumerate(jobs_ind):
        groups.setdefault(tuple(row[x] for x in keep), []).append(j)
    return {"grouped": list(groups.values())}  # dict keeps first-occurrence order


def case_elems(case) -> tuple[dict, dict, dict]:
    """per field: elements (depth-ndim leaves), shape for the inner check, index range"""
    elems, shape, idx = {}, {}, {}
    for i, v, nd in case["fields"]:
        elems[i] = leaves_at(v, nd)
        d = dims_of(v, nd)
        shape[i] = d if d is not None else [len(elems[i])]
        idx[i] = list(range(len(elems[i])))
    return elems, shape, idx


def job_vector(row: dict) -> list:
    """what Probe returns for a job whose split fields are `row` (canonical form)"""
    return [canon(decode(row.get(i, BASE[i]))) for i in range(len(FIELDS))] + [Z]


def render_out(rows: list[dict], out: dict):
    """the value of `outputs.out` for jobs `rows` arranged as `out`"""
    if "flat" in out:
        return [job_vector(rows[j]) for j in out["flat"]]
    return [[job_vector(rows[j]) for j in g] for g in out["grouped"]]


def oracle_case(case) -> dict:
    """reference behaviour of a whole case: {"rejected": True} or {"rows": …, "out": …, "outputs": …}"""
    elems, shape, idx = case_elems(case)
    try:
        rows, _ = oracle_expand(case["splitter"], elems, shape)
        rows_ind, _ = oracle_expand(case["splitter"], idx, shape)
    except Reject:
        return {"rejected": True}
    out = oracle_combine(case["splitter"], case["combiner"], rows_ind)
    return {"rows": canon_rows(rows), "out": out, "outputs": render_out(rows, out), "closure": oracle_closure(case["splitter"], case["combiner"])}


def canon_rows(rows: list[dict]) -> list:
    return [[[k, canon(decode(r[k]))] for k in sorted(r)] for r in rows]


# ---------------------------------------------------------------------------------------------------------------
# model (Lean driver) side


def model_query(case) -> dict:
    return {"op": "state", "splitter": case["splitter"], "fields": case["fields"], "combiner": case["combiner"]}


def model_view(ans: dict, which: str = "model", level: str = "state") -> dict:
    """canonical observable of a driver answer: rejected, or rows + outputs"""
    m = ans[which]
    if which == "model" and level == "public" and not m.get("depth_ok", True):
        return {"rejected": True, "class": "AssertionError"}  # State.depth() inside Submitter.__call__
    if "err" in m:
        return {"rejected": True, "class": m["err"]}
    rows_key = "states_val" if which == "model" else "rows"
    rows = [{k: v for k, v in r} for r in m[rows_key]]
    return {"rows": canon_rows(rows), "out": m["out"], "outputs": render_out(rows, m["out"])}


# ---------------------------------------------------------------------------------------------------------------
# implementation side


def plain(x):
    """StateArray / tuples → plain lists"""
    if isinstance(x, (list, tuple)):
        return [plain(y) for y in x]
    return x


def state_level(case) -> dict:
    """State(...).prepare_states(...) on the case (no jobs involved)"""
    from pydra.engine.state import State

    spl = to_py(case["splitter"])
    comb = [FIELDS[c] for c in case["combiner"]]
    inputs = {f"{NODE}.{FIELDS[i]}": decode(v) for i, v, _ in case["fields"]}
    cnd = {f"{NODE}.{FIELDS[i]}": nd for i, _, nd in case["fields"] if nd != 1}
    name_ix = {f"{NODE}.{f}": i for i, f in enumerate(FIELDS)}
    try:
        st = State(NODE, splitter=spl, combiner=comb or None, container_ndim=cnd or None)
        st.prepare_states(inputs)
    except Exception as e:  # noqa: BLE001 - the class is the observable
        return {"rejected": True, "class": core.exc_tag(e)}
    rows = [{name_ix[k]: plain(v) for k, v in r.items()} for r in st.states_val]
    mapping = [list(st.final_combined_ind_mapping[g]) for g in sorted(st.final_combined_ind_mapping)]
    return {
        "rows": canon_rows(rows),
        # internals: model-fidelity information only
        "keys": [name_ix[k] for k in st.keys],
        "mapping": mapping,
        "combiner_all": sorted(name_ix[k] for k in getattr(st, "current_combiner_all", [])),
        "rpn_final": [name_ix.get(x, x) for x in st.splitter_rpn_final],
        "keys_final": [name_ix[k] for k in st.keys_final],
        "states_ind_final": [[[name_ix[k], v] for k, v in d.items()] for d in st.states_ind_final],
    }


_PROBE = None


def probe_task():
    """a python task returning all of its inputs; case data only ever enters through the inputs"""
    global _PROBE
    if _PROBE is None:
        from pydra.compose import python

        @python.define(outputs=["out"])
        def Probe(
            a: ty.Any = None, b: ty.Any = None, c: ty.Any = None, d: ty.Any = None, e: ty.Any = None, f: ty.Any = None, z: ty.Any = None
        ) -> ty.Any:
            BODY_CALLS.append(1)
            return [a, b, c, d, e, f, z]

        _PROBE = Probe
    return _PROBE


def public_level(case, root: Path, request=None) -> dict:
    """Task.split(...).combine(...)(cache_root=root, worker="debug") → outputs / rejection, task job dirs, body runs.

    `request` overrides how split/combine are called (C05's malformed requests):
        {"splitter": py splitter or None, "kwargs": {name: value}, "container_ndim": {...} or None,
         "combiner": [...] or None, "presplit": bool}
    """
    Probe = probe_task()
    root.mkdir(parents=True, exist_ok=True)
    base = {FIELDS[i]: BASE[i] for i in range(len(FIELDS))}
    if request is None:
        split_names = {FIELDS[i] for i, _, _ in case["fields"]}
        request = {
            "splitter": to_py(case["splitter"]),
            "kwargs": {FIELDS[i]: decode(v) for i, v, _ in case["fields"]},
            "container_ndim": {FIELDS[i]: nd for i, _, nd in case["fields"] if nd != 1} or None,
            "combiner": [FIELDS[c] for c in case["combiner"]] or None,
        }
    else:
        split_names = set(request["kwargs"])
    n0 = len(BODY_CALLS)
    stage = "build"
    try:
        task = Probe(z=Z, **{k: v for k, v in base.items() if k not in split_names})
        if request.get("presplit"):
            task = task.split("f", f=[1, 2])
        if request.get("do_split", True):
            extra = {"overwrite": True} if request.get("overwrite") else {}
            task = task.split(request["splitter"], container_ndim=request.get("container_ndim"), **extra, **request["kwargs"])
        if request.get("combiner") is not None:
            task = task.combine(request["combiner"])
        stage = "run"
        res = task(cache_root=root, worker="debug")
        out = {"outputs": canon(plain(res.out))}
    except Exception as e:  # noqa: BLE001
        out = {"rejected": True, "class": core.exc_tag(e), "stage": stage}
    dirs = sorted(p.name.split("-")[0] for p in root.iterdir() if p.is_dir())
    out["task_jobs"] = sum(1 for d in dirs if d not in ("workflow",))
    out["body_runs"] = len(BODY_CALLS) - n0
    return out


# ---------------------------------------------------------------------------------------------------------------
# case builders


def flat_case(rng, nfields: int, max_len: int, min_len: int = 0, repair_p: float = 0.8, max_depth: int = 4, combiner_p: float = 0.0, bad_singletons: bool = True):
    fs = rng.sample(range(len(FIELDS)), nfields)
    t = gen_tree(rng, fs, max_depth=max_depth)
    if not bad_singletons:
        t = fix_singletons(t)
    lens = assign_lengths(rng, t, max_len, min_len, repair=rng.random() < repair_p)
    cnt = Counter(1)
    fields = [[i, rect_value([lens[i]], cnt), 1] for i in tree_fields(t)]
    comb = []
    if combiner_p and rng.random() < combiner_p:
        comb = rng.sample(tree_fields(t), rng.randint(1, nfields))
    return {"splitter": t, "fields": fields, "combiner": comb}


def flat_case_from(t, lens: dict[int, int], comb=()):
    cnt = Counter(1)
    return {"splitter": t, "fields": [[i, rect_value([lens[i]], cnt), 1] for i in tree_fields(t)], "combiner": list(comb)}


def is_ragged_case(case) -> bool:
    """match rule of D3: a split field with container_ndim >= 2 whose value is not rectangular down to that depth"""
    return any(nd >= 2 and dims_of(v, nd) is None for _, v, nd in case["fields"])


def corpus(name: str) -> list[dict]:
    import json

    p = core.VERIF / "corpus" / "statealg" / name
    if not p.exists():
        return []
    return [json.loads(l) for l in p.read_text().splitlines() if l.strip() and not l.startswith("#")]


# ---------------------------------------------------------------------------------------------------------------
# batch runner shared by the property modules


class DriverJob:
    """The Lean model driver running in the background (several processes) while the implementation is exercised."""

    def __init__(self, ctx, queries: list[dict], nproc: int = 4):
        import concurrent.futures as cf

        self.ctx, self.n = ctx, len(queries)
        nproc = max(1, min(nproc, (len(queries) + 199) // 200))
        size = (len(queries) + nproc - 1) // nproc if queries else 0
        self.chunks = [queries[i : i + size] for i in range(0, len(queries), size)] if queries else []
        self.pool = cf.ThreadPoolExecutor(max_workers=max(1, len(self.chunks)))
        self.futs = [self.pool.submit(core.Driver("StateAlg").run, ch) for ch in self.chunks]

    def result(self) -> list[dict] | None:
        import subprocess

        out: list[dict] = []
        try:
            for f in self.futs:
                out += f.result()
        except (core.DriverFailure, subprocess.TimeoutExpired) as e:
            self.ctx.model_ok = False
            self.ctx.tie_broken.append({"kind": "model-driver", "engine": "StateAlg", "detail": str(e)[-1500:]})
            return None
        finally:
            self.pool.shutdown(wait=False)
        return out


def run_batch(ctx, items: list[tuple[dict, str]]) -> list[dict]:
    """items = [(case, "state" | "public")] → per item: impl observable, model view, Lean-spec view, Python oracle.

    The Lean Spec (what the theorems talk about) is cross-checked against the Python oracle on every case; a
    disagreement is a broken tie of the harness itself."""
    job = DriverJob(ctx, [model_query(c) for c, _ in items])
    impls = []
    for n, (case, level) in enumerate(items):
        if level == "state":
            impls.append(state_level(case))
        else:
            impls.append(public_level(case, ctx.scratch / f"pub{ctx.evaluations}_{n}_{len(BODY_CALLS)}"))
    ans = job.result()
    out = []
    for k, ((case, level), impl) in enumerate(zip(items, impls)):
        rec = {"case": case, "level": level, "impl": impl, "oracle": oracle_case(case), "model": None, "spec": None}
        if ans is not None:
            a = ans[k]
            if "error" in a:
                ctx.tie_broken.append({"kind": "model-driver-rejects-case", "case": case, "detail": a["error"]})
            else:
                rec["model"] = model_view(a, "model", level)
                rec["spec"] = model_view(a, "spec")
                rec["model_raw"] = a["model"]
                o, s = rec["oracle"], rec["spec"]
                same = (o.get("rejected"), o.get("rows"), o.get("outputs")) == (s.get("rejected"), s.get("rows"), s.get("outputs"))
                if not same:
                    ctx.tie_broken.append({"kind": "lean-spec-vs-python-oracle", "case": case, "oracle": o, "spec": s})
        out.append(rec)
    return out


def observable(view: dict | None, level: str, what: str = "rows") -> dict | None:
    """the part of a view that gates a verdict: rejection (before any task job) or the jobs' inputs / the outputs"""
    if view is None:
        return None
    if view.get("rejected"):
        return {"rejected": True, "task_jobs": view.get("task_jobs", 0), "body_runs": view.get("body_runs", 0)} if level == "public" else {"rejected": True}
    if level == "public":
        return {"outputs": view["outputs"]}
    return {"rows": view["rows"]} if what == "rows" else {"rows": view["rows"], "out": view.get("out")}


# ---------------------------------------------------------------------------------------------------------------
# regenerated tie for C05 ("rejected before any job is executed"): call-site skeleton of the functions between
# Task.split / Task.combine and the creation of the task jobs, read from the current source

STATE_CALLSITE_FUNCS = [
    ("taskSplit", "pydra/compose/base/task.py", "Task", "split"),
    ("taskCombine", "pydra/compose/base/task.py", "Task", "combine"),
    ("submitterCall", "pydra/engine/submitter.py", "Submitter", "__call__"),
    ("nodeSetState", "pydra/engine/node.py", "Node", "_set_state"),
    ("nodeExecStart", "pydra/engine/submitter.py", "NodeExecution", "start"),
    ("statePrepareStates", "pydra/engine/state.py", "State", "prepare_states"),
    ("statePrepareStatesInd", "pydra/engine/state.py", "State", "prepare_states_ind"),
    ("stateSplits", "pydra/engine/state.py", "State", "splits"),
    ("stateCombinerValidation", "pydra/engine/state.py", "State", "combiner_validation"),
]


def extract_state_call_sites(ctx=None):
    """lean/PydraModel/Gen/StateCallSites.lean: ordered (receiver, attribute, guarded) call events of the functions above
    (same event extraction as harness/engines/rules.py:_function_events).  Raises when a function is not found."""
    from harness.engines.rules import _function_events, _lean_str

    lines = [
        "/- GENERATED by harness/engines/statealg.py:extract_state_call_sites from the working tree of the repository. Do not edit. -/",
        "namespace PydraModel.Gen.StateCallSites",
        "",
        "/-- (receiver, attribute, guarded): see `_function_events` in harness/engines/rules.py -/",
        "abbrev RawEv := String × String × Bool",
        "",
    ]
    for lean_name, rel, cls, fn in STATE_CALLSITE_FUNCS:
        evs = _function_events(core.REPO / rel, cls, fn)
        if not evs:
            raise RuntimeError(f"no events extracted from {cls}.{fn}")
        lines.append(f"/-- `{cls}.{fn}` ({rel}) -/")
        lines.append(f"def {lean_name} : List RawEv := [")
        lines.append(",\n".join(f"  ({_lean_str(r)}, {_lean_str(a)}, {'true' if g else 'false'})" for r, a, g in evs))
        lines.append("]")
        lines.append("")
    lines.append("end PydraModel.Gen.StateCallSites")
    out = core.LEAN / "PydraModel" / "Gen" / "StateCallSites.lean"
    core.write_if_changed(out, "\n".join(lines) + "\n")
    return [out]
