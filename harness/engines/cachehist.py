"""Implementation side of engine JobProto/CacheHist (property C11): histories of submissions against real cache
directories.

The task pool lives at module level so that pool workers (`cf`) import it by reference.  Execution counters are
files whose paths are task INPUTS (never closures, DESIGN §2.4): every body appends one line to `log` before doing
anything else, and a flaky body decides from the number of lines already there.

Identities (the Lean driver's numbering):
  t0 = Add(x=1, log0)  t1 = Add(x=2, log1)  t2 = FailFirst(x=2, log2)  t3 = Fail(x=5, log3)  t4 = OkFirst(x=7, log4)
  w0 = Chain2(x=1, log0, log1)  = nodes [t0, t1], value 3        (node identities coincide with the standalone tasks)
  w1 = ChainF(x=1, log0, log2)  = nodes [t0, t2], value 102
  t5 = Add(x=3, log5)  t6 = Add(x=4, log6)
  w2 = Nest2(x=1, log0, log1, log5)        = nodes [w0 = [t0, t1], t5], value 4          (a workflow as a node: depth 2)
  w3 = Nest3(x=1, log0, log1, log5, log6)  = nodes [w2 = [w0 = [t0, t1], t5], t6], value 5   (depth 3)
In the driver's encoding a node is a task number or ["w", n, [nodes]].
"""

from __future__ import annotations

import logging
import os
import pickle
import shutil
from pathlib import Path

import cloudpickle as cp

from pydra.compose import python, workflow

# errors of non-raising workers are logged by the submitter; keep them off the check's stderr
logging.getLogger("pydra").addHandler(logging.NullHandler())


def _bump(log: str) -> int:
    """append one line; return how many executions happened before this one"""
    fd = os.open(log, os.O_WRONLY | os.O_APPEND | os.O_CREAT, 0o644)
    try:
        os.write(fd, b"x\n")
    finally:
        os.close(fd)
    with open(log, "rb") as f:
        return f.read().count(b"\n") - 1


@python.define
def Add(x: int, log: str) -> int:
    from harness.engines.cachehist import _bump

    _bump(log)
    return x + 1


@python.define
def Fail(x: int, log: str) -> int:
    from harness.engines.cachehist import _bump

    _bump(log)
    raise ValueError("always fails")


@python.define
def FailFirst(x: int, log: str) -> int:
    from harness.engines.cachehist import _bump

    if _bump(log) == 0:
        raise ValueError("first execution fails")
    return x + 100


@python.define
def OkFirst(x: int, log: str) -> int:
    from harness.engines.cachehist import _bump

    if _bump(log) > 0:
        raise ValueError("only the first execution succeeds")
    return x + 200


@workflow.define
def Chain2(x: int, log_a: str, log_b: str) -> int:
    a = workflow.add(Add(x=x, log=log_a), name="a")
    b = workflow.add(Add(x=a.out, log=log_b), name="b")
    return b.out


@workflow.define
def ChainF(x: int, log_a: str, log_c: str) -> int:
    a = workflow.add(Add(x=x, log=log_a), name="a")
    c = workflow.add(FailFirst(x=a.out, log=log_c), name="c")
    return c.out


@workflow.define
def Nest2(x: int, log_a: str, log_b: str, log_c: str) -> int:
    inner = workflow.add(Chain2(x=x, log_a=log_a, log_b=log_b), name="inner")
    c = workflow.add(Add(x=inner.out, log=log_c), name="c")
    return c.out


@workflow.define
def Nest3(x: int, log_a: str, log_b: str, log_c: str, log_d: str) -> int:
    mid = workflow.add(Nest2(x=x, log_a=log_a, log_b=log_b, log_c=log_c), name="mid")
    d = workflow.add(Add(x=mid.out, log=log_d), name="d")
    return d.out


# outcomes of the executions of each task (number = value, None = raises); the last one repeats
BODIES = {0: [2], 1: [3], 2: [None, 102], 3: [None], 4: [207, None], 5: [4], 6: [5]}
WF_NODES = {0: [0, 1], 1: [0, 2], 2: [["w", 0, [0, 1]], 5], 3: [["w", 2, [["w", 0, [0, 1]], 5]], 6]}
WF_VALS = {0: 3, 1: 102, 2: 4, 3: 5}
TASK_KEYS = [f"t{i}" for i in sorted(BODIES)]
WF_KEYS = [f"w{i}" for i in sorted(WF_NODES)]
KEYS = TASK_KEYS + WF_KEYS
N_LOCS = 4  # location 3 is never used as a root: a listed read-only cache that may not even exist


class Sandbox:
    """one case: cache locations L0..L3 and the counter files under `base`"""

    def __init__(self, base: Path):
        self.base = Path(base)
        (self.base / "logs").mkdir(parents=True)
        self.locs = [self.base / f"L{i}" for i in range(N_LOCS)]
        for p in self.locs[:3]:
            p.mkdir()
        self.logs = [str(self.base / "logs" / f"t{i}.log") for i in sorted(BODIES)]
        self.wf_execs = {k: 0 for k in WF_KEYS}
        self.checksums = {k: self.task(k)._checksum for k in KEYS}

    def task(self, key: str):
        n = int(key[1:])
        L = self.logs
        if key[0] == "t":
            return [
                Add(x=1, log=L[0]), Add(x=2, log=L[1]), FailFirst(x=2, log=L[2]), Fail(x=5, log=L[3]), OkFirst(x=7, log=L[4]),
                Add(x=3, log=L[5]), Add(x=4, log=L[6]),
            ][n]  # fmt: skip
        return [
            Chain2(x=1, log_a=L[0], log_b=L[1]),
            ChainF(x=1, log_a=L[0], log_c=L[2]),
            Nest2(x=1, log_a=L[0], log_b=L[1], log_c=L[5]),
            Nest3(x=1, log_a=L[0], log_b=L[1], log_c=L[5], log_d=L[6]),
        ][n]

    # ---- observation -------------------------------------------------------------------------------

    def cell(self, loc: int, key: str):
        d = self.locs[loc] / self.checksums[key]
        if not d.exists():
            return "absent"
        rf = d / "_result.pklz"
        if not rf.exists() or rf.stat().st_size == 0:
            return "incomplete"
        try:
            with open(rf, "rb") as f:
                res = cp.load(f)
        except (pickle.UnpicklingError, EOFError):
            return "incomplete"
        if res.errored:
            return "err"
        return res.outputs.out

    def cells(self):
        return [[self.cell(l, k) for k in KEYS] for l in range(N_LOCS)]

    def task_execs(self):
        out = []
        for lg in self.logs:
            try:
                with open(lg, "rb") as f:
                    out.append(f.read().count(b"\n"))
            except FileNotFoundError:
                out.append(0)
        return out

    def execs(self):
        return self.task_execs() + [self.wf_execs[k] for k in WF_KEYS]

    def result_stamp(self, loc: int, key: str):
        rf = self.locs[loc] / self.checksums[key] / "_result.pklz"
        try:
            s = rf.stat()
            return (s.st_ino, s.st_mtime_ns, s.st_size)
        except FileNotFoundError:
            return None

    def snapshot(self, loc: int):
        """names, sizes, mtimes of everything under a location (and of the location itself)"""
        root = self.locs[loc]
        if not root.exists():
            return None
        out = []
        for dp, dn, fn in os.walk(root):
            dn.sort()
            s = os.stat(dp)
            out.append((os.path.relpath(dp, root), "d", 0, s.st_mtime_ns))
            for f in sorted(fn):
                s = os.lstat(os.path.join(dp, f))
                out.append((os.path.relpath(os.path.join(dp, f), root), "f", s.st_size, s.st_mtime_ns))
        return out

    # ---- operations --------------------------------------------------------------------------------

    def plant(self, loc: int, key: str, kind: str):
        d = self.locs[loc] / self.checksums[key]
        donor = None
        if kind == "torn":
            for l in range(N_LOCS):
                rf = self.locs[l] / self.checksums[key] / "_result.pklz"
                if rf.exists() and rf.stat().st_size > 16:
                    donor = rf.read_bytes()
                    break
            if donor is None:
                kind = "emptyresult"
        self.locs[loc].mkdir(exist_ok=True)
        if d.exists():
            shutil.rmtree(d)
        d.mkdir()
        if kind == "jobonly":
            (d / "_job.pklz").write_bytes(b"leftover of a killed run")
        elif kind == "emptyresult":
            (d / "_result.pklz").write_bytes(b"")
        elif kind == "torn":
            (d / "_result.pklz").write_bytes(donor[: len(donor) // 2])
        elif kind != "emptydir":
            raise ValueError(kind)

    def submit(self, key: str, root: int, ro: list[int], rerun: bool, propagate: bool, worker: str):
        """-> (out, untouched: bool) ; out = value | "err" """
        from pydra.engine.submitter import Submitter

        others = [l for l in range(N_LOCS) if l != root]
        before = {l: self.snapshot(l) for l in others}
        stamps = {k: self.result_stamp(root, k) for k in WF_KEYS}  # the submitted workflow and any nested in it
        kw = {"n_procs": 2} if worker == "cf" else {}
        task = self.task(key)
        try:
            with Submitter(
                cache_root=self.locs[root],
                readonly_caches=[self.locs[l] for l in ro],
                worker=worker,
                propagate_rerun=propagate,
                **kw,
            ) as sub:
                res = sub(task, rerun=rerun)
            out = "err" if res.errored else res.outputs.out
        except Exception:
            out = "err"
        for k in WF_KEYS:  # a new result file of a workflow identity under the root = that workflow job executed
            if self.result_stamp(root, k) != stamps[k]:
                self.wf_execs[k] += 1
        untouched = all(self.snapshot(l) == before[l] for l in others)
        return out, untouched


def private_hash_cache(scratch: Path):
    """Point pydra's persistent hash cache (documented variable PYDRA_HASH_CACHE, read whenever a PersistentCache is
    built) at a directory of this run: the shared default directory is cleaned up by every Submitter call, which costs
    seconds once other runs have filled it."""
    d = Path(scratch) / "hashcache"
    d.mkdir(parents=True, exist_ok=True)
    os.environ["PYDRA_HASH_CACHE"] = str(d)


def run_history(base: Path, case: dict):
    """Replay one history on the implementation.  -> (trace, untouched_all)"""
    sb = Sandbox(base)
    trace, ok = [], True
    for op in case["ops"]:
        if op[0] == "plant":
            sb.plant(op[1], op[2], op[3] if len(op) > 3 else "emptydir")
            out = None
        elif op[0] == "submit":
            out, un = sb.submit(f"t{op[1]}", op[2], op[3], op[4], True, case.get("worker", "debug"))
            ok = ok and un
        elif op[0] == "submitWf":
            out, un = sb.submit(f"w{op[1]}", op[3], op[4], op[5], op[6], case.get("worker", "debug"))
            ok = ok and un
        else:
            raise ValueError(op)
        trace.append({"out": out, "cells": sb.cells(), "execs": sb.execs()})
    return trace, ok


def reference(case: dict):
    """The property as a reference semantics, in plain Python (independent of the Lean model): one abstract cache
    per location holding only complete results."""
    cache = [dict() for _ in range(N_LOCS)]
    execs = {k: 0 for k in KEYS}
    outs, counts = [], []

    def body(n):
        l = BODIES[n]
        r = l[min(execs[f"t{n}"], len(l) - 1)]
        execs[f"t{n}"] += 1
        return "err" if r is None else r

    def find(key, locs):
        for l in locs:
            if key in cache[l]:
                return cache[l][key]
        return None

    def sub_task(n, root, ro, rerun):
        key = f"t{n}"
        f = None if rerun else find(key, [root] + ro)
        if f is not None and f != "err":
            return f
        r = body(n)
        cache[root][key] = r
        return r

    def run_wf(n, nodes, root, ro, rerun, prop):
        """a workflow job (submitted or nested) run with flag `rerun`; its node jobs get `rerun and prop`, at every depth"""
        key = f"w{n}"
        f = None if rerun else find(key, [root] + ro)
        if f is not None and f != "err":
            return f
        ok = True
        for node in nodes:
            if isinstance(node, int):
                r = sub_task(node, root, ro, rerun and prop)
            else:
                r = run_wf(node[1], node[2], root, ro, rerun and prop, prop)
            if r == "err":
                ok = False
                break
        r = WF_VALS[n] if ok else "err"
        execs[key] += 1
        cache[root][key] = r
        return r

    sub_wf = run_wf

    for op in case["ops"]:
        if op[0] == "plant":
            cache[op[1]].pop(op[2], None)
            outs.append(None)
        elif op[0] == "submit":
            outs.append(sub_task(op[1], op[2], op[3], op[4]))
        else:
            outs.append(sub_wf(*op[1:]))
        counts.append([execs[k] for k in KEYS])
    return outs, counts


def model_case(case: dict, skip: bool = True) -> dict:
    ops = []
    for op in case["ops"]:
        if op[0] == "plant":
            ops.append(["plant", op[1], op[2]])
        else:
            ops.append(op)
    return {
        "bodies": [[n, l] for n, l in sorted(BODIES.items())],
        "wvals": [[n, v] for n, v in sorted(WF_VALS.items())],
        "skip": skip,
        "nest": True,
        "locs": list(range(N_LOCS)),
        "keys": KEYS,
        "ops": ops,
    }


# ---------------------------------------------------------------------------------------------------------------------
# watchdog: implementation cases run in a child interpreter, one after the other; a case that does not answer within the
# (generous) time limit is reported as a hang, the child and everything it started is killed, and the remaining cases go
# to a fresh child.  Shared by C11, C19 and C36 (a broken cache / audit protocol can make a submission spin forever).


def _child_main(target: str, fd: int):
    import importlib
    import json
    import sys
    import traceback

    from harness import core

    core.assert_repo_loaded()
    mod, _, fn = target.partition(":")
    f = getattr(importlib.import_module(mod), fn)
    out = os.fdopen(fd, "w")
    for line in sys.stdin:
        if not line.strip():
            continue
        req = json.loads(line)
        try:
            ans = {"ok": f(req["case"], Path(req["sandbox"]))}
        except BaseException as e:  # the harness function itself failed: report, do not guess
            ans = {"harness_error": f"{type(e).__name__}: {e}", "trace": traceback.format_exc()[-2000:]}
        out.write(json.dumps(ans, default=repr) + "\n")
        out.flush()


class ChildRunner:
    """run `target(case, sandbox)` for each case in a watchdog child; results in order:
    {"ok": value} | {"hang": seconds} | {"crash": returncode} | {"harness_error": …}"""

    def __init__(self, target: str, scratch: Path, timeout: float = 900.0):
        self.target, self.scratch, self.timeout = target, Path(scratch), timeout
        self.proc = None

    def _start(self):
        import subprocess

        from harness import core

        r, w = os.pipe()
        private_hash_cache(self.scratch)
        self.proc = subprocess.Popen(
            [core.PY, "-m", "harness.engines.cachehist", self.target, str(w)],
            stdin=subprocess.PIPE,
            stdout=subprocess.DEVNULL,
            stderr=subprocess.DEVNULL,
            pass_fds=[w],
            env=core.impl_env({"PYDRA_HASH_CACHE": os.environ["PYDRA_HASH_CACHE"]}),
            start_new_session=True,
            text=True,
            cwd=str(self.scratch),
        )
        os.close(w)
        self.rfd = r
        self.buf = b""

    def _kill(self):
        import signal

        if self.proc is not None:
            try:
                os.killpg(self.proc.pid, signal.SIGKILL)
            except ProcessLookupError:
                pass
            self.proc.wait()
            os.close(self.rfd)
            self.proc = None

    def _read_line(self):
        import select
        import time

        deadline = time.time() + self.timeout
        while b"\n" not in self.buf:
            left = deadline - time.time()
            if left <= 0:
                return None
            ready, _, _ = select.select([self.rfd], [], [], left)
            if not ready:
                return None
            chunk = os.read(self.rfd, 1 << 16)
            if not chunk:
                return b""  # child is gone
            self.buf += chunk
        line, _, self.buf = self.buf.partition(b"\n")
        return line

    def run(self, cases: list, tag: str = "case") -> list:
        import json

        out = []
        for i, c in enumerate(cases):
            if self.proc is None:
                self._start()
            sb = self.scratch / f"{tag}-{i}-{os.getpid()}-{len(out)}"
            if sb.exists():
                shutil.rmtree(sb)
            sb.mkdir(parents=True)
            try:
                self.proc.stdin.write(json.dumps({"case": c, "sandbox": str(sb)}) + "\n")
                self.proc.stdin.flush()
                line = self._read_line()
            except BrokenPipeError:
                line = b""
            if line is None:
                out.append({"hang": self.timeout})
                self._kill()
            elif line == b"":
                rc = self.proc.poll()
                out.append({"crash": rc})
                self._kill()
            else:
                out.append(json.loads(line))
            shutil.rmtree(sb, ignore_errors=True)
        self.close()
        return out

    def close(self):
        if self.proc is not None:
            try:
                self.proc.stdin.close()
                self.proc.wait(timeout=60)
                os.close(self.rfd)
                self.proc = None
            except Exception:
                self._kill()


def child_history(case: dict, sandbox: Path):
    tr, untouched = run_history(sandbox / "h", case)
    return {"trace": tr, "untouched": untouched}


if __name__ == "__main__":
    import sys

    _child_main(sys.argv[1], int(sys.argv[2]))
