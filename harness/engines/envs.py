"""Shared harness pieces of the Envs engine (C39 Lmod, C27 containers): fake executables, dumpers, small helpers.

The fakes are generated into the per-run scratch directory (copies of corpus/envs/*): nothing is read from the
process environment except what a case puts there, so that the generated caller environment is the whole input.
"""

from __future__ import annotations

import os
import shutil
from pathlib import Path

from harness import core

CORPUS = core.VERIF / "corpus" / "envs"

QUOTES = "'\""


def which_abs(name: str) -> str:
    p = shutil.which(name, path="/usr/bin:/bin:/usr/local/bin")
    if not p:
        raise core.Infra(f"{name} not found")
    return p


def write_exec(path: Path, text: str) -> Path:
    path.parent.mkdir(parents=True, exist_ok=True)
    path.write_text(text)
    path.chmod(0o755)
    return path


# --------------------------------------------------------------------------------------
# Lmod


def make_fake_lmod(home: Path, out_file: Path, argv_file: Path) -> Path:
    """$MODULESHOME/libexec/lmod: logs its argv (NUL separated) and prints the prepared module output."""
    cat = which_abs("cat")
    tmpl = (CORPUS / "fakelmod" / "libexec" / "lmod.in").read_text()
    return write_exec(
        home / "libexec" / "lmod",
        tmpl.replace("@ARGV@", str(argv_file)).replace("@OUT@", str(out_file)).replace("@CAT@", cat),
    )


def make_dyn_lmod(home: Path, mods_dir: Path, argv_file: Path) -> Path:
    """$MODULESHOME/libexec/lmod that computes prepends from the environment it runs in (module specs under mods_dir)."""
    tmpl = (CORPUS / "fakelmod" / "libexec" / "lmod_dyn.in").read_text()
    return write_exec(home / "libexec" / "lmod", tmpl.replace("@ARGV@", str(argv_file)).replace("@MODS@", str(mods_dir)))


def make_dumper(path: Path, argv_file: Path, env_file: Path) -> Path:
    """The executed 'command': records its argv and its environment (NUL separated), prints nothing."""
    env = which_abs("env")
    tmpl = (CORPUS / "dumper.sh.in").read_text()
    return write_exec(path, tmpl.replace("@ARGV@", str(argv_file)).replace("@ENVF@", str(env_file)).replace("@ENV@", env))


def read_nul(path: Path) -> list[str]:
    if not path.exists():
        return []
    raw = path.read_bytes()
    parts = raw.split(b"\0")
    if parts and parts[-1] == b"":
        parts = parts[:-1]
    return [p.decode("utf-8", "surrogateescape") for p in parts]


def read_env(path: Path) -> dict[str, str] | None:
    if not path.exists():
        return None
    out = {}
    for item in read_nul(path):
        k, _, v = item.partition("=")
        out[k] = v
    return out


def py_quote(v: str, q: str) -> str:
    """What a Python-quoting lmod prints for value v with quote character q (backslash, q and newline escaped)."""
    out = []
    for ch in v:
        if ch == "\\":
            out.append("\\\\")
        elif ch == q:
            out.append("\\" + q)
        elif ch == "\n":
            out.append("\\n")
        else:
            out.append(ch)
    return q + "".join(out) + q


def quote_active(s: str) -> bool:
    """D23q match rule: the text printed between the quotes is not read back as the value."""
    return any(c in "'\"\\\n" for c in s)


# --------------------------------------------------------------------------------------
# containers


def make_fake_container(bindir: Path, log_file: Path) -> None:
    """`docker` and `singularity` on a private PATH: write argv (NUL separated) to log_file, count calls in log_file.count"""
    tmpl = (CORPUS / "fakecontainer" / "container.in").read_text()
    for name in ("docker", "singularity"):
        write_exec(bindir / name, tmpl.replace("@LOG@", str(log_file)))


def read_container_log(log_file: Path) -> tuple[list[str], int]:
    """(argv of the last invocation, number of invocations)"""
    cnt = Path(str(log_file) + ".count")
    n = len(cnt.read_text().splitlines()) if cnt.exists() else 0
    return read_nul(log_file), n
