"""Engine `Typing` (DESIGN §5.6): shared Python side for C20 and C21.

* the finite class universe (names are the constructors of the generated Lean `Cls`)
* JSON codecs for types and values (the JSON goes to the Lean driver unchanged)
* an independent structural `conforms` written over *Python objects* (isinstance / get_origin),
  i.e. the reference semantics of "value v is of declared type T"
* the match rules of the known findings (hard-coded class lists: a *different* confusion must not match)
* generators (type grammar, conforming / neighbouring / confusion value streams)

Nothing in here looks at the model; the model's answers come through `ctx.driver("Typing", ...)`.
"""

from __future__ import annotations

import collections.abc as abc
import os
import typing as ty
from pathlib import Path, PosixPath

# --------------------------------------------------------------------------------------
# class universe


def universe() -> dict[str, type]:
    from pydra.utils.typing import MultiInputObj, MultiOutputType

    return {
        # concrete scalar classes (values exist)
        "NoneType": type(None),
        "bool": bool,
        "int": int,
        "float": float,
        "str": str,
        "bytes": bytes,
        "PosixPath": PosixPath,
        # concrete container classes (values exist)
        "list": list,
        "tuple": tuple,
        "set": set,
        "frozenset": frozenset,
        "dict": dict,
        "MultiInputObj": MultiInputObj,
        "range": range,
        "dict_keys": type({}.keys()),
        "dict_values": type({}.values()),
        # abstract / pattern-only classes
        "object": object,
        "Path": Path,
        "PathLike": os.PathLike,
        "Sequence": abc.Sequence,
        "MutableSequence": abc.MutableSequence,
        "SetABC": abc.Set,
        "MutableSet": abc.MutableSet,
        "Mapping": abc.Mapping,
        "MutableMapping": abc.MutableMapping,
        "Iterable": abc.Iterable,
        "Collection": abc.Collection,
        "MultiOutputType": MultiOutputType,
    }


ATOM_CLASSES = ["NoneType", "bool", "int", "float", "str", "bytes", "PosixPath"]
SEQ_VALUE_CLASSES = ["list", "tuple", "set", "frozenset", "MultiInputObj", "range", "dict_keys", "dict_values"]
MAP_VALUE_CLASSES = ["dict"]
# classes that may be subscripted in the type grammar, with their arity kind
SEQ_ORIGINS = ["list", "set", "frozenset", "Sequence", "MutableSequence", "SetABC", "MutableSet", "Iterable", "Collection", "MultiInputObj"]
MAP_ORIGINS = ["dict", "Mapping", "MutableMapping"]
TUPLE_ORIGIN = "tuple"

_TYPING_ALIAS = {
    "list": list,
    "set": set,
    "frozenset": frozenset,
    "dict": dict,
    "tuple": tuple,
    "Sequence": ty.Sequence,
    "MutableSequence": ty.MutableSequence,
    "SetABC": ty.AbstractSet,
    "MutableSet": ty.MutableSet,
    "Mapping": ty.Mapping,
    "MutableMapping": ty.MutableMapping,
    "Iterable": ty.Iterable,
    "Collection": ty.Collection,
}


def cls_name(c, uni=None) -> str:
    """Universe name of a class or typing alias (ty.Sequence -> 'Sequence'); raises KeyError if outside."""
    uni = uni or universe()
    if c is None:
        c = type(None)
    o = ty.get_origin(c)
    if o is not None and not ty.get_args(c):
        c = o
    for n, k in uni.items():
        if k is c:
            return n
    raise KeyError(f"class outside the universe: {c!r}")


# --------------------------------------------------------------------------------------
# type codec:   ["c", name] | ["any"] | ["u", [T..]] | ["g", origin, [T..]] | ["tv", T]


def ty_to_py(t):
    uni = universe()
    k = t[0]
    if k == "c":
        return uni[t[1]]
    if k == "any":
        return ty.Any
    if k == "u":
        return ty.Union[tuple(ty_to_py(a) for a in t[1])]
    if k == "tv":
        return tuple[ty_to_py(t[1]), ...]
    if k == "g":
        o, args = t[1], [ty_to_py(a) for a in t[2]]
        if o == "MultiInputObj":
            (a,) = args
            return uni[o][a]
        base = _TYPING_ALIAS[o]
        return base[tuple(args)] if len(args) != 1 else base[args[0]]
    raise ValueError(f"bad type {t!r}")


def ty_str(t) -> str:
    k = t[0]
    if k == "c":
        return t[1]
    if k == "any":
        return "Any"
    if k == "u":
        return "Union[" + ", ".join(ty_str(a) for a in t[1]) + "]"
    if k == "tv":
        return f"tuple[{ty_str(t[1])}, ...]"
    return f"{t[1]}[" + ", ".join(ty_str(a) for a in t[2]) + "]"


def ty_depth(t) -> int:
    k = t[0]
    if k in ("c", "any"):
        return 0
    if k == "u":
        return max(ty_depth(a) for a in t[1])
    if k == "tv":
        return 1 + ty_depth(t[1])
    return 1 + max([ty_depth(a) for a in t[2]] or [0])


def ty_has_union(t) -> bool:
    k = t[0]
    if k == "u":
        return True
    if k == "tv":
        return ty_has_union(t[1])
    if k == "g":
        return any(ty_has_union(a) for a in t[2])
    return False


def ty_any_free(t) -> bool:
    k = t[0]
    if k == "any":
        return False
    if k == "c":
        return t[1] != "object"
    if k == "u":
        return all(ty_any_free(a) for a in t[1])
    if k == "tv":
        return ty_any_free(t[1])
    return all(ty_any_free(a) for a in t[2])


# --------------------------------------------------------------------------------------
# value codec:  ["a", cls, payload] | ["s", cls, [V..]] | ["m", cls, [K..], [V..]]
#   payload: null | int | str | [ints]      (float payload = its integral value)


class Uncodable(Exception):
    pass


def canon(v):
    """Python value -> JSON, by *exact* class.  Containers keep their iteration order (set order is the
    interpreter's; use `sort_sets` before comparing)."""
    t = type(v)
    if v is None:
        return ["a", "NoneType", None]
    if t is bool:
        return ["a", "bool", int(v)]
    if t is int:
        return ["a", "int", v]
    if t is float:
        if v != v or v in (float("inf"), float("-inf")) or not v.is_integer():
            raise Uncodable(f"non-integral float {v!r}")
        return ["a", "float", int(v)]
    if t is str:
        return ["a", "str", v]
    if t is bytes:
        return ["a", "bytes", list(v)]
    if t is PosixPath:
        return ["a", "PosixPath", str(v)]
    uni = universe()
    for n in SEQ_VALUE_CLASSES:
        if t is uni[n]:
            return ["s", n, [canon(x) for x in v]]
    if t is dict:
        return ["m", "dict", [canon(k) for k in v.keys()], [canon(x) for x in v.values()]]
    raise Uncodable(f"value of class {t!r} outside the universe")


def val_to_py(j):
    uni = universe()
    k = j[0]
    if k == "a":
        c, p = j[1], j[2]
        if c == "NoneType":
            return None
        if c == "bool":
            return bool(p)
        if c == "int":
            return int(p)
        if c == "float":
            return float(p)
        if c == "str":
            return str(p)
        if c == "bytes":
            return bytes(p)
        if c == "PosixPath":
            return PosixPath(p)
        raise ValueError(j)
    if k == "s":
        c, items = j[1], [val_to_py(x) for x in j[2]]
        if c == "range":
            # a range is given by its elements; only 0..n-1 ranges are generated
            assert items == list(range(len(items))), j
            return range(len(items))
        if c == "dict_keys":
            return {x: None for x in items}.keys()
        if c == "dict_values":
            return {i: x for i, x in enumerate(items)}.values()
        return uni[c](items)
    if k == "m":
        return dict(zip((val_to_py(x) for x in j[2]), (val_to_py(x) for x in j[3])))
    raise ValueError(j)


def sort_sets(j):
    """Canonical form for comparison: elements of set-like containers sorted by their JSON text."""
    import json

    if j is None or not isinstance(j, list) or not j:
        return j
    if j[0] == "s":
        items = [sort_sets(x) for x in j[2]]
        if j[1] in ("set", "frozenset", "dict_keys"):
            items = sorted(items, key=lambda x: json.dumps(x, sort_keys=True))
        return ["s", j[1], items]
    if j[0] == "m":
        return ["m", j[1], [sort_sets(x) for x in j[2]], [sort_sets(x) for x in j[3]]]
    return j


def val_size(j) -> int:
    if j[0] == "a":
        return 1
    if j[0] == "s":
        return 1 + sum(val_size(x) for x in j[2])
    return 1 + sum(val_size(x) for x in j[2]) + sum(val_size(x) for x in j[3])


# --------------------------------------------------------------------------------------
# independent reference semantics: does the Python object `v` have the declared type `t` (JSON type)?


def conforms(t, v) -> bool:
    uni = universe()
    k = t[0]
    if k == "any":
        return True
    if k == "c":
        return isinstance(v, uni[t[1]])
    if k == "u":
        return any(conforms(a, v) for a in t[1])
    if k == "tv":
        return isinstance(v, tuple) and all(conforms(t[1], x) for x in v)
    o, args = t[1], t[2]
    if o == "MultiInputObj":
        # "a list of T" (a single T is wrapped by the parser): the stored value is a list whose items are T
        return isinstance(v, list) and len(args) == 1 and all(conforms(args[0], x) for x in v)
    if not isinstance(v, uni[o]):
        return False
    if isinstance(v, abc.Mapping):
        if len(args) == 2:
            return all(conforms(args[0], kk) for kk in v.keys()) and all(conforms(args[1], x) for x in v.values())
        return len(args) == 1 and all(conforms(args[0], kk) for kk in v.keys())
    if not isinstance(v, abc.Iterable):
        return False
    items = list(v)
    if issubclass(uni[o], tuple):
        return len(items) == len(args) and all(conforms(a, x) for a, x in zip(args, items))
    return len(args) == 1 and all(conforms(args[0], x) for x in items)


# --------------------------------------------------------------------------------------
# NoStrSeqConfusion (C20): relation between the assigned value and the stored value

CONTAINER_TYPES = (list, tuple, set, frozenset, dict, range, type({}.keys()), type({}.values()))


def str_image(v_in: str, out) -> bool:
    """What a `str` input may legitimately become: itself / a path-like or text atom carrying the whole
    string, or (MultiInputObj) a one-element list wrapping such an image -- never a container of its pieces."""
    if isinstance(out, (str, os.PathLike)):
        return True
    if type(out) is list and len(out) == 1:
        return str_image(v_in, out[0])
    return False


def no_str_seq_confusion(v_in, out) -> bool:
    if isinstance(v_in, str):
        return str_image(v_in, out) and not (isinstance(out, str) and out != v_in)
    if isinstance(v_in, CONTAINER_TYPES) and isinstance(out, str):
        return False
    return True


# --------------------------------------------------------------------------------------
# match rules of the known findings (fixed class lists, NOT derived from the live tables)

# D13: a `str` meets a generic pattern whose origin is an abstract class `str` is an instance of, or a
# set-like class (str -> Set is allowed by (Sequence, Set) and not excluded), or the bare set classes.
D13_GEN_ORIGINS = {"Sequence", "Iterable", "Collection", "set", "frozenset", "SetABC", "MutableSet"}
D13_BASIC_TARGETS = {"set", "frozenset"}


def _elems_json(v):
    if v[0] == "s":
        return v[2]
    if v[0] == "m":
        return v[2]
    if v[0] == "a" and v[1] == "str":
        return [["a", "str", ch] for ch in v[2]]
    if v[0] == "a" and v[1] == "bytes":
        return [["a", "int", b] for b in v[2]]
    return []


def d13_match(t, v) -> bool:
    """Some position of the coercion of JSON value v by JSON type t presents a str to a D13 origin
    (over-approximating union alternatives: any alternative counts)."""
    k = t[0]
    is_str = v[0] == "a" and v[1] == "str"
    if k == "any":
        return False
    if k == "c":
        return is_str and t[1] in D13_BASIC_TARGETS
    if k == "u":
        return any(d13_match(a, v) for a in t[1])
    if k == "tv":
        return any(d13_match(t[1], x) for x in _elems_json(v)) if not is_str else False
    o, args = t[1], t[2]
    if o == "MultiInputObj":
        return any(d13_match(args[0], x) for x in [v] + (_elems_json(v) if not is_str else []))
    if is_str:
        return o in D13_GEN_ORIGINS
    if v[0] == "m" and len(args) == 2:
        return any(d13_match(args[0], x) for x in v[2]) or any(d13_match(args[1], x) for x in v[3])
    if o == TUPLE_ORIGIN:
        return any(d13_match(a, x) for a, x in zip(args, _elems_json(v)))
    return any(d13_match(a, x) for a in args[:1] for x in _elems_json(v))
