"""Engine `Typing` (DESIGN §5.6): shared Python side for C20 and C21.

* the finite class universe (names are the constructors of the generated Lean `Cls`)
* JSON codecs for types and values (the JSON goes to the Lean driver unchanged)
* an independent structural `conforms` written over *Python objects* (isinstance / get_origin),
  i.e. the reference semantics of "value v is of declared type T"
* the match rules of the known findings (hard-coded class lists: a *different* confusion must not match)
* generators (type grammar, conforming / neighbouring / confusion value streams)

Nothing in here looks at the model; the model's answers come through `ctx.driver("Typing", ...)`.
"""

from __future__ import annotations

import collections.abc as abc
import os
import typing as ty
from pathlib import Path, PosixPath

# --------------------------------------------------------------------------------------
# class universe


def universe() -> dict[str, type]:
    from fileformats import field
    from pydra.utils.typing import MultiInputObj, MultiOutputType

    return {
        # concrete scalar classes (values exist)
        "NoneType": type(None),
        "bool": bool,
        "int": int,
        "float": float,
        "str": str,
        "bytes": bytes,
        "PosixPath": PosixPath,
        # fileformats field classes named by COERCIBLE_DEFAULT (pure values, no file system involved)
        "FieldInteger": field.Integer,
        "FieldDecimal": field.Decimal,
        "FieldText": field.Text,
        "FieldBoolean": field.Boolean,
        # concrete container classes (values exist)
        "list": list,
        "tuple": tuple,
        "set": set,
        "frozenset": frozenset,
        "dict": dict,
        "MultiInputObj": MultiInputObj,
        "range": range,
        "dict_keys": type({}.keys()),
        "dict_values": type({}.values()),
        # abstract / pattern-only classes
        "object": object,
        "Path": Path,
        "PathLike": os.PathLike,
        "Sequence": abc.Sequence,
        "MutableSequence": abc.MutableSequence,
        "SetABC": abc.Set,
        "MutableSet": abc.MutableSet,
        "Mapping": abc.Mapping,
        "MutableMapping": abc.MutableMapping,
        "Iterable": abc.Iterable,
        "Collection": abc.Collection,
        "MultiOutputType": MultiOutputType,
    }


ATOM_CLASSES = ["NoneType", "bool", "int", "float", "str", "bytes", "PosixPath", "FieldInteger", "FieldDecimal", "FieldText", "FieldBoolean"]
FIELD_CLASSES = ["FieldInteger", "FieldDecimal", "FieldText", "FieldBoolean"]
SEQ_VALUE_CLASSES = ["list", "tuple", "set", "frozenset", "MultiInputObj", "range", "dict_keys", "dict_values"]
MAP_VALUE_CLASSES = ["dict"]
# classes that may be subscripted in the type grammar, with their arity kind
SEQ_ORIGINS = ["list", "set", "frozenset", "Sequence", "MutableSequence", "SetABC", "MutableSet", "Iterable", "Collection", "MultiInputObj"]
MAP_ORIGINS = ["dict", "Mapping", "MutableMapping"]
TUPLE_ORIGIN = "tuple"

_TYPING_ALIAS = {
    "list": list,
    "set": set,
    "frozenset": frozenset,
    "dict": dict,
    "tuple": tuple,
    "Sequence": ty.Sequence,
    "MutableSequence": ty.MutableSequence,
    "SetABC": ty.AbstractSet,
    "MutableSet": ty.MutableSet,
    "Mapping": ty.Mapping,
    "MutableMapping": ty.MutableMapping,
    "Iterable": ty.Iterable,
    "Collection": ty.Collection,
}


def cls_name(c, uni=None) -> str:
    """Universe name of a class or typing alias (ty.Sequence -> 'Sequence'); raises KeyError if outside."""
    uni = uni or universe()
    if c is None:
        c = type(None)
    o = ty.get_origin(c)
    if o is not None and not ty.get_args(c):
        c = o
    for n, k in uni.items():
        if k is c:
            return n
    raise KeyError(f"class outside the universe: {c!r}")


# --------------------------------------------------------------------------------------
# type codec:   ["c", name] | ["any"] | ["u", [T..]] | ["g", origin, [T..]] | ["tv", T]


def ty_to_py(t):
    uni = universe()
    k = t[0]
    if k == "c":
        return uni[t[1]]
    if k == "any":
        return ty.Any
    if k == "u":
        return ty.Union[tuple(ty_to_py(a) for a in t[1])]
    if k == "tv":
        return tuple[ty_to_py(t[1]), ...]
    if k == "g":
        o, args = t[1], [ty_to_py(a) for a in t[2]]
        if o == "MultiInputObj":
            (a,) = args
            return uni[o][a]
        base = _TYPING_ALIAS[o]
        return base[tuple(args)] if len(args) != 1 else base[args[0]]
    raise ValueError(f"bad type {t!r}")


def ty_str(t) -> str:
    k = t[0]
    if k == "c":
        return t[1]
    if k == "any":
        return "Any"
    if k == "u":
        return "Union[" + ", ".join(ty_str(a) for a in t[1]) + "]"
    if k == "tv":
        return f"tuple[{ty_str(t[1])}, ...]"
    return f"{t[1]}[" + ", ".join(ty_str(a) for a in t[2]) + "]"


def ty_depth(t) -> int:
    k = t[0]
    if k in ("c", "any"):
        return 0
    if k == "u":
        return max(ty_depth(a) for a in t[1])
    if k == "tv":
        return 1 + ty_depth(t[1])
    return 1 + max([ty_depth(a) for a in t[2]] or [0])


def ty_has_union(t) -> bool:
    k = t[0]
    if k == "u":
        return True
    if k == "tv":
        return ty_has_union(t[1])
    if k == "g":
        return any(ty_has_union(a) for a in t[2])
    return False


def ty_any_free(t) -> bool:
    k = t[0]
    if k == "any":
        return False
    if k == "c":
        return t[1] != "object"
    if k == "u":
        return all(ty_any_free(a) for a in t[1])
    if k == "tv":
        return ty_any_free(t[1])
    return all(ty_any_free(a) for a in t[2])


# --------------------------------------------------------------------------------------
# value codec:  ["a", cls, payload] | ["s", cls, [V..]] | ["m", cls, [K..], [V..]]
#   payload: null | int | str | [ints]      (float payload = its integral value)


class Uncodable(Exception):
    pass


def canon(v):
    """Python value -> JSON, by *exact* class.  Containers keep their iteration order (set order is the
    interpreter's; use `sort_sets` before comparing)."""
    t = type(v)
    if v is None:
        return ["a", "NoneType", None]
    if t is bool:
        return ["a", "bool", int(v)]
    if t is int:
        return ["a", "int", v]
    if t is float:
        if v != v or v in (float("inf"), float("-inf")) or not v.is_integer():
            raise Uncodable(f"non-integral float {v!r}")
        return ["a", "float", int(v)]
    if t is str:
        return ["a", "str", v]
    if t is bytes:
        return ["a", "bytes", list(v)]
    if t is PosixPath:
        return ["a", "PosixPath", str(v)]
    uni = universe()
    if t is uni["FieldInteger"]:
        return ["a", "FieldInteger", int(v.value)]
    if t is uni["FieldDecimal"]:
        x = float(v.value)
        if not x.is_integer():
            raise Uncodable(f"non-integral Decimal {v!r}")
        return ["a", "FieldDecimal", int(x)]
    if t is uni["FieldText"]:
        return ["a", "FieldText", str(v.value)]
    if t is uni["FieldBoolean"]:
        return ["a", "FieldBoolean", int(bool(v.value))]
    for n in SEQ_VALUE_CLASSES:
        if t is uni[n]:
            return ["s", n, [canon(x) for x in v]]
    if t is dict:
        return ["m", "dict", [canon(k) for k in v.keys()], [canon(x) for x in v.values()]]
    raise Uncodable(f"value of class {t!r} outside the universe")


def val_to_py(j):
    uni = universe()
    k = j[0]
    if k == "a":
        c, p = j[1], j[2]
        if c == "NoneType":
            return None
        if c == "bool":
            return bool(p)
        if c == "int":
            return int(p)
        if c == "float":
            return float(p)
        if c == "str":
            return str(p)
        if c == "bytes":
            return bytes(p)
        if c == "PosixPath":
            return PosixPath(p)
        if c == "FieldInteger":
            return uni[c](int(p))
        if c == "FieldDecimal":
            return uni[c](float(p))
        if c == "FieldText":
            return uni[c](str(p))
        if c == "FieldBoolean":
            return uni[c](bool(p))
        raise ValueError(j)
    if k == "s":
        c, items = j[1], [val_to_py(x) for x in j[2]]
        if c == "range":
            # a range is given by its elements; only 0..n-1 ranges are generated
            assert items == list(range(len(items))), j
            return range(len(items))
        if c == "dict_keys":
            return {x: None for x in items}.keys()
        if c == "dict_values":
            return {i: x for i, x in enumerate(items)}.values()
        return uni[c](items)
    if k == "m":
        return dict(zip((val_to_py(x) for x in j[2]), (val_to_py(x) for x in j[3])))
    raise ValueError(j)


def sort_sets(j):
    """Canonical form for comparison: elements of set-like containers sorted by their JSON text."""
    import json

    if j is None or not isinstance(j, list) or not j:
        return j
    if j[0] == "s":
        items = [sort_sets(x) for x in j[2]]
        if j[1] in ("set", "frozenset", "dict_keys"):
            items = sorted(items, key=lambda x: json.dumps(x, sort_keys=True))
        return ["s", j[1], items]
    if j[0] == "m":
        return ["m", j[1], [sort_sets(x) for x in j[2]], [sort_sets(x) for x in j[3]]]
    return j


def val_size(j) -> int:
    if j[0] == "a":
        return 1
    if j[0] == "s":
        return 1 + sum(val_size(x) for x in j[2])
    return 1 + sum(val_size(x) for x in j[2]) + sum(val_size(x) for x in j[3])


# --------------------------------------------------------------------------------------
# independent reference semantics: does the Python object `v` have the declared type `t` (JSON type)?


def conforms(t, v) -> bool:
    uni = universe()
    k = t[0]
    if k == "any":
        return True
    if k == "c":
        return isinstance(v, uni[t[1]])
    if k == "u":
        return any(conforms(a, v) for a in t[1])
    if k == "tv":
        return isinstance(v, tuple) and all(conforms(t[1], x) for x in v)
    o, args = t[1], t[2]
    if o == "MultiInputObj":
        # "a list of T" (a single T is wrapped by the parser): the stored value is a list whose items are T
        return isinstance(v, list) and len(args) == 1 and all(conforms(args[0], x) for x in v)
    if not isinstance(v, uni[o]):
        return False
    if isinstance(v, abc.Mapping):
        if len(args) == 2:
            return all(conforms(args[0], kk) for kk in v.keys()) and all(conforms(args[1], x) for x in v.values())
        return len(args) == 1 and all(conforms(args[0], kk) for kk in v.keys())
    if not isinstance(v, abc.Iterable):
        return False
    items = list(v)
    if issubclass(uni[o], tuple):
        return len(items) == len(args) and all(conforms(a, x) for a, x in zip(args, items))
    return len(args) == 1 and all(conforms(args[0], x) for x in items)


# --------------------------------------------------------------------------------------
# NoStrSeqConfusion (C20): relation between the assigned value and the stored value

CONTAINER_TYPES = (list, tuple, set, frozenset, dict, range, type({}.keys()), type({}.values()))


def str_image(v_in: str, out) -> bool:
    """What a `str` input may legitimately become: itself / a path-like or text atom carrying the whole
    string, or (MultiInputObj) a one-element list wrapping such an image -- never a container of its pieces."""
    from fileformats import field

    if isinstance(out, (str, os.PathLike, field.Text)):  # the whole string, as str / path / fileformats Text
        return True
    if isinstance(out, list) and len(out) == 1:  # list or MultiInputObj wrapping the whole string
        return str_image(v_in, out[0])
    return False


def no_str_seq_confusion(v_in, out) -> bool:
    if isinstance(v_in, str):
        return str_image(v_in, out) and not (isinstance(out, str) and out != v_in)
    if isinstance(v_in, CONTAINER_TYPES) and isinstance(out, str):
        # a container "joined" into a string; taking out its single element (MultiOutputObj) is not a join
        return len(v_in) == 1 and all(type(x) is str and x == out for x in v_in)
    return True


# --------------------------------------------------------------------------------------
# match rules of the known findings (fixed class lists, NOT derived from the live tables)

# D13: a `str` meets a generic pattern whose origin is an abstract class `str` is an instance of, or a
# set-like class (str -> Set is allowed by (Sequence, Set) and not excluded), or the bare set classes.
D13_GEN_ORIGINS = {"Sequence", "Iterable", "Collection", "set", "frozenset", "SetABC", "MutableSet"}
D13_BASIC_TARGETS = {"set", "frozenset"}


def _elems_json(v):
    if v[0] == "s":
        return v[2]
    if v[0] == "m":
        return v[2]
    if v[0] == "a" and v[1] == "str":
        return [["a", "str", ch] for ch in v[2]]
    if v[0] == "a" and v[1] == "bytes":
        return [["a", "int", b] for b in v[2]]
    return []


def _hit(pb, pg, t, v, pu=None) -> bool:
    """Mirror of Lean `hit`: some position (pattern, value) reachable by the coercion satisfies
    pb (basic pattern) / pg (generic origin) / pu (union node)."""
    k = t[0]
    if k == "any":
        return False
    if k == "c":
        return pb(t[1], v)
    if k == "u":
        return (pu is not None and pu(t[1], v)) or any(_hit(pb, pg, a, v, pu) for a in t[1])
    if k == "tv":
        return pg("tuple", v, None) or any(_hit(pb, pg, t[1], x, pu) for x in _elems_json(v))
    o, args = t[1], t[2]
    if o == "MultiInputObj":
        return len(args) == 1 and (_hit(pb, pg, args[0], v, pu) or any(_hit(pb, pg, args[0], x, pu) for x in _elems_json(v)))
    if pg(o, v, args):
        return True
    if o == TUPLE_ORIGIN:
        return any(_hit(pb, pg, a, x, pu) for a, x in zip(args, _elems_json(v)))
    if len(args) == 1:
        return any(_hit(pb, pg, args[0], x, pu) for x in _elems_json(v))
    if len(args) == 2:  # key / value patterns of a mapping origin
        vals = v[3] if v[0] == "m" else []
        return any(_hit(pb, pg, args[0], x, pu) for x in _elems_json(v)) or any(_hit(pb, pg, args[1], x, pu) for x in vals)
    return False


def _is_str(v):
    return v[0] == "a" and v[1] == "str"


def d13_match(t, v) -> bool:  # noqa: F811  (replaces the sketch above)
    return _hit(lambda c, x: _is_str(x) and c in D13_BASIC_TARGETS, lambda o, x, a: _is_str(x) and o in D13_GEN_ORIGINS, t, v)


SETLIKE_VALUE_CLASSES = {"set", "frozenset", "dict_keys"}


def d13b_match(t, v) -> bool:
    """D13b: a set-like container reaches the basic pattern `str` (stored as its repr)."""
    return _hit(lambda c, x: x[0] == "s" and x[1] in SETLIKE_VALUE_CLASSES and c == "str", lambda o, x, a: False, t, v)


def bytes_at_gen(t, v) -> bool:
    return _hit(lambda c, x: False, lambda o, x, a: x[0] == "a" and x[1] == "bytes", t, v)


# D13c: with superclass_auto_cast (the field parser) a `bytes` object that is an instance of an abstract generic
# origin is expanded into ints, the ints are coerced (int -> bool is a "super-to-sub" cast) and re-packed by bytes(...)
D13C_ORIGINS = {"Sequence", "Iterable", "Collection"}


def d13c_match(sac: bool, t, v) -> bool:
    return sac and _hit(lambda c, x: False, lambda o, x, a: x[0] == "a" and x[1] == "bytes" and o in D13C_ORIGINS, t, v)


def union_unstable(sac: bool, alts, xj) -> bool:
    """D13u at one union node, decided with the real parser on the alternatives: the first alternative that
    accepts x yields y, and an *earlier* alternative accepts y with a different result (or raises a non-TypeError)."""
    from pydra.utils.typing import TypeParser

    x = val_to_py(xj)
    y = None
    first = None
    for i, a in enumerate(alts):
        try:
            y = TypeParser(ty_to_py(a), superclass_auto_cast=sac).coerce(x)
            first = i
            break
        except TypeError:
            continue
        except Exception:
            return False
    if first is None:
        return False
    try:
        yj = sort_sets(canon(y))
    except Uncodable:
        return False
    for a in alts[:first]:
        try:
            y2 = TypeParser(ty_to_py(a), superclass_auto_cast=sac).coerce(y)
        except TypeError:
            continue
        except Exception:
            return True
        try:
            if sort_sets(canon(y2)) != yj:
                return True
        except Uncodable:
            return True
    return False


def d13u_match(sac: bool, t, v) -> bool:
    """D13u: some union node of the type re-resolves to an earlier alternative on the stored value."""
    return _hit(lambda c, x: False, lambda o, x, a: False, t, v, pu=lambda alts, x: union_unstable(sac, alts, x))


# --------------------------------------------------------------------------------------
# generators

STR_POOL = ["", "a", "abc", "a b", "it's", 'q"', "a/b", "/tmp/x", "a//b/", "é", "['a']", "\\", "x\ny", "12", "."]
PATH_POOL = ["a", "a/b", "/tmp/x", ".", "..", "x.txt"]
INT_POOL = [0, 1, 2, 5, -3, 97, 255, 256, 300, 10**20]
BYTES_POOL = [[], [97, 98], [0, 255], [105, 116, 39, 115], [1]]

BASIC_COMMON = ["int", "float", "bool", "str", "bytes", "NoneType", "Path"]
BASIC_CONTAINER = ["list", "tuple", "set", "frozenset", "dict", "MultiInputObj"]
BASIC_ABSTRACT = ["FieldInteger", "FieldDecimal", "FieldText", "FieldBoolean", "object", "PathLike", "PosixPath", "Sequence", "Mapping", "SetABC", "Iterable", "Collection", "MutableSequence",
                  "MutableSet", "MutableMapping", "range", "MultiOutputType"]  # fmt: skip

MULTI_OUTPUT_OBJ = ["u", [["c", "list"], ["c", "object"], ["c", "MultiOutputType"]]]


def mk_union(alts):
    """Union the way typing builds it: nested unions flattened, duplicates dropped, a single alternative collapses."""
    import json

    flat = []
    for a in alts:
        flat.extend(a[1] if a[0] == "u" else [a])
    seen, out = set(), []
    for a in flat:
        k = json.dumps(a)
        if k not in seen:
            seen.add(k)
            out.append(a)
    if not out:
        return ["c", "NoneType"]
    return out[0] if len(out) == 1 else ["u", out]


def gen_basic(rng):
    r = rng.random()
    if r < 0.62:
        return ["c", rng.choice(BASIC_COMMON)]
    if r < 0.80:
        return ["c", rng.choice(BASIC_CONTAINER)]
    if r < 0.92:
        return ["c", rng.choice(BASIC_ABSTRACT)]
    return ["any"]


def gen_type(rng, depth: int, allow_union: bool = True):
    """A well-formed type of nesting depth <= depth."""
    import json

    if depth <= 0 or rng.random() < 0.22:
        return gen_basic(rng)
    r = rng.random()
    if r < 0.22 and allow_union:
        n = rng.choice([2, 2, 2, 3])
        alts, seen = [], set()
        for _ in range(n * 3):
            a = gen_type(rng, depth - (0 if rng.random() < 0.5 else 1), allow_union=False)
            key = json.dumps(a)
            if key not in seen:
                seen.add(key)
                alts.append(a)
            if len(alts) == n:
                break
        if len(alts) < 2:
            return gen_basic(rng)
        if rng.random() < 0.3 and ["c", "NoneType"] not in alts:
            alts[-1] = ["c", "NoneType"]  # Optional[...]
        return ["u", alts]
    if r < 0.60:
        o = rng.choice(["list", "list", "list", "set", "frozenset", "Sequence", "Sequence", "MutableSequence", "SetABC", "MutableSet",
                        "Iterable", "Collection"])  # fmt: skip
        return ["g", o, [gen_type(rng, depth - 1)]]
    if r < 0.74:
        o = rng.choice(["dict", "dict", "Mapping", "MutableMapping"])
        kt = gen_type(rng, 0) if rng.random() < 0.8 else gen_type(rng, depth - 1)
        return ["g", o, [kt, gen_type(rng, depth - 1)]]
    if r < 0.86:
        n = rng.choice([1, 2, 2, 3])
        return ["g", "tuple", [gen_type(rng, depth - 1) for _ in range(n)]]
    if r < 0.93:
        return ["tv", gen_type(rng, depth - 1)]
    return ["g", "MultiInputObj", [gen_type(rng, depth - 1)]]


def gen_atom(rng, cls=None):
    cls = cls or rng.choice(["int", "int", "str", "str", "float", "bool", "NoneType", "bytes", "PosixPath"] * 3 + FIELD_CLASSES)
    if cls == "NoneType":
        return ["a", "NoneType", None]
    if cls == "bool":
        return ["a", "bool", rng.choice([0, 1])]
    if cls == "int":
        return ["a", "int", rng.choice(INT_POOL)]
    if cls == "float":
        return ["a", "float", rng.choice([0, 1, 2, -3, 300])]
    if cls == "str":
        return ["a", "str", rng.choice(STR_POOL)]
    if cls == "bytes":
        return ["a", "bytes", list(rng.choice(BYTES_POOL))]
    if cls == "PosixPath":
        return ["a", "PosixPath", rng.choice(PATH_POOL)]
    if cls == "FieldInteger":
        return ["a", "FieldInteger", rng.choice(INT_POOL)]
    if cls == "FieldDecimal":
        return ["a", "FieldDecimal", rng.choice([0, 1, 2, -3, 300])]
    if cls == "FieldText":
        return ["a", "FieldText", rng.choice(STR_POOL)]
    if cls == "FieldBoolean":
        return ["a", "FieldBoolean", rng.choice([0, 1])]
    raise ValueError(cls)


def _hashable_json(v) -> bool:
    if v[0] == "a":
        return True
    if v[0] == "s":
        if v[1] == "dict_values":  # hashes by identity
            return True
        return v[1] in ("tuple", "frozenset", "range") and all(_hashable_json(x) for x in v[2])
    return False


def gen_any_value(rng, depth: int = 2):
    if depth <= 0 or rng.random() < 0.55:
        return gen_atom(rng)
    r = rng.random()
    n = rng.choice([0, 1, 2, 2, 3])
    if r < 0.8:
        c = rng.choice(["list", "list", "tuple", "set", "frozenset", "MultiInputObj"])
        items = [gen_any_value(rng, depth - 1) for _ in range(n)]
        if c in ("set", "frozenset"):
            items = [x for x in items if _hashable_json(x)]
        return ["s", c, items]
    ks = [gen_atom(rng, rng.choice(["str", "int"])) for _ in range(n)]
    return ["m", "dict", ks, [gen_any_value(rng, depth - 1) for _ in range(n)]]


def _subclasses(name: str, pool: list[str]) -> list[str]:
    uni = universe()
    return [n for n in pool if issubclass(uni[n], uni[name])]


def gen_conforming(rng, t, exotic: float = 0.0, depth: int = 3):
    """A JSON value conforming to JSON type t, or None when none can be produced (uninhabited / unlucky).
    `exotic` = probability of using str/bytes/range/dict views/MultiInputObj where an abstract class allows it."""
    k = t[0]
    if k == "any":
        return gen_any_value(rng, min(depth, 2))
    if k == "u":
        alts = list(t[1])
        rng.shuffle(alts)
        for a in alts:
            v = gen_conforming(rng, a, exotic, depth)
            if v is not None:
                return v
        return None
    if k == "c":
        c = t[1]
        if c == "object":
            return gen_any_value(rng, 1)
        atoms = _subclasses(c, ATOM_CLASSES)
        std = _subclasses(c, ["list", "tuple", "set", "frozenset", "dict"])
        exo = _subclasses(c, ["MultiInputObj", "range", "dict_keys", "dict_values"])
        if rng.random() >= exotic:
            atoms = [a for a in atoms if not (a in ("str", "bytes") and c not in ("str", "bytes", "object"))] or (atoms if not std else [])
            exo = []
        pool = atoms + std + exo
        if not pool:
            return None
        n = rng.choice(pool)
        if n in ATOM_CLASSES:
            return gen_atom(rng, n)
        m = rng.choice([0, 1, 2, 3])
        if n == "dict":
            return ["m", "dict", [gen_atom(rng, "str") for _ in range(m)], [gen_atom(rng) for _ in range(m)]]
        if n == "range":
            return ["s", "range", [["a", "int", i] for i in range(m)]]
        items = [gen_atom(rng) for _ in range(m)]
        return ["s", n, items]
    if k == "tv":
        m = rng.choice([0, 1, 2, 3])
        items = [gen_conforming(rng, t[1], exotic, depth - 1) for _ in range(m)]
        return None if any(x is None for x in items) else ["s", "tuple", items]
    o, args = t[1], t[2]
    if o == "MultiInputObj":
        m = rng.choice([0, 1, 2])
        items = [gen_conforming(rng, args[0], exotic, depth - 1) for _ in range(m)]
        return None if any(x is None for x in items) else ["s", rng.choice(["list", "list", "MultiInputObj"]), items]
    if o in MAP_ORIGINS:
        m = rng.choice([0, 1, 2])
        ks = [gen_conforming(rng, args[0], exotic, depth - 1) for _ in range(m)]
        vs = [gen_conforming(rng, args[1], exotic, depth - 1) for _ in range(m)]
        if any(x is None for x in ks + vs) or not all(_hashable_json(x) for x in ks):
            return ["m", "dict", [], []]
        return ["m", "dict", ks, vs]
    if o == TUPLE_ORIGIN:
        items = [gen_conforming(rng, a, exotic, depth - 1) for a in args]
        return None if any(x is None for x in items) else ["s", "tuple", items]
    # sequence-like origins
    classes = _subclasses(o, ["list", "tuple", "set", "frozenset"])
    if rng.random() < exotic:
        classes = classes + _subclasses(o, ["MultiInputObj", "dict_keys", "dict_values"])
        if rng.random() < 0.5:
            uni = universe()
            # a str IS a Sequence[str]; bytes IS a Sequence[int]; range IS a Sequence[int]
            if issubclass(str, uni[o]) and args[0] in (["c", "str"], ["any"], ["c", "object"]):
                return gen_atom(rng, "str")
            if issubclass(bytes, uni[o]) and args[0] in (["c", "int"], ["any"], ["c", "object"]):
                return gen_atom(rng, "bytes")
            if issubclass(range, uni[o]) and args[0] in (["c", "int"], ["any"], ["c", "object"]):
                return ["s", "range", [["a", "int", i] for i in range(rng.choice([0, 2, 3]))]]
    if not classes:
        return None
    c = rng.choice(classes)
    m = rng.choice([0, 1, 2, 2, 3])
    items = [gen_conforming(rng, args[0], exotic, depth - 1) for _ in range(m)]
    if any(x is None for x in items):
        items = []
    if c in ("set", "frozenset", "dict_keys"):
        items = [x for x in items if _hashable_json(x)]
    return ["s", c, items]


NEIGHBOUR_CLS = {
    "int": ["float", "bool", "str", "FieldInteger", "FieldDecimal"], "float": ["int", "str", "FieldDecimal"], "bool": ["int", "str", "FieldBoolean"],
    "str": ["bytes", "Path", "int", "list", "FieldText"], "FieldInteger": ["int", "float", "bool", "FieldDecimal"], "FieldDecimal": ["float", "int"],
    "FieldText": ["str", "Path"], "FieldBoolean": ["bool", "int"],
    "bytes": ["str", "list"], "Path": ["str", "PathLike"], "NoneType": ["int", "str"], "list": ["tuple", "set", "str", "dict"],
    "tuple": ["list", "frozenset"], "set": ["frozenset", "list"], "frozenset": ["set", "tuple"], "dict": ["list", "Mapping"],
}  # fmt: skip


def neighbour_type(rng, t):
    """A type that differs from t in one place (a sibling class, another origin, an added/dropped tuple slot)."""
    k = t[0]
    if k == "any":
        return gen_basic(rng)
    if k == "c":
        return ["c", rng.choice(NEIGHBOUR_CLS.get(t[1], BASIC_COMMON))]
    if k == "u":
        i = rng.randrange(len(t[1]))
        alts = list(t[1])
        alts[i] = neighbour_type(rng, alts[i])
        return alts[0] if rng.random() < 0.3 else mk_union(alts)
    if k == "tv":
        return rng.choice([["tv", neighbour_type(rng, t[1])], ["g", "list", [t[1]]], ["g", "tuple", [t[1], t[1]]]])
    o, args = t[1], list(t[2])
    r = rng.random()
    if r < 0.5 and args:
        i = rng.randrange(len(args))
        args[i] = neighbour_type(rng, args[i])
        return ["g", o, args]
    if o in MAP_ORIGINS:
        return rng.choice([["g", rng.choice(MAP_ORIGINS), args], ["g", "list", [args[0]]]])
    if o == TUPLE_ORIGIN:
        return rng.choice([["g", "tuple", args + [args[-1]]], ["g", "list", [args[0]]], ["tv", args[0]]] + ([["g", "tuple", args[:-1]]] if len(args) > 1 else []))
    return rng.choice([["g", rng.choice([x for x in SEQ_ORIGINS if x != o]), args], ["tv", args[0]], ["g", "tuple", [args[0], args[0]]]])


def confusion_value(rng, t):
    """str where a container is expected and vice versa, bytes, ranges, dict views, sets of the 'wrong' kind."""
    r = rng.random()
    if r < 0.30:
        return gen_atom(rng, "str")
    if r < 0.40:
        return gen_atom(rng, "bytes")
    if r < 0.50:
        return ["s", "range", [["a", "int", i] for i in range(rng.choice([0, 1, 3]))]]
    if r < 0.62:
        items = [gen_atom(rng, rng.choice(["str", "int"])) for _ in range(rng.choice([1, 2, 3]))]
        return ["s", rng.choice(["dict_keys", "dict_values"]), items]
    if r < 0.80:
        items = [gen_atom(rng, rng.choice(["str", "str", "int", "bool", "float"])) for _ in range(rng.choice([0, 1, 2, 3]))]
        return ["s", rng.choice(["set", "frozenset", "list", "tuple", "MultiInputObj"]), items]
    if r < 0.90:
        n = rng.choice([1, 2])
        return ["m", "dict", [gen_atom(rng, rng.choice(["str", "int", "bool", "float"])) for _ in range(n)], [gen_atom(rng) for _ in range(n)]]
    # a container of strings / a string inside a container
    return ["s", rng.choice(["list", "tuple"]), [gen_atom(rng, "str"), rng.choice([gen_atom(rng, "str"), ["s", "list", [gen_atom(rng, "str")]]])]]


# --------------------------------------------------------------------------------------
# C21: excuses and match rules for statically accepted connections that fail at run time


def arity_excuse(T, v) -> bool:
    """'fixed-length tuple arity aside': some position presents an iterable of length != n to tuple[a1..an]."""
    return _hit(
        lambda c, x: False,
        lambda o, x, a: o == TUPLE_ORIGIN and a is not None and len(_elems_json(x)) != len(a),
        T,
        v,
    )


def _is_container_json(x):
    return x[0] in ("s", "m")


# classes that pass the static coercibility test as targets but whose constructor cannot be called with the value
ABSTRACT_TARGETS = {"Sequence", "MutableSequence", "SetABC", "MutableSet", "Mapping", "MutableMapping", "Iterable", "Collection", "PathLike", "range"}


def _inst(x, cname) -> bool:
    uni = universe()
    return issubclass(uni[x[1]], uni[cname])


def d25a_match(T, v) -> bool:
    """D25 (bytes): a non-bytes container reaches the basic pattern `bytes`."""
    return _hit(lambda c, x: c == "bytes" and _is_container_json(x), lambda o, x, a: False, T, v)


def d25b_match(T, v) -> bool:
    """D25b (target cannot be built): a value that is not already an instance reaches a class that passes the
    static coercibility test but cannot be instantiated from it: an abstract class (generic origin or bare class),
    `range`, or bare `MultiInputObj` given a non-iterable."""
    return _hit(
        lambda c, x: (c in ABSTRACT_TARGETS and not _inst(x, c)) or (c == "MultiInputObj" and x[0] == "a" and x[1] not in ("str", "bytes")),
        lambda o, x, a: o in ABSTRACT_TARGETS and not _inst(x, o),
        T,
        v,
    )


def d25d_match(T, v) -> bool:
    """D25d: a dict reaches a one-argument generic pattern whose origin a dict is an instance of (Iterable,
    Collection): unpacking the (key, value) patterns raises ValueError, which a Union does not catch."""
    return _hit(lambda c, x: False, lambda o, x, a: x[0] == "m" and o in ("Iterable", "Collection"), T, v)


def _unhashable_after(sac, a, xj) -> bool:
    from pydra.utils.typing import TypeParser

    try:
        y = TypeParser(ty_to_py(a), superclass_auto_cast=sac).coerce(val_to_py(xj))
    except Exception:
        return False
    try:
        hash(y)
        return False
    except TypeError:
        return True


def d25c_match(sac, T, v) -> bool:
    """D25c (unhashable): a pattern that re-builds a set/frozenset (bare set class, generic set origin, or an
    abstract origin met by a set/frozenset value) or a dict pattern's key position receives an element that is
    unhashable (after coercion by the element pattern, decided with the real parser)."""
    setlike = {"set", "frozenset"}

    def pb(c, x):
        return c in setlike and any(not _hashable_json(e) for e in _elems_json(x))

    def pg(o, x, a):
        if a is None:
            return False
        if len(a) == 1 and (o in setlike or (x[0] == "s" and x[1] in setlike and _inst(x, o))):
            return any(_unhashable_after(sac, a[0], e) for e in _elems_json(x))
        if o in MAP_ORIGINS and len(a) == 2 and x[0] == "m":
            return any(_unhashable_after(sac, a[0], e) for e in x[2])
        return False

    return _hit(pb, pg, T, v)
