"""Correspondence machinery of the JobProto engine, part A (C10, C12, C13, C35).  DESIGN §5.4.

Pieces
  * tasks          python / shell / workflow tasks whose bodies count their executions in a control directory and
                   can be told (by files in that directory) to fail, to exit, or to wait at a gate
  * `run_spec`     ONE submission (`Task.__call__`) described by a JSON-able spec; reports outcome, outputs, cwd
  * zygote         a child process (`python -m harness.engines.jobproto zygote`, env = core.impl_env) that has
                   imported pydra once and FORKS one fresh process per submission: crash injection
                   (`NIPYPE_PYDRA_VERIF_CRASH/RAISE/TORN`), gates (`gates/ waiting/ release/` token files of
                   pydra/utils/verif_hooks.py) and watchdogs all act on the forked process.  Nothing is
                   synchronised by sleeping: the harness waits for files / process exits with generous timeouts.
  * `observe`      canonical observable of a cache location (what the Lean `Core` + derived files describe)
  * `Model`        thin client of the Lean driver (Drivers/JobProto.lean)
  * `validate_skeleton`  the regenerated skeleton's predicted hook-point trace vs `events.log` of real runs

Infrastructure problems (zygote died, fork failed, report file missing although the child exited 0) raise
`core.Infra` (exit code 2), never a violation.  A child that does not finish within its watchdog is reported as
`hang` to the caller, which decides (for C12 a hang of the resubmission IS the violation).
"""

from __future__ import annotations

import json
import os
import select
import signal
import subprocess
import sys
import time
from pathlib import Path

from harness import core

WATCHDOG = float(os.environ.get("VERIF_JOBPROTO_WATCHDOG", "90"))

# --------------------------------------------------------------------------------------------------------------
# tasks (module level: importable by worker processes; case data only through inputs)


def _body(ctl: str, tag: str):
    """What every task body does: count the execution, then obey the control directory."""
    with open(os.path.join(ctl, "execs.log"), "a") as f:
        f.write(f"{os.getpid()} {tag}\n")
    if os.path.exists(os.path.join(ctl, "gate_body")):
        Path(ctl, "waiting_body").mkdir(exist_ok=True)
        Path(ctl, "waiting_body", str(os.getpid())).touch()
        deadline = time.time() + 120
        while not os.path.exists(os.path.join(ctl, "release_body")) and time.time() < deadline:
            time.sleep(0.005)
    if os.path.exists(os.path.join(ctl, "fail")):
        raise ValueError("task body told to fail")
    if os.path.exists(os.path.join(ctl, "sysexit")):
        sys.exit(3)


def _define():
    from pydra.compose import python, shell, workflow

    @python.define(outputs=["out"])
    def Inc(x: int, ctl: str) -> int:
        from harness.engines.jobproto import _body

        _body(ctl, "py")
        return x + 1

    @python.define(outputs=["a", "b"])
    def Two(x: int, ctl: str, mode: str):
        """Return-value binding cases: `mode` selects what the function returns."""
        from harness.engines.jobproto import _body

        _body(ctl, "two")
        if mode == "dict_ab":
            return {"a": x, "b": x + 1}
        if mode == "dict_a":
            return {"a": x}
        if mode == "dict_extra":
            return {"a": x, "b": x + 1, "c": 0}
        if mode == "tuple2":
            return (x, x + 1)
        if mode == "tuple3":
            return (x, x + 1, x + 2)
        if mode == "tuple1":
            return (x,)
        if mode == "list2":
            return [x, x + 1]
        if mode == "scalar":
            return x
        if mode == "none":
            return None
        raise AssertionError(mode)

    Sh = shell.define("sh <script:str>")
    ShOut = shell.define("sh <script:str> <out|outf:generic/file>")

    @workflow.define(outputs=["out"])
    def Wf(x: int, ctl: str) -> int:
        a = workflow.add(Inc(x=x, ctl=ctl), name="a")
        return a.out

    return Inc, Two, Sh, Wf, ShOut


_TASKS = None


def tasks():
    global _TASKS
    if _TASKS is None:
        _TASKS = _define()
    return _TASKS


def make_task(spec: dict):
    Inc, Two, Sh, Wf, ShOut = tasks()
    kind = spec["task"]
    ctl = spec["ctl"]
    x = int(spec.get("x", 1))
    if kind == "py":
        return Inc(x=x, ctl=ctl)
    if kind == "two":
        return Two(x=x, ctl=ctl, mode=spec["mode"])
    if kind in ("sh", "shout"):
        # the command obeys the control directory: it can kill itself with a signal (the return code subprocess
        # reports is then negative), replace itself by a python interpreter that aborts, or exit with a given status
        script = os.path.join(ctl, "body.sh")
        if not os.path.exists(script):
            Path(script).write_text(
                f'echo "$$ sh" >> {ctl}/execs.log\n'
                f'if [ -n "$1" ] && [ -e {ctl}/early_out ]; then echo data{x} > "$1"; fi\n'
                f'if [ -e {ctl}/sig ]; then kill -$(cat {ctl}/sig) $$; fi\n'
                f'if [ -e {ctl}/abortpy ]; then exec {sys.executable} -c "import os; os.abort()"; fi\n'
                f'if [ -e {ctl}/fail ]; then echo boom >&2; exit 3; fi\n'
                f"echo out{x}\n"
                f'if [ -n "$1" ]; then echo data{x} > "$1"; fi\n'
                f'if [ -e {ctl}/exitcode ]; then exit $(cat {ctl}/exitcode); fi\n'
            )
        return Sh(script=script) if kind == "sh" else ShOut(script=script)
    if kind == "wf":
        return Wf(x=x, ctl=ctl)
    raise ValueError(kind)


def checksum(spec: dict) -> str:
    return make_task(spec)._checksum


def expected_outputs(spec: dict):
    kind, x = spec["task"], int(spec.get("x", 1))
    if kind in ("py", "wf"):
        return {"out": x + 1}
    if kind in ("sh", "shout"):
        return {"stdout": f"out{x}"}
    return None


BODY_FLAGS = ("fail", "sysexit", "sig", "abortpy", "exitcode", "early_out")
SIGNALS = {"SEGV": 11, "KILL": 9, "ABRT": 6, "TERM": 15, "BUS": 7}


def set_body(ctl: str, body: str):
    """Tell the task bodies what to do next: "ok" | "fail" | "sysexit" | "sig:<NAME>[+out]" | "abortpy" | "exit:<n>"
    ("+out": a declared output file is written before the command dies)."""
    for f in BODY_FLAGS:
        p = Path(ctl) / f
        if p.exists():
            p.unlink()
    if body.endswith("+out"):
        (Path(ctl) / "early_out").touch()
        body = body[:-4]
    if body in ("fail", "sysexit", "abortpy"):
        (Path(ctl) / body).touch()
    elif body.startswith("sig:"):
        (Path(ctl) / "sig").write_text(body[4:])
    elif body.startswith("exit:"):
        (Path(ctl) / "exitcode").write_text(body[5:])
    elif body != "ok":
        raise ValueError(body)


def body_return_code(body: str) -> int:
    """return code `subprocess.run` reports for a shell body (what the OS does, not what pydra does)"""
    body = body[:-4] if body.endswith("+out") else body
    if body == "ok":
        return 0
    if body == "fail":
        return 3
    if body == "abortpy":
        return -SIGNALS["ABRT"]
    if body.startswith("sig:"):
        return -SIGNALS[body[4:]]
    if body.startswith("exit:"):
        return int(body[5:]) % 256  # the exit status is one byte: `exit 256` is a success — the shell's business
    raise ValueError(body)


class HookRaised(RuntimeError):
    pass


def make_hooks(spec: dict):
    from pydra.engine.hooks import TaskHooks

    mode = spec.get("hooks")
    if not mode:
        return None
    ctl = spec["ctl"]

    def mk(name):
        def hook(*a, **k):
            with open(os.path.join(ctl, "hooks.log"), "a") as f:
                f.write(f"{name}\n")
            with open(os.path.join(ctl, "hooks_pid.log"), "a") as f:
                f.write(f"{os.getpid()} {name}\n")
            if mode == f"raise_{name}":
                raise HookRaised(name)

        return hook

    return TaskHooks(pre_run=mk("pre_run"), pre_run_task=mk("pre_run_task"), post_run_task=mk("post_run_task"), post_run=mk("post_run"))


def _canon_outputs(out):
    if out is None:
        return None
    res = {}
    for k in ("out", "a", "b", "stdout"):
        if hasattr(out, k):
            v = getattr(out, k)
            if k == "stdout":
                v = str(v).strip()
            res[k] = v if isinstance(v, (int, str, type(None))) else repr(v)
    return res


def run_spec(spec: dict) -> dict:
    """One submission in THIS process.  Returns a JSON-able report."""
    cwd0 = os.getcwd()
    rep = {"pid": os.getpid()}
    try:
        t = make_task(spec)
        kw = dict(cache_root=spec["cache"], worker=spec.get("worker", "debug"), rerun=bool(spec.get("rerun", False)))
        if kw["worker"] == "cf":
            kw["n_procs"] = 2
        if spec.get("prov"):
            from pydra.utils.messenger import AuditFlag, FileMessenger

            kw["audit_flags"] = AuditFlag.PROV
            kw["messengers"] = FileMessenger()
        hooks = make_hooks(spec)
        if hooks is not None:
            kw["hooks"] = hooks
        out = t(**kw)
        rep["outcome"] = "ok"
        rep["outputs"] = _canon_outputs(out)
    except BaseException as e:  # SystemExit of a task body must be reported, not obeyed
        rep["outcome"] = core.exc_tag(e)
        m = str(e)
        rep["msg"] = m if len(m) <= 3600 else m[:600] + " … " + m[-3000:]
        rep["notes"] = [n[:300] for n in getattr(e, "__notes__", [])][:3]
    cwd1 = os.getcwd()
    rep["cwd"] = "orig" if cwd1 == cwd0 else ("jobDir" if Path(cwd1).parent == Path(spec["cache"]).resolve() else "other")
    try:
        os.chdir(cwd0)
    except OSError:
        pass
    return rep


# --------------------------------------------------------------------------------------------------------------
# observation of a cache location


def _file_state(path: Path, kind: str):
    """absent | trunc | complete (job/error files)   |   absent | trunc | ok | err | ok_noout | err_out (result)"""
    import pickle

    import cloudpickle as cp

    if not path.exists():
        return "absent"
    try:
        if path.stat().st_size == 0:
            return "trunc"
        with open(path, "rb") as f:
            obj = cp.load(f)
    except (pickle.UnpicklingError, EOFError):
        return "trunc"
    except Exception as e:  # anything else: report it, the caller compares and will flag it
        return f"unloadable:{core.exc_tag(e)}"
    if kind != "result":
        return "complete"
    errored = bool(obj.errored)
    has_out = obj.outputs is not None
    return {(False, True): "ok", (True, False): "err", (False, False): "ok_noout", (True, True): "err_out"}[(errored, has_out)]


def _pid_alive(pid: int) -> bool:
    try:
        os.kill(pid, 0)
    except ProcessLookupError:
        return False
    except PermissionError:
        return True
    return True


def _lock_state(path: Path) -> str:
    """free | live | dead  (marker absent / names a living pid / names a dead pid or is unreadable)"""
    if not path.exists():
        return "free"
    try:
        pid = int(path.read_text().splitlines()[0])
    except Exception:
        return "dead"
    return "live" if _pid_alive(pid) else "dead"


def observe(cache: str, chk: str, ctl: str) -> dict:
    root = Path(cache)
    d = root / chk
    obs = {
        "dir": d.is_dir(),
        "result": _file_state(d / "_result.pklz", "result") if d.is_dir() else "absent",
        "errFile": _file_state(d / "_error.pklz", "error") if d.is_dir() else "absent",
        "jobFile": _file_state(d / "_job.pklz", "job") if d.is_dir() else "absent",
        "jobLock": _lock_state(root / f"{chk}.lock"),
        "saveLock": _lock_state(root / f"{chk}_save.lock"),
        "info": len(list(root.glob("*_info.json"))),
        "execs": _count_lines(Path(ctl) / "execs.log"),
        "hooks": _read_lines(Path(ctl) / "hooks.log"),
    }
    return obs


def _count_lines(p: Path) -> int:
    return len(p.read_text().splitlines()) if p.exists() else 0


def _read_lines(p: Path) -> list:
    return p.read_text().split() if p.exists() else []


def read_events(vdir: str, label: str | None = None, pid: int | None = None) -> list[str]:
    """Hook points of `events.log` (optionally of one job label / one process), without `load_result`."""
    p = Path(vdir) / "events.log"
    out = []
    if not p.exists():
        return out
    for line in p.read_text().splitlines():
        parts = line.split(" ", 2)
        if len(parts) < 2:
            continue
        epid, point = int(parts[0]), parts[1]
        lab = parts[2] if len(parts) > 2 else ""
        if point == "load_result":
            continue
        if pid is not None and epid != pid:
            continue
        out.append((point, lab))
    if label is None:
        return [p for p, _ in out]
    # points inside `save` / `record_error` carry no label: attribute them to the enclosing labelled job
    res, cur = [], None
    for point, lab in out:
        if lab:
            cur = lab
        if (lab or cur) == label:
            res.append(point)
    return res


# --------------------------------------------------------------------------------------------------------------
# zygote: fork one fresh process per submission


def _child_main(spec: dict):
    """Runs in the forked child."""
    try:
        for k in list(os.environ):
            if k.startswith("NIPYPE_PYDRA_VERIF_"):
                del os.environ[k]
        for k, v in (spec.get("env") or {}).items():
            os.environ[k] = str(v)
        import pydra.utils.verif_hooks as vh

        vh._counts.clear()
        os.chdir(spec.get("cwd") or os.getcwd())
        rep = run_spec(spec)
        tmp = spec["out"] + ".tmp"
        with open(tmp, "w") as f:
            json.dump(rep, f)
        os.replace(tmp, spec["out"])
        sys.stdout.flush()
        sys.stderr.flush()
    finally:
        os._exit(0)


def zygote_main():
    core.assert_repo_loaded()
    tasks()  # import pydra and define the task classes once
    import pydra.engine.submitter  # noqa: F401
    import pydra.workers.cf  # noqa: F401
    import pydra.workers.debug  # noqa: F401

    # warm-up: one complete submission so that every lazy import has happened before the first fork
    import shutil
    import tempfile

    wd = tempfile.mkdtemp(prefix="jp-warm-")
    try:
        os.makedirs(os.path.join(wd, "ctl"))
        for kind in ("py", "sh", "shout", "wf"):
            run_spec({"task": kind, "x": 0, "ctl": os.path.join(wd, "ctl"), "cache": os.path.join(wd, "cache")})
    finally:
        shutil.rmtree(wd, ignore_errors=True)
    import pydra.utils.verif_hooks as vh

    vh._counts.clear()

    children: dict[int, int] = {}
    out = sys.stdout
    print(json.dumps({"ready": True, "pid": os.getpid()}), file=out, flush=True)
    for line in sys.stdin:
        line = line.strip()
        if not line:
            continue
        cmd = json.loads(line)
        c = cmd["cmd"]
        if c == "quit":
            break
        if c == "spawn":
            sys.stdout.flush()
            pid = os.fork()
            if pid == 0:
                # the child must never return into the command loop
                try:
                    devnull = os.open(os.devnull, os.O_RDWR)
                    os.dup2(devnull, 0)
                    log = os.open(cmd["spec"]["out"] + ".log", os.O_WRONLY | os.O_CREAT | os.O_TRUNC, 0o644)
                    os.dup2(log, 1)
                    os.dup2(log, 2)
                    _child_main(cmd["spec"])
                finally:
                    os._exit(99)
            children[cmd["id"]] = pid
            print(json.dumps({"id": cmd["id"], "pid": pid}), file=out, flush=True)
        elif c == "wait":
            pid = children.get(cmd["id"])
            deadline = time.time() + float(cmd.get("timeout", WATCHDOG))
            status, hang = None, False
            while True:
                try:
                    wpid, st = os.waitpid(pid, os.WNOHANG)
                except ChildProcessError:
                    status = -1
                    break
                if wpid == pid:
                    status = os.waitstatus_to_exitcode(st)
                    break
                if time.time() > deadline:
                    hang = True
                    _kill_tree(pid)
                    try:
                        os.waitpid(pid, 0)
                    except ChildProcessError:
                        pass
                    break
                time.sleep(0.003)
            children.pop(cmd["id"], None)
            print(json.dumps({"id": cmd["id"], "exit": status, "hang": hang}), file=out, flush=True)
        elif c == "kill":
            pid = children.pop(cmd["id"], None)
            if pid:
                _kill_tree(pid)
                try:
                    os.waitpid(pid, 0)
                except ChildProcessError:
                    pass
            print(json.dumps({"id": cmd["id"], "killed": True}), file=out, flush=True)
    for pid in children.values():
        _kill_tree(pid)


def _kill_tree(pid: int):
    # the forked child may have a process pool: kill its children first (best effort, /proc based)
    try:
        kids = subprocess.run(["pgrep", "-P", str(pid)], capture_output=True, text=True).stdout.split()
    except Exception:
        kids = []
    for k in kids:
        _kill_tree(int(k))
    try:
        os.kill(pid, signal.SIGKILL)
    except ProcessLookupError:
        pass


class Zygote:
    """Client side.  `spawn(spec)` -> handle; `wait(handle, timeout)` -> {"exit", "hang", "report"}."""

    def __init__(self, scratch: Path):
        self.scratch = Path(scratch)
        self.n = 0
        self.proc = subprocess.Popen(
            [core.PY, "-m", "harness.engines.jobproto", "zygote"],
            stdin=subprocess.PIPE,
            stdout=subprocess.PIPE,
            stderr=open(self.scratch / "zygote.err", "w"),
            text=True,
            env=core.impl_env({"PYTHONUNBUFFERED": "1"}),
            cwd=str(self.scratch),
        )
        hello = self._read(timeout=180)
        if not hello.get("ready"):
            raise core.Infra(f"zygote did not start: {hello}")

    def _read(self, timeout: float) -> dict:
        r, _, _ = select.select([self.proc.stdout], [], [], timeout)
        if not r:
            raise core.Infra("zygote does not answer (timeout)")
        line = self.proc.stdout.readline()
        if not line:
            err = (self.scratch / "zygote.err").read_text()[-800:]
            raise core.Infra(f"zygote died: {err}")
        return json.loads(line)

    def _send(self, obj: dict):
        try:
            self.proc.stdin.write(json.dumps(obj) + "\n")
            self.proc.stdin.flush()
        except BrokenPipeError:
            raise core.Infra("zygote pipe broken")

    def spawn(self, spec: dict) -> dict:
        self.n += 1
        spec = dict(spec)
        spec["out"] = str(self.scratch / f"rep{self.n}.json")
        spec.setdefault("cwd", str(self.scratch))
        self._send({"cmd": "spawn", "id": self.n, "spec": spec})
        ans = self._read(timeout=120)
        return {"id": self.n, "pid": ans["pid"], "out": spec["out"], "spec": spec}

    def wait(self, h: dict, timeout: float = WATCHDOG) -> dict:
        self._send({"cmd": "wait", "id": h["id"], "timeout": timeout})
        ans = self._read(timeout=timeout + 60)
        rep = None
        if os.path.exists(h["out"]):
            try:
                rep = json.loads(Path(h["out"]).read_text())
            except json.JSONDecodeError:
                rep = None
        if ans["exit"] == 0 and rep is None and not ans["hang"]:
            log = Path(h["out"] + ".log")
            raise core.Infra(f"child exited 0 without a report: {log.read_text()[-500:] if log.exists() else ''}")
        if ans["exit"] == 99:
            log = Path(h["out"] + ".log")
            raise core.Infra(f"child failed outside the submission: {log.read_text()[-500:] if log.exists() else ''}")
        return {"exit": ans["exit"], "hang": ans["hang"], "report": rep, "pid": h["pid"]}

    def run(self, spec: dict, timeout: float = WATCHDOG) -> dict:
        return self.wait(self.spawn(spec), timeout)

    def kill(self, h: dict):
        self._send({"cmd": "kill", "id": h["id"]})
        self._read(timeout=60)

    def close(self):
        try:
            self._send({"cmd": "quit"})
            self.proc.wait(timeout=30)
        except Exception:
            self.proc.kill()


# --------------------------------------------------------------------------------------------------------------
# gates (interleaving control through the hook points)


class Gates:
    """Control directory of pydra/utils/verif_hooks.py: `gates/<point>` makes every process block at that point
    until `release/<pid>.<point>.<n>` appears; blocked processes announce themselves in `waiting/`."""

    def __init__(self, vdir: Path):
        self.d = Path(vdir)
        for s in ("gates", "waiting", "release"):
            (self.d / s).mkdir(parents=True, exist_ok=True)

    def gate(self, *points: str):
        for p in points:
            (self.d / "gates" / p).touch()

    def ungate(self, *points: str):
        for p in points:
            try:
                (self.d / "gates" / p).unlink()
            except FileNotFoundError:
                pass

    def waiting(self) -> set[str]:
        return {p.name for p in (self.d / "waiting").iterdir()} - {p.name for p in (self.d / "release").iterdir()}

    def wait_for(self, pid: int, point: str | None = None, timeout: float = WATCHDOG, alive=None) -> str | None:
        """Block until process `pid` is waiting at a gate (optionally at `point`); returns the tag, or None when
        `alive()` says the process is gone / the timeout expires."""
        deadline = time.time() + timeout
        while time.time() < deadline:
            for tag in self.waiting():
                tp, _, rest = tag.partition(".")
                if tp == str(pid) and (point is None or rest.rsplit(".", 1)[0] == point):
                    return tag
            if alive is not None and not alive():
                return None
            time.sleep(0.003)
        return None

    def release(self, tag: str):
        (self.d / "release" / tag).touch()

    def release_all(self):
        (self.d / "release" / "all").touch()


# --------------------------------------------------------------------------------------------------------------
# model client


FRESH_CORE = {
    "dir": False, "result": "absent", "jobLock": "free", "saveLock": "free", "info": False, "cwd": "orig",
    "savedCwd": None, "resVar": None, "jobErrored": False, "lastRaiseBase": False,
}  # fmt: skip


def exec_query(prog="run", core_=None, env=None, fault=None, submit=None, err_init="absent", job_init="absent") -> dict:
    e = {"rerun": False, "prov": False, "bodyFails": None}
    e.update(env or {})
    return {
        "op": "exec", "prog": prog, "core": dict(core_ or FRESH_CORE), "errInit": err_init, "jobInit": job_init,
        "env": e, "fault": fault or {"kind": "none"}, "submit": submit,
    }  # fmt: skip


def model_observable(ans: dict, after: str | None = None) -> dict:
    """The part of a driver answer that `observe` + the child's report can see.  `after="death"`: as the next
    process sees it (markers held by the dead process are stale, its info file is a leftover)."""
    c = ans["core"]

    def lock(s):
        if after == "death":
            return {"mine": "dead", "otherDead": "dead", "free": "free", "otherLive": "live"}[s]
        return {"mine": "live", "otherDead": "dead", "free": "free", "otherLive": "live"}[s]

    return {
        "dir": c["dir"],
        "result": c["result"] if c["dir"] else "absent",
        "errFile": ans["errFile"] if c["dir"] else "absent",
        "jobFile": ans["jobFile"] if c["dir"] else "absent",
        "jobLock": lock(c["jobLock"]),
        "saveLock": lock(c["saveLock"]),
        "info": 1 if c["info"] else 0,
        "execs": ans["execs"],
    }


def vp_index(positions: dict, point: str, occurrence: int = 1) -> int:
    """Position (in `flatten`) of the `occurrence`-th static occurrence of hook point `point`."""
    idx = [i for p, i in positions["vp"] if p == point]
    if len(idx) < occurrence:
        raise KeyError(f"hook point {point}:{occurrence} not in the skeleton")
    return idx[occurrence - 1]


def act_index(positions: dict, act: str, occurrence: int = 1) -> int:
    idx = [i for i, a in enumerate(positions["acts"]) if a == act]
    return idx[occurrence - 1]


# --------------------------------------------------------------------------------------------------------------
# validation of the regenerated skeleton against real event logs


def safe_skeletons(ctx):
    """The skeleton trees, or None when the extractor cannot read the current source (the tie is then broken —
    recorded — and the correspondence goes on comparing the implementation with the property alone)."""
    from harness.extractors import job_skeleton

    try:
        return job_skeleton.skeletons()
    except Exception as e:
        if not getattr(ctx, "_extract_noted", False):
            ctx._extract_noted = True
            ctx.tie_broken.append({"kind": "extraction", "extractor": "job_skeleton.skeletons", "detail": f"{core.exc_tag(e)}: {e}"})
        return None


def validate_skeleton(ctx, zy: Zygote, positions_run: dict | None) -> int:
    """normal / cached / failing runs of a python task: the hook points the real run passes (events.log of the
    guarded `vp` calls) must be the ones the generated skeleton predicts.  A mismatch breaks the tie."""
    if positions_run is None:
        return 0
    n_bad = 0
    scen = [("normal", {}, None, False), ("cached", {}, None, True), ("failing", {"bodyFails": False}, "fail", False)]
    queries, logs = [], []
    for name, env, flag, second in scen:
        base = ctx.scratch / f"skel_{name}"
        ctl, cache, vdir = base / "ctl", base / "cache", base / "v"
        for d in (ctl, cache, vdir):
            d.mkdir(parents=True)
        if flag:
            (ctl / flag).touch()
        spec = {"task": "py", "x": 1, "ctl": str(ctl), "cache": str(cache), "env": {"NIPYPE_PYDRA_VERIF_DIR": str(vdir)}}
        core_ = dict(FRESH_CORE)
        if second:
            r0 = zy.run(spec)
            if r0["hang"] or not r0["report"]:
                raise core.Infra(f"skeleton validation: first run of {name} did not finish")
            (vdir / "events.log").unlink()
            core_.update({"dir": True, "result": "ok"})
        r = zy.run(spec)
        if r["hang"] or not r["report"]:
            raise core.Infra(f"skeleton validation: run {name} did not finish")
        logs.append(read_events(str(vdir), label="main"))
        queries.append(exec_query("run", core_, env))
    ans = ctx.driver("JobProto", queries)
    if ans is None:
        return 1
    for (name, *_), real, a in zip(scen, logs, ans):
        ctx.count(f"skeleton-trace:{name}")
        if "error" in a or a["vps"] != real:
            n_bad += 1
            ctx.tie_broken.append({"kind": "skeleton-trace", "scenario": name, "events_log": real, "skeleton": a.get("vps", a)})
    ctx.extra.setdefault("traces_validated_against_impl", 0)
    ctx.extra["traces_validated_against_impl"] += len(scen) - n_bad
    return n_bad


if __name__ == "__main__":
    if len(sys.argv) > 1 and sys.argv[1] == "zygote":
        from harness.engines import jobproto as _jp  # run as the importable module, not as __main__

        _jp.zygote_main()
