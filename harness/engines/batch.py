"""Harness pieces of the Batch engine (C28): scripted fake scheduler, scheduler-history generator, child runner, watchdog.

Fake scheduler: `corpus/batch/fakesched/fakesched`, installed under the names sbatch/squeue/sacct/scontrol/qsub/qstat/qacct
on a private PATH.  It replays `$FAKESCHED_DIR/resp/<n>.{rc,out,err}` (n counts every call of any tool), logs every
argv to `$FAKESCHED_DIR/log/<n>.argv`, and marks `$FAKESCHED_DIR/exhausted` when the script is used up (then it answers
"still pending", and the monitor in the child cancels the worker -> verdict `stillPolling`).

Every submission runs in a child interpreter (`python -m harness.engines.batch child …`) that handles a list of cases,
reports progress after each, and is watched by the parent: a case that neither finishes nor makes scheduler calls while
the child burns CPU (or for too long in wall time) is killed and reported as `hang` with the script as replay.
"""

from __future__ import annotations

import json
import os
import shutil
import signal
import subprocess
import sys
import time
from pathlib import Path

from harness import core

FAKEDIR = core.VERIF / "corpus" / "batch" / "fakesched"
TOOLS = ["sbatch", "squeue", "sacct", "scontrol", "qsub", "qstat", "qacct"]

# ------------------------------------------------------------------------------------------------
# scheduler histories (the harness' own, independent simulation of what a scheduler prints)

REQUEUE = ("CANCELLED", "TIMEOUT", "PREEMPTED")
POLLING = ("RUNNING", "PENDING")
EVENTS = ["pending", "running", "completed", "failed", "cancelled", "timeout", "preempted", "node_fail", "missing"]
EXTRA_EVENTS = ["oom", "completed_nonzero", "acct_running", "acct_pending", "squeue_error", "boot_fail", "cancelled_by"]


def acct_line(jobid: str, state: str, code: str, rng) -> str:
    """one `sacct -n -X -j <id> -o JobID,State,ExitCode` line: padded columns, truncated states end in '+'"""
    style = rng.choice(["tight", "columns", "columns", "lead"])
    if style == "tight":
        return f"{jobid} {state} {code}\n"
    if style == "lead":
        return f"  {jobid}   {state}   {code} \n"
    return f"{jobid:<12} {state:>10} {code:>8} \n"


def event_state(ev: str) -> tuple[str, str] | None:
    """(State column, ExitCode column) of a final accounting record; None = not an accounting record"""
    return {
        "completed": ("COMPLETED", "0:0"),
        "failed": ("FAILED", "1:0"),
        "cancelled": ("CANCELLED", "0:0"),
        "cancelled_by": ("CANCELLED+", "0:15"),
        "timeout": ("TIMEOUT", "0:0"),
        "preempted": ("PREEMPTED", "0:0"),
        "node_fail": ("NODE_FAIL", "1:0"),
        "oom": ("OUT_OF_ME+", "0:125"),
        "boot_fail": ("BOOT_FAIL", "1:0"),
        "completed_nonzero": ("COMPLETED", "2:0"),
        "acct_running": ("RUNNING", "0:0"),
        "acct_pending": ("PENDING", "0:0"),
    }.get(ev)


def gen_history(rng, quick_alphabet: bool = False) -> list[str]:
    n = rng.choice([0, 1, 1, 2, 2, 3, 4, 5, 6, 8])
    evs = []
    for _ in range(n):
        pool = EVENTS if (quick_alphabet or rng.random() < 0.75) else EXTRA_EVENTS
        evs.append(rng.choice(pool))
    return evs


def spec_walk(history: list[str], no_requeue: bool) -> dict:
    """THE TABLE as the harness reads the property (independent of the model): which tools must be called in which
    order, how the submission must end at worker level, how many requeues."""
    tools = ["sbatch"]
    requeues = 0
    for ev in history:
        tools.append("squeue")
        if ev in ("pending", "running"):
            continue
        tools.append("sacct")
        if ev == "missing":
            return {"final": "failed", "tools": tools, "requeues": requeues, "terminal": ev}
        st, code = event_state(ev) if ev != "squeue_error" else event_state("failed")
        st = st.rstrip("+")
        ok = st == "COMPLETED" and code.split(":")[0] == "0"
        if ok:
            return {"final": "complete", "tools": tools, "requeues": requeues, "terminal": ev}
        if st in REQUEUE:
            if no_requeue:
                # the scheduler did not report success and the user forbids requeueing: the job is dead
                return {"final": "failed", "tools": tools, "requeues": requeues, "terminal": ev}
            tools.append("scontrol")
            requeues += 1
            continue
        if st in POLLING:
            continue
        return {"final": "failed", "tools": tools, "requeues": requeues, "terminal": ev}
    tools.append("squeue")  # the next poll, never answered
    return {"final": "stillPolling", "tools": tools, "requeues": requeues, "terminal": None}


def render_history(history: list[str], jobid: str, no_requeue: bool, rng, errtext: str | None, run_script: bool) -> list[dict]:
    """flat response list for the fake tools, in the order a worker following the protocol consumes them"""
    sub = {"rc": 0, "out": rng.choice([f"Submitted batch job {jobid}\n", f"Submitted batch job {jobid} on cluster c1\n", f"{jobid}\n"]), "err": ""}
    if run_script:
        sub["run"] = True
    elif errtext is not None:
        sub["errtext"] = errtext
    resp = [sub]
    listed = lambda st: {"rc": 0, "out": f"  {jobid} debug main user {st} 0:00 1 (None)\n", "err": ""}  # noqa: E731
    gone = lambda: rng.choice(  # noqa: E731
        [{"rc": 0, "out": "", "err": ""}, {"rc": 1, "out": "", "err": "slurm_load_jobs error: Invalid job id specified\n"}]
    )
    for ev in history:
        if ev == "pending":
            resp.append(listed("PD"))
            continue
        if ev == "running":
            resp.append(listed("R"))
            continue
        if ev == "squeue_error":
            # squeue prints something on stdout but reports the job unknown on stderr; accounting says FAILED
            resp.append({"rc": 1, "out": "JOBID PARTITION\n", "err": "slurm_load_jobs error: Invalid job id specified\n"})
            st, code = event_state("failed")
            resp.append({"rc": 0, "out": acct_line(jobid, st, code, rng), "err": ""})
            break
        resp.append(gone())
        if ev == "missing":
            resp.append({"rc": 0, "out": "", "err": ""})
            break
        st, code = event_state(ev)
        resp.append({"rc": 0, "out": acct_line(jobid, st, code, rng), "err": ""})
        base = st.rstrip("+")
        ok = base == "COMPLETED" and code.startswith("0:")
        if ok:
            break
        if base in REQUEUE:
            if no_requeue:
                break
            resp.append({"rc": 0, "out": "", "err": ""})  # scontrol requeue
            continue
        if base in POLLING:
            continue
        break
    return resp


# ------------------------------------------------------------------------------------------------
# user options

OPT_FORMS = {
    "J": [None, "-J {v}", "--job-name={v}"],
    "o": [None, "-o {v}", "--output={v}"],
    "e": [None, "-e {v}", "--error={v}"],
}
OTHER_TOKENS = ["--mem=4G", "-N 1", "--time=10", "-p debug", "--mail-type=END", "--exclusive", "-c 2", "--no-kill"]


def gen_user_args(rng, udir: str, combo: tuple | None = None, p_norequeue: float = 0.06) -> dict:
    """user `sbatch_args`: each of -J/-o/-e absent or in one of two spellings, mixed with other options"""
    if combo is None:
        combo = tuple(rng.randrange(3) for _ in range(3))
    vals = {"J": rng.choice(["myjob", "n-1", "a.b"]), "o": f"{udir}/uo-%j.out", "e": rng.choice([f"{udir}/ue-%j.err", f"{udir}/ue.err"])}
    parts = []
    for k, ix in zip("Joe", combo):
        form = OPT_FORMS[k][ix]
        if form:
            parts.append(form.format(v=vals[k]))
    parts += rng.sample(OTHER_TOKENS, rng.choice([0, 0, 1, 2]))
    no_requeue = rng.random() < p_norequeue
    if no_requeue:
        parts.append("--no-requeue")
    rng.shuffle(parts)
    sep = rng.choice([" ", " ", "  "])
    user = sep.join(parts)
    return {"user": user, "combo": list(combo), "vals": vals, "no_requeue": no_requeue}


def parse_sbatch_argv(argv: list[str]) -> dict:
    """read an sbatch command line the way sbatch does (short option + next token, or --long=value); last token = script"""
    opts = {"J": [], "o": [], "e": []}
    long = {"--job-name=": "J", "--output=": "o", "--error=": "e"}
    toks = argv[1:-1]
    i = 0
    while i < len(toks):
        t = toks[i]
        if t in ("-J", "-o", "-e") and i + 1 < len(toks):
            opts[t[1]].append(toks[i + 1])
            i += 2
            continue
        for pre, k in long.items():
            if t.startswith(pre):
                opts[k].append(t[len(pre) :])
        i += 1
    return {"opts": opts, "script": argv[-1] if argv else None, "tokens": toks}


# ------------------------------------------------------------------------------------------------
# scripts on disk


def install_fakes(bindir: Path) -> None:
    bindir.mkdir(parents=True, exist_ok=True)
    shutil.copy(FAKEDIR / "fakesched", bindir / "fakesched")
    (bindir / "fakesched").chmod(0o755)
    for t in TOOLS:
        p = bindir / t
        if p.exists() or p.is_symlink():
            p.unlink()
        p.symlink_to("fakesched")


def write_script(d: Path, resps: list[dict]) -> None:
    shutil.rmtree(d, ignore_errors=True)
    (d / "resp").mkdir(parents=True)
    (d / "log").mkdir()
    for i, r in enumerate(resps):
        (d / "resp" / f"{i}.rc").write_text(str(r.get("rc", 0)))
        (d / "resp" / f"{i}.out").write_text(r.get("out", ""))
        (d / "resp" / f"{i}.err").write_text(r.get("err", ""))
        if r.get("run"):
            (d / "resp" / f"{i}.run").write_text("")
        if "errtext" in r:
            (d / "resp" / f"{i}.errtext").write_text(r["errtext"])
        if r.get("corrupt"):
            (d / "resp" / f"{i}.corrupt").write_text("")


def read_calls(d: Path) -> list[list[str]]:
    out = []
    logs = sorted((d / "log").glob("*.argv"), key=lambda p: int(p.stem)) if (d / "log").exists() else []
    for f in logs:
        parts = f.read_bytes().split(b"\0")
        if parts and parts[-1] == b"":
            parts = parts[:-1]
        out.append([p.decode("utf-8", "replace") for p in parts])
    return out


# ------------------------------------------------------------------------------------------------
# child side


def _child_one(case: dict, workdir: Path) -> dict:
    """run one case inside the child interpreter; returns the observation"""
    import asyncio

    from pydra.engine.job import Job
    from pydra.engine.submitter import Submitter

    from harness.engines import batch_tasks as bt

    sched = workdir / "sched"
    write_script(sched, case["responses"])
    os.environ["FAKESCHED_DIR"] = str(sched)
    cache = workdir / "cache"
    worker = case.get("worker", "slurm")
    kw = {"sbatch_args": case["user"]} if worker == "slurm" else {"qsub_args": case["user"], "collect_jobs_delay": 0}
    obs: dict = {"cache": str(cache)}
    task = {"inc": bt.Inc(x=1), "boom": bt.Boom(x=1), "wf_inc": bt.WfInc(x=1), "wf_boom": bt.WfBoom(x=1)}[case.get("task", "inc")]

    async def guarded(coro):
        t = asyncio.ensure_future(coro)
        while not t.done():
            if (sched / "exhausted").exists():
                t.cancel()
                try:
                    await t
                except asyncio.CancelledError:
                    return "stillPolling"
                except Exception:  # noqa: BLE001
                    raise
            await asyncio.sleep(0.003)
        return t.result()

    with Submitter(worker=worker, cache_root=cache, poll_delay=0, **kw) as sub:
        if case["level"] == "worker":
            job = Job(task, submitter=sub, name="main")
            obs["uid"] = job.uid
            obs["job_name"] = job.name
            obs["checksum"] = job.checksum
            try:
                v = sub.loop.run_until_complete(guarded(sub.worker.run(job)))
                obs["verdict"] = {"kind": "stillPolling"} if v == "stillPolling" else {"kind": "done", "value": repr(v)}
            except Exception as e:  # noqa: BLE001
                obs["verdict"] = {"kind": "raised", "cls": type(e).__name__, "msg": str(e)}
            obs["result_exists"] = (cache / job.checksum / "_result.pklz").exists()
        else:
            inject = case.get("inject")  # raise injection inside the batch script's Job.run (guarded hook point)
            if inject:
                os.environ["NIPYPE_PYDRA_VERIF_RAISE"] = inject
            try:
                r = sub(task, raise_errors=True)
                out = getattr(r.outputs, "out", None)
                obs["final"] = {"kind": "complete", "errored": bool(r.errored), "out": out if isinstance(out, int) else repr(out)}
            except Exception as e:  # noqa: BLE001
                obs["final"] = {"kind": "raised", "cls": type(e).__name__, "msg": str(e)[:2000]}
            finally:
                os.environ.pop("NIPYPE_PYDRA_VERIF_RAISE", None)
            obs["result_files"] = sorted(str(p.relative_to(cache)) for p in cache.glob("*/_result.pklz"))
            # what the batch script's interpreter left behind (load_and_run): result / error files with their flags
            import cloudpickle as cp

            left = {}
            for rp in sorted(cache.glob("**/_result.pklz")):
                try:
                    with open(rp, "rb") as fp:
                        res = cp.load(fp)
                    left[str(rp.parent.relative_to(cache))] = {"errored": bool(getattr(res, "errored", None)), "has_outputs": getattr(res, "outputs", None) is not None}
                except Exception as e:  # noqa: BLE001
                    left[str(rp.parent.relative_to(cache))] = {"unreadable": type(e).__name__}
            obs["results"] = left
            obs["error_files"] = sorted(str(p.parent.relative_to(cache)) for p in cache.glob("**/_error.pklz"))
            se = sched / "script.err"
            if se.exists():
                import re as _re

                # class of the exception the batch script's interpreter finally died of: the last non-indented
                # `Name: message` line of its stderr (notes added to an exception are indented)
                excs = [m.group(1) for l in se.read_text(errors="replace").splitlines() if (m := _re.match(r"^([A-Za-z_][\w.]*)(?::|$)", l))]
                obs["script_exc"] = excs[-1].split(".")[-1] if excs else None
                rcf = sched / "script.rc"
                obs["script_rc"] = int(rcf.read_text().strip()) if rcf.exists() else None
    obs["exhausted"] = (sched / "exhausted").exists()
    return obs


def child_main(argv: list[str]) -> int:
    cases_file, out_file, progress_file = (Path(a) for a in argv)
    core.assert_repo_loaded()
    cases = json.loads(cases_file.read_text())
    with open(out_file, "a") as out:
        for c in cases:
            progress_file.write_text(json.dumps({"id": c["id"], "state": "running", "t": time.time()}))
            wd = Path(c["workdir"])
            (wd / "u").mkdir(parents=True, exist_ok=True)
            try:
                obs = _child_one(c, wd)
            except BaseException as e:  # noqa: BLE001  (harness trouble inside the child: reported, not hidden)
                obs = {"child_error": f"{type(e).__name__}: {e}"}
            out.write(json.dumps({"id": c["id"], "obs": obs}) + "\n")
            out.flush()
            progress_file.write_text(json.dumps({"id": c["id"], "state": "done", "t": time.time()}))
    return 0


# ------------------------------------------------------------------------------------------------
# parent side: watchdog


def _stat(pid: int):
    try:
        return Path(f"/proc/{pid}/stat").read_text().rsplit(")", 1)[1].split()
    except Exception:  # noqa: BLE001
        return None


def own_cpu(pid: int) -> float:
    """CPU seconds the process itself has used (a busy loop shows up here)"""
    f = _stat(pid)
    if f is None:
        return -1.0
    return (int(f[11]) + int(f[12])) / os.sysconf("SC_CLK_TCK")


def session_cpu(sid: int) -> float:
    """CPU seconds used by every live process of the session plus what their reaped children used: work done anywhere
    below the child (a batch script being run by the fake sbatch) shows up here"""
    tick = os.sysconf("SC_CLK_TCK")
    tot = 0
    for d in os.listdir("/proc"):
        if not d.isdigit():
            continue
        f = _stat(int(d))
        if f is None or int(f[3]) != sid:
            continue
        tot += int(f[11]) + int(f[12]) + int(f[13]) + int(f[14])
    return tot / tick


def tree_cpu(pid: int) -> float:
    return own_cpu(pid)


class Runner:
    """runs cases in child interpreters under a watchdog; a stuck case is killed and reported as a hang"""

    def __init__(self, scratch: Path, cpu_limit: float, wall_limit: float):
        self.scratch = Path(scratch)
        self.bin = self.scratch / "bin"
        install_fakes(self.bin)
        self.cpu_limit = cpu_limit
        self.wall_limit = wall_limit
        self.batch_no = 0
        self.live: list = []

    def close(self) -> None:
        """kill every child still alive (children run in their own sessions, so nothing else would)"""
        for h in self.live:
            if h["proc"].poll() is None:
                self.kill(h)
        self.live = []

    def env(self) -> dict:
        hc = self.scratch / "hashcache"
        hc.mkdir(exist_ok=True)
        return core.impl_env({"PATH": f"{self.bin}:/usr/bin:/bin", "PYDRA_HASH_CACHE": str(hc), "HOME": str(self.scratch)})

    def start(self, cases: list[dict]):
        self.batch_no += 1
        d = self.scratch / f"batch{self.batch_no}"
        d.mkdir(parents=True)
        (d / "cases.json").write_text(json.dumps(cases))
        (d / "out.jsonl").write_text("")
        p = subprocess.Popen(
            [core.PY, "-m", "harness.engines.batch", "child", str(d / "cases.json"), str(d / "out.jsonl"), str(d / "progress.json")],
            env=self.env(),
            cwd=str(core.VERIF),
            stdout=subprocess.DEVNULL,
            stderr=open(d / "stderr.txt", "w"),
            start_new_session=True,
        )
        h = {"proc": p, "dir": d, "cases": cases}
        self.live.append(h)
        return h

    @staticmethod
    def kill(h) -> None:
        try:
            os.killpg(h["proc"].pid, signal.SIGKILL)
        except ProcessLookupError:
            pass
        h["proc"].wait()

    @staticmethod
    def results(h) -> dict:
        out = {}
        for line in (h["dir"] / "out.jsonl").read_text().splitlines():
            try:
                r = json.loads(line)
                out[r["id"]] = r["obs"]
            except json.JSONDecodeError:
                pass
        return out

    @staticmethod
    def calls_of(h, cid) -> list[list[str]]:
        wd = next(c["workdir"] for c in h["cases"] if c["id"] == cid)
        return read_calls(Path(wd) / "sched")

    def watch(self, h):
        """wait for the child; returns the id of the case it got stuck in (child killed) or None when it exited.
        Stuck = the child itself burns CPU (> cpu_limit) without any scheduler call and without finishing the case (busy
        loop), or nothing at all happens below it (no scheduler call, no CPU used in its session) for wall_limit seconds."""
        pid = h["proc"].pid
        cur = None
        cpu0 = 0.0
        t_act = time.time()
        last_calls = -1
        last_sess = -1.0
        t_start = time.time()
        while True:
            if h["proc"].poll() is not None:
                return None
            try:
                prog = json.loads((h["dir"] / "progress.json").read_text())
            except Exception:  # noqa: BLE001
                prog = None
            cpu = own_cpu(pid)
            if prog is None:
                if time.time() - t_start > self.wall_limit * 6:
                    self.kill(h)
                    raise core.Infra("batch child did not start")
            else:
                if cur != prog["id"] or prog["state"] == "done":
                    cur = prog["id"]
                    cpu0, t_act, last_calls = cpu, time.time(), -1
                if prog["state"] == "running":
                    wd = next((c["workdir"] for c in h["cases"] if c["id"] == cur), None)
                    ncalls = len(list((Path(wd) / "sched" / "log").glob("*.argv"))) if wd else 0
                    if ncalls != last_calls:  # scheduler traffic is progress
                        last_calls = ncalls
                        cpu0, t_act = cpu, time.time()
                    sess = session_cpu(pid)
                    if sess - last_sess > 0.3:  # somebody below the child is working
                        last_sess = sess
                        t_act = time.time()
                    if (cpu >= 0 and cpu - cpu0 > self.cpu_limit) or time.time() - t_act > self.wall_limit:
                        self.kill(h)
                        return cur
            time.sleep(0.2)

    def collect(self, h) -> dict:
        res = self.results(h)
        for cid, o in res.items():
            o["calls"] = self.calls_of(h, cid)
        return res

    def run_all(self, cases: list[dict]) -> dict:
        """returns {id: obs}; obs = {"hang": True, …} for a case the watchdog had to kill"""
        done: dict = {}
        todo = list(cases)
        while todo:
            h = self.start(todo)
            stuck = self.watch(h)
            done.update(self.collect(h))
            if stuck is not None:
                done[stuck] = {"hang": True, "calls": self.calls_of(h, stuck)}
            else:
                missing = [c for c in todo if c["id"] not in done]
                if missing:
                    err = (h["dir"] / "stderr.txt").read_text()[-800:]
                    if len(missing) == len(todo) and h["proc"].returncode != 0 and not self.results(h):
                        raise core.Infra(f"batch child exited rc={h['proc'].returncode} without any result: {err}")
                    cid = missing[0]["id"]
                    done[cid] = {"child_error": f"child exited rc={h['proc'].returncode}: {err}", "calls": self.calls_of(h, cid)}
            todo = [c for c in todo if c["id"] not in done]
        return done


if __name__ == "__main__":
    if len(sys.argv) >= 2 and sys.argv[1] == "child":
        sys.exit(child_main(sys.argv[2:]))
