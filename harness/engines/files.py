"""Engine `Files` (DESIGN §5.9): shared harness machinery of C33 (collecting workflow output files) and C34 (staging inputs).

A *case* is a JSON-able dict (everything relative to a per-case sandbox root):

  sets    physical file-sets  [{"cls": "File"|"TextFile"|"Directory"|"SetOf", "paths": ["n1/out.txt", …]}, …]
  objs    Python objects      [set index, …]        (several objects may wrap the same file-set: equal, not identical)
  fields  [{"name", "value": tree, "mode", "coll", "typed"}, …]
  tree    {"a": scalar} | {"o": obj index} | {"l": […]} | {"t": […]} | {"d": [[key tree, tree], …]}
          | {"ref": label}; containers may carry "id": label (the same container object used twice)
  table   [[mount point, fstype], …]   patched in with MountIndentifier.patch_table
  dest    destination directory

The implementation is run (a) directly with `FileSet.copy` wrapped by a recorder (every real call of the primitive is
logged and checked against the contract the Lean theorems assume), and (b) through the public path (a workflow run by the
debug worker / a shell task) without any instrumentation.  The Lean model is run with (a) the *recorded* primitive
(`copyOneScript`: it must make the same calls with the same `supported_modes` and clash-set content) and (b) the
counter-suffix reference primitive (`copyOneRef`).
"""

from __future__ import annotations

import contextlib
import json
import os
import typing as ty
from pathlib import Path

from harness import core

MODES = {
    "leave": 1, "hardlink": 2, "symlink": 4, "copy": 8, "link": 6, "link_or_copy": 14, "hardlink_or_copy": 10,
    "symlink_or_copy": 12, "any": 15, "leave_or_copy": 9, "leave_or_hardlink": 3, "leave_or_symlink": 5,
    "leave_or_link": 7, "leave_or_hardlink_or_copy": 11, "leave_or_symlink_or_copy": 13,
}  # fmt: skip
COLLS = {"any": 0, "siblings": 1, "adjacent": 2}
OPS = {1: "leave", 2: "hard", 4: "sym", 8: "copy"}
# which mount lookup of the Mount engine mirrors the working tree: "comp" = whole path components (`Path.is_relative_to`,
# after the repair of D22), "str" = `str.startswith` (pinned commit).  The generator includes a string-prefix sibling of
# a mount point (mA2 next to mA), so the two are told apart.
LIVE_GET = "comp"
RESERVED = {"_job.pklz", "_result.pklz", "_error.pklz", "_return_values.pklz", "_task.pklz"}


def _ff():
    from fileformats.generic import Directory, File, FileSet, SetOf
    from fileformats.text import TextFile

    return {"File": File, "TextFile": TextFile, "Directory": Directory, "SetOf": SetOf[File]}, FileSet


def cls_label(x) -> str:
    classes, _ = _ff()
    for k, c in classes.items():
        if type(x) is c:
            return k
    return type(x).__name__


# --------------------------------------------------------------------------------------
# sandbox


def content_of(set_idx_by_path: dict, rel: str) -> str:
    return f"content:{rel}"


def materialise(case: dict, root: Path) -> dict:
    """Create the physical files and the Python objects of a case."""
    classes, _ = _ff()
    root.mkdir(parents=True, exist_ok=True)
    for s in case["sets"]:
        for rel in s["paths"]:
            p = root / rel
            if p.exists():
                continue
            p.parent.mkdir(parents=True, exist_ok=True)
            if s["cls"] == "Directory":
                (p / "sub").mkdir(parents=True)
                (p / "inner.txt").write_text(f"content:{rel}/inner.txt")
                (p / "sub" / "deep.dat").write_text(f"content:{rel}/sub/deep.dat")
            else:
                p.write_text(f"content:{rel}")
    (root / case["dest"]).mkdir(parents=True, exist_ok=True)
    for rel in case.get("pre", []):
        (root / rel).write_text("pre-existing")
    for mp, _t in case.get("table", []):
        (root / mp).mkdir(parents=True, exist_ok=True)
    objs = []
    for si in case["objs"]:
        s = case["sets"][si]
        objs.append(classes[s["cls"]](*[root / rel for rel in s["paths"]]))
    return {"root": root, "objs": objs}


def build_value(tree: dict, objs: list, labelled: dict):
    if "a" in tree:
        return tree["a"]
    if "o" in tree:
        return objs[tree["o"]]
    if "ref" in tree:
        return labelled[tree["ref"]]
    if "l" in tree:
        v = [build_value(c, objs, labelled) for c in tree["l"]]
    elif "t" in tree:
        v = tuple(build_value(c, objs, labelled) for c in tree["t"])
    elif "d" in tree:
        v = {build_value(k, objs, labelled): build_value(c, objs, labelled) for k, c in tree["d"]}
    else:
        raise ValueError(f"bad tree {tree}")
    if "id" in tree:
        labelled[tree["id"]] = v
    return v


def abs_table(case: dict, root: Path) -> list[tuple[str, str]]:
    return [(str(root / mp), t) for mp, t in case.get("table", [])]


@contextlib.contextmanager
def patched_mounts(case: dict, root: Path):
    from pydra.utils.mount_identifier import MountIndentifier as MI

    with MI.patch_table(abs_table(case, root)):
        yield


# --------------------------------------------------------------------------------------
# recorder around the primitive


class Recorder:
    """Wraps `fileformats.FileSet.copy` (not pydra code) and logs every call: receiver, keyword arguments, the content of
    the `avoid_clashes` set before/after, the listing of the destination directory before, the result or the exception."""

    def __enter__(self):
        _, FileSet = _ff()
        self.FileSet = FileSet
        self.orig = FileSet.copy
        self.calls: list[dict] = []
        rec = self

        def copy(self_fs, *args, **kw):
            dest = Path(kw["dest_dir"]) if "dest_dir" in kw else Path(args[0])
            S = kw.get("avoid_clashes")
            e = {
                "self": self_fs,
                "dest": dest,
                "mode": kw.get("mode"),
                "collation": kw.get("collation"),
                "supported": kw.get("supported_modes"),
                "S_obj": S,
                "S_before": set(S) if isinstance(S, set) else None,
                "listing_before": set(os.listdir(dest)) if dest.is_dir() else set(),
                "extra_kw": sorted(set(kw) - {"dest_dir", "mode", "collation", "supported_modes", "avoid_clashes"}),
                "n_pos": len(args),
            }
            rec.calls.append(e)
            try:
                out = rec.orig(self_fs, *args, **kw)
            except BaseException as exc:
                e["exc"] = exc
                raise
            e["out"] = out
            e["S_after"] = set(S) if isinstance(S, set) else None
            # what was done, observed right after the call (a later call may delete or replace the result)
            e["op"] = fs_kind(sorted(self_fs.fspaths), sorted(out.fspaths), out is self_fs)
            return out

        FileSet.copy = copy
        return self

    def __exit__(self, *a):
        self.FileSet.copy = self.orig


def fs_kind(src_paths: list[Path], out_paths: list[Path], same_object: bool) -> str:
    """What was physically done, read off the file system.  A path that is not there is an outcome ("missing"), never
    an exception of the harness."""
    if same_object:
        return "leave"
    if any(not os.path.lexists(p) for p in out_paths):
        return "missing"
    if any(os.path.islink(p) for p in out_paths):
        return "broken-sym" if any(os.path.islink(p) and not os.path.exists(p) for p in out_paths) else "sym"
    if any(not os.path.lexists(p) for p in src_paths):
        return "source-missing"

    def first_file(p: Path):
        if p.is_dir():
            for dp, _dn, fn in sorted(os.walk(p)):
                for f in sorted(fn):
                    return Path(dp) / f
            return None
        return p

    src_inos = set()
    for p in src_paths:
        if p.is_dir():
            for dp, _dn, fn in os.walk(p):
                src_inos |= {os.stat(Path(dp) / f).st_ino for f in fn}
        else:
            src_inos.add(os.stat(p).st_ino)
    f = first_file(sorted(out_paths)[0])
    if f is None:
        return "copy"
    return "hard" if os.lstat(f).st_ino in src_inos else "copy"


def read_content(p: Path):
    """Content of a path as a comparable value (follows symlinks); a missing path is a value too."""
    if not os.path.exists(p):
        return {"missing": True}
    if p.is_dir():
        out = {}
        for dp, _dn, fn in os.walk(p):
            for f in fn:
                q = Path(dp) / f
                out[str(q.relative_to(p))] = q.read_bytes().decode("utf-8", "replace")
        return {"dir": dict(sorted(out.items()))}
    return p.read_bytes().decode("utf-8", "replace")


def mode_bits(m) -> int | None:
    if m is None:
        return None
    if isinstance(m, str):
        return MODES[m]
    return int(m.value)


def coll_num(c) -> int:
    if c is None:
        return 0
    if isinstance(c, str):
        return COLLS[c]
    return int(c)


# --------------------------------------------------------------------------------------
# canonical observables


class ObjTable:
    def __init__(self):
        self.ids: dict[int, int] = {}
        self.keep: list = []

    def index(self, key) -> int:
        if key not in self.ids:
            self.ids[key] = len(self.ids)
        return self.ids[key]


def rel(p, root: Path) -> str:
    p = str(p)
    r = str(root)
    if p == r:
        return "."
    if p.startswith(r + "/"):
        return p[len(r) + 1 :]
    return "ABS:" + p


def canon_impl_value(v, root: Path, table: ObjTable, kind_of) -> ty.Any:
    _, FileSet = _ff()
    if isinstance(v, FileSet):
        table.keep.append(v)
        return {
            "file": sorted(rel(p, root) for p in v.fspaths),
            "cls": cls_label(v),
            "obj": table.index(id(v)),
            "kind": kind_of(v),
        }
    if isinstance(v, list):
        return {"l": [canon_impl_value(c, root, table, kind_of) for c in v]}
    if isinstance(v, tuple):
        return {"t": [canon_impl_value(c, root, table, kind_of) for c in v]}
    if isinstance(v, dict):
        return {"d": [[canon_impl_value(k, root, table, kind_of), canon_impl_value(c, root, table, kind_of)] for k, c in v.items()]}
    return {"a": json.dumps(v, sort_keys=True, default=repr)}


def canon_model_value(t: dict, root: Path, table: ObjTable, kind_of) -> ty.Any:
    k = t["t"]
    if k == "atom":
        return {"a": t["v"]}
    if k == "file":
        return {
            "file": sorted(rel(p, root) for p in t["paths"]),
            "cls": t["cls"],
            "obj": table.index(t["oid"]),
            "kind": kind_of(t["oid"]),
        }
    cs = [canon_model_value(c, root, table, kind_of) for c in t["c"]]
    if k == "list":
        return {"l": cs}
    if k == "tuple":
        return {"t": cs}
    return {"d": [[cs[i], cs[i + 1]] for i in range(0, len(cs), 2)]}


def model_tree(tree: dict, case: dict, root: Path, oids: dict) -> dict:
    """Case tree -> driver tree.  Object identity of file object k is k+1; containers get fresh identities ≥ 10000
    unless they are the same labelled object."""
    if "a" in tree:
        return {"t": "atom", "v": json.dumps(tree["a"], sort_keys=True, default=repr)}
    if "o" in tree:
        si = case["objs"][tree["o"]]
        s = case["sets"][si]
        paths = sorted(str(root / r) for r in s["paths"])
        first = min(i for i, s2 in enumerate(case["sets"]) if sorted(s2["paths"]) == sorted(s["paths"]))
        return {"t": "file", "oid": tree["o"] + 1, "cls": s["cls"], "paths": paths, "content": first + 1}
    if "ref" in tree:
        return oids["labelled"][tree["ref"]]
    oids["next"] += 1
    oid = oids["next"]
    if "l" in tree:
        out = {"t": "list", "oid": oid, "c": [model_tree(c, case, root, oids) for c in tree["l"]]}
    elif "t" in tree:
        out = {"t": "tuple", "oid": oid, "c": [model_tree(c, case, root, oids) for c in tree["t"]]}
    else:
        cs = []
        for k, c in tree["d"]:
            cs.append(model_tree(k, case, root, oids))
            cs.append(model_tree(c, case, root, oids))
        out = {"t": "dict", "oid": oid, "c": cs}
    if "id" in tree:
        oids["labelled"][tree["id"]] = out
    return out


def model_request(case: dict, root: Path, dest: Path, ex: list[str], prim: str, script: list | None = None, get: str = LIVE_GET) -> dict:
    oids = {"next": 10000, "labelled": {}}
    fields = []
    for f in case["fields"]:
        fields.append(
            {
                "name": f["name"],
                "value": model_tree(f["value"], case, root, oids),
                "ty": field_ty(f),
                "truthy": bool(f.get("truthy", True)),
                "mode": MODES[f.get("mode", "hardlink_or_copy")],
                "coll": COLLS[f.get("coll", "any")],
            }
        )
    q = {
        "op": case["op"],
        "dest": str(dest),
        "supported": 15,
        "table": [[p, t] for p, t in abs_table(case, root)],
        "get": get,
        "ex": sorted(ex),
        "nextId": 1000,
        "prim": prim,
        "fields": fields,
    }
    if script is not None:
        q["script"] = script
    return q


def script_from_calls(calls: list[dict]) -> list[dict]:
    out = []
    for c in calls:
        e = {
            "cls": cls_label(c["self"]),
            "paths": sorted(str(p) for p in c["self"].fspaths),
            "supported": mode_bits(c["supported"]) if c["supported"] is not None else 15,
            "clashes": sorted(str(p) for p in (c["S_before"] or [])),
        }
        if "exc" in c:
            e["err"] = core.exc_tag(c["exc"])
        else:
            same = c["out"] is c["self"]
            e["out"] = sorted(str(p) for p in c["out"].fspaths)
            e["op"] = c["op"]
        out.append(e)
    return out


def canon_model_answer(ans: dict, root: Path) -> dict:
    if "error" in ans:
        return {"driver-error": ans["error"]}
    if not ans["ok"]:
        return {"err": ans["err"], "fields": None}
    kinds = {}
    for m in ans["copies"]:
        for e in m:
            kinds[e["dst"]["oid"]] = e["op"]
    table = ObjTable()
    fields = [
        {"name": f["name"], "value": canon_model_value(f["value"], root, table, lambda oid: kinds.get(oid, "leave"))}
        for f in ans["fields"]
    ]
    copies = [
        {
            "src": sorted(rel(p, root) for p in e["src"]["paths"]),
            "dst": sorted(rel(p, root) for p in e["dst"]["paths"]),
            "op": e["op"],
        }
        for m in ans["copies"]
        for e in m
    ]
    return {"err": None, "fields": fields, "copies": copies, "created": sorted(rel(p, root) for p in ans["created"])}


# --------------------------------------------------------------------------------------
# contract sampling: every real call of the primitive against the clauses of `Contract` (Files/Lemmas.lean)


def contract_clauses(call: dict) -> dict:
    """Truth value of each clause of the assumed contract on one recorded call of the real `FileSet.copy`."""
    if "exc" in call:
        return {"raised": core.exc_tag(call["exc"])}
    src, out = call["self"], call["out"]
    same = out is src
    sel = (mode_bits(call["mode"]) or 8) & (mode_bits(call["supported"]) if call["supported"] is not None else 15)
    kind = call["op"]
    kind_bit = {"leave": 1, "hard": 2, "sym": 4, "copy": 8}.get(kind, 0)
    res = {"allowed": bool(sel & kind_bit), "cls": type(out) is type(src)}
    Sb, Sa = call["S_before"], call["S_after"]
    if same:
        res["leave_untouched"] = Sb == Sa
    else:
        dest = call["dest"]
        res["under_dest"] = all(str(p).startswith(str(dest) + "/") for p in out.fspaths)
        res["fresh_vs_set"] = Sb is None or all(p not in Sb for p in out.fspaths)
        tops = {Path(str(p)[len(str(dest)) + 1 :]).parts[0] for p in out.fspaths if str(p).startswith(str(dest) + "/")}
        res["fresh_vs_disk"] = not (tops & call["listing_before"])
        res["set_updated"] = Sb is None or Sa == Sb | set(out.fspaths)
        res["exists_after"] = all(p.exists() for p in out.fspaths)
        # content preserved, path by path (sorted lists correspond only for unchanged names; compare as multisets)
        a = sorted(json.dumps(read_content(p), sort_keys=True) for p in src.fspaths)
        b = sorted(json.dumps(read_content(p), sort_keys=True) for p in out.fspaths)
        res["content"] = a == b
        res["n_paths"] = len(out.fspaths) == len(src.fspaths)
        # name = stem [ (counter)] ext for single-path file-sets
        if len(src.fspaths) == 1:
            sn, on = next(iter(src.fspaths)).name, next(iter(out.fspaths)).name
            stem, ext = os.path.splitext(sn) if not sn.endswith(".") else (sn, "")
            ok = on == sn
            if not ok and on.startswith(stem + " (") and on.endswith(")" + ext):
                mid = on[len(stem) + 2 : len(on) - len(ext) - 1]
                ok = mid.isdigit() and int(mid) >= 1
            res["name"] = ok
    return res


def judge_contract(ctx, calls: list[dict], root: Path):
    """The contract is part of the trusted base; a sampled call that breaks a clause means the theorems no longer speak
    about this fileformats, which is reported as a broken tie (never silently ignored)."""
    for c in calls:
        cl = contract_clauses(c)
        ctx.count("contract-calls")
        if "raised" in cl:
            ctx.count("contract-raised:" + cl["raised"])
            continue
        bad = sorted(k for k, v in cl.items() if v is not True)
        rec = {
            "contract-sample": cls_label(c["self"]),
            "src": sorted(rel(p, root) for p in c["self"].fspaths),
            "out": sorted(rel(p, root) for p in c["out"].fspaths),
            "mode": mode_bits(c["mode"]),
            "supported": mode_bits(c["supported"]) if c["supported"] is not None else None,
        }
        ctx.judge(rec, bad, [], True, nontrivial=False, what="FileSet.copy contract sample (trusted base)")


# --------------------------------------------------------------------------------------
# independent oracle helpers


def comps(p: str) -> list[str]:
    return [c for c in p.split("/") if c not in ("", ".")]


def oracle_mount(table: list[tuple[str, str]], path: str) -> tuple[str, str]:
    """Longest component-prefix entry (the reference semantics of C38), default root/ext4."""
    best = None
    for mp, t in table:
        cm = comps(mp)
        if comps(path)[: len(cm)] == cm and (best is None or len(cm) > len(comps(best[0]))):
            best = (mp, t)
    return best if best else ("/", "ext4")


def oracle_supported(table, src_paths: list[str], dest: str, supported: int = 15) -> int:
    s = supported
    if any(oracle_mount(table, p)[1] == "cifs" for p in src_paths):
        s &= ~4
    if not all(comps(oracle_mount(table, p)[0]) == comps(oracle_mount(table, dest)[0]) for p in src_paths):
        s &= ~2
    return s


def tree_leaves(tree: dict, out: list, labelled: dict | None = None):
    labelled = {} if labelled is None else labelled
    if "o" in tree:
        out.append(tree["o"])
    elif "ref" in tree:
        tree_leaves(labelled[tree["ref"]], out, labelled)
    else:
        for key in ("l", "t"):
            if key in tree:
                for c in tree[key]:
                    tree_leaves(c, out, labelled)
        if "d" in tree:
            for k, c in tree["d"]:
                tree_leaves(k, out, labelled)
                tree_leaves(c, out, labelled)
        if "id" in tree:
            labelled[tree["id"]] = tree
    return out


def shared_container_results(tree: dict, value, labelled: dict | None = None, out: list | None = None) -> list:
    """For every second use ({"ref": label}) of a container object: is the result object identical to the result of its
    first use?"""
    labelled = {} if labelled is None else labelled
    out = [] if out is None else out
    if "ref" in tree:
        if tree["ref"] in labelled:
            out.append(labelled[tree["ref"]] is value)
        return out
    if "l" in tree or "t" in tree:
        for c, v in zip(tree.get("l") or tree.get("t") or [], value):
            shared_container_results(c, v, labelled, out)
    elif "d" in tree:
        for (k, c), (vk, vv) in zip(tree["d"], value.items()):
            shared_container_results(k, vk, labelled, out)
            shared_container_results(c, vv, labelled, out)
    if "id" in tree:
        labelled[tree["id"]] = value
    return out


def tree_depth(tree: dict) -> int:
    if "a" in tree or "o" in tree or "ref" in tree:
        return 0
    cs = tree.get("l") or tree.get("t") or [c for kv in tree.get("d", []) for c in kv]
    return 1 + max([tree_depth(c) for c in cs], default=0)


def same_shape(case_tree: dict, value, objs: list, labelled: dict, pairs: list) -> bool:
    """Structure and non-file leaves of `value` are those of the case tree; file leaves are collected as
    (object index, result object) pairs."""
    _, FileSet = _ff()
    if "a" in case_tree:
        return not isinstance(value, FileSet) and type(value) is type(case_tree["a"]) and value == case_tree["a"]
    if "o" in case_tree:
        if not isinstance(value, FileSet):
            return False
        pairs.append((case_tree["o"], value))
        return True
    if "ref" in case_tree:
        return same_shape(labelled[case_tree["ref"]], value, objs, labelled, pairs)
    if "id" in case_tree:
        labelled[case_tree["id"]] = case_tree
    if "l" in case_tree:
        return type(value) is list and len(value) == len(case_tree["l"]) and all(
            same_shape(c, v, objs, labelled, pairs) for c, v in zip(case_tree["l"], value)
        )
    if "t" in case_tree:
        return type(value) is tuple and len(value) == len(case_tree["t"]) and all(
            same_shape(c, v, objs, labelled, pairs) for c, v in zip(case_tree["t"], value)
        )
    if "d" in case_tree:
        if type(value) is not dict or len(value) != len(case_tree["d"]):
            return False
        return all(
            same_shape(k, vk, objs, labelled, pairs) and same_shape(c, vv, objs, labelled, pairs)
            for (k, c), (vk, vv) in zip(case_tree["d"], value.items())
        )
    return False


# --------------------------------------------------------------------------------------
# declared types of task input fields (C34): {"k":"file","n":cls} | {"k":"atom","n":name} | {"k":"union","a":[…]}
# | {"k":"map","a":[K,V]} | {"k":"seq","o":"list"|"tuple"|"Sequence","a":[…],"ell":bool}

ANY_OR_FILESET = {"k": "union", "a": [{"k": "atom", "n": "Any"}, {"k": "file", "n": "FileSet"}]}  # Any first: no coercion


def field_ty(f: dict) -> dict:
    """The declared type of a case field; older cases only say typed=True/False."""
    if "ty" in f:
        return f["ty"]
    return ANY_OR_FILESET if f.get("typed", True) else {"k": "atom", "n": "Any"}


def ty_python(t: dict):
    from fileformats.generic import Directory, File, FileSet, FsObject
    from fileformats.text import TextFile

    k = t["k"]
    if k == "file":
        return {"File": File, "Directory": Directory, "FsObject": FsObject, "FileSet": FileSet, "TextFile": TextFile}[t["n"]]
    if k == "atom":
        return {"int": int, "str": str, "bool": bool, "None": type(None), "Any": ty.Any, "list": list, "dict": dict,
                "tuple": tuple, "object": object}[t["n"]]  # fmt: skip
    args = [ty_python(a) for a in t["a"]]
    if k == "union":
        return ty.Union[tuple(args)]
    if k == "map":
        return dict[args[0], args[1]]
    if t["o"] == "list":
        return list[args[0]]
    if t["o"] == "Sequence":
        return ty.Sequence[args[0]]
    return tuple[tuple(args) + ((Ellipsis,) if t.get("ell") else ())]


def ty_has_file(t: dict) -> bool:
    """The oracle's own gate: does the declared type mention a file class ANYWHERE (any position, any depth)?"""
    return t["k"] == "file" or any(ty_has_file(a) for a in t.get("a", []))


def ty_str(t: dict) -> str:
    k = t["k"]
    if k in ("file", "atom"):
        return t["n"]
    a = ", ".join(ty_str(x) for x in t["a"])
    if k == "union":
        return f"Union[{a}]"
    if k == "map":
        return f"dict[{a}]"
    return f"{t['o']}[{a}{', ...' if t.get('ell') else ''}]"


def _F(n):
    return {"k": "file", "n": n}


def _A(n):
    return {"k": "atom", "n": n}


def _U(*a):
    return {"k": "union", "a": list(a)}


def _M(k, v):
    return {"k": "map", "a": [k, v]}


def _L(a):
    return {"k": "seq", "o": "list", "a": [a], "ell": False}


def _T(*a, ell=False):
    return {"k": "seq", "o": "tuple", "a": list(a), "ell": ell}


def type_templates() -> list[dict]:
    """Declared types that matter for the staging gate: a file class at a non-first position of a tuple, inside lists of
    such tuples, as dict values, in unions/optionals, deep down; and types that mention no file class at all."""
    f, d, fs = _F("File"), _F("Directory"), _F("FsObject")
    i, s, n, any_ = _A("int"), _A("str"), _A("None"), _A("Any")
    return [
        f, d, fs, _L(f), _M(s, f), _T(f, ell=True), _T(f, i),                       # a file class comes first
        _T(i, f), _T(s, i, f), _T(i, s, d), _L(_T(s, f)), _L(_T(i, s, f)),         # …comes later in a fixed-length tuple
        _M(s, _T(i, f)), _M(s, _L(f)), _M(s, _L(_T(s, d))),                         # …as dict values
        _U(f, n), _U(i, f), _U(n, _T(i, f)), _U(s, _L(f)), _L(_U(n, f)), _T(i, _U(n, f)), _T(s, _U(i, _L(_T(i, fs)))),
        _T(i, _L(_T(s, _M(s, f)))), _L(_L(f)), _T(i, any_, f), _T(any_, f), {"k": "seq", "o": "Sequence", "a": [_T(s, f)], "ell": False},
        ANY_OR_FILESET, _T(i, ANY_OR_FILESET),
        i, _L(i), _T(i, s), _M(s, i), any_, _L(any_), _T(i, any_), _A("list"), _A("dict"), _A("tuple"), _A("object"),  # no file class
    ]  # fmt: skip


def gen_typed_value(rng, t: dict, case_sets: list, objs: list, depth: int = 0):
    """A nested value conforming to the declared type `t` (None if no suitable file object exists)."""
    k = t["k"]
    if k == "file":
        ok = {"File": ("File", "TextFile"), "TextFile": ("TextFile",), "Directory": ("Directory",),
              "FsObject": ("File", "TextFile", "Directory"), "FileSet": ("File", "TextFile", "Directory", "SetOf")}[t["n"]]  # fmt: skip
        cand = [o for o, si in enumerate(objs) if case_sets[si]["cls"] in ok]
        return {"o": rng.choice(cand)} if cand else None
    if k == "atom":
        n = t["n"]
        if n == "int":
            return {"a": rng.choice([0, 1, 7, 42])}
        if n == "str":
            return {"a": rng.choice(["s", "", "label", "x y"])}
        if n == "bool":
            return {"a": rng.choice([True, False])}
        if n == "None":
            return {"a": None}
        if n in ("Any", "object"):
            return gen_tree(rng, len(objs), rng.choice([0, 1, 2]), False, [], int_keys=False)
        m = rng.choice([1, 2, 3])
        if n == "list":
            return {"l": [gen_tree(rng, len(objs), 1, False, [], int_keys=False) for _ in range(m)]}
        if n == "tuple":
            return {"t": [gen_tree(rng, len(objs), 1, False, [], int_keys=False) for _ in range(m)]}
        return {"d": [[{"a": kk}, gen_tree(rng, len(objs), 1, False, [], int_keys=False)] for kk in rng.sample(["k", "n", "z"], m)]}
    if k == "union":
        arms = list(t["a"])
        rng.shuffle(arms)
        arms.sort(key=lambda a: not ty_has_file(a) if rng.random() < 0.7 else False)
        for a in arms:
            v = gen_typed_value(rng, a, case_sets, objs, depth + 1)
            if v is not None:
                return v
        return None
    m = rng.choice([1, 2, 2, 3]) if depth < 2 else rng.choice([1, 2])
    if k == "map":
        items = []
        for kk in rng.sample(["k", "out.txt", "n", "x y", "z"], m):
            v = gen_typed_value(rng, t["a"][1], case_sets, objs, depth + 1)
            if v is None:
                return None
            items.append([{"a": kk}, v])
        return {"d": items}
    if t["o"] in ("list", "Sequence") or t.get("ell"):
        vs = [gen_typed_value(rng, t["a"][0], case_sets, objs, depth + 1) for _ in range(m)]
        return None if any(v is None for v in vs) else {("l" if t["o"] != "tuple" else "t"): vs}
    vs = [gen_typed_value(rng, a, case_sets, objs, depth + 1) for a in t["a"]]
    return None if any(v is None for v in vs) else {"t": vs}


# --------------------------------------------------------------------------------------
# generators


SRC_DIRS = ["n1", "n2", "n3", "mA/n4", "mA/sub/n5", "mB/n6", "mA2/n7"]
FILE_NAMES = ["out.txt", "out.txt", "out.txt", "res", "data.nii.gz", "a b.txt", "out (1).txt", ".hidden", "x.", "é.txt", "g.dat", "a..b"]
DIR_NAMES = ["dir.d", "res", "out"]
ATOMS = [0, 1, 7, "s", "out.txt", "", None, True, "n1/out.txt"]
FSTYPES = ["cifs", "cifs", "ext4", "nfs", "xfs"]


def gen_sets(rng, simple: bool, use_mounts: bool):
    dirs = SRC_DIRS if use_mounts else SRC_DIRS[:3]
    sets, used = [], set()
    for _ in range(rng.choice([1, 2, 2, 3, 3, 4, 5])):
        d = rng.choice(dirs)
        kind = rng.choices(["File", "TextFile", "Directory", "SetOf"], [6, 2, 2, 0 if simple else 2])[0]
        if kind == "File":
            paths = [f"{d}/{rng.choice(FILE_NAMES)}"]
        elif kind == "TextFile":
            paths = [f"{d}/{rng.choice(['out.txt', 'a b.txt', 'é.txt', 'notes.txt'])}"]
        elif kind == "Directory":
            paths = [f"{d}/{rng.choice(DIR_NAMES)}"]
        else:
            a, b = rng.choice([("p.txt", "q.dat"), ("out.txt", "side.json"), ("p.txt", "sub2/r.dat")])
            paths = [f"{d}/{a}", f"{d}/{b}"]
        if any(p in used or any(u.startswith(p + "/") or p.startswith(u + "/") for u in used) for p in paths):
            # same place again: an alias with another class (same file, File vs TextFile), or skip
            if kind in ("File", "TextFile") and paths[0].endswith(".txt") and any(s["paths"] == paths for s in sets):
                other = "TextFile" if any(s["paths"] == paths and s["cls"] == "File" for s in sets) else "File"
                if not any(s["paths"] == paths and s["cls"] == other for s in sets):
                    sets.append({"cls": other, "paths": paths})
            continue
        # a name may not be a file in one set and a directory in another at the same place
        used.update(paths)
        sets.append({"cls": kind, "paths": paths})
    return sets


def gen_tree(rng, n_objs: int, depth: int, allow_file_keys: bool, labels: list, int_keys: bool = True) -> dict:
    r = rng.random()
    if depth <= 0 or r < 0.45:
        if r < 0.36 or depth <= 0 and rng.random() < 0.6:
            return {"o": rng.randrange(n_objs)}
        return {"a": rng.choice(ATOMS)}
    if labels and rng.random() < 0.08:
        return {"ref": rng.choice(labels)}
    k = rng.choice(["l", "l", "t", "d"])
    n = rng.choice([0, 1, 2, 2, 3, 4])
    if k == "d":
        keys, items = set(), []
        for i in range(n):
            if allow_file_keys and rng.random() < 0.15:
                kt = {"o": rng.randrange(n_objs)}
                kk = ("o", kt["o"])
            else:
                kt = {"a": rng.choice(["k", "out.txt", "n", 1, 2, "x y"] if int_keys else ["k", "out.txt", "n", "x y", "z"])}
                kk = ("a", json.dumps(kt["a"]))
            if kk in keys:
                continue
            keys.add(kk)
            items.append([kt, gen_tree(rng, n_objs, depth - 1, allow_file_keys, labels, int_keys)])
        t = {"d": items}
    else:
        t = {k: [gen_tree(rng, n_objs, depth - 1, allow_file_keys, labels, int_keys) for _ in range(n)]}
    if rng.random() < 0.15:
        lab = f"L{len(labels)}"
        t["id"] = lab
        labels.append(lab)
    return t


def file_key_clash(case: dict) -> bool:
    """Python dict semantics: two *equal* keys collapse.  Equal FileSet keys (same class, same paths) from different
    objects would silently merge dict entries before pydra sees them; keep such dicts out of the generator."""

    def walk(t):
        if "d" in t:
            ks = []
            for k, c in t["d"]:
                if "o" in k:
                    s = case["sets"][case["objs"][k["o"]]]
                    ks.append((s["cls"], tuple(sorted(s["paths"]))))
                if walk(k) or walk(c):
                    return True
            if len(ks) != len(set(ks)):
                return True
        for key in ("l", "t"):
            for c in t.get(key, []):
                if walk(c):
                    return True
        return False

    return any(walk(f["value"]) for f in case["fields"])


def gen_table(rng) -> list:
    ents = []
    if rng.random() < 0.8:
        ents.append(["mA", rng.choice(FSTYPES)])
    if rng.random() < 0.5:
        ents.append(["mA/sub", rng.choice(FSTYPES)])
    if rng.random() < 0.7:
        ents.append(["mB", rng.choice(FSTYPES)])
    return sorted(ents, key=lambda e: len(e[0]), reverse=True)


def basenames_by_field(case: dict) -> list[set]:
    """Top-level names each staged field would put into the destination directory (before any counter)."""
    out = []
    for f in case["fields"]:
        names = set()
        if ty_has_file(field_ty(f)) and f.get("truthy", True):
            for o in tree_leaves(f["value"], []):
                s = case["sets"][case["objs"][o]]
                common = os.path.commonpath([os.path.dirname(p) for p in s["paths"]])
                for p in s["paths"]:
                    relp = os.path.relpath(p, common)
                    names.add(relp.split("/")[0])
        out.append(names)
    return out


# --------------------------------------------------------------------------------------
# public-path devices (module-level task classes: case data travels as *inputs*, never as closures — D4/D28)

from pydra.compose import python as _python  # noqa: E402
from pydra.compose import shell as _shell  # noqa: E402
from pydra.compose import workflow as _workflow  # noqa: E402


@_python.define(outputs=["files"])
def Writer(specs: str, tag: str) -> list:
    """Writes the file-sets described by `specs` (JSON) into the node's working directory and returns the objects."""
    classes, _ = _ff()
    out = []
    cwd = Path(os.getcwd())
    for s in json.loads(specs):
        ps = []
        for name in s["names"]:
            p = cwd / name
            p.parent.mkdir(parents=True, exist_ok=True)
            if s["cls"] == "Directory":
                (p / "sub").mkdir(parents=True)
                (p / "inner.txt").write_text(f"content:{tag}/{name}/inner.txt")
                (p / "sub" / "deep.dat").write_text(f"content:{tag}/{name}/sub/deep.dat")
            else:
                p.write_text(f"content:{tag}/{name}")
            ps.append(p)
        out.append(classes[s["cls"]](*ps))
    return out


def _pack(src: list, template: str):
    labelled: dict = {}

    def build(t):
        if "a" in t:
            return t["a"]
        if "f" in t:
            return src[t["f"][0]][t["f"][1]]
        if "ref" in t:
            return labelled[t["ref"]]
        if "l" in t:
            v = [build(c) for c in t["l"]]
        elif "t" in t:
            v = tuple(build(c) for c in t["t"])
        else:
            v = {build(k): build(c) for k, c in t["d"]}
        if "id" in t:
            labelled[t["id"]] = v
        return v

    return [build(t) for t in json.loads(template)]


@_python.define(outputs=["o0", "o1", "o2", "src"])
def Pack(f0: ty.Any, f1: ty.Any, f2: ty.Any, template: str) -> tuple[ty.Any, ty.Any, ty.Any, str]:
    """Arranges the files of three upstream nodes into three nested values; `src` reports where the files are."""
    src = [f0, f1, f2]
    vals = _pack(src, template)
    where = json.dumps([[sorted(str(p) for p in x.fspaths) for x in f] for f in src])
    return vals[0], vals[1], vals[2], where


@_workflow.define(outputs=["o0", "o1", "o2", "src"])
def Collect(s0: str, s1: str, s2: str, template: str) -> tuple[ty.Any, ty.Any, ty.Any, str]:
    w0 = _workflow.add(Writer(specs=s0, tag="@0"), name="w0")
    w1 = _workflow.add(Writer(specs=s1, tag="@1"), name="w1")
    w2 = _workflow.add(Writer(specs=s2, tag="@2"), name="w2")
    p = _workflow.add(Pack(f0=w0.files, f1=w1.files, f2=w2.files, template=template), name="p")
    return p.o0, p.o1, p.o2, p.src


# declared types of workflow output fields (C33): what `copyfile_workflow` does must not depend on them
DECL_LABELS = ["Any", "untyped", "object", "list", "dict", "tuple", "List[Any]", "dict[str,Any]", "Tuple[Any,...]",
               "File", "list[File]", "dict[str,File]", "File|None"]  # fmt: skip


def decl_type(label: str):
    from fileformats.generic import File

    return {
        "Any": ty.Any, "untyped": ty.Any, "object": object, "list": list, "dict": dict, "tuple": tuple,
        "List[Any]": ty.List[ty.Any], "dict[str,Any]": dict[str, ty.Any], "Tuple[Any,...]": ty.Tuple[ty.Any, ...],
        "File": File, "list[File]": list[File], "dict[str,File]": dict[str, File], "File|None": ty.Optional[File],
    }[label]  # fmt: skip


def _define_outputs(decls: tuple, extra: dict | None = None):
    """`outputs=` argument of workflow.define: a dict name -> declared type; fields labelled "untyped" are given by
    name only when every field is untyped (the list form), else declared Any."""
    names = [f"o{i}" for i in range(len(decls))]
    if all(d == "untyped" for d in decls) and not extra:
        return names
    out = {n: decl_type(d) for n, d in zip(names, decls)}
    out.update(extra or {})
    return out


_OUT_CLASSES: dict = {}


def outputs_object(values: list, decls: list | None = None):
    """A real `workflow.Outputs` instance with fields o0…o(k-1) whose class DECLARES the given types."""
    decls = tuple(decls or ["untyped"] * len(values))
    if decls not in _OUT_CLASSES:

        def ctor():
            return None

        ctor.__name__ = "Out_" + "_".join(str(DECL_LABELS.index(d)) for d in decls)
        _OUT_CLASSES[decls] = _workflow.define(outputs=_define_outputs(decls))(ctor).Outputs
    return _OUT_CLASSES[decls](**{f"o{i}": v for i, v in enumerate(values)})


def _collect_ctor(s0: str, s1: str, s2: str, template: str):
    w0 = _workflow.add(Writer(specs=s0, tag="@0"), name="w0")
    w1 = _workflow.add(Writer(specs=s1, tag="@1"), name="w1")
    w2 = _workflow.add(Writer(specs=s2, tag="@2"), name="w2")
    p = _workflow.add(Pack(f0=w0.files, f1=w1.files, f2=w2.files, template=template), name="p")
    return p.o0, p.o1, p.o2, p.src


_COLLECT_CLASSES: dict = {}


def collect_workflow(decls: list | None = None):
    """The workflow of the public route with `outputs={"o0": <declared type>, …, "src": str}`."""
    decls = tuple(decls or ["untyped"] * 3)
    if all(d == "untyped" for d in decls):
        return Collect
    if decls not in _COLLECT_CLASSES:
        _COLLECT_CLASSES[decls] = _workflow.define(outputs=_define_outputs(decls, {"src": str}))(_collect_ctor)
    return _COLLECT_CLASSES[decls]


def gen_declared_value(rng, decl: str, n_objs: int, file_objs: list, depth: int, allow_file_keys: bool, int_keys: bool = True):
    """A nested value that conforms to the declared type `decl` (so that pydra's own type coercion leaves it alone)."""
    sub = lambda d: gen_tree(rng, n_objs, d, allow_file_keys, [], int_keys)  # noqa: E731
    n = rng.choice([1, 2, 2, 3, 4])
    if decl in ("Any", "untyped", "object"):
        return sub(depth)
    if decl in ("list", "List[Any]"):
        return {"l": [sub(max(depth - 1, 0)) for _ in range(n)]}
    if decl in ("tuple", "Tuple[Any,...]"):
        return {"t": [sub(max(depth - 1, 0)) for _ in range(n)]}
    if decl in ("dict", "dict[str,Any]"):
        keys = ["k", "out.txt", "n", "x y", "z"] + ([1, 2] if decl == "dict" and int_keys else [])
        return {"d": [[{"a": k}, sub(max(depth - 1, 0))] for k in rng.sample(keys, min(n, len(keys)))]}
    if not file_objs:  # no File-class object at hand: fall back to a container the declaration cannot describe
        return None
    leaf = lambda: {"o": rng.choice(file_objs)}  # noqa: E731
    if decl == "File":
        return leaf()
    if decl == "File|None":
        return leaf() if rng.random() < 0.8 else {"a": None}
    if decl == "list[File]":
        return {"l": [leaf() for _ in range(n)]}
    if decl == "dict[str,File]":
        return {"d": [[{"a": k}, leaf()] for k in rng.sample(["k", "out.txt", "n", "x y"], min(n, 4))]}
    raise ValueError(decl)


REPORT_SCRIPT = r"""
import sys, os, json
for p in sys.argv[1:]:
    d = os.path.isdir(p)
    f = p
    if d:
        f = os.path.join(p, "inner.txt")
    print(json.dumps({"p": p, "link": os.path.islink(p), "dir": d, "ino": os.stat(f).st_ino, "lino": os.lstat(f).st_ino,
                      "content": open(f).read()}))
"""

_SHELL_CLASSES: dict = {}


def report_task(mode_x: str, mode_ys: str, coll: str):
    """Shell task `python report.py <x> <ys…>`: x: File|Directory (fileformats FsObject), ys: list[File]; copy modes are
    part of the field definitions, so there is one class per combination (cached, distinct names)."""
    from fileformats.generic import File, FileSet, FsObject

    key = (mode_x, mode_ys, coll)
    if key not in _SHELL_CLASSES:
        _SHELL_CLASSES[key] = _shell.define(
            core.PY,
            inputs={
                "script": _shell.arg(type=str, position=1, argstr=""),
                "x": _shell.arg(type=FsObject, copy_mode=FileSet.CopyMode[mode_x], copy_collation=FileSet.CopyCollation[coll],
                                argstr="", position=2),
                "ys": _shell.arg(type=list[File], copy_mode=FileSet.CopyMode[mode_ys],
                                 copy_collation=FileSet.CopyCollation[coll], argstr="...", position=3),
            },
            name=f"Report_{mode_x}_{mode_ys}_{coll}",
        )
    return _SHELL_CLASSES[key]
