"""Child side of the C29 fresh-interpreter round trip.
usage: python -m harness.engines.pickle_child <job.pkl> <out.pkl>"""

import sys

import cloudpickle as cp


def main():
    src, dst = sys.argv[1], sys.argv[2]
    import pydra.engine.state as st

    assert st.__file__.startswith(sys.argv[3]), st.__file__
    out = {}
    try:
        with open(src, "rb") as f:
            job = cp.load(f)
        out["checksum"] = job.checksum
        out["uid"] = job.uid
        out["name"] = job.name
        out["cache_root"] = str(job.cache_root)
        if job.is_async:
            job.submitter.submit(job, rerun=False)
            res = job.result()
        else:
            res = job.run()
        out["errored"] = bool(res.errored)
        out["outputs"] = None if res.outputs is None else cp.dumps(res.outputs)
    except BaseException as e:  # report, the parent decides
        out["exception"] = type(e).__name__ + ": " + str(e)[:300]
    with open(dst, "wb") as f:
        cp.dump(out, f)


if __name__ == "__main__":
    main()
