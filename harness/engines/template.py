"""Shared helpers of the Template (C25) and PathTemplate (C26) property modules.

Nothing here touches /repo: the executor is intercepted by replacing `Native.execute` inside the harness process.
"""

from __future__ import annotations

import contextlib
import types
import typing as ty
from pathlib import Path


@contextlib.contextmanager
def recording_executor(record: dict, touch_outputs: bool = True):
    """Replace `pydra.environments.native.Native.execute` by a recorder (no process is started).

    record["argv"]      the argument vector handed to the executor
    record["inputs"]    Job.inputs at that moment (templates already resolved)
    record["cache_dir"] the job directory
    With `touch_outputs`, absolute argv elements that do not exist yet (and whose parent does) are created as
    small files so that output collection can succeed where the command would have written them.
    """
    import pydra.environments.native as native

    orig = native.Native.execute

    def fake_execute(self, job):
        argv = job.task._command_args(values=job.inputs)
        record["argv"] = list(argv)
        record["inputs"] = dict(job.inputs)
        record["cache_dir"] = Path(job.cache_dir)
        if touch_outputs:
            for a in argv[1:]:
                p = Path(str(a))
                try:
                    if p.is_absolute() and not p.exists() and p.parent.is_dir():
                        p.write_text("x")
                except OSError:
                    pass
        return {"return_code": 0, "stdout": "", "stderr": ""}

    native.Native.execute = fake_execute
    try:
        yield record
    finally:
        native.Native.execute = orig


def rel_to(cd: Path | str, p) -> str:
    """Canonical spelling of a resolved path relative to the job directory `cd`:
    "" = the directory itself, "name", "..", "a/b"; anything not under it is returned as "ABS:<path>"."""
    cd = str(cd)
    s = str(p)
    if s == cd:
        return ""
    if s.startswith(cd + "/"):
        return s[len(cd) + 1 :]
    return "ABS:" + s


def is_plain_name(n: str) -> bool:
    """The property's "inside the job directory as a plain name"."""
    return n != "" and n not in (".", "..") and "/" not in n and not n.startswith("ABS:")


def canon_type(tp) -> ty.Any:
    """JSON form of a field type as the template parser builds it:
    {"base": <atom> | ["tuple", atoms…] | ["vartuple", atom], "multi": bool, "optional": bool}
    atoms: "int" "float" "str" "bool" or the fileformats mime-like string ("generic/file", "image/png" …)."""
    from pydra.utils.typing import MultiInputObj

    optional = False
    multi = False
    if isinstance(tp, types.UnionType) or ty.get_origin(tp) is ty.Union:
        args = list(ty.get_args(tp))
        if type(None) in args:
            optional = True
            args = [a for a in args if a is not type(None)]
        if len(args) != 1:
            return {"other": repr(tp)}
        tp = args[0]
    if ty.get_origin(tp) is MultiInputObj:
        multi = True
        (tp,) = ty.get_args(tp)
    return {"base": _canon_base(tp), "multi": multi, "optional": optional}


def _canon_atom(tp) -> str:
    if tp in (int, float, str, bool):
        return tp.__name__
    mime = getattr(tp, "mime_like", None)
    if isinstance(mime, str):
        return mime
    return "other:" + repr(tp)


def _canon_base(tp):
    if ty.get_origin(tp) is tuple:
        args = ty.get_args(tp)
        if len(args) == 2 and args[1] is Ellipsis:
            return ["vartuple", _canon_atom(args[0])]
        return ["tuple"] + [_canon_atom(a) for a in args]
    return _canon_atom(tp)
