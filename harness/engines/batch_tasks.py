"""Tasks used by the C28 harness; importable (PYTHONPATH has /verif) so that the batch script's interpreter can unpickle them."""
from pydra.compose import python, workflow


@python.define
def Inc(x: int) -> int:
    return x + 1


@python.define
def Boom(x: int) -> int:
    raise ValueError("boom-from-body")


@workflow.define
def WfInc(x: int) -> int:
    n = workflow.add(Inc(x=x))
    return n.out


@workflow.define
def WfBoom(x: int) -> int:
    n = workflow.add(Boom(x=x))
    return n.out
