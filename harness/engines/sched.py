"""Engine `Sched` (C14-C18): build a real pydra workflow from a JSON case and run it
  * under the controlled worker (`sched_worker.VerifWorker`) while an in-loop controller plays a schedule of
    environment moves (scripted, or drawn online from a seeded policy and recorded), or
  * free-running under the unmodified `debug` / `cf` workers.

Case (JSON):
  {"nodes": [{"name": "a", "preds": ["b", ...],          # at most 4 predecessors (fields d0..d3), earlier nodes only
              "split": null | [v0, v1, ...],              # own split over `idx` (always combined, so successors see a list);
                                                          #   equal values = equal checksums (one body, futured de-duplication)
              "inherit": false,                           # true: no own split, takes the state of its single uncombined pred
              "arr": true,                                # the task also holds a 3-element numpy array input (D74: repr of failed jobs)
              "emit": m,                                  # "lister": the node returns list(range(m)) (m may be 0) ...
              "split_from": "l"}],                        # ... over which this node splits at run time (always combined)
   "keep_state": ["a", ...]                               # split nodes that are NOT combined (successors inherit the split)
   "k": 2 | null,                                         # max_concurrent (null = inf)
   "fail": [tags], "vanish": {tag: "idle" | "locked"},
   "script": [round, ...] | null,                         # round = {"acq": [tags], "fin": [tags], "van": [tags], "done": [tags]}
   "race": {"job": tag, "round": r, "hold": tag2} | absent,  # let `tag` fail *during* the poll of round r, while the
                                                          #   submitter is inside its second read of the status of `hold`
                                                          #   (default: of `tag` itself) in that poll (class Racer)
   "back": [[node, field_index, later_node]] | absent,    # `node.inputs.d<i> = later_node.out` after all nodes exist (C18: cycles)
   "typed": bool,                                         # use the typed task BodyT (typed back edges are refused at construction)
   "n_procs": n | absent,                                 # size of the controlled worker's pool (default min(jobs, k + 1))
   "worker": "debug" | "cf", "log": bool                  # free-running case under an unmodified worker (run_free)
   "policy": {"seed": n, "style": "random" | "fifo" | "greedy" | "lazy" | "failslast"},
   "two": {"rerun": bool, "ro": bool, "pre_fail": [tags]}}  # TWO-PASS case (pre-existing results): the workflow is first
                                                          #   submitted under a plain worker (generation 1, bodies in
                                                          #   `pre_fail` raise), then - this is the observed submission - again
                                                          #   (generation 2, `fail`) over the same cache_root, or with a fresh
                                                          #   cache_root and the first one as readonly cache (`ro`), with
                                                          #   `rerun` as given.  Static splits only (no inherit / listers / dups).

A *tag* names a body: "<node>" or "<node>.<split value>".
This module is imported both by the harness and (with `python -m harness.engines.sched`) by the child
interpreter that actually runs submissions: one JSON case per stdin line, one JSON observation per stdout line.
"""

from __future__ import annotations

import asyncio
import importlib.util
import itertools
import json
import os
import random
import re
import shutil
import subprocess
import sys
import tempfile
import time
import traceback
from pathlib import Path

# --------------------------------------------------------------------------------------------------
# static description of a case (independent of pydra): jobs, tags, checksum classes, predecessor lists


def node_jobs(case: dict) -> dict[str, list[str]]:
    """tags of the jobs of every node, in state-index order"""
    keep = set(case.get("keep_state") or [])
    out: dict[str, list[str]] = {}
    for nd in case["nodes"]:
        nm = nd["name"]
        if nd.get("split") is not None:
            out[nm] = [f"{nm}.{v}" for v in nd["split"]]
        elif nd.get("split_from"):
            # split over the list a "lister" node emits at run time (possibly empty)
            m = next(x for x in case["nodes"] if x["name"] == nd["split_from"])["emit"]
            out[nm] = [f"{nm}.{v}" for v in range(m)]
        elif nd.get("inherit"):
            up = nd["preds"][0]
            assert up in keep, "inherit needs an uncombined split predecessor"
            out[nm] = [f"{nm}.{t.split('.', 1)[1]}" for t in out[up]]
        else:
            out[nm] = [nm]
    return out


def model_case(case: dict) -> dict:
    """what the Lean driver needs: node ids, edges, checksum ids per node (equal tags = equal checksum), k, schedule"""
    names = [nd["name"] for nd in case["nodes"]]
    nid = {n: i for i, n in enumerate(names)}
    jobs = node_jobs(case)
    ck: dict[str, int] = {}
    for n in names:
        for t in jobs[n]:
            ck.setdefault(t, len(ck))
    edges = []
    for nd in case["nodes"]:
        if nd.get("split_from") and [nid[nd["split_from"]], nid[nd["name"]]] not in edges:
            edges.append([nid[nd["split_from"]], nid[nd["name"]]])  # field `idx` precedes d0..d3
        for p in nd["preds"]:
            if [nid[p], nid[nd["name"]]] not in edges:
                edges.append([nid[p], nid[nd["name"]]])
    for src, _field, later in case.get("back") or []:
        if [nid[later], nid[src]] not in edges:
            edges.append([nid[later], nid[src]])
    # the execution graph adds connections while scanning nodes in order and, per node, its fields in order
    return {
        "nodes": [nid[n] for n in names],
        "edges": edges,
        "jobs": [[ck[t] for t in jobs[n]] for n in names],
        "k": case.get("k"),
        "cks": ck,
        "names": names,
    }


# --------------------------------------------------------------------------------------------------
# workflow source generation (unique module / class per case: pydra hashes classes by source, D28)

_uid = itertools.count()


def gen_source(case: dict, uid: str) -> str:
    keep = set(case.get("keep_state") or [])
    lines = []
    for nd in case["nodes"]:
        nm = nd["name"]
        kw = [f"nm={nm!r}", "ctl=ctl", "mode=mode"]
        if nd.get("inherit"):
            kw.append("inherit=True")
        if nd.get("emit") is not None:
            kw.append(f"emit={int(nd['emit'])}")
        if nd.get("arr"):
            kw.append("arr=np.arange(3)")  # an input whose comparison with the field default is an array, not a bool (D74)
        for i, p in enumerate(nd["preds"]):
            kw.append(f"d{i}={p}.out")
        expr = f"Body({', '.join(kw)})"
        if nd.get("split") is not None:
            expr += f".split(idx={list(nd['split'])!r})"
            if nm not in keep:
                expr += ".combine('idx')"
        elif nd.get("split_from"):
            expr += f".split(idx={nd['split_from']}.out).combine('idx')"
        elif nd.get("inherit") and nd.get("combine_inherited"):
            expr += f".combine('{nd['preds'][0]}.idx')"
        lines.append(f"    {nm} = workflow.add({expr}, name={nm!r})")
    for src, field, later in case.get("back") or []:
        # a connection assigned after the nodes exist: `later`'s output into an input of the earlier node `src`
        lines.append(f"    {src}.inputs.d{field} = {later}.out")
    outs = [nd["name"] for nd in case["nodes"]]
    body_cls = "BodyT" if case.get("typed") else "Body"
    lines = [ln.replace("workflow.add(Body(", f"workflow.add({body_cls}(") for ln in lines]
    return (
        f"import typing as ty\nimport numpy as np\nfrom pydra.compose import workflow\nfrom harness.engines.sched_worker import Body, BodyT\n\n"
        f"@workflow.define(outputs={[f'o_{o}' for o in outs]!r})\n"
        f"def W_{uid}(ctl: str, mode: str):\n" + "\n".join(lines) + "\n    return " + ", ".join(f"{o}.out" for o in outs) + "\n"
    )


def load_module(src: str, scratch: Path, uid: str):
    p = Path(scratch) / f"schedgen_{uid}.py"
    p.write_text(src)
    spec = importlib.util.spec_from_file_location(f"schedgen_{uid}", p)
    mod = importlib.util.module_from_spec(spec)
    sys.modules[spec.name] = mod
    spec.loader.exec_module(mod)
    return mod


def canon(v):
    if isinstance(v, (list, tuple)):
        return [canon(e) for e in v]
    if v is None or isinstance(v, (int, str, bool)):
        return v
    try:
        return [canon(e) for e in v]  # StateArray
    except TypeError:
        return repr(type(v).__name__)


# --------------------------------------------------------------------------------------------------
# the schedule player (runs inside the child, on the submitter's event loop)


class Player:
    def __init__(self, case: dict, ctl):
        self.case = case
        self.c = ctl
        self.fail = set(case.get("fail") or [])
        self.vanish = dict(case.get("vanish") or {})
        self.script = case.get("script")
        pol = case.get("policy") or {"seed": 0, "style": "fifo"}
        self.style = pol.get("style", "random")
        self.rng = random.Random(pol.get("seed", 0))
        self.truth: dict[str, str] = {}  # tag -> idle|locked|ok|err|dead ; absent = not dispatched yet
        self.schedule: list[dict] = []  # one entry per fetch_finished call (index = c.n_wait - 1)
        self.diverged: str | None = None

    def choose(self, pending: list[str]) -> dict:
        """online policy: environment moves for this round, given the pending futures (always completes >= 1)"""
        rng, st = self.rng, self.style
        acq, fin, van, done = [], [], [], []
        t = dict(self.truth)
        order = list(pending)
        if st in ("random", "lazy"):
            rng.shuffle(order)
        p_acq, p_fin, p_done = {"fifo": (1, 1, 1), "greedy": (1, 0, 0), "lazy": (0, 0, 0), "random": (0.6, 0.5, 0.6),
                                "failslast": (1, 0, 0)}[st]
        if st == "failslast":
            # every dispatched body starts at once; exactly one completes per round, failing bodies as late as
            # possible: they are *seen running* by many polls before they fail (the D10 pattern)
            order = [x for x in order if x not in self.fail] + [x for x in order if x in self.fail]

        def advance(x, force=False):
            """move job x one or more steps forward; with `force` all the way to completion"""
            if t[x] == "hit":  # cached result, no body: the only move is the completion of the future
                if force or rng.random() < p_done:
                    done.append(x)
                    t[x] = "gone"
                return
            if t[x] == "idle" and (force or rng.random() < p_acq):
                if self.vanish.get(x) == "idle":
                    van.append(x)
                    t[x] = "gone"
                    return
                acq.append(x)
                t[x] = "locked"
            if t[x] == "locked" and (force or rng.random() < p_fin):
                if self.vanish.get(x) == "locked":
                    van.append(x)
                    t[x] = "gone"
                    return
                fin.append(x)
                t[x] = "fin"
            if t[x] in ("fin", "ok", "err") and (force or rng.random() < p_done):
                done.append(x)
                t[x] = "gone"

        for x in order:
            advance(x)
        if not done and not van:  # the loop is blocked in asyncio.wait: some future has to complete
            cand = [x for x in order if t[x] in ("fin", "ok", "err", "hit")] or [x for x in order if t[x] == "locked"] or order
            advance(cand[0] if st in ("fifo", "greedy", "failslast") else rng.choice(cand), force=True)
        return {"acq": acq, "fin": fin, "van": van, "done": done}

    async def play_round(self, mv: dict, pending: list[str]):
        c = self.c
        from harness.engines.sched_worker import DeviceTimeout

        def bad(msg):
            self.diverged = msg
            raise DeviceTimeout(msg)

        for x in mv.get("acq", []):
            if x not in pending or self.truth.get(x) != "idle":
                bad(f"acquire {x}: not a pending idle job (pending {pending})")
            if self.vanish.get(x) == "locked":
                c.mode[x] = "vanish-locked"  # the lock file appears, no body will ever report
                c.open(c.start_gate, x)
                await c.until(lambda: x in c.returned, f"lost job {x} to take its lock")
            else:
                c.open(c.start_gate, x)
                await c.until(lambda: x in c.seen_s, f"body {x} to start")
            self.truth[x] = "locked"
        for x in mv.get("fin", []):
            if self.truth.get(x) != "locked" or x in self.vanish:
                bad(f"finish {x}: body not running")
            what = "err" if x in self.fail else "ok"
            tmp = c.dir / (x + ".finish.tmp")
            tmp.write_text(what)
            tmp.rename(c.dir / (x + ".finish"))
            await c.until(lambda: x in c.returned, f"job {x} to finish")
            self.truth[x] = what
        for x in mv.get("van", []):
            if x not in pending or self.truth.get(x) not in ("idle", "locked"):
                bad(f"vanish {x}: not a pending unfinished job")
            if self.truth[x] == "idle":
                c.mode[x] = "vanish"
                c.open(c.start_gate, x)
                await c.until(lambda: x in c.returned, f"vanishing job {x}")
            self.truth[x] = "lost"
        dn = list(mv.get("done", []))
        for x in dn:
            if self.truth.get(x) == "hit":
                if x not in pending:
                    bad(f"complete {x}: cache hit that is not pending")
                c.open(c.start_gate, x)
                await c.until(lambda: x in c.returned, f"cache hit {x} to return")
                if x in c.seen_s:
                    bad(f"complete {x}: expected a cache hit but the body ran")
                self.truth[x] = "ok"
        for x in dn:
            if c.racer is not None and c.racer.done and x == c.racer.spec["job"] and self.truth.get(x) == "locked":
                # the racer let this body fail in the middle of a poll; its future now has the (failed) result
                await c.until(lambda: x in c.returned, f"raced job {x} to finish")
                self.truth[x] = "err" if x in self.fail else "ok"
        for x in dn:
            if x not in pending or x not in c.returned or self.truth.get(x) not in ("ok", "err"):
                bad(f"complete {x}: future has no result yet")
        for x in dn + list(mv.get("van", [])):  # all in one step of the loop: the futures are found done together
            c.open(c.fin_gate, x)
            self.truth[x] = self.truth[x] + "+done"

    async def run(self):
        c = self.c
        try:
            while True:
                await c.wake.wait()
                c.wake.clear()
                r = c.n_wait - 1
                cks = next(e[1] for e in reversed(c.events) if e[0] == "W")
                await c.until(lambda: all(k in c.tag_of_ck for k in cks), "dispatched tasks to enter run()")
                pending = [c.tag_of_ck[k] for k in cks]
                for x in pending:
                    self.truth.setdefault(x, "hit" if c.hit.get(x) else "idle")
                while len(self.schedule) < r:
                    self.schedule.append({})  # fetch_finished calls with nothing pending: no environment moves
                if self.script is not None:
                    if r >= len(self.script):
                        self.diverged = f"script exhausted at round {r} (pending {pending})"
                        from harness.engines.sched_worker import DeviceTimeout

                        raise DeviceTimeout(self.diverged)
                    mv = self.script[r]
                else:
                    mv = self.choose(pending)
                self.schedule.append(mv)
                race = self.case.get("race")
                if race and r == race["round"] and self.c.racer is not None:
                    self.c.racer.arm()  # from now on `load_result` is gated (pydra/utils/verif_hooks.py)
                if os.environ.get("VERIF_SCHED_TRACE"):
                    print("PLAY", r, pending, mv, file=sys.stderr, flush=True)
                await self.play_round(mv, pending)
        except asyncio.CancelledError:
            raise
        except BaseException as e:  # noqa: BLE001
            c.player_error = e
            c.abort()  # unblock everything so that the submission can end
            raise


# --------------------------------------------------------------------------------------------------
# running one case (child side)


class Racer:
    """Forces one interleaving *inside* a poll with the `load_result` gate of pydra/utils/verif_hooks.py: once armed,
    every `load_result` (in every process) announces itself and waits; a helper thread releases them at once, except
    the second read of the raced job's result by the submitter process, which is held until that job has failed on disk
    (finish token "err" written, errored result saved).  Everything is synchronised on files."""

    def __init__(self, vdir: Path, ctl_dir: Path, cache_root: Path, spec: dict):
        import threading

        self.vdir, self.ctl_dir, self.cache_root, self.spec = Path(vdir), Path(ctl_dir), Path(cache_root), spec
        for d in ("gates", "waiting", "release"):
            (self.vdir / d).mkdir(parents=True, exist_ok=True)
        os.environ["NIPYPE_PYDRA_VERIF_DIR"] = str(self.vdir)
        os.environ["NIPYPE_PYDRA_VERIF_GATE_TIMEOUT"] = "600"
        self.main_pid = os.getpid()
        self.armed = False
        self.done = False
        self.reads = 0
        self.log: list[str] = []
        self._stop = threading.Event()
        self._seen: set[str] = set()
        self._t = threading.Thread(target=self._run, daemon=True)

    def arm(self):
        # the helper thread is started only now: the process pool has forked its workers at the first dispatch
        if not self._t.is_alive():
            self._t.start()
        (self.vdir / "gates" / "load_result").touch()
        self.armed = True
        self.log.append("armed")

    def _label(self, pid: int, n: int) -> str | None:
        try:
            k = 0
            for line in (self.vdir / "events.log").read_text().splitlines():
                p = line.split()
                if len(p) >= 3 and p[0] == str(pid) and p[1] == "load_result":
                    k += 1
                    if k == n:
                        return p[2]
        except OSError:
            pass
        return None

    def _run(self):
        from harness.engines import sched_worker as W

        while not self._stop.is_set():
            try:
                names = sorted(os.listdir(self.vdir / "waiting"))
            except OSError:
                names = []
            for tag in names:
                if tag in self._seen:
                    continue
                self._seen.add(tag)
                pid, _point, n = tag.rsplit(".", 2)[0].split(".")[0], None, tag.rsplit(".", 1)[1]
                label = self._label(int(pid), int(n))
                ck = (W.CONTROL.tag_of_ck if W.CONTROL else {})
                if self.armed and not self.done and int(pid) == self.main_pid and label and ck.get(label) == self.spec.get("hold", self.spec["job"]):
                    self.reads += 1
                    if self.reads == 2:
                        # the submitter is inside its second read of this job's status within one poll: let the job fail now
                        tok = self.ctl_dir / (self.spec["job"] + ".finish")
                        tok.with_suffix(".tmp").write_text("err")
                        tok.with_suffix(".tmp").rename(tok)
                        jck = next((c for c, t in ck.items() if t == self.spec["job"]), label)
                        res = self.cache_root / jck / "_result.pklz"
                        lock = self.cache_root / (jck + ".lock")
                        t0 = time.time()
                        while time.time() - t0 < 300 and not (res.exists() and res.stat().st_size > 0 and not lock.exists()):
                            time.sleep(0.005)
                        self.log.append(f"failed {self.spec['job']} during read 2: result on disk = {res.exists()}")
                        self.done = True
                        try:
                            (self.vdir / "gates" / "load_result").unlink()
                        except OSError:
                            pass
                (self.vdir / "release" / tag).touch()
            time.sleep(0.003)

    def stop(self):
        self._stop.set()
        try:
            (self.vdir / "release" / "all").touch()
            (self.vdir / "gates" / "load_result").unlink()
        except OSError:
            pass
        os.environ.pop("NIPYPE_PYDRA_VERIF_DIR", None)

    def report(self) -> dict:
        return {"reads": self.reads, "forced": self.done, "log": self.log}


def parse_named(msg: str, case: dict) -> list[str]:
    """jobs named by the workflow error: `Job 'name(idx)'` of expand_workflow_async, `Job 'name' failed` of _from_job"""
    jobs = node_jobs(case)
    named = set()
    for m in re.finditer(r"Job '([A-Za-z_0-9]+)(?:\((\d+)\))?'", msg):
        n, i = m.group(1), m.group(2)
        if n in jobs:
            if i is None:
                if len(jobs[n]) == 1:
                    named.add(jobs[n][0])
                else:
                    named.add(n + ".?")
            elif int(i) < len(jobs[n]):
                named.add(jobs[n][int(i)])
    return sorted(named)


def cache_state(cache_root: Path) -> dict:
    """tag -> "ok" / "err" for every job directory with a result in the cache"""
    import cloudpickle as cp
    from harness.engines.sched_worker import job_tag

    out = {}
    for d in sorted(Path(cache_root).glob("python-*")):
        rf, jf = d / "_result.pklz", d / "_job.pklz"
        if d.is_dir() and rf.exists() and jf.exists():
            try:
                with open(jf, "rb") as f:
                    job = cp.load(f)
                with open(rf, "rb") as f:
                    res = cp.load(f)
                out[job_tag(job)] = "err" if res.errored else "ok"
            except Exception:  # noqa: BLE001
                pass
    return out


def rounds_of(events: list, tag_of_ck: dict) -> list[dict]:
    """cut the event list at every fetch_finished: round = polls since the previous one, pending set, dispatches after it"""
    rounds, cur = [], {"polls": [], "stall_ticks": 0}
    for e in events:
        if e[0] == "P":
            cur["polls"].append({"tasks": e[1], "tables": e[2]})
        elif e[0] == "Z":
            cur["stall_ticks"] += 1
        elif e[0] == "W":
            cur["pending"] = sorted(tag_of_ck.get(k, k) for k in e[1])
            cur["dispatched"] = []
            rounds.append(cur)
            cur = {"polls": [], "stall_ticks": 0}
        elif e[0] == "D":
            if rounds:
                rounds[-1]["dispatched"].append(e[1])
    rounds.append({**cur, "tail": True})
    return rounds


def run_controlled(case: dict, scratch: Path) -> dict:
    import asyncio

    from pydra.engine.workflow import Workflow
    from harness.engines import sched_worker as W

    W.install_fast_stall_sleep()
    uid = f"{os.getpid()}_{next(_uid)}"
    base = Path(tempfile.mkdtemp(prefix=f"sched_{uid}_", dir=scratch))
    ctl_dir, cache_root = base / "ctl", base / "cache"
    ctl_dir.mkdir()
    cache_root.mkdir()
    k = case.get("k")
    njobs = sum(len(v) for v in node_jobs(case).values())
    obs: dict = {}
    Workflow.clear_cache()
    mod = load_module(gen_source(case, uid), base, uid)
    two = case.get("two")
    sub_kw, call_kw, first = {}, {}, None
    if two:
        first = first_pass(case, mod, uid, ctl_dir, cache_root)
        (ctl_dir / "cfg.json").write_text(json.dumps({"gen": 2, "fail": sorted(case.get("fail") or []), "gate": True}))
        if two.get("ro"):
            sub_kw["readonly_caches"] = [cache_root]
            cache_root = base / "cache2"
            cache_root.mkdir()
        call_kw["rerun"] = bool(two.get("rerun"))
    wf = getattr(mod, f"W_{uid}")(ctl=str(ctl_dir), mode="x" if two else "gate")
    ctl = W.Control(ctl_dir, k)
    W.CONTROL = ctl
    racer = None
    if case.get("race"):
        racer = Racer(base / "vdir", ctl_dir, cache_root, case["race"])
        ctl.racer = racer
    outcome, msg, outputs = "ok", "", None
    try:
        # enough processes for every body the schedule may open at once; one more than the limit, so that a
        # dispatcher that oversteps the limit shows up as an extra open body instead of a queue in the pool
        n_procs = case.get("n_procs") or (min(njobs, 8) if k is None else min(njobs, k + 1))
        worker = W.VerifWorker(n_procs=max(2, n_procs))
        sub = W.ObsSubmitter(worker=worker, cache_root=cache_root, max_concurrent=(float("inf") if k is None else k), **sub_kw)
        with sub:
            loop = sub.loop
            asyncio.set_event_loop(loop)
            ctl.wake = asyncio.Event()
            player = Player(case, ctl)
            ptask = loop.create_task(player.run())
            if os.environ.get("VERIF_SCHED_TRACE"):
                import signal

                def _dump():
                    for t in asyncio.all_tasks(loop):
                        print("TASK", t.get_name(), t, file=sys.stderr, flush=True)
                        t.print_stack(file=sys.stderr)
                    print("CTL returned", ctl.returned, "seen_s", ctl.seen_s, "truth", player.truth, file=sys.stderr, flush=True)

                loop.add_signal_handler(signal.SIGUSR2, _dump)
            try:
                res = sub(wf, raise_errors=True, **call_kw)
                outputs = {nd["name"]: canon(getattr(res.outputs, "o_" + nd["name"])) for nd in case["nodes"]}
            except W.Livelock:
                outcome = "LIVELOCK"
            except W.DeviceTimeout as e:
                outcome, msg = "DEVICE-TIMEOUT", str(e)
            except Exception as e:  # noqa: BLE001
                outcome, msg = type(e).__name__, str(e)
            finally:
                # let every gated coroutine finish, then stop the player
                ctl.abort()
                ptask.cancel()
                try:
                    loop.run_until_complete(asyncio.gather(ptask, return_exceptions=True))
                    rest = [t for t in asyncio.all_tasks(loop) if not t.done()]
                    for t in rest:
                        t.cancel()
                    if rest:
                        loop.run_until_complete(asyncio.gather(*rest, return_exceptions=True))
                except Exception:  # noqa: BLE001
                    pass
        ctl.read_log()
        if ctl.livelock:
            outcome = "LIVELOCK"
        if ctl.player_error is not None and outcome not in ("LIVELOCK",):
            outcome, msg = "DEVICE-TIMEOUT", f"player: {ctl.player_error!r}; {player.diverged}"
        # body intervals: order of S/E lines in the (append-only) body log
        opened, maxopen, order = 0, 0, []
        for line in (ctl_dir / "log").read_text().splitlines() if (ctl_dir / "log").exists() else []:
            p = line.split()
            if p[0] == "S":
                opened += 1
                order.append("S " + p[1])
            elif p[0] == "E":
                opened -= 1
                order.append("E " + p[1])
            maxopen = max(maxopen, opened)
        sched = list(player.schedule)
        while len(sched) < ctl.n_wait:
            sched.append({})  # fetch_finished calls with nothing pending: the loop did not yield, no moves
        kind = None
        ticks = sum(1 for e in ctl.events if e[0] == "Z")
        if outcome == "ValueError" and "cannot be sorted as it contains a cycle" in msg:
            kind = "cycle"
        elif outcome == "RuntimeError" and "have already been accessed and therefore cannot set" in msg:
            kind = "rejected"  # a (typed) back edge refused by Node.Inputs.__setattr__ while the workflow is constructed
        elif "has no attribute 'readonly_caches'" in msg or "Could not find results of" in msg:
            # LazyField._get_value found no result file for a predecessor's job when a node was started (its diagnostic
            # text itself fails with AttributeError: `job.readonly_caches`)
            kind = "lost-input"
        elif ticks >= 11 and outcome not in ("ok", "LIVELOCK", "DEVICE-TIMEOUT") and "Workflow job " not in msg[:40]:
            # raised inside the stall detector (its diagnostic text crashes with TypeError when a node never started)
            kind = "stall"
        elif outcome == "RuntimeError":
            if "Something has gone wrong when retrieving the predecessor" in msg:
                kind = "stall"
            elif msg.lstrip().startswith("Workflow job "):
                kind = "failed"  # raised by the `finally` of expand_workflow_async: collected future errors
            elif msg.lstrip().startswith("Workflow "):
                kind = "failedNodes"  # raised by WorkflowOutputs._from_job
        obs = {
            "sorted": ctl.sorted,
            "rounds": rounds_of(ctl.events, ctl.tag_of_ck),
            "schedule": sched,
            "outcome": outcome,
            "kind": kind,
            "stall_ticks": sum(1 for e in ctl.events if e[0] == "Z"),
            "named": parse_named(msg, case) if outcome == "RuntimeError" else [],
            "executed": sorted(set(ctl.seen_s)),
            "bodylog": order,
            "maxopen": maxopen,
            "cache": cache_state(cache_root),
            "outputs": outputs,
            "msg": msg[-600:] if outcome in ("DEVICE-TIMEOUT",) or os.environ.get("VERIF_SCHED_DEBUG") else "",
        }
        if first is not None:
            obs["first"] = first
    finally:
        if racer is not None:
            racer.stop()
            obs["race"] = racer.report() if isinstance(obs, dict) else None
        W.CONTROL = None
        Workflow.clear_cache()
        sys.modules.pop(f"schedgen_{uid}", None)
        if not os.environ.get("VERIF_SCHED_KEEP"):
            shutil.rmtree(base, ignore_errors=True)
    return obs


def first_pass(case: dict, mod, uid: str, ctl_dir: Path, cache_root: Path) -> dict:
    """the FIRST submission of a two-pass case: no limit, generation 1, bodies in `pre_fail` raise; plain cf worker when
    bodies fail (it goes on with the independent jobs, so that the cache ends up complete: every job not downstream of a
    failure has a result), else the debug worker.  Leaves its results in `cache_root`; returns what it did."""
    from pydra.engine.submitter import Submitter
    from pydra.engine.workflow import Workflow

    two = case["two"]
    (ctl_dir / "cfg.json").write_text(json.dumps({"gen": 1, "fail": sorted(two.get("pre_fail") or []), "gate": False}))
    wf = getattr(mod, f"W_{uid}")(ctl=str(ctl_dir), mode="x")
    outcome = "ok"
    try:
        kw = {"worker": "cf", "n_procs": 2} if two.get("pre_fail") else {"worker": "debug"}
        with Submitter(cache_root=cache_root, **kw) as sub:
            sub(wf, raise_errors=True)
    except Exception as e:  # noqa: BLE001
        outcome = type(e).__name__
    log = (ctl_dir / "log").read_text().splitlines() if (ctl_dir / "log").exists() else []
    if (ctl_dir / "log").exists():
        (ctl_dir / "log").rename(ctl_dir / "log.1")
    Workflow.clear_cache()
    return {"outcome": outcome, "ok": sorted(ln.split()[1] for ln in log if ln.startswith("E ") and ln.split()[2] == "ok"),
            "err": sorted(ln.split()[1] for ln in log if ln.startswith("E ") and ln.split()[2] == "err")}


def run_free(case: dict, scratch: Path) -> dict:
    """unmodified worker (`debug` or `cf` with n processes); bodies do not wait for anything.  With `"log": true`
    they append start/end lines to a log and the tags in `fail` raise (execution order of the debug worker)."""
    from pydra.engine.submitter import Submitter
    from pydra.engine.workflow import Workflow

    uid = f"{os.getpid()}_{next(_uid)}"
    base = Path(tempfile.mkdtemp(prefix=f"schedfree_{uid}_", dir=scratch))
    cache_root, ctl_dir = base / "cache", base / "ctl"
    cache_root.mkdir()
    ctl_dir.mkdir()
    Workflow.clear_cache()
    k = case.get("k")
    log = bool(case.get("log"))
    try:
        mod = load_module(gen_source(case, uid), base, uid)
        two = case.get("two")
        first, call_kw = None, {}
        kw = {"n_procs": case["n_procs"]} if case["worker"] == "cf" else {}
        if two:
            first = first_pass(case, mod, uid, ctl_dir, cache_root)
            (ctl_dir / "cfg.json").write_text(json.dumps({"gen": 2, "fail": sorted(case.get("fail") or []), "gate": False}))
            if two.get("ro"):
                kw["readonly_caches"] = [cache_root]
                cache_root = base / "cache2"
                cache_root.mkdir()
            call_kw["rerun"] = bool(two.get("rerun"))
            log = True
            wf = getattr(mod, f"W_{uid}")(ctl=str(ctl_dir), mode="x")
        else:
            wf = getattr(mod, f"W_{uid}")(ctl=str(ctl_dir) if log else "", mode="log:" + ",".join(case.get("fail") or []))
        outcome, outputs, msg = "ok", None, ""
        try:
            with Submitter(worker=case["worker"], cache_root=cache_root, max_concurrent=(float("inf") if k is None else k), **kw) as sub:
                res = sub(wf, raise_errors=True, **call_kw)
            outputs = {nd["name"]: canon(getattr(res.outputs, "o_" + nd["name"])) for nd in case["nodes"]}
        except Exception as e:  # noqa: BLE001
            outcome, msg = type(e).__name__, str(e)
        order = []
        if log and (ctl_dir / "log").exists():
            for line in (ctl_dir / "log").read_text().splitlines():
                p = line.split()
                order.append(p[0] + " " + p[1])
        m = re.search(r"body (\S+) fails as scheduled", msg)
        kind = None
        if outcome == "RuntimeError" and msg.lstrip().startswith("Workflow ") and not msg.lstrip().startswith("Workflow job "):
            kind = "failedNodes"  # raised by WorkflowOutputs._from_job
        obs = {"outcome": outcome, "outputs": outputs, "bodylog": order, "raised": m.group(1) if m else None, "kind": kind,
               "named": parse_named(msg, case) if outcome == "RuntimeError" else [],
               "cache": cache_state(cache_root), "msg": msg[-300:] if os.environ.get("VERIF_SCHED_DEBUG") else ""}
        if first is not None:
            obs["first"] = first
        return obs
    finally:
        Workflow.clear_cache()
        sys.modules.pop(f"schedgen_{uid}", None)
        shutil.rmtree(base, ignore_errors=True)


def child_main():
    from harness import core

    core.assert_repo_loaded()
    scratch = Path(sys.argv[1])
    out = sys.stdout
    sys.stdout = sys.stderr  # nothing but observations on the real stdout
    for line in sys.stdin:
        line = line.strip()
        if not line:
            continue
        case = json.loads(line)
        t0 = time.time()
        try:
            obs = run_free(case, scratch) if case.get("worker") else run_controlled(case, scratch)
        except BaseException as e:  # noqa: BLE001
            obs = {"outcome": "HARNESS-EXCEPTION", "msg": traceback.format_exc()[-1500:], "exc": type(e).__name__}
        obs["wall"] = round(time.time() - t0, 2)
        out.write(json.dumps(obs) + "\n")
        out.flush()


# --------------------------------------------------------------------------------------------------
# harness side: run cases in child interpreters with a watchdog


def run_cases(cases: list[dict], scratch: Path, per_case_timeout: float = 600.0) -> list[dict]:
    """Run the cases in one child; a case that exceeds the watchdog is reported as outcome HANG and the child restarted."""
    from harness import core

    results: list[dict] = []
    i = 0
    while i < len(cases):
        p = subprocess.Popen(
            [core.PY, "-m", "harness.engines.sched", str(scratch)],
            stdin=subprocess.PIPE,
            stdout=subprocess.PIPE,
            stderr=subprocess.DEVNULL if not os.environ.get("VERIF_SCHED_DEBUG") else None,
            env=core.impl_env(),
            text=True,
            cwd=str(core.VERIF),
        )
        try:
            while i < len(cases):
                p.stdin.write(json.dumps(cases[i]) + "\n")
                p.stdin.flush()
                line = _readline_timeout(p, per_case_timeout)
                if line is None:
                    results.append({"outcome": "HANG"})
                    i += 1
                    break
                if not line:
                    results.append({"outcome": "CHILD-DIED"})
                    i += 1
                    break
                results.append(json.loads(line))
                i += 1
        finally:
            try:
                p.stdin.close()
            except Exception:  # noqa: BLE001
                pass
            try:
                p.wait(timeout=5)
            except subprocess.TimeoutExpired:
                _kill_tree(p)
    return results


def run_cases_parallel(cases: list[dict], scratch: Path, nproc: int = 4, per_case_timeout: float = 600.0) -> list[dict]:
    """the same, spread over `nproc` child interpreters (all synchronisation is on files/events, so load is harmless)"""
    from concurrent.futures import ThreadPoolExecutor

    if not cases:
        return []
    nproc = max(1, min(nproc, len(cases)))
    chunks = [list(range(i, len(cases), nproc)) for i in range(nproc)]
    out: list = [None] * len(cases)

    def work(ix):
        res = run_cases([cases[i] for i in ix], scratch, per_case_timeout)
        for i, r in zip(ix, res):
            out[i] = r

    with ThreadPoolExecutor(nproc) as ex:
        list(ex.map(work, chunks))
    return out


def _kill_tree(p):
    import signal

    try:
        out = subprocess.run(["pgrep", "-P", str(p.pid)], capture_output=True, text=True).stdout.split()
        for c in out:
            try:
                os.kill(int(c), signal.SIGKILL)
            except OSError:
                pass
    except Exception:  # noqa: BLE001
        pass
    p.kill()
    try:
        p.wait(timeout=10)
    except Exception:  # noqa: BLE001
        pass


def _readline_timeout(p, timeout: float):
    import select

    r, _, _ = select.select([p.stdout], [], [], timeout)
    if not r:
        _kill_tree(p)
        return None
    return p.stdout.readline()


if __name__ == "__main__":
    child_main()


# --------------------------------------------------------------------------------------------------
# generation of cases, canonical observables of implementation and model, independent oracles


def gen_graph(rng, nmin=2, nmax=6, split_p=0.35, allow_keep=True, allow_dup=True, allow_empty=True) -> dict:
    """random acyclic workflow: every node consumes a subset (<= 3) of the earlier nodes"""
    n = rng.randint(nmin, nmax)
    names = [chr(ord("a") + i) for i in range(n)]
    rng.shuffle(names)  # names carry no order information
    nodes, keep = [], []
    listers: list[str] = []
    for i, nm in enumerate(names):
        earlier = [x["name"] for x in nodes]
        npred = 0 if not earlier else rng.choice([0, 1, 1, 1, 2, 2, 3])
        preds = rng.sample(earlier, min(npred, len(earlier)))
        nd = {"name": nm, "preds": preds}
        keeps = [p for p in preds if p in keep]
        if keeps:
            # a predecessor with an uncombined split hands its state on: exactly one such predecessor, placed first
            up = keeps[0]
            nd["preds"] = [up] + [p for p in preds if p not in keep]
            nd["inherit"] = True
            nd["combine_inherited"] = True
        elif allow_empty and listers and rng.random() < 0.5:
            # split over the list an earlier "lister" node produces at run time (possibly empty)
            nd["split_from"] = rng.choice(listers)
        elif allow_empty and len(nodes) < n - 1 and rng.random() < 0.15:
            nd["emit"] = rng.choice([0, 0, 1, 2])
            listers.append(nm)
        elif rng.random() < split_p:
            m = rng.choice([1, 2, 2, 3, 3] + ([0, 0] if allow_empty else []))
            vals = list(range(m))
            if allow_dup and m >= 2 and rng.random() < 0.12:
                vals[-1] = vals[0]  # two jobs with identical inputs: one checksum, one body
            nd["split"] = vals
            if allow_keep and m > 0 and rng.random() < 0.3:
                keep.append(nm)
        nodes.append(nd)
    return {"nodes": nodes, "keep_state": keep}


def gen_two(rng, nmin=2, nmax=5, shape: dict | None = None) -> dict:
    """a TWO-PASS case (pre-existing results): static workflow, first submission with some failing bodies, second one
    with `rerun` / over a readonly cache"""
    c = shape if shape is not None else gen_graph(rng, nmin, nmax, split_p=0.3, allow_keep=False, allow_dup=False, allow_empty=False)
    for nd in c["nodes"]:
        if nd.get("split") is not None and len(nd["split"]) > 2:
            nd["split"] = nd["split"][:2]
    tags = all_tags(c)
    kind = rng.choice(["rerun", "rerun", "rerun-ro", "errored", "errored", "errored-ro", "rerun+errored"])
    pre = []
    if "errored" in kind:
        pre = [t for t in tags if rng.random() < 0.3] or [rng.choice(tags)]
    c["two"] = {"rerun": kind.startswith("rerun"), "ro": kind.endswith("-ro"), "pre_fail": pre}
    c["k"] = rng.choice([None, None, 1, 2, 2])
    c["fail"] = [rng.choice(tags)] if rng.random() < 0.1 else []
    c["policy"] = {"seed": rng.randrange(10**6), "style": rng.choice(["random", "random", "lazy", "greedy", "fifo"])}
    c["n_procs"] = min(len(tags), 8)
    return c


def d71(case: dict, obs: dict):
    """match rule of the known finding D73: a submission over pre-existing results in which some job has to be executed
    although a result of it is on disk (`rerun`, or an errored result).  (`Ctx.judge` attributes a failed verdict to it
    only if the model of the unchanged code reproduces the whole observation.)"""
    two = case.get("two")
    if two and (two.get("rerun") or two.get("pre_fail")):
        return "D73"
    return None


def all_tags(case: dict) -> list[str]:
    seen, out = set(), []
    for n, ts in node_jobs(case).items():
        for t in ts:
            if t not in seen:
                seen.add(t)
                out.append(t)
    return out


def all_preds(nd: dict) -> list[str]:
    """every node whose output this node consumes (the list it splits over at run time included)"""
    return ([nd["split_from"]] if nd.get("split_from") else []) + list(nd["preds"])


def doomed_nodes(case: dict, fail: set) -> set:
    """nodes that have a failing job somewhere upstream (node granularity, as the scheduler treats dependence)"""
    jobs = node_jobs(case)
    dead: set = set()
    for nd in case["nodes"]:  # nodes are listed in a topological order
        for p in all_preds(nd):
            if p in dead or (p not in dead and any(t in fail for t in jobs[p])):
                dead.add(nd["name"])
    return dead


def _job_ix(case: dict) -> dict[str, list[int]]:
    """tag -> [node index, job index] (two-pass cases: static splits, no duplicate checksums)"""
    names = [nd["name"] for nd in case["nodes"]]
    return {t: [names.index(n), i] for n, ts in node_jobs(case).items() for i, t in enumerate(ts)}


def model_query_two(case: dict, schedule: list[dict] | None) -> dict:
    """query of the `rerun` operation of the Lean driver (Sched/Rerun.lean); schedule None = synchronous loop"""
    mc = model_case(case)
    ix = _job_ix(case)
    two = case["two"]
    fail = set(case.get("fail") or [])
    q = {"op": "rerun", "mode": "sync" if schedule is None else "async", "nodes": mc["nodes"], "edges": mc["edges"],
         "sizes": [len(j) for j in mc["jobs"]], "k": mc["k"], "rerun": bool(two.get("rerun")), "ro": bool(two.get("ro")),
         "pre_fail": [ix[t] for t in two.get("pre_fail") or []], "fail": [ix[t] for t in sorted(fail)]}
    if schedule is not None:
        sched = []
        for mv in schedule:
            r = [["acq", *ix[x]] for x in mv.get("acq", [])]
            r += [["err" if x in fail else "ok", *ix[x]] for x in mv.get("fin", [])]
            r += [["done", *ix[x]] for x in mv.get("done", [])]
            sched.append(r)
        q["schedule"] = sched
    return q


def model_query(case: dict, schedule: list[dict], old: bool = False) -> dict:
    if case.get("two"):
        return model_query_two(case, schedule)
    mc = model_case(case)
    ck = mc["cks"]
    fail = set(case.get("fail") or [])
    sched = []
    for mv in schedule:
        r = [["acq", ck[x]] for x in mv.get("acq", [])]
        r += [["err" if x in fail else "ok", ck[x]] for x in mv.get("fin", [])]
        r += [["van", ck[x]] for x in mv.get("van", [])]
        r += [["done", ck[x]] for x in mv.get("done", [])]
        sched.append(r)
    return {"op": "async", "nodes": mc["nodes"], "edges": mc["edges"], "jobs": mc["jobs"], "k": mc["k"], "old": old, "schedule": sched}


LIVELOCK_PREFIX = 6


def _tables_named(tbl: dict, names: list[str], by_id: bool) -> dict:
    out = {}
    for i, n in enumerate(names):
        t = tbl.get(str(i) if by_id else n)
        if t is not None:
            out[n] = {k: t[k] for k in ("blocked", "queued", "running", "successful", "errored", "unrunnable")}
    return out


def impl_view(case: dict, obs: dict) -> tuple[dict, list]:
    """(canonical observable, per-round NodeExecution tables) of an implementation run"""
    if "rounds" not in obs:
        return {"outcome": obs.get("outcome")}, []
    names = [nd["name"] for nd in case["nodes"]]
    rounds, tables = [], []
    for r in obs["rounds"]:
        if r.get("tail"):
            continue
        last = r["polls"][-1] if r["polls"] else {"tasks": [], "tables": {}}
        rounds.append({"tasks": last["tasks"], "pending": sorted(r["pending"]), "dispatched": r["dispatched"]})
        tables.append(_tables_named(last["tables"], names, False))
    msg_kind = obs["outcome"]
    if obs["outcome"] == "ok":
        msg_kind = "success"
    elif obs.get("kind"):
        msg_kind = obs["kind"]
    if msg_kind == "LIVELOCK":  # the loop spins: only a prefix of the (endless) round sequence is compared
        rounds, tables = rounds[:LIVELOCK_PREFIX], tables[:LIVELOCK_PREFIX]
    view = {
        "sorted": obs["sorted"],
        "rounds": rounds,
        "outcome": msg_kind,
        "named": sorted(obs.get("named") or []),
        "executed": sorted(obs.get("executed") or []),
        "maxopen": obs.get("maxopen"),
    }
    if case.get("two"):
        view["gens"] = impl_gens(case, obs.get("outputs"))
    return view, tables


def impl_gens(case: dict, outputs: dict | None):
    """two-pass cases, from the outputs of a successful submission: per node, which jobs hold a value of THIS submission
    (`fresh`) and whether the values the node consumed are the final values of its predecessors (`consistent`)"""
    if outputs is None:
        return None
    out = {}
    for nd in case["nodes"]:
        v = outputs[nd["name"]]
        vals = v if nd.get("split") is not None else [v]
        fresh = [str(x[1]).endswith("@2") for x in vals]
        want = [outputs[p] for p in nd["preds"]]
        out[nd["name"]] = {"fresh": fresh, "consistent": all(x[2] == want for x in vals)}
    return out


def model_gens(case: dict, ans: dict):
    if ans.get("outcome") != "success" or "fresh" not in ans:
        return None
    names = [nd["name"] for nd in case["nodes"]]
    return {n: {"fresh": ans["fresh"][str(i)], "consistent": ans["consistent"][str(i)]} for i, n in enumerate(names)}


def model_view_two(case: dict, ans: dict) -> tuple[dict | None, list]:
    if ans is None or "rounds" not in ans:
        return None, []
    names = [nd["name"] for nd in case["nodes"]]
    jobs = node_jobs(case)

    def tg(j):
        return jobs[names[j[0]]][j[1]]

    rounds, tables = [], []
    for r in ans["rounds"]:
        rounds.append({"tasks": [tg(j) for j in r["tasks"]], "pending": sorted(tg(j) for j in r["pending"]),
                       "dispatched": [tg(j) for j in r["dispatched"]]})
        tables.append(_tables_named(r["tables"], names, True))
    oc = ans.get("outcome") if ans.get("status") == "done" else "MODEL-" + str(ans.get("status"))
    if ans.get("status") == "crash":
        oc = "lost-input"  # start() found no result file for a predecessor's job
    if oc == "failedNodes":
        named = sorted(names[n] + ("" if len(jobs[names[n]]) == 1 and jobs[names[n]][0] == names[n] else ".?") for n in ans["named"])
    else:
        named = sorted(tg(j) for j in ans.get("named", []))
    view = {"sorted": [names[n] for n in ans["sorted"]], "rounds": rounds, "outcome": oc, "named": named,
            "executed": sorted(tg(j) for j in ans.get("began", [])), "maxopen": ans["maxlocked"], "gens": model_gens(case, ans)}
    return view, tables


def two_oracle(case: dict, obs: dict) -> tuple[bool, str]:
    """Independent verdict on the SECOND submission of a two-pass case, from the bodies' own log and the outputs:
      * which bodies run: with `rerun` every job of every node not downstream of a failing body, exactly once; without it
        exactly the jobs that have no successful result from the first submission (its errored jobs are retried);
      * order: a body starts only after the bodies of all jobs of all upstream nodes that run in this submission have ended;
      * values (successful submission): every value is the one of the dataflow evaluated on generation 2 for the bodies that
        had to run and generation 1 for the cached ones."""
    two = case["two"]
    if obs.get("outcome") in ("HANG", "DEVICE-TIMEOUT", "LIVELOCK"):
        return False, f"submission did not end: {obs.get('outcome')} {obs.get('msg', '')[:200]}"
    first = obs.get("first") or {}
    ok1 = set(first.get("ok") or [])
    fail = set(case.get("fail") or [])
    jobs = node_jobs(case)
    dead = doomed_nodes(case, fail)
    rerun = bool(two.get("rerun"))
    must = {t for n, ts in jobs.items() if n not in dead for t in ts if rerun or t not in ok1}
    log = obs.get("bodylog") or []
    starts = [e.split()[1] for e in log if e.startswith("S ")]
    if sorted(starts) != sorted(must):
        twice = sorted({t for t in starts if starts.count(t) > 1})
        return False, (f"bodies executed in the second submission {sorted(starts)}, expected {sorted(must)}"
                       + (f" (twice: {twice})" if twice else ""))
    anc: dict[str, list[str]] = {}
    for nd in case["nodes"]:
        a: list[str] = []
        for p in all_preds(nd):
            for x in [p] + anc[p]:
                if x not in a:
                    a.append(x)
        anc[nd["name"]] = a
    node_of = {t: n for n, ts in jobs.items() for t in ts}
    ended = set()
    for e in log:
        kind, t = e.split()[:2]
        if kind == "E":
            ended.add(t)
        elif kind == "S":
            late = [j for p in anc[node_of[t]] for j in jobs[p] if j in must and j not in ended]
            if late:
                return False, f"body {t} started before the bodies {late} it depends on had ended in this submission"
    if not (fail & must):
        if obs.get("outcome") != "ok":
            return False, f"no body fails in the second submission but it ended with {obs.get('outcome')} {obs.get('kind')}"
        gen = {t: (1 if (not rerun and t in ok1) else 2) for ts in jobs.values() for t in ts}
        want = reference_outputs(case, gen)
        got = obs.get("outputs")
        if got != want:
            bad = [n for n in want if (got or {}).get(n) != want[n]]
            return False, f"outputs of {bad} are not the values of this submission: {json.dumps({n: (got or {}).get(n) for n in bad})[:300]}"
    elif obs.get("outcome") == "ok":
        return False, "a body failed but the submission succeeded"
    return True, ""


def model_view(case: dict, ans: dict) -> tuple[dict | None, list]:
    if case.get("two"):
        return model_view_two(case, ans)
    if ans is not None and ans.get("status") == "cycle":
        return {"sorted": None, "rounds": [], "outcome": "cycle", "named": [], "executed": [], "maxopen": 0}, []
    if ans is None or "rounds" not in ans:
        return None, []
    mc = model_case(case)
    names = mc["names"]
    tag = {v: k for k, v in mc["cks"].items()}
    jobs = node_jobs(case)
    rounds, tables = [], []
    for r in ans["rounds"]:
        rounds.append(
            {
                "tasks": [jobs[names[n]][i] for n, i in r["tasks"]],
                "pending": sorted(tag[c] for c in r["pending"]),
                "dispatched": [tag[c] for c in r["dispatched"]],
            }
        )
        tables.append(_tables_named(r["tables"], names, True))
    oc = ans.get("outcome")
    if ans.get("status") != "done":
        oc = "MODEL-" + str(ans.get("status"))
        rs = ans["rounds"]
        if ans.get("status") == "cont" and len(rs) >= LIVELOCK_PREFIX + 2 and rs[-1] == rs[-2] and not rs[-1]["pending"] and rs[-1]["tasks"]:
            # a round without environment moves reproduces the state: nothing is awaited, nothing dispatched
            oc = "LIVELOCK"
            rounds, tables = rounds[:LIVELOCK_PREFIX], tables[:LIVELOCK_PREFIX]
    if oc == "failedNodes":
        named = sorted(names[n] + ("" if len(jobs[names[n]]) == 1 and jobs[names[n]][0] == names[n] else ".?") for n in ans["named"])
    else:
        named = sorted(tag[c] for c in ans.get("named", []))
    view = {
        "sorted": [names[n] for n in ans["sorted"]],
        "rounds": rounds,
        "outcome": oc,
        "named": named,
        "executed": sorted(tag[c] for c, t in ans["truth"] if t != "idle"),
        "maxopen": ans["maxlocked"],
    }
    return view, tables


def precedence_ok(case: dict, bodylog: list[str], fail: set) -> tuple[bool, str]:
    """C15 oracle on the body event log: every body starts after all jobs of all predecessor nodes ended
    successfully, and no body starts twice"""
    jobs = node_jobs(case)
    node_of: dict[str, list[str]] = {}
    for n, ts in jobs.items():
        for t in ts:
            node_of.setdefault(t, []).append(n)
    # all ancestors: a predecessor with an empty job list must not hide what is upstream of it
    preds: dict[str, list[str]] = {}
    for nd in case["nodes"]:  # topological order
        anc: list[str] = []
        for p in all_preds(nd):
            for a in [p] + preds[p]:
                if a not in anc:
                    anc.append(a)
        preds[nd["name"]] = anc
    ended_ok, started = set(), set()
    for ev in bodylog:
        kind, t = ev.split()
        if kind == "S":
            if t in started:
                return False, f"body {t} started twice"
            started.add(t)
            # the body runs on behalf of at least one node all of whose predecessors are complete
            if not any(all(all(j in ended_ok for j in jobs[p]) for p in preds[n]) for n in node_of.get(t, [])):
                return False, f"body {t} started before its predecessors succeeded"
        elif kind == "E" and t not in fail:
            ended_ok.add(t)
    return True, ""


def reference_outputs(case: dict, gen: dict | None = None) -> dict:
    """C17 oracle: the dataflow evaluated node by node in the order of the case (no scheduler involved).
    `gen` (two-pass cases): tag -> generation stamped into the job's value"""
    keep = set(case.get("keep_state") or [])
    g = (lambda t: f"{t}@{gen[t]}") if gen else (lambda t: t)
    val: dict[str, object] = {}  # node -> output as seen by successors
    per_job: dict[str, list] = {}
    for nd in case["nodes"]:
        nm = nd["name"]
        deps = [val[p] for p in nd["preds"]]
        if nd.get("emit") is not None:
            val[nm] = list(range(nd["emit"]))
        elif nd.get("split") is not None or nd.get("split_from"):
            vals = nd["split"] if nd.get("split") is not None else val[nd["split_from"]]
            outs = [["J", g(f"{nm}.{v}"), deps] for v in vals]
            per_job[nm] = outs
            val[nm] = outs  # combined: a list; uncombined: the successors inherit the state and see one element each
        elif nd.get("inherit"):
            up = nd["preds"][0]
            outs = []
            for o in per_job[up]:
                outs.append(["J", f"{nm}.{o[1].split('.', 1)[1]}", [o] + deps[1:]])
            per_job[nm] = outs
            val[nm] = outs
        else:
            val[nm] = ["J", g(nm), deps]
    return val


# --------------------------------------------------------------------------------------------------
# shared correspondence step of the property modules C14-C18


def load_corpus(pid: str) -> list[dict]:
    """corpus/sched/<pid>.jsonl: one case per line (witnesses of known / repaired findings, hand-made schedules)"""
    p = Path(__file__).resolve().parent.parent.parent / "corpus" / "sched" / f"{pid}.jsonl"
    return [json.loads(line) for line in p.read_text().splitlines() if line.strip()]


def njobs(case: dict) -> int:
    return len(all_tags(case))


def case_key(case: dict, obs: dict) -> str:
    return json.dumps(
        {"n": case["nodes"], "ks": case.get("keep_state"), "k": case.get("k"), "f": sorted(case.get("fail") or []),
         "v": case.get("vanish"), "s": obs.get("schedule"), "two": case.get("two")},
        sort_keys=True,
    )


def explore(ctx, cases: list[dict], spec, what: str, nproc: int | None = None, defect=None):
    """Run the cases under the controlled worker, replay the recorded schedules on the Lean model, judge.
    `spec(case, obs) -> (ok, detail)` is the property oracle on the implementation's observation;
    `defect(case, obs) -> finding id | None` the match rule of a known finding."""
    from harness import core

    if not cases:
        return []
    nproc = nproc or ctx.pick(4, 6)
    t0 = time.time()
    obs = run_cases_parallel(cases, ctx.scratch, nproc)
    t1 = time.time()
    infra = [o for o in obs if o.get("outcome") in ("HARNESS-EXCEPTION", "CHILD-DIED")]
    if infra:
        raise core.Infra("sched device failed: " + json.dumps(infra[0])[-800:])
    ans = ctx.driver("Sched", [model_query(c, o.get("schedule") or []) for c, o in zip(cases, obs)])
    tm = ctx.extra.setdefault("phase_seconds", {"implementation": 0.0, "model_driver": 0.0, "since_start_at_first_case": round(t0 - ctx.t0, 1)})
    tm["implementation"] = round(tm["implementation"] + t1 - t0, 1)
    tm["model_driver"] = round(tm["model_driver"] + time.time() - t1, 1)
    out = []
    for i, (c, o) in enumerate(zip(cases, obs)):
        iv, it = impl_view(c, o)
        if ans is not None and "error" in ans[i]:
            ctx.tie_broken.append({"kind": "model-driver", "detail": ans[i], "case": c})
            mv, mt = None, []
        else:
            mv, mt = model_view(c, ans[i]) if ans is not None else (None, [])
        if c.get("race"):
            mv, mt = None, []  # a change on disk *during* a poll: finer than the model's interleaving (atomic polls)
            ctx.count("intra-poll race (not modelled)")
        if iv.get("outcome") == "rejected":
            mv, mt = None, []  # the workflow was never constructed: outside the scheduler model
            ctx.count("back edge rejected at construction (not modelled)")
        ok, detail = two_oracle(c, o) if c.get("two") and not getattr(spec, "own_two_pass", False) else spec(c, o)
        rec = dict(c)
        rec["script"] = o.get("schedule")  # replayable: the recorded schedule
        ctx.count("outcome:" + str(iv.get("outcome")))
        ctx.count(f"jobs={njobs(c)}")
        ctx.count(f"k={c.get('k')}")
        ctx.count("style:" + str((c.get("policy") or {}).get("style", "script")))
        if c.get("two"):
            ctx.count("two-pass:" + ("rerun" if c["two"].get("rerun") else "no-rerun") + ("+errored" if c["two"].get("pre_fail") else "")
                      + ("+readonly" if c["two"].get("ro") else ""))
        if mv is not None:
            ctx.count("tables_agree" if it == mt else "tables_differ")  # model fidelity, informational
        style = (c.get("policy") or {}).get("style", "script")
        nontrivial = njobs(c) >= 3 and style != "fifo"
        v = ctx.judge(rec, iv, mv, ok, nontrivial=nontrivial, key=case_key(c, o),
                      defect=defect(c, o) if defect else None, what=what + (": " + detail if detail else ""))
        out.append((c, o, iv, mv, v))
    ctx.extra["traces_validated_against_impl"] = ctx.extra.get("traces_validated_against_impl", 0) + sum(
        1 for (_, _, iv, mv, _) in out if mv is not None and iv == mv
    )
    return out
