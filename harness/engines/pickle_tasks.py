"""Task pool for C29 (importable in the child interpreter: pickled by reference) plus a factory that
builds equivalent classes in a throw-away module (not importable in the child: pickled by value)."""

import sys
import types

from fileformats.generic import File
from pydra.compose import python, shell, workflow


@python.define
def Add(a: int, b: int) -> int:
    return a + b


@python.define(outputs=["s", "p"])
def SumProd(xs: list[int], k: float = 1.5) -> tuple[int, float]:
    return sum(xs), k * len(xs)


@python.define
def Describe(d: dict[str, int], t: tuple[int, str], flag: bool = False) -> str:
    return ",".join(f"{k}={v}" for k, v in sorted(d.items())) + f"|{t[0]}{t[1]}|{flag}"


@python.define
def ReadLen(f: File) -> int:
    from pathlib import Path

    return len(Path(f).read_bytes())


Echo = shell.define("echo <text:str>")


@workflow.define
def AddTwice(x: int, y: int) -> int:
    a = workflow.add(Add(a=x, b=y), name="first")
    b = workflow.add(Add(a=a.out, b=y), name="second")
    return b.out


BY_VALUE_SRC = '''
from pydra.compose import python, workflow

@python.define
def Mul{n}(a: int, b: int = {n}) -> int:
    c = {n}
    return a * b + c

@workflow.define
def Wf{n}(x: int) -> int:
    m = workflow.add(Mul{n}(a=x), name="m")
    m2 = workflow.add(Mul{n}(a=m.out, b=2), name="m2")
    return m2.out
'''


def by_value_classes(n: int, srcdir=None):
    """Classes living in a module that does not exist in the child process (pickled by value).
    srcdir=None: the source exists only in this process' linecache (like a notebook cell / exec);
    srcdir given: the source is a real file (like a user's script run as __main__), so
    inspect.getsource also works in another process."""
    name = f"_verif_c29_dyn_{n}" + ("" if srcdir is None else "_file")
    mod = types.ModuleType(name)
    src = BY_VALUE_SRC.format(n=n)
    import linecache

    if srcdir is None:
        mod.__file__ = f"<{name}>"
        # make inspect.getsource work here (pydra hashes function source)
        linecache.cache[mod.__file__] = (len(src), None, src.splitlines(True), mod.__file__)
    else:
        import os

        mod.__file__ = os.path.join(str(srcdir), name + "_script.py")
        with open(mod.__file__, "w") as f:
            f.write(src)
        linecache.checkcache(mod.__file__)
    exec(compile(src, mod.__file__, "exec"), mod.__dict__)
    sys.modules[name] = mod
    import cloudpickle

    cloudpickle.register_pickle_by_value(mod)
    return getattr(mod, f"Mul{n}"), getattr(mod, f"Wf{n}")
