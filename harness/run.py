"""./check Cxx [--tier quick|thorough] [--seed N] [--replay file]"""
import argparse
import os
import sys

from harness import core


def main(argv=None) -> int:
    ap = argparse.ArgumentParser()
    ap.add_argument("pid")
    ap.add_argument("--tier", default=os.environ.get("VERIF_TIER") or "quick", choices=["quick", "thorough"])
    ap.add_argument("--seed", type=int, default=int(os.environ.get("VERIF_SEED") or 0))
    ap.add_argument("--replay", default=None)
    a = ap.parse_args(argv)
    return core.run_property(a.pid, a.tier, a.seed, a.replay)


if __name__ == "__main__":
    sys.exit(main())
