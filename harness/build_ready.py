"""setup: regenerate Gen files and build the Lean targets of every accepted check (harness/ready.txt)."""
import importlib
import subprocess
import sys

from harness import core, extract_all


def main() -> int:
    extract_all.main()
    ready = (core.VERIF / "harness" / "ready.txt").read_text().split()
    targets = []
    for pid in ready:
        m = importlib.import_module(f"harness.props.{pid}")
        for t in list(getattr(m, "LEAN_TARGETS", [f"PydraModel.Props.{pid}"])) + list(getattr(m, "MODEL_TARGETS", [])):
            if t not in targets:
                targets.append(t)
    drivers = sorted("Drivers." + f.stem for f in (core.LEAN / "Drivers").glob("*.lean"))
    p = subprocess.run(["lake", "build", *targets], cwd=core.LEAN)
    if p.returncode != 0:
        return p.returncode
    # drivers are elaborated again by `lean --run`; building them here only warms the cache (not fatal)
    subprocess.run(["lake", "build", *drivers], cwd=core.LEAN)
    return 0


if __name__ == "__main__":
    sys.exit(main())
