"""Run every property module's extractors (used by setup.sh so that the first full build sees fresh Gen files)."""
import importlib
import random
import sys
import tempfile
from pathlib import Path

from harness import core


def main() -> int:
    bad = 0
    seen = set()
    ready = set((core.VERIF / "harness" / "ready.txt").read_text().split())
    for f in sorted((core.VERIF / "harness" / "props").glob("C*.py")):
        if f.stem not in ready:
            continue
        mod = importlib.import_module(f"harness.props.{f.stem}")
        for ex in getattr(mod, "EXTRACTORS", []):
            if ex in seen:
                continue
            seen.add(ex)
            ctx = core.Ctx(pid=f.stem, tier="quick", seed=0, scratch=Path(tempfile.gettempdir()), rng=random.Random(0))
            try:
                ex(ctx)
            except Exception as e:
                bad += 1
                print(f"extractor {ex.__name__} failed: {e}", file=sys.stderr)
    return 1 if bad else 0


if __name__ == "__main__":
    sys.exit(main())
