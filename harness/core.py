"""Shared machinery of the verification harness (see DESIGN.md §2.5, §3).

Every property check `./check Cxx` goes through `run_property`:

  1. regenerate `lean/PydraModel/Gen/*.lean` from /repo's working tree (extractors)
  2. `lake build` the property's Lean targets (kernel re-checks the proofs)
  3. audit: `#print axioms` of every obligation, forbidden-token grep
  4. correspondence: implementation vs Lean model (driver) vs spec
  5. replay known findings; verdict; evidence file; replay files on violation

Exit codes: 0 held / 1 VIOLATION / 2 infrastructure failure (never a VIOLATION line).
"""

from __future__ import annotations

import dataclasses
import fcntl
import hashlib
import importlib
import json
import os
import random
import re
import shutil
import subprocess
import sys
import tempfile
import time
import traceback
import typing as ty
from pathlib import Path

VERIF = Path(__file__).resolve().parent.parent
REPO = Path(os.environ.get("VERIF_REPO", "/repo"))
LEAN = VERIF / "lean"
PY = os.environ.get("VERIF_PYTHON", "/venv/bin/python")
GUARD = "NIPYPE_PYDRA_VERIF"
ALLOWED_AXIOMS = {"propext", "Classical.choice", "Quot.sound"}
FORBIDDEN = re.compile(
    r"\b(sorry|admit|native_decide|bv_decide|implemented_by|unsafe)\b|^\s*axiom\s|maxHeartbeats\s+0\b",
    re.M,
)
TRUSTED_BASE = [
    "Lean 4.33.0 kernel (thorough tier: also leanchecker on the compiled .olean files)",
    "axioms allowed in property theorems: propext, Classical.choice, Quot.sound (audited with #print axioms on every run)",
    "harness/extractors (tables/skeletons regenerated from /repo) and the correspondence harness incl. its canonicalisation",
    "CPython semantics of the constructs the modelled functions use (DESIGN.md §4)",
]


class Infra(Exception):
    """Infrastructure failure: exit 2, never a violation."""


# --------------------------------------------------------------------------------------
# implementation side


def impl_env(extra: dict | None = None) -> dict:
    env = dict(os.environ)
    env["PYTHONPATH"] = f"{REPO}:{VERIF}"
    env[GUARD] = "1"
    env.setdefault("PYTHONHASHSEED", "0")
    env["NO_ET"] = "1"
    if extra:
        env.update({k: str(v) for k, v in extra.items()})
    return env


def assert_repo_loaded():
    """Every in-process harness asserts that pydra comes from REPO's working tree."""
    import pydra.engine.state as st

    f = str(Path(st.__file__).resolve())
    if not f.startswith(str(REPO.resolve()) + os.sep):
        raise Infra(f"pydra loaded from {f}, not from {REPO} (PYTHONPATH wrong)")


def exc_tag(e: BaseException) -> str:
    """Canonical form of an exception: class name only, never the message."""
    return type(e).__name__


# --------------------------------------------------------------------------------------
# Lean side


class BuildLock:
    def __enter__(self):
        LEAN.mkdir(exist_ok=True)
        self.f = open(LEAN / ".buildlock", "w")
        fcntl.flock(self.f, fcntl.LOCK_EX)
        return self

    def __exit__(self, *a):
        fcntl.flock(self.f, fcntl.LOCK_UN)
        self.f.close()


def write_if_changed(path: Path, text: str) -> bool:
    path.parent.mkdir(parents=True, exist_ok=True)
    if path.exists() and path.read_text() == text:
        return False
    tmp = path.with_suffix(path.suffix + ".tmp")
    tmp.write_text(text)
    tmp.replace(path)
    return True


def lake_build(targets: list[str], timeout: int = 3000) -> tuple[bool, str]:
    if not targets:
        return True, ""
    try:
        p = subprocess.run(
            ["lake", "build", *targets],
            cwd=LEAN,
            capture_output=True,
            text=True,
            timeout=timeout,
        )
    except FileNotFoundError as e:
        raise Infra(f"lake not found: {e}")
    except subprocess.TimeoutExpired:
        raise Infra("lake build timed out")
    return p.returncode == 0, (p.stdout + p.stderr)


def strip_lean_comments(src: str) -> str:
    # block comments (nested) then line comments; string literals are left alone (fine for a token grep)
    out, depth, i, n = [], 0, 0, len(src)
    while i < n:
        if src.startswith("/-", i):
            depth += 1
            i += 2
        elif depth and src.startswith("-/", i):
            depth -= 1
            i += 2
        elif depth:
            if src[i] == "\n":
                out.append("\n")
            i += 1
        elif src.startswith("--", i):
            j = src.find("\n", i)
            i = n if j < 0 else j
        else:
            out.append(src[i])
            i += 1
    return "".join(out)


def import_closure(targets: list[str]) -> list[Path]:
    """Lean source files of this project reachable from `targets` through `import` lines."""
    seen, todo = {}, list(targets)
    while todo:
        m = todo.pop()
        if m in seen:
            continue
        f = LEAN / (m.replace(".", "/") + ".lean")
        if not f.exists():
            continue
        seen[m] = f
        for im in re.findall(r"^\s*import\s+([\w.]+)", f.read_text(), re.M):
            if im.startswith(("PydraModel", "Drivers")):
                todo.append(im)
    return sorted(seen.values())


def forbidden_tokens(targets: list[str] | None = None) -> list[str]:
    """Forbidden constructs (outside comments) in the import closure of `targets` (all model files if None)."""
    hits = []
    files = import_closure(targets) if targets else sorted(LEAN.glob("PydraModel/**/*.lean"))
    for f in files:
        txt = strip_lean_comments(f.read_text())
        for m in FORBIDDEN.finditer(txt):
            line = txt.count("\n", 0, m.start()) + 1
            hits.append(f"{f.relative_to(LEAN)}:{line}:{m.group(0).strip()}")
    return hits


def audit_axioms(pid: str, imports: list[str], names: list[str]) -> dict[str, dict]:
    """Return {theorem: {"ok": bool, "axioms": [...], "msg": str}} via `#print axioms`."""
    d = LEAN / ".audit"
    d.mkdir(exist_ok=True)
    src = "".join(f"import {m}\n" for m in imports) + "".join(f"#print axioms {n}\n" for n in names)
    f = d / f"{pid}_audit.lean"
    f.write_text(src)
    p = subprocess.run(["lake", "env", "lean", str(f)], cwd=LEAN, capture_output=True, text=True, timeout=1800)
    out = p.stdout + p.stderr
    res = {n: {"ok": False, "axioms": None, "msg": "no output"} for n in names}
    flat = re.sub(r"\s+", " ", out)
    for n in names:
        short = re.escape(n)
        m = re.search(rf"'{short}' depends on axioms: \[([^\]]*)\]", flat)
        if m:
            ax = [a.strip() for a in m.group(1).split(",") if a.strip()]
            bad = [a for a in ax if a not in ALLOWED_AXIOMS]
            res[n] = {"ok": not bad, "axioms": ax, "msg": "" if not bad else f"disallowed axioms {bad}"}
        elif re.search(rf"'{short}' does not depend on any axioms", flat):
            res[n] = {"ok": True, "axioms": [], "msg": ""}
        else:
            res[n] = {"ok": False, "axioms": None, "msg": "theorem not found or file failed: " + out[-400:]}
    return res


class Driver:
    """Line protocol to a Lean model driver: one JSON object per line in, one per line out."""

    def __init__(self, name: str):
        self.name = name
        self.file = LEAN / "Drivers" / f"{name}.lean"

    def run(self, cases: list[dict], timeout: int = 1800) -> list[dict]:
        if not cases:
            return []
        inp = "".join(json.dumps(c, separators=(",", ":"), ensure_ascii=True) + "\n" for c in cases)
        p = subprocess.run(
            ["lake", "env", "lean", "--run", str(self.file)],
            cwd=LEAN,
            input=inp,
            capture_output=True,
            text=True,
            timeout=timeout,
        )
        lines = [l for l in p.stdout.splitlines() if l.strip()]
        if p.returncode != 0 or len(lines) != len(cases):
            raise DriverFailure(
                f"driver {self.name}: rc={p.returncode}, {len(lines)} answers for {len(cases)} cases\n"
                + (p.stderr or p.stdout)[-1500:]
            )
        out = []
        for l in lines:
            try:
                out.append(json.loads(l))
            except json.JSONDecodeError:
                raise DriverFailure(f"driver {self.name}: bad JSON line {l[:200]!r}")
        return out


class DriverFailure(Exception):
    pass


def anchor_digests(pid: str) -> dict:
    """sha256 prefixes of the property's anchored source files in REPO's working tree (informational:
    tells a reader which source text this run's correspondence was made against)."""
    out = {}
    try:
        for line in (VERIF / "properties.jsonl").read_text().splitlines():
            p = json.loads(line)
            if p["id"] == pid:
                for f in p["anchors"]["files"]:
                    fp = REPO / f
                    out[f] = hashlib.sha256(fp.read_bytes()).hexdigest()[:12] if fp.exists() else None
    except Exception:
        pass
    return out


def repo_head() -> str:
    try:
        p = subprocess.run(["git", "-C", str(REPO), "rev-parse", "--short", "HEAD"], capture_output=True, text=True, timeout=20)
        d = subprocess.run(["git", "-C", str(REPO), "status", "--porcelain", "--untracked-files=no"], capture_output=True, text=True, timeout=20)
        return p.stdout.strip() + ("+dirty" if d.stdout.strip() else "")
    except Exception:
        return "unknown"


# --------------------------------------------------------------------------------------
# known findings


def load_known() -> dict:
    """known_findings.json plus per-property fragments known_findings.d/*.json (same format; merged)."""
    out = {"findings": [], "fixed": []}
    files = [VERIF / "known_findings.json"] + sorted((VERIF / "known_findings.d").glob("*.json"))
    for f in files:
        if f.exists():
            for attempt in range(5):
                try:
                    d = json.loads(f.read_text())
                    break
                except json.JSONDecodeError:
                    if attempt == 4:
                        raise Infra(f"{f} is not valid JSON")
                    time.sleep(0.3)
            out["findings"] += d.get("findings", [])
            out["fixed"] += d.get("fixed", [])
    return out


# --------------------------------------------------------------------------------------
# per-run context


@dataclasses.dataclass
class Ctx:
    pid: str
    tier: str
    seed: int
    scratch: Path
    rng: random.Random
    t0: float = dataclasses.field(default_factory=time.time)
    evaluations: int = 0
    distinct: set = dataclasses.field(default_factory=set)
    samples: list = dataclasses.field(default_factory=list)
    violations: list = dataclasses.field(default_factory=list)  # unexplained I ⊭ S
    tie_broken: list = dataclasses.field(default_factory=list)  # I ≠ M with I ⊨ S, extraction failures, broken proofs
    attributed: dict = dataclasses.field(default_factory=dict)  # finding id -> count of generated cases explained
    finding_status: dict = dataclasses.field(default_factory=dict)  # finding id -> "confirmed"/"not-reproduced"
    dist: dict = dataclasses.field(default_factory=dict)  # measured input distribution
    extra: dict = dataclasses.field(default_factory=dict)
    notes: list = dataclasses.field(default_factory=list)
    model_ok: bool = True

    @property
    def quick(self) -> bool:
        return self.tier == "quick"

    def pick(self, quick, thorough):
        return quick if self.quick else thorough

    def count(self, key: str, n: int = 1):
        self.dist[key] = self.dist.get(key, 0) + n

    def known(self) -> list[dict]:
        return [f for f in load_known()["findings"] if f["property"] == self.pid]

    def driver(self, name: str, cases: list[dict]) -> list[dict] | None:
        """Model answers, or None when the model cannot be run (recorded as a broken tie)."""
        try:
            return Driver(name).run(cases)
        except (DriverFailure, subprocess.TimeoutExpired) as e:
            self.model_ok = False
            self.tie_broken.append({"kind": "model-driver", "engine": name, "detail": str(e)[-1500:]})
            return None

    def sample(self, case, limit: int = 5):
        if len(self.samples) < limit:
            self.samples.append(case)

    def judge(
        self,
        case,
        impl,
        model,
        spec_ok: bool,
        *,
        key=None,
        nontrivial: bool = True,
        defect: str | None = None,
        what: str = "",
    ):
        """One explored case.  `impl`/`model` canonical observables (model None = not available),
        `spec_ok` = the implementation's observable satisfies the property on this case,
        `defect` = id of the known finding whose match rule holds for this case (if any)."""
        self.evaluations += 1
        if nontrivial:
            self.distinct.add(key if key is not None else json.dumps(case, sort_keys=True, default=str))
        self.sample(case)
        agree = model is None or impl == model
        if agree and spec_ok:
            return "ok"
        rec = {"case": case, "impl": impl, "model": model, "spec_ok": spec_ok, "what": what}
        if not spec_ok:
            if agree and defect is not None:
                self.attributed[defect] = self.attributed.get(defect, 0) + 1
                return "known"
            rec["kind"] = "impl-violates-spec" + ("" if agree else "+model-disagrees")
            self.violations.append(rec)
            return "violation"
        rec["kind"] = "impl-model-disagree"
        self.tie_broken.append(rec)
        return "tie-broken"

    def finding(self, fid: str, still_fails: bool, detail: str = ""):
        self.finding_status[fid] = ("confirmed" if still_fails else "not-reproduced", detail)


# --------------------------------------------------------------------------------------
# the run


def _jsonable(x):
    try:
        json.dumps(x)
        return x
    except TypeError:
        return json.loads(json.dumps(x, default=repr))


def run_property(pid: str, tier: str, seed: int, replay: str | None = None) -> int:
    t0 = time.time()
    mod = importlib.import_module(f"harness.props.{pid}")
    scratch_root = os.environ.get("VERIF_SCRATCH") or tempfile.gettempdir()
    scratch = Path(tempfile.mkdtemp(prefix=f"verif-{pid}-", dir=scratch_root))
    ctx = Ctx(pid=pid, tier=tier, seed=seed, scratch=scratch, rng=random.Random(f"{pid}:{seed}"))
    # private persistent hash cache per run (Submitter.__call__ walks this directory on every submission)
    (scratch / "_hashcache").mkdir(exist_ok=True)
    os.environ.setdefault("PYDRA_HASH_CACHE", str(scratch / "_hashcache"))
    obligations: list[str] = list(getattr(mod, "OBLIGATIONS", []))
    targets: list[str] = list(getattr(mod, "LEAN_TARGETS", [f"PydraModel.Props.{pid}"]))
    proof_state = {"build_ok": False, "log": "", "audit": {}, "forbidden": [], "gen_digest": None}
    try:
        assert_repo_loaded()
        # 1-3: regenerate, build, audit (serialised: several checks may run at once)
        with BuildLock():
            gen_files = []
            for ex in getattr(mod, "EXTRACTORS", []):
                try:
                    gen_files += ex(ctx) or []
                except Exception as e:  # extraction failed: the regenerated tie is broken
                    ctx.tie_broken.append(
                        {"kind": "extraction", "extractor": getattr(ex, "__name__", str(ex)), "detail": f"{exc_tag(e)}: {e}"}
                    )
            h = hashlib.sha256()
            for g in sorted(set(gen_files)):
                h.update(Path(g).read_bytes())
            proof_state["gen_digest"] = h.hexdigest()[:16]
            ok, log = lake_build(targets)
            proof_state["build_ok"], proof_state["log"] = ok, log[-4000:]
            if not ok:
                # which obligations survive?  build the model/spec modules alone so the driver may still run
                lake_build(list(getattr(mod, "MODEL_TARGETS", [])))
            proof_state["forbidden"] = forbidden_tokens(targets)
            if ok and obligations:
                proof_state["audit"] = audit_axioms(pid, targets, obligations)
            if tier == "thorough" and ok:
                p = subprocess.run(
                    ["lake", "env", "leanchecker", *targets], cwd=LEAN, capture_output=True, text=True, timeout=3000
                )
                proof_state["leanchecker"] = "ok" if p.returncode == 0 else (p.stdout + p.stderr)[-800:]
                if p.returncode != 0:
                    ctx.tie_broken.append({"kind": "leanchecker", "detail": proof_state["leanchecker"]})
        discharged = [n for n in obligations if proof_state["audit"].get(n, {}).get("ok")]
        undischarged = [n for n in obligations if n not in discharged]
        if proof_state["forbidden"]:
            undischarged = obligations
            discharged = []
        for n in undischarged:
            ctx.tie_broken.append(
                {
                    "kind": "proof-obligation",
                    "theorem": n,
                    "detail": proof_state["audit"].get(n, {}).get("msg")
                    or (proof_state["log"][-1500:] if not proof_state["build_ok"] else "forbidden tokens: " + ", ".join(proof_state["forbidden"][:5])),
                }
            )

        # 4-5: correspondence + known findings
        try:
            if replay:
                mod.replay(ctx, json.loads(Path(replay).read_text()))
            else:
                mod.correspondence(ctx)
        except (Infra, subprocess.TimeoutExpired):
            raise
        except Exception as e:
            # the harness could not drive the implementation as it does on the pinned tree: the
            # correspondence no longer checks (never an infrastructure failure: that would hide a break)
            ctx.tie_broken.append({"kind": "harness-exception", "detail": traceback.format_exc()[-2500:]})
        # a broken tie triggers the failing-input search (impl vs spec directly, larger budget)
        searched = False
        if ctx.tie_broken and not ctx.violations and hasattr(mod, "search"):
            searched = True
            try:
                mod.search(ctx)
            except (Infra, subprocess.TimeoutExpired):
                raise
            except Exception:
                ctx.tie_broken.append({"kind": "harness-exception-in-search", "detail": traceback.format_exc()[-2500:]})

        # 6: verdict
        known = {f["id"]: f for f in ctx.known()}
        lines = []
        for fid, f in known.items():
            st = ctx.finding_status.get(fid)
            if st is None:
                if not replay:  # a --replay run re-executes one case only
                    ctx.tie_broken.append({"kind": "known-finding-not-replayed", "finding": fid})
            elif st[0] == "confirmed":
                lines.append(f"KNOWN-FINDING: property={pid} {fid}: {f['what']}")
            else:
                ctx.notes.append(f"known finding {fid} no longer reproduces ({st[1]}); turn it into a fixed: entry")
        for fid in ctx.attributed:
            if fid not in known:
                ctx.violations.append({"kind": "attributed-to-unlisted-finding", "finding": fid})
        for l in lines:
            print(l)
        rc = 0
        replays = []
        rdir = VERIF / "replays"
        if ctx.violations:
            rdir.mkdir(exist_ok=True)
            for i, v in enumerate(ctx.violations[:5]):
                rp = rdir / f"{pid}-{seed}-{i}.json"
                rp.write_text(json.dumps(_jsonable({"property": pid, "seed": seed, "tier": tier, **v}), indent=1, default=repr))
                replays.append(str(rp))
                print(f"VIOLATION property={pid} replay={rp}")
            rc = 1
        elif ctx.tie_broken:
            rdir.mkdir(exist_ok=True)
            rp = rdir / f"{pid}-{seed}-tie.json"
            rp.write_text(
                json.dumps(
                    _jsonable(
                        {
                            "property": pid,
                            "seed": seed,
                            "tier": tier,
                            "no_longer_checks": ctx.tie_broken[:10],
                            "search_performed": searched,
                            "search_evaluations": ctx.evaluations,
                        }
                    ),
                    indent=1,
                    default=repr,
                )
            )
            replays.append(str(rp))
            print(f"VIOLATION property={pid} replay={rp} no-failing-input-found")
            rc = 1

        meta = getattr(mod, "META", {})
        ev = {
            "property_id": pid,
            "tier": tier,
            "seed": seed,
            "level": meta.get("category", "proof"),
            "coverage": {
                "obligations": len(obligations),
                "discharged": len(discharged),
                "obligation_names": obligations,
                "undischarged": undischarged,
                "axioms": {n: a.get("axioms") for n, a in proof_state["audit"].items()},
                "checker_cmd": f"cd lean && lake build {' '.join(targets)} && lake env lean .audit/{pid}_audit.lean  (#print axioms)"
                + ("; lake env leanchecker " + " ".join(targets) if tier == "thorough" else ""),
                "trusted_base": TRUSTED_BASE + list(meta.get("trusted", [])),
                "gen_digest": proof_state["gen_digest"],
                "anchor_file_digests": anchor_digests(pid),
                "repo_head": repo_head(),
                "evaluations": ctx.evaluations,
                "distinct_nontrivial": len(ctx.distinct),
                "rule": meta.get("rule", ""),
                "samples": _jsonable(ctx.samples),
                "input_distribution": ctx.dist,
                "known_findings_confirmed": sorted(k for k, v in ctx.finding_status.items() if v[0] == "confirmed"),
                "cases_attributed_to_known_findings": ctx.attributed,
                "model_driver_ran": ctx.model_ok,
                "notes": ctx.notes,
                **_jsonable(ctx.extra),
            },
            "assumptions": list(meta.get("assumptions", [])),
            "wall_s": round(time.time() - t0, 2),
            "violations": len(ctx.violations) + (1 if (ctx.tie_broken and not ctx.violations) else 0),
        }
        if "leanchecker" in proof_state:
            ev["coverage"]["leanchecker"] = proof_state["leanchecker"]
        (VERIF / "evidence").mkdir(exist_ok=True)
        (VERIF / "evidence" / f"{pid}.json").write_text(json.dumps(ev, indent=1, default=repr) + "\n")
        print(
            f"{pid} [{tier}, seed {seed}]: obligations {len(discharged)}/{len(obligations)}, "
            f"cases {ctx.evaluations} ({len(ctx.distinct)} distinct non-trivial), "
            f"violations {len(ctx.violations)}, broken ties {len(ctx.tie_broken)}, {ev['wall_s']} s"
        )
        return rc
    except Infra as e:
        print(f"INFRASTRUCTURE FAILURE {pid}: {e}", file=sys.stderr)
        return 2
    except subprocess.TimeoutExpired as e:
        print(f"INFRASTRUCTURE FAILURE {pid}: timeout {e}", file=sys.stderr)
        return 2
    except Exception:
        traceback.print_exc()
        print(f"INFRASTRUCTURE FAILURE {pid}: harness exception", file=sys.stderr)
        return 2
    finally:
        shutil.rmtree(scratch, ignore_errors=True)
