"""Regenerate MANIFEST.json from the property modules' META (run: ./check-manifest or python -m harness.mkmanifest)."""
import importlib
import json
import subprocess
from pathlib import Path

VERIF = Path(__file__).resolve().parent.parent
ALL = [f"C{i:02d}" for i in range(1, 40)]
# reason shown for a property that has no check (yet); overwritten per property below when there is a specific reason
DEFAULT_NA = "no check built in the time available: the property is not claimed (technique would apply, see DESIGN.md §6)"
NA_REASONS: dict[str, str] = {}

ENGINES: dict[str, list[str]] = {}  # filled from the property modules' META["engine"]


def hook_commits():
    f = VERIF / "hooks_commits.txt"
    return [l.split()[0] for l in f.read_text().splitlines() if l.strip()] if f.exists() else []


def main():
    checks, na = [], []
    ready = set((VERIF / "harness" / "ready.txt").read_text().split())  # accepted by the coordinator after multi-seed runs
    for pid in ALL:
        if pid not in ready or not (VERIF / "harness" / "props" / f"{pid}.py").exists():
            na.append({"property_id": pid, "reason": NA_REASONS.get(pid, DEFAULT_NA)})
            continue
        m = importlib.import_module(f"harness.props.{pid}").META
        ENGINES.setdefault(m.get("engine", "Lean"), []).append(pid)
        checks.append(
            {
                "property_id": pid,
                "quick_cmd": f"./check {pid} --tier quick",
                "thorough_cmd": f"./check {pid} --tier thorough",
                "evidence_file": f"evidence/{pid}.json",
                "replay_cmd_template": f"./check {pid} --replay {{path}}",
                "engine": next((e for e, ps in ENGINES.items() if pid in ps), "Lean"),
                "level_claimed": {"category": m.get("category", "proof"), "text": m["text"], "design_ref": m.get("design_ref", "")},
                "level_note": m["note"],
                "technique": m["technique"],
            }
        )
    man = {
        "version": 1,
        "setup_cmd": "./setup.sh",
        "hooks": {
            "guard": "NIPYPE_PYDRA_VERIF",
            "enable": "checks run /repo in-process with PYTHONPATH=/repo and NIPYPE_PYDRA_VERIF=1 (pure Python: nothing to build)",
            "baseline_off_cmd": "cd /repo && env -u NIPYPE_PYDRA_VERIF /venv/bin/python -m pytest -ra -q -p no:cacheprovider --timeout=900 --continue-on-collection-errors",
            "source_commits": hook_commits(),
            "add_only": True,
        },
        "engines": [
            {"name": e, "path": f"lean/PydraModel/{e}", "serves_properties": ps, "kind_free_text": "Lean 4 model + theorems + JSON-lines driver; Python correspondence harness in harness/props"}
            for e, ps in ENGINES.items()
        ],
        "checks": checks,
        "not_applicable": na,
        "notes": "Technique family: machine-checked proof in Lean 4 (model + theorems) tied to /repo by regenerated tables and differential correspondence; see DESIGN.md.",
    }
    (VERIF / "MANIFEST.json").write_text(json.dumps(man, indent=1) + "\n")
    print(f"MANIFEST.json: {len(checks)} checks, {len(na)} not claimed")


if __name__ == "__main__":
    main()
