import sys, signal, tempfile
import pydra.engine.state
assert pydra.engine.state.__file__.startswith('/repo'), pydra.engine.state.__file__
from pydra.compose import python, workflow
from pydra.engine.graph import DiGraph

def on_alarm(*a):
    print("FAIL: hang (sorting a cyclic graph loops forever)")
    sys.exit(1)
signal.signal(signal.SIGALRM, on_alarm)
signal.alarm(20)

# 1. graph level
class N:
    def __init__(self, name): self.name = name
    def __repr__(self): return self.name
a, b, c = N("a"), N("b"), N("c")
g = DiGraph(nodes=[a, b, c], edges=[(a, b), (b, c), (c, b)])
try:
    g.sorting()
except Exception as e:
    print("graph:", type(e).__name__, e)
    assert "b" in str(e) and "c" in str(e)
else:
    print("FAIL: no exception for cyclic graph"); sys.exit(1)

# 2. workflow level: untyped back edge
@python.define
def Inc(x):
    return x + 1

@workflow.define
def Cyc(x):
    a = workflow.add(Inc(x=x), name="a")
    b = workflow.add(Inc(x=a.out), name="b")
    a.inputs.x = b.out
    return b.out

try:
    res = Cyc(x=1)(cache_root=tempfile.mkdtemp(), worker="debug")
except Exception as e:
    print("workflow:", type(e).__name__, str(e)[:300])
else:
    print("FAIL: cyclic workflow returned", res); sys.exit(1)
sys.exit(0)
