import os, sys, tempfile
os.environ["MODULESHOME"] = "/tmp/fixdemo/fakelmod"
os.environ["KEEPME"] = "yes"
import pydra.engine.state
assert pydra.engine.state.__file__.startswith('/repo'), pydra.engine.state.__file__
from pydra.compose import shell
from pydra.environments import lmod

Env = shell.define("env")
out = Env()(cache_root=tempfile.mkdtemp(), worker="debug", environment=lmod.Environment(modules=["mymod/1.0"]))
child = dict(l.split("=", 1) for l in out.stdout.splitlines() if "=" in l)
ok = True
if child.get("MODVAR") != "from-module":
    print("FAIL: module setting missing", child.get("MODVAR")); ok = False
if not child.get("PATH", "").startswith("/opt/mod/bin:"):
    print("FAIL: module PATH not applied", child.get("PATH")); ok = False
for k in ("KEEPME", "HOME"):
    if child.get(k) != os.environ[k]:
        print(f"FAIL: caller's {k} not inherited by the child (child has {sorted(child)})"); ok = False
sys.exit(0 if ok else 1)
