import sys
import pydra.engine.state
assert pydra.engine.state.__file__.startswith('/repo'), pydra.engine.state.__file__
from pathlib import Path
from pydra.utils.mount_identifier import MountIndentifier as M

ok = True
with M.patch_table([("/data", "cifs")]):
    for p, exp in [("/data2/x", False), ("/database", False), ("/data/x", True), ("/data", True), (Path("/data/y/z"), True)]:
        got = M.on_cifs(p)
        if got is not exp:
            print("FAIL on_cifs", p, got, "expected", exp); ok = False
    if M.get_mount("/data2/x") != (Path("/"), "ext4"):
        print("FAIL get_mount /data2/x ->", M.get_mount("/data2/x")); ok = False
    if M.on_same_mount("/data/a", "/data2/b"):
        print("FAIL on_same_mount"); ok = False

out = """/dev/sda1 on / type ext4 (rw)
//srv/share on /data type cifs (rw)
/dev/sdb1 on /data2 type ext4 (rw)
/dev/sdc1 on /data/sub type ext4 (rw)
"""
tab = M.parse_mount_table(0, out)
if tab != [("/data/sub", "ext4"), ("/data", "cifs")]:
    print("FAIL parse_mount_table", tab); ok = False
sys.exit(0 if ok else 1)
