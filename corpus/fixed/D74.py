"""D74 (C14): under an asynchronous worker the error of a workflow with a failing node must name the failed job;
with a multi-element numpy array among the failing task's inputs, Task.__repr__ raised numpy's
"truth value of an array ... is ambiguous" ValueError while the error summary was being formatted, and that
ValueError replaced the report.  Exit 0 = reported properly, 1 = defect present."""
import sys, tempfile
import numpy as np
from pydra.compose import python, workflow
from pydra.engine.submitter import Submitter


@python.define
def Boom(a: np.ndarray) -> int:
    raise KeyError("body failed on purpose")


@workflow.define
def Wf(a: np.ndarray) -> int:
    n = workflow.add(Boom(a=a), name="boom")
    return n.out


def main():
    task = Wf(a=np.array([34, 16, 24]))
    assert "Wf(" in repr(task)  # repr itself must work
    with Submitter(worker="cf", n_procs=1, cache_root=tempfile.mkdtemp()) as sub:
        try:
            res = sub(task, raise_errors=True)
            print("no exception; errored =", res.errored)
            return 1
        except RuntimeError as e:
            ok = "boom" in str(e)
            print("RuntimeError naming the failed job:", ok)
            return 0 if ok else 1
        except Exception as e:
            print("other exception:", type(e).__name__, str(e)[:200])
            return 1


if __name__ == "__main__":
    sys.exit(main())
