import json, os, sys, tempfile
from pathlib import Path
os.environ["PATH"] = "/tmp/fixdemo/fakecontainer:" + os.environ["PATH"]
import pydra.engine.state
assert pydra.engine.state.__file__.startswith('/repo'), pydra.engine.state.__file__
from fileformats.generic import File
from pydra.compose import shell
from pydra.environments import docker, singularity

tmp = Path(tempfile.mkdtemp())
indir = tmp / "in dir"
indir.mkdir()
(indir / "f.txt").write_text("hello")
log = tmp / "argv.log"
os.environ["FAKECONTAINER_LOG"] = str(log)

Cat = shell.define("cat <in_file:File>")
ok = True
for name, env, flag in [
    ("docker", docker.Environment(image="busybox"), "-v"),
    ("singularity", singularity.Environment(image="busybox"), "-B"),
]:
    log.write_text("")
    cache = tmp / f"cache-{name}"
    Cat(in_file=File(indir / "f.txt"))(cache_root=cache, worker="debug", environment=env)
    argv = json.loads(log.read_text().splitlines()[-1])
    mounts = [argv[i + 1] for i, a in enumerate(argv[:-1]) if a == flag]
    print(name, "mount args:", mounts)
    expected = f"{indir}:/mnt/pydra{indir}:ro"
    if expected not in mounts:
        print(f"FAIL [{name}]: {expected!r} is not passed as one {flag} argument"); ok = False
    if f"{cache}:/mnt/pydra{cache}:rw" not in mounts:
        print(f"FAIL [{name}]: cache root mount missing"); ok = False
    if len(mounts) != 2:
        print(f"FAIL [{name}]: expected exactly 2 mounts"); ok = False
sys.exit(0 if ok else 1)
