import sys, tempfile
import pydra.engine.state
assert pydra.engine.state.__file__.startswith('/repo'), pydra.engine.state.__file__
from pydra.compose import python

@python.define(outputs=["a", "b"])
def Partial(x):
    return {"a": x}

@python.define(outputs=["a", "b"])
def Full(x):
    return {"b": x + 1, "a": x}

@python.define(outputs={"a": int, "b": python.out(type=int, default=7)})
def WithDefault(x):
    return {"a": x}

ok = True
out = Full(x=1)(cache_root=tempfile.mkdtemp(), worker="debug")
assert (out.a, out.b) == (1, 2), out
out = WithDefault(x=1)(cache_root=tempfile.mkdtemp(), worker="debug")
assert (out.a, out.b) == (1, 7), out
try:
    out = Partial(x=1)(cache_root=tempfile.mkdtemp(), worker="debug")
except Exception as e:
    print("raised:", type(e).__name__, str(e).strip().splitlines()[-1][:200])
else:
    print("FAIL: task succeeded with", out); ok = False
sys.exit(0 if ok else 1)
