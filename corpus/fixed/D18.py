import os, sys, tempfile
from pathlib import Path
os.environ["PATH"] = "/tmp/fixdemo/fakeslurm:" + os.environ["PATH"]
os.environ["PYTHONPATH"] = "/repo"
import pydra.engine.state
assert pydra.engine.state.__file__.startswith('/repo'), pydra.engine.state.__file__
from pydra.compose import python
from pydra.engine.submitter import Submitter

@python.define
def Inc(x: int) -> int:
    return x + 1

@python.define
def Boom(x: int) -> int:
    raise ValueError("boom-from-body")

ok = True
tmp = Path(tempfile.mkdtemp())
os.environ["FAKESLURM_STATE"] = str(tmp / "state")

def run(task, sbatch_args, tag):
    cache = tmp / tag
    with Submitter(worker="slurm", cache_root=cache, sbatch_args=sbatch_args) as sub:
        return sub(task, raise_errors=True)

for tag, args in [("e_short", f"-e {tmp}/short-%j.err"), ("e_long", f"--error={tmp}/long-%j.err"), ("none", "")]:
    try:
        res = run(Inc(x=1), args, tag)
    except Exception as e:
        print(f"FAIL [{tag}] sbatch_args={args!r}: {type(e).__name__}: {e}")
        ok = False
    else:
        assert res.outputs.out == 2
        print(f"ok [{tag}] out=2")

# on failure the worker reads the error file the user asked for
try:
    run(Boom(x=1), f"--error={tmp}/boom-%j.err", "boom")
except (AttributeError, FileNotFoundError) as e:
    print(f"FAIL [boom] {type(e).__name__}: {e}"); ok = False
except Exception as e:
    errfiles = list(tmp.glob("boom-*.err"))
    print(f"boom: {type(e).__name__}: {str(e).splitlines()[0]} | user error files: {[p.name for p in errfiles]}")
    if not errfiles or "boom-from-body" not in errfiles[0].read_text():
        print("FAIL [boom]: user's error file not written"); ok = False
else:
    print("FAIL [boom]: no exception"); ok = False
sys.exit(0 if ok else 1)
