import sys
import pydra.engine.state
assert pydra.engine.state.__file__.startswith('/repo'), pydra.engine.state.__file__
from pydra.engine.graph import DiGraph

class N:
    def __init__(self, name): self.name = name
    def __repr__(self): return self.name

a, b, c = N("a"), N("b"), N("c")
g = DiGraph(nodes=[a, b, c], edges=[(a, b), (b, c)])
try:
    g.remove_nodes(a)          # never sorted before
except ValueError as e:
    print("FAIL: remove_nodes on unsorted graph raised", repr(e)); sys.exit(1)
g.remove_nodes_connections(a)
assert g.sorted_nodes == [b, c], g.sorted_nodes

g2 = DiGraph()
n = N("n")
g2.add_nodes(n)
try:
    g2.remove_nodes(n)
except ValueError as e:
    print("FAIL: add_nodes; remove_nodes raised", repr(e)); sys.exit(1)
assert g2.sorted_nodes == []

# sorted-before behaviour unchanged
g3 = DiGraph(nodes=[a, b, c], edges=[(a, b), (b, c)])
g3.sorting()
g3.remove_nodes(a)
assert g3.sorted_nodes == [b, c]
sys.exit(0)
