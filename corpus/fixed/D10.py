import sys, tempfile, time
from pathlib import Path
import pydra.engine.state
assert pydra.engine.state.__file__.startswith('/repo'), pydra.engine.state.__file__
from pydra.compose import python, workflow

@python.define
def Slow(x: int, delay: float, log: Path, tag: str) -> int:
    import time
    time.sleep(delay)
    with open(log, "a") as f:
        f.write(tag + "\n")
    return x + 1

@python.define
def Fail(x: int, delay: float) -> int:
    import time
    time.sleep(delay)
    raise RuntimeError("F-failed-on-purpose")

@workflow.define(outputs=["c", "d"])
def W(x: int, log: Path):
    a = workflow.add(Slow(x=x, delay=0.3, log=log, tag="A"), name="A")
    f = workflow.add(Fail(x=x, delay=1.0), name="F")
    b = workflow.add(Slow(x=a.out, delay=2.0, log=log, tag="B"), name="B")
    c = workflow.add(Slow(x=b.out, delay=0.3, log=log, tag="C"), name="C")
    d = workflow.add(Slow(x=f.out, delay=0.0, log=log, tag="D"), name="D")
    return c.out, d.out

if __name__ == "__main__":
    tmp = Path(tempfile.mkdtemp())
    log = tmp / "log"
    log.touch()
    err = None
    try:
        W(x=1, log=log)(cache_root=tmp / "cache", worker="cf")
    except Exception as e:
        err = e
    ran = log.read_text().split()
    print("bodies run:", ran)
    print("error:", type(err).__name__, str(err)[:200].replace("\n", " | "))
    ok = True
    if err is None:
        print("FAIL: workflow with a failing node did not raise"); ok = False
    if "C" not in ran:
        print("FAIL: C (independent of the failing F) never ran"); ok = False
    if "D" in ran:
        print("FAIL: D ran although its predecessor failed"); ok = False
    sys.exit(0 if ok else 1)
