import sys, tempfile
from pathlib import Path
import pydra.engine.state
assert pydra.engine.state.__file__.startswith('/repo'), pydra.engine.state.__file__
from pydra.compose import python
from pydra.engine.result import load_result

tmp = Path(tempfile.mkdtemp())
R, W, cnt = tmp / "R", tmp / "W", tmp / "count"
R.mkdir(); W.mkdir()

@python.define
def Body(x: int, counter: Path) -> int:
    with open(counter, "a") as f:
        f.write("x")
    return x + 1

# complete result in R
out = Body(x=1, counter=cnt)(cache_root=R, worker="debug")
assert out.out == 2 and cnt.read_text() == "x"
checksums = [p.name for p in R.iterdir() if p.is_dir() and (p / "_result.pklz").exists()]
assert len(checksums) == 1, checksums
cs = checksums[0]

# leftover incomplete dir for the same checksum in W (e.g. from a killed run)
(W / cs).mkdir()

ok = True
res = load_result(cs, [W, R])
if res is None:
    print("FAIL: load_result([W, R]) returned None although R holds a complete result"); ok = False

out2 = Body(x=1, counter=cnt)(cache_root=W, readonly_caches=[R], worker="debug")
assert out2.out == 2
if cnt.read_text() != "x":
    print("FAIL: body ran again, count =", len(cnt.read_text())); ok = False
sys.exit(0 if ok else 1)
