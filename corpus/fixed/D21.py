import sys, tempfile
from collections import Counter
import pydra.engine.state
assert pydra.engine.state.__file__.startswith('/repo'), pydra.engine.state.__file__
from pydra.compose import python, workflow
from pydra.utils.messenger import Messenger, AuditFlag

class ListMessenger(Messenger):
    msgs = []
    def send(self, message, **kwargs):
        ListMessenger.msgs.append(message)

@python.define
def Inc(x: int) -> int:
    return x + 1

@workflow.define
def W(x: int) -> int:
    a = workflow.add(Inc(x=x), name="a")
    b = workflow.add(Inc(x=a.out), name="b")
    return b.out

out = W(x=1)(cache_root=tempfile.mkdtemp(), worker="debug", audit_flags=AuditFlag.PROV, messengers=ListMessenger())
assert out.out == 3
starts = Counter(m["@id"] for m in ListMessenger.msgs if "startedAtTime" in m)
ends = Counter(m["@id"] for m in ListMessenger.msgs if "endedAtTime" in m)
print("activities started:", len(starts), "| end records per activity:", sorted(ends[a] for a in starts))
ok = True
if len(starts) != 3:
    print("FAIL: expected 3 activities (workflow + 2 nodes)"); ok = False
for aid in starts:
    if ends[aid] != 1:
        print(f"FAIL: activity {aid} has {ends[aid]} end records"); ok = False
sys.exit(0 if ok else 1)
