import sys
import pydra.engine.state
assert pydra.engine.state.__file__.startswith('/repo'), pydra.engine.state.__file__
import numpy as np
from pydra.utils.hash import hash_function as h

ok = True
def differ(a, b, what):
    global ok
    if h(a) == h(b):
        print("FAIL: equal hashes for", what); ok = False

differ(np.zeros((2, 3)), np.zeros((3, 2)), "zeros((2,3)) vs zeros((3,2))")
differ(np.zeros((2, 3)), np.zeros(6), "zeros((2,3)) vs zeros(6)")
differ(np.zeros(2, "i8"), np.zeros(2, "f8"), "int64 zeros vs float64 zeros")
differ(np.zeros(2, "i8"), np.zeros(2, "u8"), "int64 zeros vs uint64 zeros")
differ(np.int64(0), np.float64(0), "int64(0) vs float64(0)")
differ(np.array([1, "a"], dtype=object).reshape(1, 2), np.array([1, "a"], dtype=object).reshape(2, 1), "object arrays of different shape")
# equal arrays still hash equal (incl. non-contiguous views)
a = np.arange(12.0).reshape(3, 4)
assert h(a) == h(a.copy()) == h(np.asfortranarray(a)) == h(a.T.T)
assert h(a[:, ::2]) == h(a[:, ::2].copy())
assert h(np.float64(1.5)) == h(np.float64(1.5))
sys.exit(0 if ok else 1)
