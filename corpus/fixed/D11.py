import sys, tempfile, time
from pathlib import Path
import pydra.engine.state
assert pydra.engine.state.__file__.startswith('/repo'), pydra.engine.state.__file__
from pydra.compose import python, workflow
from pydra.engine.submitter import Submitter

@python.define
def Body(i: int, delay: float, log: Path) -> int:
    import time
    with open(log, "a") as f:
        f.write(f"{time.time()} start {i}\n")
    time.sleep(delay)
    with open(log, "a") as f:
        f.write(f"{time.time()} end {i}\n")
    return i

@workflow.define(outputs=[f"o{i}" for i in range(8)])
def W(log: Path):
    outs = []
    for i in range(8):
        # the first job finishes early, the others take longer
        n = workflow.add(Body(i=i, delay=0.3 if i == 0 else 1.5, log=log), name=f"n{i}")
        outs.append(n.out)
    return tuple(outs)

if __name__ == "__main__":
    K = 2
    tmp = Path(tempfile.mkdtemp())
    log = tmp / "log"; log.touch()
    t0 = time.time()
    with Submitter(worker="cf", cache_root=tmp / "cache", max_concurrent=K, n_procs=8) as sub:
        res = sub(W(log=log))
    assert not res.errored
    assert [getattr(res.outputs, f"o{i}") for i in range(8)] == list(range(8))
    events = sorted((float(t), ev, int(i)) for t, ev, i in (l.split() for l in log.read_text().splitlines()))
    running = peak = 0
    for _, ev, _ in events:
        running += 1 if ev == "start" else -1
        peak = max(peak, running)
    print(f"max_concurrent={K}: peak concurrently running bodies = {peak}, wall = {time.time()-t0:.1f}s")
    if peak > K:
        print("FAIL: more than max_concurrent bodies ran at once"); sys.exit(1)
    sys.exit(0)
