import PydraModel.Basic
/-
Engine `FileHash` (DESIGN §5.3, file-cache part; property C09).

Mirrors, in pydra/utils/hash.py of the pinned tree:

* `bytes_repr_fileset`  — first yielded item is the cache key
      `tuple(repr(p) for p in fspaths) + tuple(p.lstat().st_mtime_ns for p in fspaths)`, fspaths sorted
      (every member's path and every member's own mtime, in the same order; no size, no content, no inode)
* `hash_single`         — key := `(type.__module__, type.__name__) + first`, then
      `cache.persistent.get_or_calculate_hash(key, calc_hash)`
* `PersistentCache.get_or_calculate_hash`
      1. `self._hashes[key]` (the in-memory dict of *this* `PersistentCache` object) → return it
      2. file `location/blake2b(str(key))` exists → return its bytes   (NOT copied into `_hashes`)
      3. otherwise calculate, write the file, store in `_hashes`, return
* `PersistentCache.clean_up` — unlinks entries whose atime is older than the clean-up period; it runs on
      a *new* `PersistentCache()` (Submitter.__exit__), so no in-memory dict is touched.
* `hash_function(obj)` without a `persistent_cache=` argument builds a fresh `PersistentCache` (location
      read from `PYDRA_HASH_CACHE` at that moment), i.e. an empty in-memory dict: `Op.hashFresh`.

Abstractions (all injective renamings, chosen by the harness): paths, mtimes (`st_mtime_ns` values),
file-set classes, sessions (= live `PersistentCache` objects / processes) and content versions are `Nat`s.
A cache entry stores the *content version the digest was computed from*; the digest handed back by the
code is `H cls version` for an arbitrary function `H` (BLAKE2b in the code) — see `digestOf`.  Nothing
about `H` is assumed anywhere.
A file-set is a class and a non-empty list of top-level paths (`sorted(fileset.fspaths)`; one path for File or
Directory, two for a header/data pair, any number for `SetOf[File]`).  "Content" of a directory member is the
content of the whole tree, its "mtime" the `lstat` mtime of the directory itself (what the key uses).
-/
namespace PydraModel.FileHash

abbrev Path := Nat
abbrev Content := Nat
abbrev Mtime := Nat
abbrev Cls := Nat
abbrev Sess := Nat

/-- The code's persistent-cache key for a file-set with members `paths` (in `sorted(fspaths)` order):
    `(cls.__module__, cls.__name__, repr(p₁), …, repr(pₙ), mtime_ns(p₁), …, mtime_ns(pₙ))`. -/
structure Key where
  cls : Cls
  paths : List Path
  mtimes : List Mtime
deriving DecidableEq, Repr

/-- How the key is put together from class, member paths and member mtimes. -/
abbrev KeyFn := Cls → List Path → List Mtime → Key

/-- The pinned tree's key: every member's path and every member's mtime, positionally. -/
def keyOf : KeyFn := fun cls ps ms => ⟨cls, ps, ms⟩

/-- File system: what is at a path (content version, mtime), if anything. -/
abbrev FS := Path → Option (Content × Mtime)

def FS.empty : FS := fun _ => none

def FS.set (fs : FS) (p : Path) (v : Option (Content × Mtime)) : FS :=
  fun q => if q = p then v else fs q

/-- All members of a file-set, or `none` if one is missing (constructing the file-set raises). -/
def readAll (fs : FS) : List Path → Option (List (Content × Mtime))
  | [] => some []
  | p :: ps =>
    match fs p, readAll fs ps with
    | some x, some xs => some (x :: xs)
    | _, _ => none

structure State where
  fs : FS
  /-- files in `PYDRA_HASH_CACHE`: key ↦ content versions (one per member) whose digest is stored -/
  disk : List (Key × List Content)
  /-- `PersistentCache._hashes` of every live session -/
  mem : List ((Sess × Key) × List Content)

def init : State := ⟨FS.empty, [], []⟩

inductive Op
  /-- (re)write the file with content `c` (any size) and set its mtime to `t`
      (`t` = the old mtime models "mtime restored", or a coarse clock) -/
  | write (p : Path) (c : Content) (t : Mtime)
  /-- `os.utime(p, ns=(t, t))` -/
  | utime (p : Path) (t : Mtime)
  /-- `os.replace(p, q)` (rename over); content and mtime travel with the file -/
  | rename (p q : Path)
  /-- `shutil.copy2(p, q)`: content and mtime are copied -/
  | copy2 (p q : Path)
  /-- `hash_object(cls(ps), persistent_cache=<the PersistentCache object of session s>)` -/
  | hash (s : Sess) (cls : Cls) (ps : List Path)
  /-- `hash_function(cls(ps))`: a brand-new `PersistentCache` (empty in-memory dict) on the same directory -/
  | hashFresh (cls : Cls) (ps : List Path)
  /-- session `s` ends and a new process / `PersistentCache` object takes its place: in-memory dict dropped -/
  | newProcess (s : Sess)
  /-- `PersistentCache().clean_up()`: the entries whose atime is too old (`victims`) are unlinked -/
  | cleanUp (victims : List Key)
deriving Repr

/-- Effect of an operation on the file system (identity for the cache operations).
    A missing source, or source = target, leaves everything as it is (the OS call fails / is a no-op). -/
def fsStep (fs : FS) : Op → FS
  | .write p c t => fs.set p (some (c, t))
  | .utime p t =>
    match fs p with
    | some (c, _) => fs.set p (some (c, t))
    | none => fs
  | .rename p q =>
    if p = q then fs else
    match fs p with
    | some x => (fs.set q (some x)).set p none
    | none => fs
  | .copy2 p q =>
    if p = q then fs else
    match fs p with
    | some x => fs.set q (some x)
    | none => fs
  | _ => fs

/-- `hash_single` on a file-set + `get_or_calculate_hash`, for a given way `kf` of building the key.
    `sess = none` is a throw-away `PersistentCache`. -/
def hashWithK (kf : KeyFn) (st : State) (sess : Option Sess) (cls : Cls) (ps : List Path) :
    State × Option (List Content) :=
  match readAll st.fs ps with
  | none => (st, none)                                   -- `cls(ps)` raises (a member is missing)
  | some cms =>
    let k : Key := kf cls ps (cms.map Prod.snd)
    let v : List Content := cms.map Prod.fst
    match sess.bind (fun s => st.mem.lookup (s, k)) with
    | some w => (st, some w)                             -- 1. in-memory dict
    | none =>
      match st.disk.lookup k with
      | some w => (st, some w)                           -- 2. file exists (not copied to memory)
      | none =>                                          -- 3. calculate from the contents as they are now
        ({ st with
            disk := (k, v) :: st.disk,
            mem := match sess with
              | some s => ((s, k), v) :: st.mem
              | none => st.mem }, some v)

/-- The pinned tree. -/
def hashWith (st : State) (sess : Option Sess) (cls : Cls) (ps : List Path) : State × Option (List Content) :=
  hashWithK keyOf st sess cls ps

/-- One operation: new state and, for hash operations on a complete file-set, the content versions whose
    digest is returned. -/
def step (st : State) (op : Op) : State × Option (List Content) :=
  match op with
  | .hash s cls ps => hashWith st (some s) cls ps
  | .hashFresh cls ps => hashWith st none cls ps
  | .newProcess s => ({ st with mem := st.mem.filter (fun e => e.1.1 != s) }, none)
  | .cleanUp vs => ({ st with disk := st.disk.filter (fun e => !vs.contains e.1) }, none)
  | op => ({ st with fs := fsStep st.fs op }, none)

/-- State after a history. -/
def exec (st : State) : List Op → State
  | [] => st
  | op :: ops => exec (step st op).1 ops

/-- Answers of a history, one per operation (`none` for non-hash operations and incomplete file-sets). -/
def run (st : State) : List Op → List (Option (List Content))
  | [] => []
  | op :: ops => (step st op).2 :: run (step st op).1 ops

/-- The same machine with another key construction (used only to document, by witnesses, why each member's
    own mtime must be in the key: `C09_key_*_refuted`). -/
def stepK (kf : KeyFn) (st : State) (op : Op) : State × Option (List Content) :=
  match op with
  | .hash s cls ps => hashWithK kf st (some s) cls ps
  | .hashFresh cls ps => hashWithK kf st none cls ps
  | op => step st op

def runK (kf : KeyFn) (st : State) : List Op → List (Option (List Content))
  | [] => []
  | op :: ops => (stepK kf st op).2 :: runK kf (stepK kf st op).1 ops

/-- The property's reference: a hash operation answers with the contents the members have *now*. -/
def specOut (fs : FS) : Op → Option (List Content)
  | .hash _ _ ps => (readAll fs ps).map (·.map Prod.fst)
  | .hashFresh _ ps => (readAll fs ps).map (·.map Prod.fst)
  | _ => none

def specRun (fs : FS) : List Op → List (Option (List Content))
  | [] => []
  | op :: ops => specOut fs op :: specRun (fsStep fs op) ops

/-- The digest the caller sees: `H` of the class, the member names and the content versions the answer stems from. -/
def digestOf {D : Type} (H : Cls → List Path → List Content → D) : Op → Option (List Content) → Option D
  | .hash _ cls ps, some v => some (H cls ps v)
  | .hashFresh cls ps, some v => some (H cls ps v)
  | _, _ => none

def digests {D : Type} (H : Cls → List Path → List Content → D) (ops : List Op)
    (outs : List (Option (List Content))) : List (Option D) :=
  List.zipWith (digestOf H) ops outs

/-! ### the decidable history predicate -/

/-- A cache entry is stale: all members of its file-set exist, each has *now* exactly the mtime recorded in
    the key, and yet the entry was computed from other contents. -/
def staleEntry (fs : FS) (k : Key) (v : List Content) : Bool :=
  match readAll fs k.paths with
  | none => false
  | some cms => cms.map Prod.snd == k.mtimes && v != cms.map Prod.fst

/-- Some entry on disk or in some session's memory is stale. -/
def anyStale (st : State) : Bool :=
  st.disk.any (fun e => staleEntry st.fs e.1 e.2) || st.mem.any (fun e => staleEntry st.fs e.1.2 e.2)

def Op.isFsOp : Op → Bool
  | .write _ _ _ => true
  | .utime _ _ => true
  | .rename _ _ => true
  | .copy2 _ _ => true
  | _ => false

def Op.isCleanUp : Op → Bool
  | .cleanUp _ => true
  | _ => false

def Op.isHash : Op → Bool
  | .hash _ _ _ => true
  | .hashFresh _ _ => true
  | _ => false

/-- After every file operation no cache entry is stale. -/
def freshFrom (st : State) : List Op → Bool
  | [] => true
  | op :: ops => (!op.isFsOp || !anyStale (step st op).1) && freshFrom (step st op).1 ops

/-- `MtimeFresh h`: every file operation of `h` leaves the members of every cached file-set in a state that
    either differs from the cached key in some member's mtime (or a member is gone), or has the cached
    contents — for every live entry, on disk or in any session's memory, of any class.  Decidable: it is a
    Boolean computed by running the model. -/
def MtimeFresh (ops : List Op) : Prop := freshFrom init ops = true

instance (ops : List Op) : Decidable (MtimeFresh ops) := by unfold MtimeFresh; infer_instance

/-- Index of the first operation that breaks `MtimeFresh` (for the harness's match rule cross-check). -/
def firstStale (st : State) : List Op → Nat → Option Nat
  | [], _ => none
  | op :: ops, i =>
    if !op.isFsOp || !anyStale (step st op).1 then firstStale (step st op).1 ops (i + 1) else some i

def noCleanUp (ops : List Op) : Bool := ops.all (fun o => !o.isCleanUp)

/-! ### key constructions that lose information (documentation; refuted in Props/C09.lean) -/

/-- one aggregate mtime: the newest member -/
def keyMax : KeyFn := fun cls ps ms => ⟨cls, ps, [ms.foldl max 0]⟩
/-- one aggregate mtime: the sum -/
def keySum : KeyFn := fun cls ps ms => ⟨cls, ps, [ms.foldl (· + ·) 0]⟩
/-- only the first member's mtime -/
def keyFirst : KeyFn := fun cls ps ms => ⟨cls, ps, ms.take 1⟩

/-- insertion sort (ascending) -/
def insSorted (x : Nat) : List Nat → List Nat
  | [] => [x]
  | y :: ys => if x ≤ y then x :: y :: ys else y :: insSorted x ys
def sortNat (l : List Nat) : List Nat := l.foldr insSorted []

/-- the positional link between paths and mtimes is dropped (mtimes as a sorted multiset) -/
def keyUnordered : KeyFn := fun cls ps ms => ⟨cls, ps, sortNat ms⟩


/-! ### the constructor sorts the members; an environment-dependent variant (documentation) -/

/-- `sorted(fileset.fspaths)`: the member list the key is built from, whatever order (or set iteration order)
    the members were handed over in.  Path ids are numbered in the code's sort order. -/
def members (given : List Path) : List Path := sortNat given

/-- The key of the file-set constructed from `given`, if all members exist. -/
def fileSetKey (fs : FS) (cls : Cls) (given : List Path) : Option Key :=
  (readAll fs (members given)).map (fun cms => keyOf cls (members given) (cms.map Prod.snd))

/-- Variant in which the mtimes are collected by iterating the raw member *set*: `order` is that process's
    iteration order (positions into the sorted member list), an environment parameter (string-hash seed). -/
def keyIterOrder (order : List Nat) : KeyFn := fun cls ps ms => ⟨cls, ps, order.map (fun i => ms.getD i 0)⟩

/-- The machine with a key construction per session (`none` = the throw-away cache of `hash_function`). -/
def stepEnv (env : Option Sess → KeyFn) (st : State) (op : Op) : State × Option (List Content) :=
  match op with
  | .hash s cls ps => hashWithK (env (some s)) st (some s) cls ps
  | .hashFresh cls ps => hashWithK (env none) st none cls ps
  | op => step st op

def runEnv (env : Option Sess → KeyFn) (st : State) : List Op → List (Option (List Content))
  | [] => []
  | op :: ops => (stepEnv env st op).2 :: runEnv env (stepEnv env st op).1 ops

end PydraModel.FileHash
