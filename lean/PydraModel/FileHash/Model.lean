import PydraModel.Basic
/-
Engine `FileHash` (DESIGN §5.3, file-cache part; property C09).

Mirrors, in pydra/utils/hash.py of the pinned tree:

* `bytes_repr_fileset`  — first yielded item is the cache key
      `(repr(path)…, lstat(path).st_mtime_ns…)`             (no size, no content, no inode)
* `hash_single`         — key := `(type.__module__, type.__name__) + first`, then
      `cache.persistent.get_or_calculate_hash(key, calc_hash)`
* `PersistentCache.get_or_calculate_hash`
      1. `self._hashes[key]` (the in-memory dict of *this* `PersistentCache` object) → return it
      2. file `location/blake2b(str(key))` exists → return its bytes   (NOT copied into `_hashes`)
      3. otherwise calculate, write the file, store in `_hashes`, return
* `PersistentCache.clean_up` — unlinks entries whose atime is older than the clean-up period; it runs on
      a *new* `PersistentCache()` (Submitter.__exit__), so no in-memory dict is touched.
* `hash_function(obj)` without a `persistent_cache=` argument builds a fresh `PersistentCache` (location
      read from `PYDRA_HASH_CACHE` at that moment), i.e. an empty in-memory dict: `Op.hashFresh`.

Abstractions (all injective renamings, chosen by the harness): paths, mtimes (`st_mtime_ns` values),
file-set classes, sessions (= live `PersistentCache` objects / processes) and content versions are `Nat`s.
A cache entry stores the *content version the digest was computed from*; the digest handed back by the
code is `H cls version` for an arbitrary function `H` (BLAKE2b in the code) — see `digestOf`.  Nothing
about `H` is assumed anywhere.
A single-path file-set (File, or Directory with its top-level mtime) is modelled; "content" of a directory is
the content of the whole tree, its "mtime" the `lstat` mtime of the directory itself (what the key uses).
-/
namespace PydraModel.FileHash

abbrev Path := Nat
abbrev Content := Nat
abbrev Mtime := Nat
abbrev Cls := Nat
abbrev Sess := Nat

/-- The code's persistent-cache key for a single-path file-set:
    `(cls.__module__, cls.__name__, repr(path), lstat(path).st_mtime_ns)`. -/
structure Key where
  cls : Cls
  path : Path
  mtime : Mtime
deriving DecidableEq, Repr

/-- File system: what is at a path (content version, mtime), if anything. -/
abbrev FS := Path → Option (Content × Mtime)

def FS.empty : FS := fun _ => none

def FS.set (fs : FS) (p : Path) (v : Option (Content × Mtime)) : FS :=
  fun q => if q = p then v else fs q

structure State where
  fs : FS
  /-- files in `PYDRA_HASH_CACHE`: key ↦ content version whose digest is stored -/
  disk : List (Key × Content)
  /-- `PersistentCache._hashes` of every live session -/
  mem : List ((Sess × Key) × Content)

def init : State := ⟨FS.empty, [], []⟩

inductive Op
  /-- (re)write the file with content `c` (any size) and set its mtime to `t`
      (`t` = the old mtime models "mtime restored", or a coarse clock) -/
  | write (p : Path) (c : Content) (t : Mtime)
  /-- `os.utime(p, ns=(t, t))` -/
  | utime (p : Path) (t : Mtime)
  /-- `os.replace(p, q)` (rename over); content and mtime travel with the file -/
  | rename (p q : Path)
  /-- `shutil.copy2(p, q)`: content and mtime are copied -/
  | copy2 (p q : Path)
  /-- `hash_object(cls(p), persistent_cache=<the PersistentCache object of session s>)` -/
  | hash (s : Sess) (cls : Cls) (p : Path)
  /-- `hash_function(cls(p))`: a brand-new `PersistentCache` (empty in-memory dict) on the same directory -/
  | hashFresh (cls : Cls) (p : Path)
  /-- session `s` ends and a new process / `PersistentCache` object takes its place: in-memory dict dropped -/
  | newProcess (s : Sess)
  /-- `PersistentCache().clean_up()`: the entries whose atime is too old (`victims`) are unlinked -/
  | cleanUp (victims : List Key)
deriving Repr

/-- Effect of an operation on the file system (identity for the cache operations).
    A missing source, or source = target, leaves everything as it is (the OS call fails / is a no-op). -/
def fsStep (fs : FS) : Op → FS
  | .write p c t => fs.set p (some (c, t))
  | .utime p t =>
    match fs p with
    | some (c, _) => fs.set p (some (c, t))
    | none => fs
  | .rename p q =>
    if p = q then fs else
    match fs p with
    | some x => (fs.set q (some x)).set p none
    | none => fs
  | .copy2 p q =>
    if p = q then fs else
    match fs p with
    | some x => fs.set q (some x)
    | none => fs
  | _ => fs

/-- `hash_single` on a file-set + `get_or_calculate_hash`.  `sess = none` is a throw-away `PersistentCache`. -/
def hashWith (st : State) (sess : Option Sess) (cls : Cls) (p : Path) : State × Option Content :=
  match st.fs p with
  | none => (st, none)                                   -- `cls(p)` raises FileNotFoundError
  | some (c, m) =>
    let k : Key := ⟨cls, p, m⟩
    match sess.bind (fun s => st.mem.lookup (s, k)) with
    | some v => (st, some v)                             -- 1. in-memory dict
    | none =>
      match st.disk.lookup k with
      | some v => (st, some v)                           -- 2. file exists (not copied to memory)
      | none =>                                          -- 3. calculate from the content as it is now
        ({ st with
            disk := (k, c) :: st.disk,
            mem := match sess with
              | some s => ((s, k), c) :: st.mem
              | none => st.mem }, some c)

/-- One operation: new state and, for hash operations on an existing file, the content version whose
    digest is returned. -/
def step (st : State) (op : Op) : State × Option Content :=
  match op with
  | .hash s cls p => hashWith st (some s) cls p
  | .hashFresh cls p => hashWith st none cls p
  | .newProcess s => ({ st with mem := st.mem.filter (fun e => e.1.1 != s) }, none)
  | .cleanUp vs => ({ st with disk := st.disk.filter (fun e => !vs.contains e.1) }, none)
  | op => ({ st with fs := fsStep st.fs op }, none)

/-- State after a history. -/
def exec (st : State) : List Op → State
  | [] => st
  | op :: ops => exec (step st op).1 ops

/-- Answers of a history, one per operation (`none` for non-hash operations and missing files). -/
def run (st : State) : List Op → List (Option Content)
  | [] => []
  | op :: ops => (step st op).2 :: run (step st op).1 ops

/-- The property's reference: a hash operation answers with the content the file has *now*. -/
def specOut (fs : FS) : Op → Option Content
  | .hash _ _ p => (fs p).map (·.1)
  | .hashFresh _ p => (fs p).map (·.1)
  | _ => none

def specRun (fs : FS) : List Op → List (Option Content)
  | [] => []
  | op :: ops => specOut fs op :: specRun (fsStep fs op) ops

/-- The digest the caller sees: `H` of the class and of the content version the answer stems from. -/
def digestOf {D : Type} (H : Cls → Content → D) : Op → Option Content → Option D
  | .hash _ cls _, some v => some (H cls v)
  | .hashFresh cls _, some v => some (H cls v)
  | _, _ => none

def digests {D : Type} (H : Cls → Content → D) (ops : List Op) (outs : List (Option Content)) : List (Option D) :=
  List.zipWith (digestOf H) ops outs

/-! ### the decidable history predicate -/

/-- Some cache entry (on disk or in any session's memory) is keyed on `p` with `p`'s *current* mtime but was
    computed from a content different from `p`'s current content. -/
def staleAt (st : State) (p : Path) : Bool :=
  match st.fs p with
  | none => false
  | some (c, m) =>
    st.disk.any (fun e => e.1.path == p && e.1.mtime == m && e.2 != c) ||
    st.mem.any (fun e => e.1.2.path == p && e.1.2.mtime == m && e.2 != c)

/-- Paths whose (content, mtime) an operation may set. -/
def touched : Op → List Path
  | .write p _ _ => [p]
  | .utime p _ => [p]
  | .rename _ q => [q]
  | .copy2 _ q => [q]
  | _ => []

/-- After every file operation, no cache entry is keyed on the new `(path, mtime)` with another content. -/
def freshFrom (st : State) : List Op → Bool
  | [] => true
  | op :: ops =>
    (touched op).all (fun p => !staleAt (step st op).1 p) && freshFrom (step st op).1 ops

/-- `MtimeFresh h`: every change of a path's (content, mtime) in `h` lands on a `(path, mtime)` pair for which
    no live cache entry (disk or memory, any class, any session) holds a different content.  Decidable: it is a
    Boolean computed by running the model. -/
def MtimeFresh (ops : List Op) : Prop := freshFrom init ops = true

instance (ops : List Op) : Decidable (MtimeFresh ops) := by unfold MtimeFresh; infer_instance

/-- Index of the first operation that breaks `MtimeFresh` (for the harness's match rule cross-check). -/
def firstStale (st : State) : List Op → Nat → Option Nat
  | [], _ => none
  | op :: ops, i =>
    if (touched op).all (fun p => !staleAt (step st op).1 p) then firstStale (step st op).1 ops (i + 1)
    else some i

def Op.isCleanUp : Op → Bool
  | .cleanUp _ => true
  | _ => false

def Op.isHash : Op → Bool
  | .hash _ _ _ => true
  | .hashFresh _ _ => true
  | _ => false

def noCleanUp (ops : List Op) : Bool := ops.all (fun o => !o.isCleanUp)

end PydraModel.FileHash
