import PydraModel.FileHash.Lemmas
/-
Helper lemmas for C09: sessions (in-memory dicts) versus the directory on disk; uniqueness of keys;
observability of a stale entry.
-/
namespace PydraModel.FileHash

theorem lookup_filter_key {α β} [BEq α] [LawfulBEq α] (q : α → Bool) (l : List (α × β)) (k : α) :
    (l.filter (fun e => q e.1)).lookup k = if q k then l.lookup k else none := by
  induction l with
  | nil => simp
  | cons x xs ih =>
    obtain ⟨a, b⟩ := x
    by_cases hq : q a = true
    · simp only [List.filter_cons, hq, if_true, List.lookup_cons]
      by_cases hk : (k == a) = true
      · have : k = a := by simpa using hk
        subst this
        simp [hq]
      · simp only [hk]
        exact ih
    · simp only [List.filter_cons, hq, List.lookup_cons]
      by_cases hk : (k == a) = true
      · have : k = a := by simpa using hk
        subst this
        simp only [Bool.false_eq_true, if_false] at ih ⊢
        simp only [hq, Bool.false_eq_true, if_false] at ih ⊢
        exact ih
      · simp only [hk]
        simp only [Bool.false_eq_true, if_false]
        exact ih

theorem exec_append (st : State) (a b : List Op) : exec st (a ++ b) = exec (exec st a) b := by
  induction a generalizing st with
  | nil => rfl
  | cons x xs ih => simp only [List.cons_append, exec, ih]

theorem run_append (st : State) (a b : List Op) : run st (a ++ b) = run st a ++ run (exec st a) b := by
  induction a generalizing st with
  | nil => rfl
  | cons x xs ih => simp only [List.cons_append, run, exec, ih]

/-- Everything a session remembers is also on disk with the same value (true until a clean-up). -/
def MemSubDisk (st : State) : Prop :=
  ∀ s k v, st.mem.lookup (s, k) = some v → st.disk.lookup k = some v

/-- `b` is `a` with some in-memory entries forgotten. -/
structure Sim (a b : State) : Prop where
  fs : b.fs = a.fs
  disk : b.disk = a.disk
  mem : ∀ x v, b.mem.lookup x = some v → a.mem.lookup x = some v

theorem Sim.refl (a : State) : Sim a a := ⟨rfl, rfl, fun _ _ h => h⟩

theorem memSubDisk_of_sim {a b : State} (h : Sim a b) (hm : MemSubDisk a) : MemSubDisk b := by
  intro s k v hv
  rw [h.disk]
  exact hm s k v (h.mem _ _ hv)

theorem sim_hashWith {a b : State} (h : Sim a b) (hm : MemSubDisk a) (sess : Option Sess) (cls : Cls) (ps : List Path) :
    (hashWith a sess cls ps).2 = (hashWith b sess cls ps).2 ∧
    Sim (hashWith a sess cls ps).1 (hashWith b sess cls ps).1 ∧
    MemSubDisk (hashWith a sess cls ps).1 := by
  obtain ⟨afs, adisk, amem⟩ := a
  obtain ⟨bfs, bdisk, bmem⟩ := b
  obtain ⟨hfs, hdisk, hmem⟩ := h
  simp only at hfs hdisk hmem
  subst hfs hdisk
  unfold hashWith hashWithK keyOf
  simp only
  cases hp : readAll bfs ps with
  | none => exact ⟨rfl, ⟨rfl, rfl, hmem⟩, hm⟩
  | some cms =>
    simp only
    generalize cms.map Prod.snd = m
    generalize cms.map Prod.fst = c
    cases sess with
    | none =>
      simp only [Option.bind_none]
      cases hd : bdisk.lookup ⟨cls, ps, m⟩ with
      | some v => exact ⟨rfl, ⟨rfl, rfl, hmem⟩, hm⟩
      | none =>
        refine ⟨rfl, ⟨rfl, rfl, hmem⟩, ?_⟩
        intro s k v hv
        have h0 := hm s k v hv
        simp only at h0 hv ⊢
        rw [List.lookup_cons]
        by_cases hk : (k == (⟨cls, ps, m⟩ : Key)) = true
        · have : k = ⟨cls, ps, m⟩ := by simpa using hk
          subst this
          rw [hd] at h0; cases h0
        · simp only [hk]; exact h0
    | some s =>
      simp only [Option.bind_some]
      cases ha : amem.lookup (s, ⟨cls, ps, m⟩) with
      | some v =>
        have hdv := hm s _ v ha
        simp only at hdv
        cases hb : bmem.lookup (s, ⟨cls, ps, m⟩) with
        | some v' =>
          have := hmem _ _ hb
          rw [ha] at this
          cases this
          exact ⟨rfl, ⟨rfl, rfl, hmem⟩, hm⟩
        | none =>
          simp only [hdv]
          exact ⟨trivial, ⟨rfl, rfl, hmem⟩, hm⟩
      | none =>
        have hb : bmem.lookup (s, ⟨cls, ps, m⟩) = none := by
          cases hb : bmem.lookup (s, ⟨cls, ps, m⟩) with
          | none => rfl
          | some v' => have := hmem _ _ hb; rw [ha] at this; cases this
        simp only [hb]
        cases hd : bdisk.lookup ⟨cls, ps, m⟩ with
        | some v => exact ⟨rfl, ⟨rfl, rfl, hmem⟩, hm⟩
        | none =>
          refine ⟨rfl, ⟨rfl, rfl, ?_⟩, ?_⟩
          · intro x v hv
            simp only at hv ⊢
            rw [List.lookup_cons] at hv ⊢
            by_cases hk : (x == (s, (⟨cls, ps, m⟩ : Key))) = true
            · simp only [hk] at hv ⊢; exact hv
            · simp only [hk] at hv ⊢; exact hmem _ _ hv
          · intro s' k v hv
            simp only at hv ⊢
            rw [List.lookup_cons] at hv ⊢
            by_cases hk : ((s', k) == (s, (⟨cls, ps, m⟩ : Key))) = true
            · simp only [hk] at hv
              have : (s', k) = (s, (⟨cls, ps, m⟩ : Key)) := by simpa using hk
              cases this
              simpa using hv
            · simp only [hk] at hv
              have h0 := hm s' k v hv
              simp only at h0
              by_cases hk2 : (k == (⟨cls, ps, m⟩ : Key)) = true
              · have : k = ⟨cls, ps, m⟩ := by simpa using hk2
                subst this
                rw [hd] at h0; cases h0
              · simp only [hk2]; exact h0

/-- One step of two states that differ only in forgotten in-memory entries: same answer, same relation. -/
theorem sim_step {a b : State} (h : Sim a b) (hm : MemSubDisk a) (op : Op) (hc : op.isCleanUp = false) :
    (step a op).2 = (step b op).2 ∧ Sim (step a op).1 (step b op).1 ∧ MemSubDisk (step a op).1 := by
  cases op with
  | hash s cls ps => exact sim_hashWith h hm _ _ _
  | hashFresh cls ps => exact sim_hashWith h hm _ _ _
  | cleanUp vs => simp [Op.isCleanUp] at hc
  | newProcess s =>
    refine ⟨rfl, ⟨h.fs, h.disk, ?_⟩, ?_⟩
    · intro x v hv
      simp only [step] at hv ⊢
      rw [lookup_filter_key (fun k : Sess × Key => k.1 != s)] at hv ⊢
      by_cases hq : (x.1 != s) = true
      · simp only [hq, if_true] at hv ⊢; exact h.mem _ _ hv
      · simp only [hq] at hv; cases hv
    · intro s' k v hv
      simp only [step] at hv ⊢
      rw [lookup_filter_key (fun k : Sess × Key => k.1 != s)] at hv
      by_cases hq : (s' != s) = true
      · simp only [hq, if_true] at hv; exact hm _ _ _ hv
      · simp only [hq] at hv; cases hv
  | write p c t => exact ⟨rfl, ⟨by simp only [step, h.fs], h.disk, h.mem⟩, hm⟩
  | utime p t => exact ⟨rfl, ⟨by simp only [step, h.fs], h.disk, h.mem⟩, hm⟩
  | rename p q => exact ⟨rfl, ⟨by simp only [step, h.fs], h.disk, h.mem⟩, hm⟩
  | copy2 p q => exact ⟨rfl, ⟨by simp only [step, h.fs], h.disk, h.mem⟩, hm⟩

theorem sim_run (ops : List Op) : ∀ {a b : State}, Sim a b → MemSubDisk a → noCleanUp ops = true →
    run a ops = run b ops := by
  induction ops with
  | nil => intros; rfl
  | cons op ops ih =>
    intro a b h hm hc
    simp only [noCleanUp, List.all_cons, Bool.and_eq_true, Bool.not_eq_true'] at hc
    obtain ⟨h1, h2, h3⟩ := sim_step h hm op hc.1
    simp only [run, h1]
    congr 1
    exact ih h2 h3 (by simpa [noCleanUp] using hc.2)

theorem memSubDisk_exec (ops : List Op) : ∀ {a : State}, MemSubDisk a → noCleanUp ops = true →
    MemSubDisk (exec a ops) := by
  induction ops with
  | nil => intro a h _; exact h
  | cons op ops ih =>
    intro a hm hc
    simp only [noCleanUp, List.all_cons, Bool.and_eq_true, Bool.not_eq_true'] at hc
    obtain ⟨_, _, h3⟩ := sim_step (Sim.refl a) hm op hc.1
    exact ih h3 (by simpa [noCleanUp] using hc.2)

theorem memSubDisk_init : MemSubDisk init := by
  intro s k v hv; simp [init] at hv

theorem sim_newProcess (a : State) (s : Sess) : Sim a (step a (.newProcess s)).1 := by
  refine ⟨rfl, rfl, ?_⟩
  intro x v hv
  simp only [step] at hv
  rw [lookup_filter_key (fun k : Sess × Key => k.1 != s)] at hv
  by_cases hq : (x.1 != s) = true
  · simp only [hq, if_true] at hv; exact hv
  · simp only [hq] at hv; cases hv

end PydraModel.FileHash
