import PydraModel.FileHash.LemmasExact
/-
Helper lemmas for C09: what the key of a multi-member file-set depends on.
-/
namespace PydraModel.FileHash

theorem readAll_length {fs : FS} : ∀ {ps : List Path} {cms}, readAll fs ps = some cms → cms.length = ps.length := by
  intro ps
  induction ps with
  | nil => intro cms h; simp [readAll] at h; subst h; rfl
  | cons p ps ih =>
    intro cms h
    simp only [readAll] at h
    cases hp : fs p with
    | none => simp [hp] at h
    | some x =>
      cases hr : readAll fs ps with
      | none => simp [hp, hr] at h
      | some xs =>
        simp only [hp, hr, Option.some.injEq] at h
        subst h
        simp [ih hr]

/-- `readAll` reads member `i` at position `i`. -/
theorem readAll_get {fs : FS} : ∀ {ps : List Path} {cms}, readAll fs ps = some cms →
    ∀ (i : Nat) (h1 : i < ps.length) (h2 : i < cms.length), fs ps[i] = some cms[i] := by
  intro ps
  induction ps with
  | nil => intro cms _ i h1; simp at h1
  | cons p ps ih =>
    intro cms h i h1 h2
    simp only [readAll] at h
    cases hp : fs p with
    | none => simp [hp] at h
    | some x =>
      cases hr : readAll fs ps with
      | none => simp [hp, hr] at h
      | some xs =>
        simp only [hp, hr, Option.some.injEq] at h
        subst h
        cases i with
        | zero => simpa using hp
        | succ j =>
          simp only [List.getElem_cons_succ]
          exact ih hr j (by simpa using h1) (by simpa using h2)

theorem stepK_keyOf (st : State) (op : Op) : stepK keyOf st op = step st op := by
  cases op <;> rfl

theorem runK_keyOf (ops : List Op) : ∀ st : State, runK keyOf st ops = run st ops := by
  induction ops with
  | nil => intro _; rfl
  | cons op ops ih => intro st; simp only [runK, run, stepK_keyOf, ih]


/-- Insertions commute (on any list), hence insertion sort does not depend on the order of its input. -/
theorem insSorted_comm (x y : Nat) (s : List Nat) :
    insSorted x (insSorted y s) = insSorted y (insSorted x s) := by
  induction s with
  | nil =>
    simp only [insSorted]
    split <;> split <;> first | rfl | (exfalso; omega) | (have hxy : x = y := (by omega)) <;> rw [hxy]
  | cons z zs ih =>
    simp only [insSorted]
    split <;> split <;> simp only [insSorted] <;> (repeat' split) <;>
      first | rfl | (exfalso; omega) | (have hxy : x = y := (by omega)) <;> rw [hxy] | (rw [ih])

theorem sortNat_perm {l l' : List Nat} (h : l.Perm l') : sortNat l = sortNat l' := by
  induction h with
  | nil => rfl
  | cons x _ ih => simp only [sortNat, List.foldr_cons] at ih ⊢; rw [ih]
  | swap x y l => simp only [sortNat, List.foldr_cons]; exact insSorted_comm y x _
  | trans _ _ ih1 ih2 => rw [ih1, ih2]

end PydraModel.FileHash
