import PydraModel.FileHash.LemmasProc
/-
Helper lemmas for C09: keys are unique in both caches, hence a stale entry is *observable* by one more hash
operation — `MtimeFresh` is exactly the class of histories on which the code is right.
-/
namespace PydraModel.FileHash

theorem not_mem_keys_of_lookup_none {α β} [BEq α] [LawfulBEq α] {k : α} {l : List (α × β)}
    (h : l.lookup k = none) : k ∉ l.map Prod.fst := by
  induction l with
  | nil => simp
  | cons x xs ih =>
    obtain ⟨a, b⟩ := x
    rw [List.lookup_cons] at h
    by_cases hk : (k == a) = true
    · simp only [hk] at h; cases h
    · simp only [hk] at h
      have hne : k ≠ a := by simpa using hk
      simp only [List.map_cons, List.mem_cons, not_or]
      exact ⟨hne, ih h⟩

theorem lookup_of_mem_nodup {α β} [BEq α] [LawfulBEq α] {k : α} {v : β} {l : List (α × β)}
    (hn : (l.map Prod.fst).Nodup) (hm : (k, v) ∈ l) : l.lookup k = some v := by
  induction l with
  | nil => simp at hm
  | cons x xs ih =>
    obtain ⟨a, b⟩ := x
    simp only [List.map_cons, List.nodup_cons] at hn
    rw [List.lookup_cons]
    simp only [List.mem_cons] at hm
    rcases hm with hm | hm
    · cases hm; simp
    · have hne : (k == a) = false := by
        apply beq_false_of_ne
        intro hka
        subst hka
        exact hn.1 (List.mem_map.mpr ⟨(k, v), hm, rfl⟩)
      simp only [hne]
      exact ih hn.2 hm

theorem nodup_keys_filter {α β} (q : α × β → Bool) {l : List (α × β)} (hn : (l.map Prod.fst).Nodup) :
    ((l.filter q).map Prod.fst).Nodup :=
  List.Nodup.sublist (List.Sublist.map _ List.filter_sublist) hn

/-- No key occurs twice in the directory, and no (session, key) twice in memory. -/
def Uniq (st : State) : Prop := (st.disk.map Prod.fst).Nodup ∧ (st.mem.map Prod.fst).Nodup

theorem uniq_init : Uniq init := by simp [Uniq, init]

theorem uniq_hashWith {st : State} (h : Uniq st) (sess : Option Sess) (cls : Cls) (ps : List Path) :
    Uniq (hashWith st sess cls ps).1 := by
  unfold hashWith hashWithK keyOf
  cases hp : readAll st.fs ps with
  | none => exact h
  | some cms =>
    simp only
    generalize cms.map Prod.snd = m
    generalize cms.map Prod.fst = c
    cases hs : (sess.bind fun s => st.mem.lookup (s, (⟨cls, ps, m⟩ : Key))) with
    | some v => exact h
    | none =>
      simp only
      cases hd : st.disk.lookup ⟨cls, ps, m⟩ with
      | some v => exact h
      | none =>
        constructor
        · simp only [List.map_cons, List.nodup_cons]
          exact ⟨not_mem_keys_of_lookup_none hd, h.1⟩
        · cases sess with
          | none => exact h.2
          | some s =>
            simp only [Option.bind_some] at hs
            simp only [List.map_cons, List.nodup_cons]
            exact ⟨not_mem_keys_of_lookup_none hs, h.2⟩

theorem uniq_step {st : State} (h : Uniq st) (op : Op) : Uniq (step st op).1 := by
  cases op with
  | hash s cls ps => exact uniq_hashWith h _ _ _
  | hashFresh cls ps => exact uniq_hashWith h _ _ _
  | newProcess s => exact ⟨h.1, nodup_keys_filter _ h.2⟩
  | cleanUp vs => exact ⟨nodup_keys_filter _ h.1, h.2⟩
  | write p c t => exact h
  | utime p t => exact h
  | rename p q => exact h
  | copy2 p q => exact h

theorem uniq_exec (ops : List Op) : ∀ {st : State}, Uniq st → Uniq (exec st ops) := by
  induction ops with
  | nil => intro st h; exact h
  | cons op ops ih => intro st h; exact ih (uniq_step h op)

/-- A stale entry is observable: some hash operation issued right now gets an answer that is not the current
    contents (through a fresh `PersistentCache` for a stale file on disk, through the owning session for a
    stale in-memory entry). -/
theorem stale_observable {st : State} (hu : Uniq st) (hs : anyStale st = true) :
    ∃ op : Op, op.isHash = true ∧ (step st op).2 ≠ specOut st.fs op := by
  unfold anyStale at hs
  simp only [Bool.or_eq_true, List.any_eq_true] at hs
  have key : ∀ (k : Key) (v : List Content), staleEntry st.fs k v = true →
      ∃ cms, readAll st.fs k.paths = some cms ∧ k = ⟨k.cls, k.paths, cms.map Prod.snd⟩ ∧ v ≠ cms.map Prod.fst := by
    intro k v h
    unfold staleEntry at h
    cases hr : readAll st.fs k.paths with
    | none => rw [hr] at h; cases h
    | some cms =>
      rw [hr] at h
      simp only [Bool.and_eq_true, beq_iff_eq, bne_iff_ne, ne_eq] at h
      refine ⟨cms, rfl, ?_, h.2⟩
      rw [h.1]
  rcases hs with ⟨e, he, hst⟩ | ⟨e, he, hst⟩
  · obtain ⟨k, v⟩ := e
    obtain ⟨cms, hr, hk, hv⟩ := key k v hst
    refine ⟨.hashFresh k.cls k.paths, rfl, ?_⟩
    have hl := lookup_of_mem_nodup hu.1 he
    rw [hk] at hl
    simp only [step, specOut, hashWith, hashWithK, keyOf, hr, Option.bind_none, hl, Option.map_some]
    intro h; cases h; exact hv rfl
  · obtain ⟨⟨s, k⟩, v⟩ := e
    obtain ⟨cms, hr, hk, hv⟩ := key k v hst
    refine ⟨.hash s k.cls k.paths, rfl, ?_⟩
    have hl := lookup_of_mem_nodup hu.2 he
    rw [hk] at hl
    simp only [step, specOut, hashWith, hashWithK, keyOf, hr, Option.bind_some, hl, Option.map_some]
    intro h; cases h; exact hv rfl

theorem freshFrom_append (a b : List Op) : ∀ st, freshFrom st (a ++ b) = (freshFrom st a && freshFrom (exec st a) b) := by
  induction a with
  | nil => intro st; simp [freshFrom, exec]
  | cons x xs ih => intro st; simp only [List.cons_append, freshFrom, exec, ih, Bool.and_assoc]

theorem specRun_append (a b : List Op) : ∀ st : State,
    specRun st.fs (a ++ b) = specRun st.fs a ++ specRun (exec st a).fs b := by
  induction a with
  | nil => intro st; rfl
  | cons x xs ih =>
    intro st
    have := ih (step st x).1
    rw [step_fs] at this
    simp only [List.cons_append, specRun, exec, this]

/-- If a history is not fresh, then some prefix of it followed by one hash operation is answered wrongly. -/
theorem not_fresh_observable (ops : List Op) : ∀ {st : State}, Uniq st → freshFrom st ops = false →
    ∃ pre op, pre <+: ops ∧ op.isHash = true ∧ run st (pre ++ [op]) ≠ specRun st.fs (pre ++ [op]) := by
  induction ops with
  | nil => intro st _ h; simp [freshFrom] at h
  | cons x xs ih =>
    intro st hu hf
    simp only [freshFrom, Bool.and_eq_false_iff] at hf
    rcases hf with hf | hf
    · -- the file operation `x` itself leaves an entry stale
      simp only [Bool.or_eq_false_iff, Bool.not_eq_false'] at hf
      obtain ⟨op, hop, hne⟩ := stale_observable (uniq_step hu x) hf.2
      refine ⟨[x], op, ?_, hop, ?_⟩
      · exact ⟨xs, rfl⟩
      · simp only [List.cons_append, List.nil_append, run, specRun, ne_eq, List.cons.injEq, and_true, not_and]
        intro _
        rw [← step_fs]
        exact hne
    · obtain ⟨pre, op, hpre, hop, hne⟩ := ih (uniq_step hu x) hf
      refine ⟨x :: pre, op, ?_, hop, ?_⟩
      · obtain ⟨t, rfl⟩ := hpre
        exact ⟨t, rfl⟩
      · simp only [List.cons_append, run, specRun, ne_eq, List.cons.injEq, not_and]
        intro _
        rw [← step_fs]
        exact hne

theorem run_length (ops : List Op) : ∀ st : State, (run st ops).length = ops.length := by
  induction ops with
  | nil => intro _; rfl
  | cons x xs ih => intro st; simp only [run, List.length_cons, ih]

theorem specRun_length (ops : List Op) : ∀ fs : FS, (specRun fs ops).length = ops.length := by
  induction ops with
  | nil => intro _; rfl
  | cons x xs ih => intro fs; simp only [specRun, List.length_cons, ih]

/-- On a fresh history `a ++ b`, the part `b` is answered from the state after `a` as the reference answers it. -/
theorem fresh_tail_eq (a b : List Op) (h : freshFrom init (a ++ b) = true) :
    run (exec init a) b = specRun (exec init a).fs b := by
  have e := (run_eq_spec_of_fresh (a ++ b) init inv_init h).1
  rw [run_append, specRun_append] at e
  exact (List.append_inj e (by rw [run_length, specRun_length])).2

end PydraModel.FileHash
