import PydraModel.FileHash.Model
/-
Helper lemmas for C09: the cache invariant and its preservation.
-/
namespace PydraModel.FileHash

/-- A cache entry is harmless for the file system `fs`: if every member of the entry's file-set has, right now,
    exactly the mtime recorded in the key, then the entry was computed from the contents the members have
    right now. -/
def EntryOK (fs : FS) (k : Key) (v : List Content) : Prop :=
  ∀ cms, readAll fs k.paths = some cms → cms.map Prod.snd = k.mtimes → v = cms.map Prod.fst

/-- The invariant: every entry for key `(cls, paths, mtimes)` holds the contents the members have at every
    moment at which their mtimes are `mtimes` (stated for "now"; kept over any `MtimeFresh` history). -/
def Inv (st : State) : Prop :=
  (∀ e ∈ st.disk, EntryOK st.fs e.1 e.2) ∧ (∀ e ∈ st.mem, EntryOK st.fs e.1.2 e.2)

theorem inv_init : Inv init := by
  constructor <;> intro e he <;> simp [init] at he

theorem staleEntry_false {fs : FS} {k : Key} {v : List Content} :
    staleEntry fs k v = false ↔ EntryOK fs k v := by
  unfold staleEntry EntryOK
  cases hr : readAll fs k.paths with
  | none => simp
  | some cms =>
    simp only [Bool.and_eq_false_iff, beq_eq_false_iff_ne, ne_eq, bne_eq_false_iff_eq, Option.some.injEq]
    constructor
    · intro h cms' hc hm
      subst hc
      rcases h with h | h
      · exact absurd hm h
      · exact h
    · intro h
      by_cases hm : cms.map Prod.snd = k.mtimes
      · right; exact h cms rfl hm
      · left; exact hm

theorem inv_iff_noStale (st : State) : Inv st ↔ anyStale st = false := by
  unfold Inv anyStale
  simp only [Bool.or_eq_false_iff, List.any_eq_false, Bool.not_eq_true, staleEntry_false]

theorem mem_of_lookup {α β} [BEq α] [LawfulBEq α] {k : α} {v : β} {l : List (α × β)}
    (h : l.lookup k = some v) : (k, v) ∈ l := by
  induction l with
  | nil => simp at h
  | cons x xs ih =>
    obtain ⟨a, b⟩ := x
    rw [List.lookup_cons] at h
    by_cases hk : (k == a) = true
    · simp only [hk] at h
      cases h
      have : k = a := by simpa using hk
      subst this
      simp
    · simp only [hk] at h
      exact List.mem_cons_of_mem _ (ih h)

/-- The file system after a step is `fsStep` of the file system before (cache operations do not touch it). -/
theorem step_fs (st : State) (op : Op) : (step st op).1.fs = fsStep st.fs op := by
  have hw : ∀ sess cls ps, (hashWith st sess cls ps).1.fs = st.fs := by
    intro sess cls ps
    unfold hashWith hashWithK
    split
    · rfl
    · simp only
      split
      · rfl
      · split <;> rfl
  cases op <;> simp only [step, fsStep, hw]

/-- What a hash operation does to the caches: nothing, or it adds entries for the key of the members as they
    are now, computed from the contents as they are now. -/
theorem hashWith_spec (st : State) (sess : Option Sess) (cls : Cls) (ps : List Path) :
    let r := hashWith st sess cls ps
    r.1.fs = st.fs ∧
    (∀ e ∈ r.1.disk, e ∈ st.disk ∨
      ∃ cms, readAll st.fs ps = some cms ∧ e = (⟨cls, ps, cms.map Prod.snd⟩, cms.map Prod.fst)) ∧
    (∀ e ∈ r.1.mem, e ∈ st.mem ∨
      ∃ s cms, readAll st.fs ps = some cms ∧ e = ((s, ⟨cls, ps, cms.map Prod.snd⟩), cms.map Prod.fst)) := by
  unfold hashWith hashWithK keyOf
  cases hp : readAll st.fs ps with
  | none => simp
  | some cms =>
    simp only
    split
    · exact ⟨rfl, fun e he => Or.inl he, fun e he => Or.inl he⟩
    · split
      · exact ⟨rfl, fun e he => Or.inl he, fun e he => Or.inl he⟩
      · refine ⟨rfl, ?_, ?_⟩
        · intro e he
          simp only [List.mem_cons] at he
          rcases he with he | he
          · right; exact ⟨cms, rfl, he⟩
          · left; exact he
        · intro e he
          cases sess with
          | none => left; exact he
          | some s =>
            simp only [List.mem_cons] at he
            rcases he with he | he
            · right; exact ⟨s, cms, rfl, he⟩
            · left; exact he

theorem inv_hashWith {st : State} (h : Inv st) (sess : Option Sess) (cls : Cls) (ps : List Path) :
    Inv (hashWith st sess cls ps).1 := by
  obtain ⟨hfs, hd, hm⟩ := hashWith_spec st sess cls ps
  constructor
  · intro e he
    rw [hfs]
    rcases hd e he with h0 | ⟨cms, hp, rfl⟩
    · exact h.1 e h0
    · intro cms' hc' _
      simp only at hc'
      rw [hp] at hc'
      cases hc'; rfl
  · intro e he
    rw [hfs]
    rcases hm e he with h0 | ⟨s, cms, hp, rfl⟩
    · exact h.2 e h0
    · intro cms' hc' _
      simp only at hc'
      rw [hp] at hc'
      cases hc'; rfl

/-- Under the invariant a hash operation answers with the current contents. -/
theorem hashWith_out {st : State} (h : Inv st) (sess : Option Sess) (cls : Cls) (ps : List Path) :
    (hashWith st sess cls ps).2 = (readAll st.fs ps).map (·.map Prod.fst) := by
  unfold hashWith hashWithK keyOf
  cases hp : readAll st.fs ps with
  | none => simp
  | some cms =>
    simp only [Option.map_some]
    split
    · rename_i v hv
      cases sess with
      | none => simp at hv
      | some s =>
        simp only [Option.bind_some] at hv
        have hmem := mem_of_lookup hv
        have := h.2 _ hmem cms (by simpa using hp) rfl
        simpa using this
    · split
      · rename_i v hv
        have hmem := mem_of_lookup hv
        have := h.1 _ hmem cms (by simpa using hp) rfl
        simpa using this
      · rfl

/-- One step keeps the invariant, provided a file operation leaves no entry stale. -/
theorem inv_step {st : State} (h : Inv st) (op : Op)
    (hf : op.isFsOp = true → anyStale (step st op).1 = false) : Inv (step st op).1 := by
  cases op with
  | hash s cls ps => exact inv_hashWith h _ _ _
  | hashFresh cls ps => exact inv_hashWith h _ _ _
  | newProcess s =>
    exact ⟨h.1, fun e he => h.2 e (List.mem_filter.mp he).1⟩
  | cleanUp vs =>
    exact ⟨fun e he => h.1 e (List.mem_filter.mp he).1, h.2⟩
  | write p c t => exact (inv_iff_noStale _).mpr (hf rfl)
  | utime p t => exact (inv_iff_noStale _).mpr (hf rfl)
  | rename p q => exact (inv_iff_noStale _).mpr (hf rfl)
  | copy2 p q => exact (inv_iff_noStale _).mpr (hf rfl)

/-- Under the invariant every operation answers as the reference does. -/
theorem step_out {st : State} (h : Inv st) (op : Op) : (step st op).2 = specOut st.fs op := by
  cases op <;> simp only [step, specOut, hashWith_out h]

/-- Invariant-style core of C09: from any state satisfying the invariant, a history whose file operations
    never leave an entry stale is answered exactly as the reference answers it. -/
theorem run_eq_spec_of_fresh (ops : List Op) : ∀ (st : State), Inv st → freshFrom st ops = true →
    run st ops = specRun st.fs ops ∧ Inv (exec st ops) := by
  induction ops with
  | nil => intro st h _; exact ⟨rfl, h⟩
  | cons op ops ih =>
    intro st h hf
    simp only [freshFrom, Bool.and_eq_true, Bool.or_eq_true, Bool.not_eq_true'] at hf
    have h' := inv_step h op (by
      intro hop
      rcases hf.1 with h1 | h1
      · rw [hop] at h1; cases h1
      · exact h1)
    obtain ⟨ih1, ih2⟩ := ih _ h' hf.2
    refine ⟨?_, ih2⟩
    simp only [run, specRun, step_out h, ih1, step_fs]

end PydraModel.FileHash
