import PydraModel.FileHash.Model
/-
Helper lemmas for C09: the cache invariant and its preservation.
-/
namespace PydraModel.FileHash

/-- A cache entry is harmless for the file system `fs`: if the file at the entry's path has the entry's
    mtime right now, then the entry was computed from the content the file has right now. -/
def EntryOK (fs : FS) (k : Key) (v : Content) : Prop :=
  ∀ c, fs k.path = some (c, k.mtime) → v = c

/-- The invariant: every entry for key `(cls, p, m)` holds the content `p` has at every moment at which
    `p`'s mtime is `m` (stated for "now"; the proof shows it is kept over any `MtimeFresh` history). -/
def Inv (st : State) : Prop :=
  (∀ e ∈ st.disk, EntryOK st.fs e.1 e.2) ∧ (∀ e ∈ st.mem, EntryOK st.fs e.1.2 e.2)

theorem inv_init : Inv init := by
  constructor <;> intro e he <;> simp [init] at he

theorem staleAt_false {st : State} {p : Path} :
    staleAt st p = false ↔
      (∀ e ∈ st.disk, e.1.path = p → EntryOK st.fs e.1 e.2) ∧
      (∀ e ∈ st.mem, e.1.2.path = p → EntryOK st.fs e.1.2 e.2) := by
  unfold staleAt EntryOK
  cases hp : st.fs p with
  | none =>
    simp only [true_iff]
    constructor
    · intro e _ h c hc; rw [h, hp] at hc; cases hc
    · intro e _ h c hc; rw [h, hp] at hc; cases hc
  | some cm =>
    obtain ⟨c, m⟩ := cm
    simp only [Bool.or_eq_false_iff, List.any_eq_false, Bool.and_eq_true, beq_iff_eq, bne_iff_ne, ne_eq,
      not_and, Decidable.not_not]
    constructor
    · rintro ⟨h1, h2⟩
      constructor
      · intro e he hpe c' hc'
        rw [hpe, hp] at hc'
        cases hc'
        exact h1 e he ⟨hpe, rfl⟩
      · intro e he hpe c' hc'
        rw [hpe, hp] at hc'
        cases hc'
        exact h2 e he ⟨hpe, rfl⟩
    · rintro ⟨h1, h2⟩
      constructor
      · intro e he hpe
        exact h1 e he hpe.1 c (by rw [hpe.1, hp, hpe.2])
      · intro e he hpe
        exact h2 e he hpe.1 c (by rw [hpe.1, hp, hpe.2])

theorem inv_iff_noStale (st : State) : Inv st ↔ ∀ p, staleAt st p = false := by
  constructor
  · intro h p
    exact staleAt_false.mpr ⟨fun e he _ => h.1 e he, fun e he _ => h.2 e he⟩
  · intro h
    exact ⟨fun e he => (staleAt_false.mp (h e.1.path)).1 e he rfl,
           fun e he => (staleAt_false.mp (h e.1.2.path)).2 e he rfl⟩

theorem mem_of_lookup {α β} [BEq α] [LawfulBEq α] {k : α} {v : β} {l : List (α × β)}
    (h : l.lookup k = some v) : (k, v) ∈ l := by
  induction l with
  | nil => simp at h
  | cons x xs ih =>
    obtain ⟨a, b⟩ := x
    rw [List.lookup_cons] at h
    by_cases hk : (k == a) = true
    · simp only [hk] at h
      cases h
      have : k = a := by simpa using hk
      subst this
      simp
    · simp only [hk] at h
      exact List.mem_cons_of_mem _ (ih h)

/-- Frame property of the file operations: a path that is not `touched` keeps its state or disappears. -/
theorem fsStep_frame (fs : FS) (op : Op) (x : Path) (hx : x ∉ touched op) :
    fsStep fs op x = fs x ∨ fsStep fs op x = none := by
  cases op with
  | write p c t =>
    simp [touched] at hx
    simp [fsStep, FS.set, hx]
  | utime p t =>
    simp [touched] at hx
    simp only [fsStep]
    cases fs p with
    | none => simp
    | some cm => simp [FS.set, hx]
  | rename p q =>
    simp [touched] at hx
    simp only [fsStep]
    by_cases hpq : p = q
    · simp [hpq]
    · simp only [hpq, if_false]
      cases fs p with
      | none => simp
      | some cm =>
        by_cases hxp : x = p
        · simp [FS.set, hxp]
        · simp [FS.set, hxp, hx]
  | copy2 p q =>
    simp [touched] at hx
    simp only [fsStep]
    by_cases hpq : p = q
    · simp [hpq]
    · simp only [hpq, if_false]
      cases fs p with
      | none => simp
      | some cm => simp [FS.set, hx]
  | hash s cls p => simp [fsStep]
  | hashFresh cls p => simp [fsStep]
  | newProcess s => simp [fsStep]
  | cleanUp vs => simp [fsStep]

theorem entryOK_of_frame {fs fs' : FS} {k : Key} {v : Content}
    (h : fs' k.path = fs k.path ∨ fs' k.path = none) (hok : EntryOK fs k v) : EntryOK fs' k v := by
  intro c hc
  rcases h with h | h
  · rw [h] at hc; exact hok c hc
  · rw [h] at hc; cases hc

/-- The file system after a step is `fsStep` of the file system before (cache operations do not touch it). -/
theorem step_fs (st : State) (op : Op) : (step st op).1.fs = fsStep st.fs op := by
  have hw : ∀ sess cls p, (hashWith st sess cls p).1.fs = st.fs := by
    intro sess cls p
    unfold hashWith
    split
    · rfl
    · simp only
      split
      · rfl
      · split <;> rfl
  cases op <;> simp only [step, fsStep, hw]

/-- What a hash operation does to the caches: nothing, or it adds entries for the key of the file as it is
    now, computed from the content as it is now. -/
theorem hashWith_spec (st : State) (sess : Option Sess) (cls : Cls) (p : Path) :
    let r := hashWith st sess cls p
    r.1.fs = st.fs ∧
    (∀ e ∈ r.1.disk, e ∈ st.disk ∨ ∃ c m, st.fs p = some (c, m) ∧ e = (⟨cls, p, m⟩, c)) ∧
    (∀ e ∈ r.1.mem, e ∈ st.mem ∨ ∃ s c m, st.fs p = some (c, m) ∧ e = ((s, ⟨cls, p, m⟩), c)) := by
  unfold hashWith
  cases hp : st.fs p with
  | none => simp
  | some cm =>
    obtain ⟨c, m⟩ := cm
    simp only
    split
    · exact ⟨rfl, fun e he => Or.inl he, fun e he => Or.inl he⟩
    · split
      · exact ⟨rfl, fun e he => Or.inl he, fun e he => Or.inl he⟩
      · refine ⟨rfl, ?_, ?_⟩
        · intro e he
          simp only [List.mem_cons] at he
          rcases he with he | he
          · right; exact ⟨c, m, rfl, he⟩
          · left; exact he
        · intro e he
          cases sess with
          | none => left; exact he
          | some s =>
            simp only [List.mem_cons] at he
            rcases he with he | he
            · right; exact ⟨s, c, m, rfl, he⟩
            · left; exact he

theorem inv_hashWith {st : State} (h : Inv st) (sess : Option Sess) (cls : Cls) (p : Path) :
    Inv (hashWith st sess cls p).1 := by
  obtain ⟨hfs, hd, hm⟩ := hashWith_spec st sess cls p
  constructor
  · intro e he
    rw [hfs]
    rcases hd e he with h0 | ⟨c, m, hp, rfl⟩
    · exact h.1 e h0
    · intro c' hc'
      simp only at hc'
      rw [hp] at hc'
      cases hc'; rfl
  · intro e he
    rw [hfs]
    rcases hm e he with h0 | ⟨s, c, m, hp, rfl⟩
    · exact h.2 e h0
    · intro c' hc'
      simp only at hc'
      rw [hp] at hc'
      cases hc'; rfl

/-- Under the invariant a hash operation answers with the current content. -/
theorem hashWith_out {st : State} (h : Inv st) (sess : Option Sess) (cls : Cls) (p : Path) :
    (hashWith st sess cls p).2 = (st.fs p).map (·.1) := by
  unfold hashWith
  cases hp : st.fs p with
  | none => simp
  | some cm =>
    obtain ⟨c, m⟩ := cm
    simp only [Option.map_some]
    split
    · rename_i v hv
      cases sess with
      | none => simp at hv
      | some s =>
        simp only [Option.bind_some] at hv
        have hmem := mem_of_lookup hv
        have := h.2 _ hmem c (by simpa using hp)
        simpa using this
    · split
      · rename_i v hv
        have hmem := mem_of_lookup hv
        have := h.1 _ hmem c (by simpa using hp)
        simpa using this
      · rfl


theorem inv_fs_change {st : State} (h : Inv st) (fs' : FS) (T : List Path)
    (hframe : ∀ x, x ∉ T → fs' x = st.fs x ∨ fs' x = none)
    (hf : ∀ p ∈ T, staleAt { st with fs := fs' } p = false) : Inv { st with fs := fs' } := by
  constructor
  · intro e he
    by_cases hx : e.1.path ∈ T
    · exact (staleAt_false.mp (hf _ hx)).1 e he rfl
    · exact entryOK_of_frame (hframe _ hx) (h.1 e he)
  · intro e he
    by_cases hx : e.1.2.path ∈ T
    · exact (staleAt_false.mp (hf _ hx)).2 e he rfl
    · exact entryOK_of_frame (hframe _ hx) (h.2 e he)

/-- One step keeps the invariant, provided the paths it touched are not left stale. -/
theorem inv_step {st : State} (h : Inv st) (op : Op)
    (hf : ∀ p ∈ touched op, staleAt (step st op).1 p = false) : Inv (step st op).1 := by
  cases op with
  | hash s cls p => exact inv_hashWith h _ _ _
  | hashFresh cls p => exact inv_hashWith h _ _ _
  | newProcess s =>
    exact ⟨h.1, fun e he => h.2 e (List.mem_filter.mp he).1⟩
  | cleanUp vs =>
    exact ⟨fun e he => h.1 e (List.mem_filter.mp he).1, h.2⟩
  | write p c t => exact inv_fs_change h _ _ (fsStep_frame st.fs (.write p c t)) hf
  | utime p t => exact inv_fs_change h _ _ (fsStep_frame st.fs (.utime p t)) hf
  | rename p q => exact inv_fs_change h _ _ (fsStep_frame st.fs (.rename p q)) hf
  | copy2 p q => exact inv_fs_change h _ _ (fsStep_frame st.fs (.copy2 p q)) hf

/-- Under the invariant every operation answers as the reference does. -/
theorem step_out {st : State} (h : Inv st) (op : Op) : (step st op).2 = specOut st.fs op := by
  cases op <;> simp only [step, specOut, hashWith_out h]

/-- Invariant-style core of C09: from any state satisfying the invariant, a history that never leaves a touched
    path stale is answered exactly as the reference answers it. -/
theorem run_eq_spec_of_fresh (ops : List Op) : ∀ (st : State), Inv st → freshFrom st ops = true →
    run st ops = specRun st.fs ops ∧ Inv (exec st ops) := by
  induction ops with
  | nil => intro st h _; exact ⟨rfl, h⟩
  | cons op ops ih =>
    intro st h hf
    simp only [freshFrom, Bool.and_eq_true, List.all_eq_true, Bool.not_eq_true'] at hf
    have h' := inv_step h op hf.1
    obtain ⟨ih1, ih2⟩ := ih _ h' hf.2
    refine ⟨?_, ih2⟩
    simp only [run, specRun, step_out h, ih1, step_fs]

end PydraModel.FileHash
