import PydraModel.Envs.Container
/-
Helper lemmas for C27 (containers): lookups in the binding list, the fold over field entries.
-/
namespace PydraModel.Envs.Container

/-! ### lookups in a binding list -/

def getB (bs : List Bind) (d : Str) : Option Bind := bs.find? (fun b => b.host == d)

def hosts (bs : List Bind) : List Str := bs.map (·.host)

theorem getB_cons (b : Bind) (bs : List Bind) (d : Str) :
    getB (b :: bs) d = if b.host == d then some b else getB bs d := by
  unfold getB
  simp only [List.find?_cons]
  cases (b.host == d) <;> rfl

theorem upsert_cons (b : Bind) (bs : List Bind) (h c : Str) (rw : Bool) :
    upsert (b :: bs) h c rw = if b.host == h then ⟨h, c, rw || b.rw⟩ :: bs else b :: upsert bs h c rw := rfl

theorem setCache_cons (b : Bind) (bs : List Bind) (h c : Str) :
    setCache (b :: bs) h c = if b.host == h then ⟨h, c, true⟩ :: bs else b :: setCache bs h c := rfl

def rwOf (o : Option Bind) : Bool := match o with | some b => b.rw | none => false

theorem getB_upsert (bs : List Bind) (h c : Str) (rw : Bool) (d : Str) :
    getB (upsert bs h c rw) d =
      if h == d then some ⟨h, c, rw || rwOf (getB bs h)⟩ else getB bs d := by
  induction bs with
  | nil =>
    cases hd : (h == d) <;> simp [upsert, getB, rwOf, hd]
  | cons b bs ih =>
    rw [upsert_cons]
    cases hb : (b.host == h)
    · -- b is another directory
      simp only [Bool.false_eq_true, if_false, getB_cons, ih, hb]
      cases hd : (h == d)
      · simp
      · have hhd : h = d := by simpa using hd
        have : (b.host == d) = false := by rw [← hhd]; exact hb
        simp [this]
    · have hbh : b.host = h := by simpa using hb
      simp only [if_true, getB_cons, hb]
      cases hd : (h == d)
      · have : (b.host == d) = false := by rw [hbh]; exact hd
        simp [this]
      · simp [rwOf]

theorem hosts_upsert (bs : List Bind) (h c : Str) (rw : Bool) :
    hosts (upsert bs h c rw) = if bs.any (fun b => b.host == h) then hosts bs else hosts bs ++ [h] := by
  induction bs with
  | nil => simp [upsert, hosts]
  | cons b bs ih =>
    rw [upsert_cons]
    cases hb : (b.host == h)
    · simp only [Bool.false_eq_true, if_false, hosts, List.map_cons, List.any_cons, hb, Bool.false_or] at ih ⊢
      rw [ih]
      split <;> simp
    · have hbh : b.host = h := by simpa using hb
      simp [hosts, hbh]

theorem hosts_setCache (bs : List Bind) (h c : Str) :
    hosts (setCache bs h c) = if bs.any (fun b => b.host == h) then hosts bs else hosts bs ++ [h] := by
  induction bs with
  | nil => simp [setCache, hosts]
  | cons b bs ih =>
    rw [setCache_cons]
    cases hb : (b.host == h)
    · simp only [Bool.false_eq_true, if_false, hosts, List.map_cons, List.any_cons, hb, Bool.false_or] at ih ⊢
      rw [ih]
      split <;> simp
    · have hbh : b.host = h := by simpa using hb
      simp [hosts, hbh]

theorem getB_setCache (bs : List Bind) (h c : Str) (d : Str) :
    getB (setCache bs h c) d = if h == d then some ⟨h, c, true⟩ else getB bs d := by
  induction bs with
  | nil => cases hd : (h == d) <;> simp [setCache, getB, hd]
  | cons b bs ih =>
    rw [setCache_cons]
    cases hb : (b.host == h)
    · simp only [Bool.false_eq_true, if_false, getB_cons, ih]
      cases hd : (h == d)
      · simp
      · have hhd : h = d := by simpa using hd
        have : (b.host == d) = false := by rw [← hhd]; exact hb
        simp [this]
    · have hbh : b.host = h := by simpa using hb
      simp only [if_true, getB_cons]
      cases hd : (h == d)
      · have : (b.host == d) = false := by rw [hbh]; exact hd
        simp [this]
      · simp

theorem nodup_append_singleton (l : List Str) (h : Str) (hl : l.Nodup) (hn : h ∉ l) : (l ++ [h]).Nodup := by
  rw [List.nodup_append]
  refine ⟨hl, by simp, ?_⟩
  intro a ha b hb
  simp at hb
  subst hb
  intro e
  subst e
  exact hn ha

theorem any_host_false (bs : List Bind) (h : Str) (hf : bs.any (fun b => b.host == h) = false) : h ∉ hosts bs := by
  intro hm
  simp only [hosts, List.mem_map] at hm
  obtain ⟨b, hb, rfl⟩ := hm
  have : bs.any (fun b' => b'.host == b.host) = true := List.any_eq_true.mpr ⟨b, hb, by simp⟩
  rw [this] at hf
  exact absurd hf (by decide)

theorem nodup_upsert (bs : List Bind) (h c : Str) (rw : Bool) (hn : (hosts bs).Nodup) :
    (hosts (upsert bs h c rw)).Nodup := by
  rw [hosts_upsert]
  cases ha : bs.any (fun b => b.host == h)
  · simpa using nodup_append_singleton _ _ hn (any_host_false bs h ha)
  · simpa using hn

theorem nodup_setCache (bs : List Bind) (h c : Str) (hn : (hosts bs).Nodup) :
    (hosts (setCache bs h c)).Nodup := by
  rw [hosts_setCache]
  cases ha : bs.any (fun b => b.host == h)
  · simpa using nodup_append_singleton _ _ hn (any_host_false bs h ha)
  · simpa using hn

/-! ### folding the entries -/

theorem applyEntries_cons (root : Str) (bs : List Bind) (e : Str × Bool) (es : List (Str × Bool)) :
    applyEntries upsert root bs (e :: es) = applyEntries upsert root (upsert bs e.1 (envDir root e.1) e.2) es := rfl

theorem nodup_applyEntries (root : Str) (es : List (Str × Bool)) (bs : List Bind) (hn : (hosts bs).Nodup) :
    (hosts (applyEntries upsert root bs es)).Nodup := by
  induction es generalizing bs with
  | nil => exact hn
  | cons e es ih => rw [applyEntries_cons]; exact ih _ (nodup_upsert _ _ _ _ hn)

/-- does some entry ask for write access to directory `d` -/
def wantsRw (es : List (Str × Bool)) (d : Str) : Bool := es.any (fun e => e.1 == d && e.2)

def touches (es : List (Str × Bool)) (d : Str) : Bool := es.any (fun e => e.1 == d)

theorem getB_applyEntries (root : Str) (es : List (Str × Bool)) (bs : List Bind) (d : Str) :
    getB (applyEntries upsert root bs es) d =
      if touches es d then some ⟨d, envDir root d, wantsRw es d || rwOf (getB bs d)⟩ else getB bs d := by
  induction es generalizing bs with
  | nil => simp [applyEntries, touches]
  | cons e es ih =>
    rw [applyEntries_cons, ih, getB_upsert]
    cases hed : (e.1 == d)
    · simp [touches, wantsRw, hed]
    · have he : e.1 = d := by simpa using hed
      subst he
      cases ht : touches es e.1
      · have hw : wantsRw es e.1 = false := by
          unfold wantsRw
          unfold touches at ht
          rw [List.any_eq_false] at ht ⊢
          intro x hx
          have := ht x hx
          simp only [Bool.not_eq_true] at this
          simp [this]
        have ht' : touches (e :: es) e.1 = true := by simp [touches]
        have hw' : wantsRw (e :: es) e.1 = e.2 := by
          unfold wantsRw at hw ⊢
          simp [List.any_cons, hw]
        rw [ht', hw']
        simp [rwOf]
      · simp only [touches, wantsRw] at ht ⊢
        simp only [List.any_cons, hed, ht, Bool.true_or, Bool.true_and, if_true, rwOf]
        cases e.2 <;> cases (match getB bs e.1 with | some b => b.rw | none => false) <;> simp

theorem getB_some_mem (bs : List Bind) (d : Str) (b : Bind) (h : getB bs d = some b) : b ∈ bs ∧ b.host = d := by
  unfold getB at h
  exact ⟨List.mem_of_find?_eq_some h, by simpa using List.find?_some h⟩

theorem mem_getB (bs : List Bind) (b : Bind) (hn : (hosts bs).Nodup) (hb : b ∈ bs) : getB bs b.host = some b := by
  induction bs with
  | nil => cases hb
  | cons x xs ih =>
    rw [getB_cons]
    simp only [hosts, List.map_cons, List.nodup_cons] at hn
    rcases List.mem_cons.mp hb with rfl | hx
    · simp
    · have hne : (x.host == b.host) = false := by
        apply Bool.eq_false_iff.mpr
        intro e
        have : x.host = b.host := by simpa using e
        apply hn.1
        rw [this]
        exact List.mem_map.mpr ⟨b, hx, rfl⟩
      simp [hne]
      exact ih hn.2 hx

theorem touches_entries (fields : List Field) (d : Str) :
    touches (entries fields) d = fields.any (fun f => f.files.any (fun p => p.1 == d)) := by
  unfold touches entries
  induction fields with
  | nil => rfl
  | cons f fs ih =>
    simp only [List.flatMap_cons, List.any_append, List.any_cons, ih, List.any_map]
    rfl

theorem wantsRw_entries (fields : List Field) (d : Str) :
    wantsRw (entries fields) d = fields.any (fun f => f.rw && f.files.any (fun p => p.1 == d)) := by
  unfold wantsRw entries
  induction fields with
  | nil => rfl
  | cons f fs ih =>
    simp only [List.flatMap_cons, List.any_append, List.any_cons, ih, List.any_map]
    congr 1
    cases f.rw <;> simp [Function.comp_def]

end PydraModel.Envs.Container
