import PydraModel.Basic
/-
Engine `Envs`, part Container (DESIGN §5.7, property C27): `Container.get_bindings`, `Docker.execute`,
`Singularity.execute` (pydra/environments/base.py, docker.py, singularity.py) as they are in the working tree
(after the repairs D17 — mount arguments are separate list items —, D17l — list-of-file inputs reach the sequence
branch —, D17m — a directory once requested read-write stays read-write).

Values are modelled with PATH ATOMS: an argument is a list of atoms, an atom is a literal piece of text or a path
(host directory, file name).  "Every host input path p is replaced by <root>p" is substitution on atoms, never on
substrings.  The native argument vector is an input of the model (list of atom lists); how it is built from the
task definition is the Argv engine's subject.
-/
namespace PydraModel.Envs.Container

abbrev Str := List Char

inductive Atom where
  | lit (s : Str)
  | path (dir : Str) (name : Str)
  deriving DecidableEq, Repr

abbrev Arg := List Atom

/-! ### pathlib -/

def leadingSlashes : Str → Nat
  | '/' :: cs => leadingSlashes cs + 1
  | _ => 0

def joinSlash : List Str → Str
  | [] => []
  | [c] => c
  | c :: cs => c ++ '/' :: joinSlash cs

/-- `str(PurePosixPath(s))`: repeated slashes and `.` components are dropped, a trailing slash is dropped,
    exactly two leading slashes are kept (POSIX), `..` is kept. -/
def normPath (s : Str) : Str :=
  let comps := (splitOnChar '/' s).filter (fun c => !(c == [] || c == ['.']))
  let n := leadingSlashes s
  let root : Str := if n == 2 then ['/', '/'] else if n ≥ 1 then ['/'] else []
  if comps == [] then (if root == [] then ['.'] else root) else root ++ joinSlash comps

/-- `Path(d) / name` rendered, for a normalised directory `d` -/
def joinPath (d name : Str) : Str :=
  if d == ['/'] || d == ['/', '/'] then d ++ name else d ++ '/' :: name

/-- `s.rstrip('/')` -/
def rstripSlash (s : Str) : Str := (s.reverse.dropWhile (· == '/')).reverse

/-- `Path(f"{root}{fileset.parent}")`: where a host directory is found inside the container -/
def envDir (root d : Str) : Str := normPath (root ++ d)

/-! ### remapping of the argument vector -/

def mapPathsAtom (f : Str → Str) : Atom → Atom
  | .lit s => .lit s
  | .path d n => .path (f d) n

def mapPaths (f : Str → Str) (a : Arg) : Arg := a.map (mapPathsAtom f)

def renderAtom : Atom → Str
  | .lit s => s
  | .path d n => joinPath d n

def renderArg (a : Arg) : Str := (a.map renderAtom).flatten

/-- literal pieces and path atoms of an argument -/
def lits (a : Arg) : List Str := a.filterMap (fun | .lit s => some s | .path _ _ => none)
def paths (a : Arg) : List (Str × Str) := a.filterMap (fun | .lit _ => none | .path d n => some (d, n))

/-! ### bindings -/

structure Bind where
  host : Str
  cont : Str
  rw : Bool
  deriving DecidableEq, Repr

/-- one File-typed input (or output) field with a value: its files as (host directory, name), and whether the
    field asks for write access (`copy_mode == copy` or an `outarg`) -/
structure Field where
  files : List (Str × Str)
  rw : Bool
  deriving Repr

/-- `bindings[host_path] = (env_path, mode)` of `map_path` in the working tree: insertion order of a dict, and a
    directory that was already requested read-write stays read-write -/
def upsert : List Bind → Str → Str → Bool → List Bind
  | [], h, c, rw => [⟨h, c, rw⟩]
  | b :: bs, h, c, rw => if b.host == h then ⟨h, c, rw || b.rw⟩ :: bs else b :: upsert bs h c rw

/-- the same assignment before repair D17m: the last writer decides the mode -/
def upsertLast : List Bind → Str → Str → Bool → List Bind
  | [], h, c, rw => [⟨h, c, rw⟩]
  | b :: bs, h, c, rw => if b.host == h then ⟨h, c, rw⟩ :: bs else b :: upsertLast bs h c rw

/-- all (directory, mode request) pairs in field order, files in list order -/
def entries (fields : List Field) : List (Str × Bool) :=
  fields.flatMap (fun f => f.files.map (fun p => (p.1, f.rw)))

def applyEntries (ups : List Bind → Str → Str → Bool → List Bind) (root : Str) (bs : List Bind)
    (es : List (Str × Bool)) : List Bind :=
  es.foldl (fun acc e => ups acc e.1 (envDir root e.1) e.2) bs

/-- `bindings[job.cache_root] = (f"{self.root.rstrip('/')}{job.cache_root.absolute()}", "rw")`: plain assignment -/
def setCache : List Bind → Str → Str → List Bind
  | [], h, c => [⟨h, c, true⟩]
  | b :: bs, h, c => if b.host == h then ⟨h, c, true⟩ :: bs else b :: setCache bs h c

structure Cfg where
  root : Str
  image : Str
  tag : Str
  xargs : List Str
  cacheRoot : Str
  cacheDir : Str
  deriving Repr

def cacheCont (cfg : Cfg) : Str := rstripSlash cfg.root ++ cfg.cacheRoot

/-- `Container.get_bindings` (first component) -/
def bindings (cfg : Cfg) (fields : List Field) : List Bind :=
  setCache (applyEntries upsert cfg.root [] (entries fields)) cfg.cacheRoot (cacheCont cfg)

def modeStr (rw : Bool) : Str := if rw then "rw".toList else "ro".toList

def bindStr (b : Bind) : Str := b.host ++ ':' :: b.cont ++ ':' :: modeStr b.rw

/-- `for key, val in mounts.items(): args.extend([flag, f"{key}:{val[0]}:{val[1]}"])` -/
def mountArgs (flag : Str) (bs : List Bind) : List Str := bs.flatMap (fun b => [flag, bindStr b])

/-- the remapped native argument vector -/
def remapArgv (root : Str) (native : List Arg) : List Str :=
  native.map (fun a => renderArg (mapPaths (envDir root) a))

def dockerArgv (cfg : Cfg) (fields : List Field) (native : List Arg) : List Str :=
  ["docker".toList, "run".toList] ++ cfg.xargs ++ mountArgs "-v".toList (bindings cfg fields)
    ++ ["-w".toList, cfg.root ++ cfg.cacheDir] ++ [cfg.image ++ ':' :: cfg.tag] ++ remapArgv cfg.root native

def singularityArgv (cfg : Cfg) (fields : List Field) (native : List Arg) : List Str :=
  ["singularity".toList, "exec".toList] ++ cfg.xargs ++ mountArgs "-B".toList (bindings cfg fields)
    ++ ["--pwd".toList, rstripSlash cfg.root ++ cfg.cacheDir] ++ [cfg.image ++ ':' :: cfg.tag]
    ++ remapArgv cfg.root native

/-! ### the pinned commit's mount arguments (D17, repaired): joined with spaces and re-split -/

/-- `" ".join(...)` then `.split()` restricted to the blank: what the pinned commit did to the mount list -/
def splitBlank (s : Str) : List Str := (splitOnChar ' ' s).filter (fun c => !(c == []))

def mountArgsPinned (flag : Str) (bs : List Bind) : List Str :=
  (bs.map (fun b => splitBlank (flag ++ ' ' :: bindStr b))).flatten

end PydraModel.Envs.Container
