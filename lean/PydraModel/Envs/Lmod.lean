import PydraModel.Basic
/-
Engine `Envs`, part Lmod (DESIGN §5.7, property C39): `Lmod.execute` and the regex by which it reads the
output of `lmod python load <modules>` (pydra/environments/lmod.py).

    env = dict(os.environ)
    for key, value in re.findall(r"""os\.environ\[['"](.*?)['"]\]\s*=\s*['"](.*?)['"]""", env_src):
        env[key] = value
    cmd_args = job.task._command_args(values=job.inputs)
    base.execute(cmd_args, env=env)

Strings are `List Char`.  The regex is modelled by a hand-written backtracking matcher; the regex source
string is regenerated from /repo on every run (`Gen/EnvRegexes.lean`) and pinned in `Props/C39.lean`.
-/
namespace PydraModel.Envs.Lmod

abbrev Str := List Char

/-- `['"]` -/
def isQuote (c : Char) : Bool := c == '\'' || c == '"'

/-- code points matched by `\s` in a Python `str` pattern (= `str.isspace`, = the separators of `str.split()`) -/
def spaceCodes : List Nat :=
  [9, 10, 11, 12, 13, 28, 29, 30, 31, 32, 133, 160, 5760, 8192, 8193, 8194, 8195, 8196, 8197, 8198, 8199,
   8200, 8201, 8202, 8232, 8233, 8239, 8287, 12288]

def isPySpace (c : Char) : Bool := spaceCodes.contains c.toNat

/-- greedy `\s*` (what follows it in the pattern is never a space, so no backtracking is needed) -/
def dropSpaces : Str → Str
  | [] => []
  | c :: cs => if isPySpace c then dropSpaces cs else c :: cs

/-- `(.*?)['"]` as the last piece of the pattern: the capture runs up to the first quote character of either
    kind; `.` does not match a newline.  Result: (capture, text after the closing quote). -/
def lazyToQuote : Str → Option (Str × Str)
  | [] => none
  | c :: cs =>
    if isQuote c then some ([], cs)
    else if c == '\n' then none
    else match lazyToQuote cs with
      | some (v, r) => some (c :: v, r)
      | none => none

/-- `\]\s*=\s*['"](.*?)['"]` -/
def afterKey : Str → Option (Str × Str)
  | ']' :: s1 =>
    match dropSpaces s1 with
    | '=' :: s2 =>
      match dropSpaces s2 with
      | q :: s3 => if isQuote q then lazyToQuote s3 else none
      | [] => none
    | _ => none
  | _ => none

/-- `(.*?)['"]\]\s*=\s*['"](.*?)['"]`: the lazy key capture is extended one character at a time until the rest
    of the pattern matches (backtracking), never across a newline.  Result: (key, value, rest). -/
def matchKey : Str → Option (Str × Str × Str)
  | [] => none
  | c :: cs =>
    match (if isQuote c then afterKey cs else none) with
    | some (v, r) => some ([], v, r)
    | none =>
      if c == '\n' then none
      else match matchKey cs with
        | some (k, v, r) => some (c :: k, v, r)
        | none => none

/-- the literal head `os\.environ\[` -/
def head : Str := "os.environ[".toList

def dropPrefix? : Str → Str → Option Str
  | [], s => some s
  | _ :: _, [] => none
  | p :: ps, c :: cs => if p == c then dropPrefix? ps cs else none

/-- the whole pattern anchored at the start of `s` -/
def matchAt (s : Str) : Option (Str × Str × Str) :=
  match dropPrefix? head s with
  | some (q :: r) => if isQuote q then matchKey r else none
  | _ => none

/-- `re.findall`: leftmost match, then continue after its end.  `skip` = characters still covered by the
    previous match (a structural way of "continue after the end of the match"). -/
def findAllGo : Nat → Str → List (Str × Str)
  | _, [] => []
  | skip + 1, _ :: cs => findAllGo skip cs
  | 0, c :: cs =>
    match matchAt (c :: cs) with
    | some (k, v, r) => (k, v) :: findAllGo ((c :: cs).length - r.length - 1) cs
    | none => findAllGo 0 cs

/-- the `(key, value)` pairs `Lmod.execute` reads from lmod's output -/
def parseLmod (out : Str) : List (Str × Str) := findAllGo 0 out

/-! ### environments (Python `dict`: insertion ordered, assignment replaces in place) -/

abbrev Env := List (Str × Str)

def Env.get (e : Env) (k : Str) : Option Str :=
  match e.find? (fun kv => kv.1 == k) with
  | some kv => some kv.2
  | none => none

def Env.set : Env → Str → Str → Env
  | [], k, v => [(k, v)]
  | (k', v') :: e, k, v => if k' == k then (k', v) :: e else (k', v') :: Env.set e k v

/-- `env = dict(os.environ); for key, value in …: env[key] = value` -/
def applyAssignments (caller : Env) (asg : List (Str × Str)) : Env :=
  asg.foldl (fun e kv => e.set kv.1 kv.2) caller

/-- the environment handed to the child process -/
def lmodEnv (caller : Env) (out : Str) : Env := applyAssignments caller (parseLmod out)

/-- the algorithm of the pinned commit (D23): the child's environment was built from lmod's output only -/
def lmodEnvPinned (_caller : Env) (out : Str) : Env := applyAssignments [] (parseLmod out)

/-- what `base.execute` receives: (argv, env).  The native environment passes the caller's environment. -/
def lmodExecute (caller : Env) (out : Str) (argv : List Str) : List Str × Env := (argv, lmodEnv caller out)
def nativeExecute (caller : Env) (argv : List Str) : List Str × Env := (argv, caller)

/-! ### several jobs on one `Lmod` object

The lmod executable is external: its output is a function of the requested modules and of the environment it runs in
(a prepend is printed as a full assignment computed from the current value).  An environment object serves many jobs;
`σ` is whatever the object carries from one `execute` to the next. -/

abbrev Loader := List Str → Env → Str

structure Run where
  mods : List Str
  caller : Env

/-- the single-run semantics: `execute` as a function of (modules, caller environment) only -/
def executeEnv (load : Loader) (r : Run) : Env := lmodEnv r.caller (load r.mods r.caller)

/-- a history of executions on one object with per-object state `σ` -/
def runObj {σ : Type} (step : σ → Run → σ × Env) : σ → List Run → List Env
  | _, [] => []
  | s, r :: rs => let (s', e) := step s r; e :: runObj step s' rs

/-- the working tree: `execute` reads `self.modules`, runs lmod, writes nothing on `self` — no state -/
def stepTree (load : Loader) : Unit → Run → Unit × Env := fun _ r => ((), executeEnv load r)

/-- a memoising variant: lmod is run for the first job only and its output replayed for later jobs -/
def stepMemo (load : Loader) : Option Str → Run → Option Str × Env
  | none, r => let src := load r.mods r.caller; (some src, lmodEnv r.caller src)
  | some src, r => (some src, lmodEnv r.caller src)

/-- an lmod whose only module prepends `dir` to `var` -/
def prependLoader (var dir : Str) : Loader := fun _ caller =>
  head ++ '\'' :: var ++ "'] = '".toList ++ (match caller.get var with
    | some old => dir ++ ':' :: old
    | none => dir) ++ "';\n".toList

/-! ### what a simulated lmod prints -/

/-- one assignment line as printed by the simulated lmod: `os.environ[<q1>k<q1>] = <q2>v<q2>;` + newline, the
    value text is printed raw between the quotes (no escaping) -/
def renderLine (q1 q2 : Char) (k v : Str) : Str :=
  head ++ q1 :: k ++ q1 :: "] = ".toList ++ q2 :: v ++ q2 :: ";\n".toList

structure Item where
  q1 : Char
  q2 : Char
  key : Str
  val : Str

def render (items : List Item) : Str := items.flatMap (fun i => renderLine i.q1 i.q2 i.key i.val)

/-- Python-`repr`-style quoting of a value with quote character `q`: backslash, `q` and newline are escaped -/
def pyEscape (q : Char) : Str → Str
  | [] => []
  | c :: cs =>
    if c == '\\' then '\\' :: '\\' :: pyEscape q cs
    else if c == q then '\\' :: c :: pyEscape q cs
    else if c == '\n' then '\\' :: 'n' :: pyEscape q cs
    else c :: pyEscape q cs

/-- a character that survives the trip through lmod's quoting and the regex unchanged -/
def plainChar (c : Char) : Bool := !(isQuote c) && c != '\n' && c != '\\'

end PydraModel.Envs.Lmod
