import PydraModel.Envs.Lmod
/-
Helper lemmas for C39 (Lmod): environment update algebra and the parser round trip.
-/
namespace PydraModel.Envs.Lmod

def lastAssign : List (Str × Str) → Str → Option Str
  | [], _ => none
  | a :: as, k =>
    match lastAssign as k with
    | some v => some v
    | none => if a.1 == k then some a.2 else none

theorem get_cons (x : Str × Str) (xs : Env) (k : Str) :
    Env.get (x :: xs) k = if x.1 == k then some x.2 else Env.get xs k := by
  unfold Env.get
  simp only [List.find?_cons]
  cases (x.1 == k) <;> rfl

theorem set_cons (x : Str × Str) (xs : Env) (k v : Str) :
    Env.set (x :: xs) k v = if x.1 == k then (x.1, v) :: xs else x :: Env.set xs k v := by
  obtain ⟨a, b⟩ := x
  rfl

theorem get_set_same (e : Env) (k v : Str) : (e.set k v).get k = some v := by
  induction e with
  | nil => simp [Env.set, Env.get]
  | cons x xs ih =>
    rw [set_cons]
    cases h : (x.1 == k)
    · simp [get_cons, h, ih]
    · simp [get_cons, h]

theorem get_set_other (e : Env) (k v k2 : Str) (hne : k2 ≠ k) : (e.set k v).get k2 = e.get k2 := by
  induction e with
  | nil =>
    have : (k == k2) = false := by simp; exact fun h => hne h.symm
    simp [Env.set, Env.get, this]
  | cons x xs ih =>
    rw [set_cons]
    cases h : (x.1 == k)
    · simp [get_cons, ih]
    · have hk : x.1 = k := by simpa using h
      have : (x.1 == k2) = false := by simp [hk]; exact fun h => hne h.symm
      simp [get_cons, this]

theorem keys_set (e : Env) (k v : Str) :
    (e.set k v).map (·.1) = if e.any (fun kv => kv.1 == k) then e.map (·.1) else e.map (·.1) ++ [k] := by
  induction e with
  | nil => simp [Env.set]
  | cons x xs ih =>
    rw [set_cons]
    cases h : (x.1 == k)
    · simp only [Bool.false_eq_true, if_false, List.map_cons, List.any_cons, h, Bool.false_or, ih]
      split <;> simp
    · simp [h]

theorem applyAssignments_cons (e : Env) (a : Str × Str) (as : List (Str × Str)) :
    applyAssignments e (a :: as) = applyAssignments (e.set a.1 a.2) as := rfl

theorem lastAssign_cons (a : Str × Str) (as : List (Str × Str)) (k : Str) :
    lastAssign (a :: as) k = match lastAssign as k with
      | some v => some v
      | none => if a.1 == k then some a.2 else none := rfl

theorem applyAssignments_get (asg : List (Str × Str)) (e : Env) (k : Str) :
    (applyAssignments e asg).get k = match lastAssign asg k with
      | some v => some v
      | none => e.get k := by
  induction asg generalizing e with
  | nil => simp [applyAssignments, lastAssign]
  | cons a as ih =>
    rw [applyAssignments_cons, ih, lastAssign_cons]
    cases hl : lastAssign as k with
    | some v => rfl
    | none =>
      cases hk : (a.1 == k)
      · have : k ≠ a.1 := by intro h; simp [h] at hk
        simp [get_set_other _ _ _ _ this]
      · have : a.1 = k := by simpa using hk
        simp [← this, get_set_same]
theorem set_keys_nodup (e : Env) (k v : Str) (h : (e.map (·.1)).Nodup) : ((e.set k v).map (·.1)).Nodup := by
  rw [keys_set]
  split
  · exact h
  · rename_i hany
    rw [List.nodup_append]
    refine ⟨h, by simp, ?_⟩
    intro a ha b hb
    simp at hb
    subst hb
    intro hab
    subst hab
    apply hany
    simp only [List.mem_map] at ha
    obtain ⟨kv, hkv, rfl⟩ := ha
    exact List.any_eq_true.mpr ⟨kv, hkv, by simp⟩

theorem applyAssignments_keys_nodup (asg : List (Str × Str)) (e : Env) (h : (e.map (·.1)).Nodup) :
    ((applyAssignments e asg).map (·.1)).Nodup := by
  induction asg generalizing e with
  | nil => exact h
  | cons a as ih => rw [applyAssignments_cons]; exact ih _ (set_keys_nodup e _ _ h)

/-! ### the matcher on rendered lines -/

/-- no quote character and no newline: what the round trip needs of a key or value -/
def Plain (s : Str) : Prop := ∀ c ∈ s, isQuote c = false ∧ c ≠ '\n'

instance (s : Str) : Decidable (Plain s) := by unfold Plain; exact inferInstance

theorem lazyToQuote_plain (v r : Str) (q : Char) (hv : Plain v) (hq : isQuote q = true) :
    lazyToQuote (v ++ q :: r) = some (v, r) := by
  induction v with
  | nil => simp [lazyToQuote, hq]
  | cons c cs ih =>
    have hc := hv c (by simp)
    have ih' := ih (fun d hd => hv d (by simp [hd]))
    simp only [List.cons_append, lazyToQuote, hc.1, Bool.false_eq_true, if_false]
    have : (c == '\n') = false := by simp [hc.2]
    simp [this, ih']

theorem isPySpace_space : isPySpace ' ' = true := by decide
theorem isPySpace_eq : isPySpace '=' = false := by decide
theorem isPySpace_of_quote (q : Char) (hq : isQuote q = true) : isPySpace q = false := by
  simp only [isQuote, Bool.or_eq_true, beq_iff_eq] at hq
  rcases hq with rfl | rfl <;> decide

theorem afterKey_render (v r : Str) (q : Char) (hv : Plain v) (hq : isQuote q = true) :
    afterKey ("] = ".toList ++ q :: v ++ q :: r) = some (v, r) := by
  have h1 : "] = ".toList = [']', ' ', '=', ' '] := rfl
  rw [h1]
  simp only [List.cons_append, List.nil_append, afterKey, dropSpaces, isPySpace_space, if_true, isPySpace_eq,
    Bool.false_eq_true, if_false, isPySpace_of_quote q hq, hq]
  simpa using lazyToQuote_plain v r q hv hq

theorem matchKey_render (k v r : Str) (q1 q2 : Char) (hk : Plain k) (hv : Plain v)
    (h1 : isQuote q1 = true) (h2 : isQuote q2 = true) :
    matchKey (k ++ q1 :: "] = ".toList ++ q2 :: v ++ q2 :: r) = some (k, v, r) := by
  induction k with
  | nil =>
    simp only [List.nil_append, List.cons_append, matchKey, h1, if_true]
    have := afterKey_render v r q2 hv h2
    simp only [List.cons_append, List.append_assoc] at this ⊢
    rw [this]
  | cons c cs ih =>
    have hc := hk c (by simp)
    have ih' := ih (fun d hd => hk d (by simp [hd]))
    have hn : (c == '\n') = false := by simp [hc.2]
    simp only [List.cons_append, List.append_assoc] at ih' ⊢
    simp only [matchKey, hc.1, Bool.false_eq_true, if_false, hn, ih']

theorem dropPrefix?_append (p s : Str) : dropPrefix? p (p ++ s) = some s := by
  induction p with
  | nil => rfl
  | cons c cs ih => simp [dropPrefix?, ih]

theorem matchAt_render (k v r : Str) (q1 q2 : Char) (hk : Plain k) (hv : Plain v)
    (h1 : isQuote q1 = true) (h2 : isQuote q2 = true) :
    matchAt (renderLine q1 q2 k v ++ r) = some (k, v, ";\n".toList ++ r) := by
  unfold matchAt renderLine
  simp only [List.append_assoc, dropPrefix?_append, List.cons_append, h1, if_true]
  have := matchKey_render k v (";\n".toList ++ r) q1 q2 hk hv h1 h2
  simpa [List.append_assoc] using this

theorem findAllGo_skip (xs ys : Str) : findAllGo xs.length (xs ++ ys) = findAllGo 0 ys := by
  induction xs with
  | nil => rfl
  | cons c cs ih => simpa [findAllGo] using ih

theorem matchAt_not_o (c : Char) (cs : Str) (h : c ≠ 'o') : matchAt (c :: cs) = none := by
  unfold matchAt head
  have : "os.environ[".toList = 'o' :: "s.environ[".toList := rfl
  rw [this]
  have hb : ('o' == c) = false := by simp; exact fun e => h e.symm
  simp [dropPrefix?, hb]

/-- one rendered line is read back as its `(key, value)`, and reading continues behind it -/
theorem findAllGo_renderLine (k v r : Str) (q1 q2 : Char) (hk : Plain k) (hv : Plain v)
    (h1 : isQuote q1 = true) (h2 : isQuote q2 = true) :
    findAllGo 0 (renderLine q1 q2 k v ++ r) = (k, v) :: findAllGo 0 r := by
  -- split the line into the matched part `m` and the tail ";\n"
  have hm := matchAt_render k v r q1 q2 hk hv h1 h2
  obtain ⟨m, hline⟩ : ∃ m, renderLine q1 q2 k v = 'o' :: m ++ ";\n".toList := by
    refine ⟨"s.environ[".toList ++ q1 :: k ++ q1 :: "] = ".toList ++ q2 :: v ++ [q2], ?_⟩
    unfold renderLine head
    have : "os.environ[".toList = 'o' :: "s.environ[".toList := rfl
    rw [this]
    simp [List.append_assoc]
  rw [hline] at hm ⊢
  simp only [List.cons_append, List.append_assoc] at hm ⊢
  rw [findAllGo, hm]
  simp only
  have hlen : ('o' :: (m ++ (";\n".toList ++ r))).length - (";\n".toList ++ r).length - 1 = m.length := by
    simp only [List.length_cons, List.length_append]; omega
  rw [hlen, findAllGo_skip]
  have h3 : ";\n".toList = [';', '\n'] := rfl
  rw [h3]
  simp only [List.cons_append, List.nil_append]
  rw [findAllGo, matchAt_not_o ';' _ (by decide)]
  simp only
  rw [findAllGo.eq_def]
  cases r with
  | nil => simp [findAllGo, matchAt_not_o '\n' _ (by decide)]
  | cons c cs => simp [matchAt_not_o '\n' _ (by decide)]

end PydraModel.Envs.Lmod
