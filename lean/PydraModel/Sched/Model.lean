import PydraModel.Graph.Model
/-
Engine `Sched` (DESIGN §5.5): workflow scheduling of pydra/engine/submitter.py as the tree is NOW
(after the repairs D10 `running` loop guards `job.done`, D11 `len(task_futures) < max_concurrent`,
D12 `DiGraph.sorting` raises on a cycle, D64 predecessors are refreshed before the errored test).

Mirrored code
* `NodeExecution.started / done / update_status / get_runnable_tasks / start`
* `Submitter.get_runnable_tasks` (scan of `sorted_nodes`, `not_started` break, `tasks[:max_concurrent]`)
* `Submitter.expand_workflow_async` (loop condition, stall detector with its 11 polls, dispatch with the
  `futured` de-duplication and the `len(task_futures) < max_concurrent` guard, `fetch_finished`, error collection,
  the `finally` that raises the collected errors), `Submitter.expand_workflow` (debug worker)
* `Job.done`, `Job.errored`, `Job.run_start_time` as *reads of the ground truth on disk* (`Truth`)
* `WorkflowOutputs._from_job` error aggregation (`finish`)

Ground truth.  A job is identified on disk by its checksum (`Ck`): cache directory, lock file, result file.
`Truth` of a checksum: `idle` (nothing), `locked` (lock file, a body is executing), `dead` (lock file but nobody
executes any more: a lost worker), `ok` / `err` (result file).  The environment changes it by *moves*
(`Ev`); a *schedule* is a list of move lists, one per `fetch_finished`.  One `round` = the moves that
happen while the loop awaits, then collection of the completed futures, one poll, the loop head (exit /
stall detector) and one dispatch — exactly one iteration of the `while` loop.  A poll is atomic with respect
to environment moves (modelling assumption: interleaving at poll granularity).

Job lists are *dynamic* as in `start()`: the checksums of a node's jobs are computed when the node starts,
from the values its predecessor nodes produced (`Wf.mkJobs`); a body's value is a function of its checksum
(`Wf.body`: pure bodies, content-addressed cache).
-/
namespace PydraModel.Sched
open PydraModel.Graph

abbrev NodeId := Nat
abbrev Ck := Nat
abbrev Val := Nat
abbrev Job := NodeId × Nat

inductive Truth | idle | locked | dead | ok | err
deriving DecidableEq, Repr

abbrev World := Ck → Truth

def setW (w : World) (c : Ck) (t : Truth) : World := fun c' => if c' = c then t else w c'

/-- Execution state of one node, the dictionaries of `NodeExecution` as key lists (state indices; `None` = 0).
    `blk = none` is `blocked is None` (before `start()`); `cks` are the checksums of `_tasks`. -/
structure NS where
  blk : Option (List Nat)
  queued : List Nat
  running : List Nat
  successful : List Nat
  errored : List Nat
  unrunnable : Bool
  cks : List Ck
deriving DecidableEq, Repr

def NS.init : NS := ⟨none, [], [], [], [], false, []⟩

/-- the workflow: graph of nodes, job construction (`start()`), pure bodies -/
structure Wf where
  g : G
  mkJobs : NodeId → List (List Val) → List Ck
  body : Ck → Val

/-- `graph.predecessors[name]`: sources of the connections into `n`, in connection order -/
def Wf.preds (wf : Wf) (n : NodeId) : List NodeId :=
  (wf.g.edges.filter (fun e => e.2 == n)).map (fun e => e.1)

/-- `started` property -/
def NS.started (s : NS) : Bool :=
  !s.successful.isEmpty || !s.errored.isEmpty || s.unrunnable || !s.queued.isEmpty || s.blk.isSome

/-- `not (self.queued or self.blocked or self.running)` -/
def NS.restDone (s : NS) : Bool :=
  s.queued.isEmpty && (s.blk.getD []).isEmpty && s.running.isEmpty

def NS.isDone (s : NS) : Bool := s.started && s.restDone

/-- checksum of the job with state index `i` -/
def NS.ckAt (s : NS) (i : Nat) : Ck := s.cks.getD i 0

/-- `dict.pop(key)` on the key list -/
def pop (l : List Nat) (i : Nat) : List Nat := l.filter (fun j => j != i)

/-- body of the `for index, job in list(self.queued.items())` loop -/
def stepQueued (w : World) (s : NS) (i : Nat) : NS :=
  match w (s.ckAt i) with
  | .ok => { s with successful := s.successful ++ [i], queued := pop s.queued i }
  | .err => { s with errored := s.errored ++ [i], queued := pop s.queued i }
  | .locked => { s with running := s.running ++ [i], queued := pop s.queued i }
  | .dead => { s with running := s.running ++ [i], queued := pop s.queued i }
  | .idle => s

/-- body of the `for index, (job, _) in list(self.running.items())` loop (with the D10 guard) -/
def stepRunning (w : World) (s : NS) (i : Nat) : NS :=
  match w (s.ckAt i) with
  | .ok => { s with successful := s.successful ++ [i], running := pop s.running i }
  | .err => { s with errored := s.errored ++ [i], running := pop s.running i }
  | _ => s

/-- `NodeExecution.update_status` -/
def updateStatus (w : World) (s : NS) : NS :=
  if !s.started then s else
  let s1 := s.queued.foldl (stepQueued w) s
  s1.running.foldl (stepRunning w) s1

/-- per-node execution states.  (A structure around the function, so that compiled code evaluates an updated
    state once, when the map is built, and not at every lookup.) -/
structure NSMap where
  get : NodeId → NS

def setN (ns : NSMap) (n : NodeId) (s : NS) : NSMap := ⟨fun m => if m = n then s else ns.get m⟩

def upd (w : World) (ns : NSMap) (n : NodeId) : NSMap := setN ns n (updateStatus w (ns.get n))

/-- `node.done` -/
def nodeDone (w : World) (ns : NSMap) (n : NodeId) : Bool × NSMap :=
  let ns' := upd w ns n
  ((ns'.get n).isDone, ns')

/-- `all(p.done for p in predecessors)` (short-circuit) -/
def allDone (w : World) : NSMap → List NodeId → Bool × NSMap
  | ns, [] => (true, ns)
  | ns, p :: ps =>
    let r := nodeDone w ns p
    if r.1 then allDone w r.2 ps else (false, r.2)

/-- `any(not n.done for n in exec_graph.nodes)` (short-circuit) -/
def anyNotDone (w : World) : NSMap → List NodeId → Bool × NSMap
  | ns, [] => (false, ns)
  | ns, n :: r =>
    let d := nodeDone w ns n
    if d.1 then anyNotDone w d.2 r else (true, d.2)

/-- values a node sees from its predecessors when it starts (lazy fields resolved from the result files) -/
def inputsOf (wf : Wf) (ns : NSMap) (n : NodeId) : List (List Val) :=
  (wf.preds n).map (fun p => (ns.get p).cks.map wf.body)

/-- `all([p.done for p in predecessors])`: a list, so EVERY predecessor is refreshed (no short-circuit) -/
def allDoneAll (w : World) : NSMap → List NodeId → Bool × NSMap
  | ns, [] => (true, ns)
  | ns, p :: ps =>
    let r := nodeDone w ns p
    let r2 := allDoneAll w r.2 ps
    (r.1 && r2.1, r2.2)

/-- `NodeExecution.get_runnable_tasks` (the live `if True:` branch): returns the node's `queued` keys.
    Order after the D64 repair: first every predecessor is refreshed (`predecessors_done`), then the
    `p.errored or p.unrunnable` test and the start decision are taken from that one snapshot. -/
def nodeRunnable (wf : Wf) (w : World) (ns : NSMap) (n : NodeId) : NSMap × List Nat :=
  let ps := wf.preds n
  let r := allDoneAll w ns ps
  if ps.any (fun p => !(r.2.get p).errored.isEmpty || (r.2.get p).unrunnable) then
    -- self.unrunnable = {None: unrunnable}; self.blocked = {}; assert self.done
    let ns1 := upd w (setN r.2 n { r.2.get n with unrunnable := true, blk := some [] }) n
    (ns1, (ns1.get n).queued)
  else
    if r.1 then
      let s0 := r.2.get n
      -- if not self.started: self.start()
      let s1 := if s0.started then s0 else
        let cks := wf.mkJobs n (inputsOf wf r.2 n)
        { s0 with blk := some (List.range cks.length), cks := cks }
      let inds := List.range s1.cks.length
      -- if self.blocked: for i in inds: runnable.append(self.blocked.pop(i));  self.queued.update(runnable)
      let s2 := match s1.blk with
        | some b => if b.isEmpty then s1 else
            { s1 with blk := some (b.filter (fun i => !inds.contains i)), queued := s1.queued ++ inds }
        | none => s1
      (setN r.2 n s2, s2.queued)
    else (r.2, (r.2.get n).queued)

/-- the order BEFORE the D64 repair, kept as documentation (`C14_stale_tables_witness`): the
    `p.errored or p.unrunnable` test ran on the tables as they were, and only then `all(p.done ...)` refreshed them -/
def nodeRunnableOld (wf : Wf) (w : World) (ns : NSMap) (n : NodeId) : NSMap × List Nat :=
  let ps := wf.preds n
  if ps.any (fun p => !(ns.get p).errored.isEmpty || (ns.get p).unrunnable) then
    let ns1 := upd w (setN ns n { ns.get n with unrunnable := true, blk := some [] }) n
    (ns1, (ns1.get n).queued)
  else
    let r := allDone w ns ps
    if r.1 then
      let s0 := r.2.get n
      let s1 := if s0.started then s0 else
        let cks := wf.mkJobs n (inputsOf wf r.2 n)
        { s0 with blk := some (List.range cks.length), cks := cks }
      let inds := List.range s1.cks.length
      let s2 := match s1.blk with
        | some b => if b.isEmpty then s1 else
            { s1 with blk := some (b.filter (fun i => !inds.contains i)), queued := s1.queued ++ inds }
        | none => s1
      (setN r.2 n s2, s2.queued)
    else (r.2, (r.2.get n).queued)

/-- the `for node in graph.sorted_nodes:` loop of `Submitter.get_runnable_tasks` -/
def scan (wf : Wf) (w : World) : List NodeId → NSMap → List NodeId → List Job → NSMap × List Job
  | [], ns, _, tasks => (ns, tasks)
  | n :: rest, ns, nst, tasks =>
    let d := nodeDone w ns n
    if d.1 then scan wf w rest d.2 nst tasks
    else if (wf.preds n).any (fun p => nst.contains p) then (d.2, tasks)          -- break
    else
      let nst' := if (d.2.get n).started then nst else n :: nst
      let r := nodeRunnable wf w d.2 n
      scan wf w rest r.1 nst' (tasks ++ r.2.map (fun i => (n, i)))

def truncate (k : Option Nat) (tasks : List Job) : List Job :=
  match k with
  | none => tasks
  | some k => tasks.take k

/-- `Submitter.get_runnable_tasks` (`_check_locks` is a no-op unless `clean_stale_locks`) -/
def poll (wf : Wf) (k : Option Nat) (sorted : List NodeId) (w : World) (ns : NSMap) : NSMap × List Job :=
  let r := scan wf w sorted ns [] []
  (r.1, truncate k r.2)

/-- state of `expand_workflow_async` -/
structure St where
  ns : NSMap
  futured : List Ck        -- keys of `futured`, in dispatch order (the dispatch log)
  futures : List Ck        -- names of the pending `task_futures`
  errors : List Ck         -- jobs whose future raised
  tasks : List Job
  w : World

def St.init (w : World) : St := ⟨⟨fun _ => NS.init⟩, [], [], [], [], w⟩

def ckOf (st : St) (j : Job) : Ck := (st.ns.get j.1).ckAt j.2

def underLimit (k : Option Nat) (futures : List Ck) : Bool :=
  match k with
  | none => true
  | some k => futures.length < k

/-- one iteration of `for job in tasks:` (jobs of nested workflows are not modelled) -/
def dispatchStep (k : Option Nat) (st : St) (j : Job) : St :=
  let c := ckOf st j
  if !st.futured.contains c && underLimit k st.futures then
    { st with futures := st.futures ++ [c], futured := st.futured ++ [c] }
  else st

def dispatch (k : Option Nat) (st : St) : St := st.tasks.foldl (dispatchStep k) st

/-- the dispatch rule BEFORE the D11 repair: every not yet futured job of `tasks[:k]` gets a future -/
def dispatchStepOld (st : St) (j : Job) : St :=
  let c := ckOf st j
  if !st.futured.contains c then
    { st with futures := st.futures ++ [c], futured := st.futured ++ [c] }
  else st

def dispatchOld (st : St) : St := st.tasks.foldl dispatchStepOld st

/-- environment moves -/
inductive Ev
  | acquire (c : Ck)     -- a dispatched body takes the lock and starts executing
  | finishOk (c : Ck)    -- the body returns: result saved
  | finishErr (c : Ck)   -- the body raises: errored result saved
  | complete (c : Ck)    -- the future is found done by `asyncio.wait` (raises iff the result is errored)
  | vanish (c : Ck)      -- FAULT: the future completes although no result was written (lost job, D24)
deriving DecidableEq, Repr

def applyEv (st : St) : Ev → Option St
  | .acquire c =>
    if st.futures.contains c && st.w c == .idle then some { st with w := setW st.w c .locked } else none
  | .finishOk c => if st.w c == .locked then some { st with w := setW st.w c .ok } else none
  | .finishErr c => if st.w c == .locked then some { st with w := setW st.w c .err } else none
  | .complete c =>
    if st.futures.contains c && (st.w c == .ok || st.w c == .err) then
      some { st with futures := st.futures.erase c,
                     errors := if st.w c == .err then st.errors ++ [c] else st.errors }
    else none
  | .vanish c =>
    if st.futures.contains c && (st.w c == .idle || st.w c == .locked) then
      some { st with futures := st.futures.erase c,
                     w := if st.w c == .locked then setW st.w c .dead else st.w }
    else none

def applyEvs : St → List Ev → Option St
  | st, [] => some st
  | st, e :: es => match applyEv st e with
    | some st' => applyEvs st' es
    | none => none

inductive Outcome
  | success
  | failed (named : List Ck)            -- RuntimeError raised by the `finally` of expand_workflow_async
  | failedNodes (nodes : List NodeId)   -- RuntimeError raised by WorkflowOutputs._from_job
  | stall                               -- RuntimeError of the stall detector (no collected errors)
deriving DecidableEq, Repr

inductive Step
  | cont (st : St)                 -- the loop is in `fetch_finished`
  | done (o : Outcome) (st : St)   -- the submission has ended
  | bad                            -- the move list is not enabled here (not a schedule)

def doPoll (wf : Wf) (k : Option Nat) (sorted : List NodeId) (st : St) : St :=
  let r := poll wf k sorted st.w st.ns
  { st with ns := r.1, tasks := r.2 }

/-- the inner `while not tasks and any(not n.done ...)` loop of the stall detector; `fuel` = polls left
    before `ii > 10`.  `none` = RuntimeError("Something has gone wrong ...") -/
def stallLoop (wf : Wf) (k : Option Nat) (sorted : List NodeId) : Nat → St → Option St
  | 0, _ => none
  | fuel + 1, st =>
    if !st.tasks.isEmpty then some st else
    let a := anyNotDone st.w st.ns wf.g.nodes
    let st1 := { st with ns := a.2 }
    if !a.1 then some st1 else
    let st2 := doPoll wf k sorted st1
    if fuel = 0 then none else stallLoop wf k sorted fuel st2

/-- `WorkflowOutputs._from_job` after a normal return of the loop; the `finally` first -/
def finish (wf : Wf) (st : St) : Outcome :=
  if !st.errors.isEmpty then .failed st.errors else
  let bad := wf.g.nodes.filter (fun n => !(st.ns.get n).errored.isEmpty)
  if !bad.isEmpty then .failedNodes bad else .success

/-- loop head after a poll: `while tasks or task_futures or any(not n.done ...)`, stall detector, dispatch -/
def afterPoll (wf : Wf) (k : Option Nat) (sorted : List NodeId) (st : St) : Step :=
  if !st.tasks.isEmpty || !st.futures.isEmpty then .cont (dispatch k st) else
  let a := anyNotDone st.w st.ns wf.g.nodes
  let st1 := { st with ns := a.2 }
  if !a.1 then .done (finish wf st1) st1 else
  match stallLoop wf k sorted 11 st1 with
  | none => .done (if !st1.errors.isEmpty then .failed st1.errors else .stall) st1
  | some st2 => .cont (dispatch k st2)

/-- start of `expand_workflow_async` up to the first `fetch_finished` -/
def start (wf : Wf) (k : Option Nat) (sorted : List NodeId) (w : World) : Step :=
  afterPoll wf k sorted (doPoll wf k sorted (St.init w))

/-- one loop iteration, from `fetch_finished` to the next `fetch_finished` -/
def round (wf : Wf) (k : Option Nat) (sorted : List NodeId) (st : St) (moves : List Ev) : Step :=
  if st.futures.isEmpty && !moves.isEmpty then .bad else      -- nothing awaited: the loop does not yield
  match applyEvs st moves with
  | none => .bad
  | some st1 =>
    -- asyncio.wait(FIRST_COMPLETED) returns only when at least one future is done
    if !st.futures.isEmpty && st1.futures.length == st.futures.length then .bad else
    afterPoll wf k sorted (doPoll wf k sorted st1)

/-! The loop with the dispatch rule BEFORE the D11 repair, kept as documentation (`C16_old_rule_violates`). -/

def afterPollOld (wf : Wf) (k : Option Nat) (sorted : List NodeId) (st : St) : Step :=
  if !st.tasks.isEmpty || !st.futures.isEmpty then .cont (dispatchOld st) else
  let a := anyNotDone st.w st.ns wf.g.nodes
  let st1 := { st with ns := a.2 }
  if !a.1 then .done (finish wf st1) st1 else
  match stallLoop wf k sorted 11 st1 with
  | none => .done (if !st1.errors.isEmpty then .failed st1.errors else .stall) st1
  | some st2 => .cont (dispatchOld st2)

def roundOld (wf : Wf) (k : Option Nat) (sorted : List NodeId) (st : St) (moves : List Ev) : Step :=
  if st.futures.isEmpty && !moves.isEmpty then .bad else
  match applyEvs st moves with
  | none => .bad
  | some st1 =>
    if !st.futures.isEmpty && st1.futures.length == st.futures.length then .bad else
    afterPollOld wf k sorted (doPoll wf k sorted st1)

def runFrom (wf : Wf) (k : Option Nat) (sorted : List NodeId) : Step → List (List Ev) → Step
  | .cont st, mv :: rest => runFrom wf k sorted (round wf k sorted st mv) rest
  | s, _ => s

/-- `expand_workflow_async` under a schedule (all jobs `idle` at the beginning) -/
def runAsync (wf : Wf) (k : Option Nat) (sorted : List NodeId) (sched : List (List Ev)) : Step :=
  runFrom wf k sorted (start wf k sorted (fun _ => .idle)) sched

/-- a whole submission of a workflow with the asynchronous loop: `exec_graph.sorted_nodes` first (`DiGraph.sorting`
    raises ValueError on a cycle, D12 repaired), then the loop -/
inductive Submission
  | cycleError                 -- ValueError("Graph ... cannot be sorted as it contains a cycle")
  | ran (s : Step)

def submitAsync (wf : Wf) (k : Option Nat) (sched : List (List Ev)) : Submission :=
  match sortFrom wf.g [] with
  | none => .cycleError
  | some sorted => .ran (runAsync wf k sorted sched)

/-! ### the synchronous loop (`expand_workflow`, debug worker) -/

inductive SyncOutcome
  | success
  | raised (c : Ck)     -- the body of `c` raised: `worker.run(job)` propagates, the workflow job fails
  | outOfFuel
deriving DecidableEq, Repr

/-- `for job in tasks: self.worker.run(job)`: `Job.run` returns a cached successful result, else executes the
    body; `ran` logs executed bodies -/
def runTasks (fail : Ck → Bool) : St → List Job → Except (Ck × St) St
  | st, [] => .ok st
  | st, j :: js =>
    let c := ckOf st j
    if st.w c == .ok then runTasks fail st js
    else if fail c then .error (c, st)      -- the bodies that ran before it in this batch stay executed
    else runTasks fail { st with w := setW st.w c .ok, futured := st.futured ++ [c] } js

def syncLoop (wf : Wf) (k : Option Nat) (sorted : List NodeId) (fail : Ck → Bool) : Nat → St → SyncOutcome × St
  | 0, st => (.outOfFuel, st)
  | fuel + 1, st =>
    -- while tasks or any(not n.done for n in exec_graph.nodes)
    let goOn : Bool × St :=
      if !st.tasks.isEmpty then (true, st) else
        let a := anyNotDone st.w st.ns wf.g.nodes
        (a.1, { st with ns := a.2 })
    if !goOn.1 then (.success, goOn.2) else
    match runTasks fail goOn.2 goOn.2.tasks with
    | .error (c, st1) => (.raised c, { st1 with w := setW st1.w c .err })
    | .ok st1 => syncLoop wf k sorted fail fuel (doPoll wf k sorted st1)

def runSync (wf : Wf) (k : Option Nat) (sorted : List NodeId) (fail : Ck → Bool) (fuel : Nat) : SyncOutcome × St :=
  syncLoop wf k sorted fail fuel (doPoll wf k sorted (St.init (fun _ => .idle)))

/-- NOT the code: the synchronous loop with the condition `while tasks:` only, i.e. without
    `or any(not n.done for n in exec_graph.nodes)`.  Kept as documentation (`C17_while_tasks_witness`): after a poll
    that starts a node with an empty job list nothing is runnable although nodes downstream are not done. -/
def syncLoopTasksOnly (wf : Wf) (k : Option Nat) (sorted : List NodeId) (fail : Ck → Bool) : Nat → St → SyncOutcome × St
  | 0, st => (.outOfFuel, st)
  | fuel + 1, st =>
    if st.tasks.isEmpty then (.success, st) else
    match runTasks fail st st.tasks with
    | .error (c, st1) => (.raised c, { st1 with w := setW st1.w c .err })
    | .ok st1 => syncLoopTasksOnly wf k sorted fail fuel (doPoll wf k sorted st1)

def runSyncTasksOnly (wf : Wf) (k : Option Nat) (sorted : List NodeId) (fail : Ck → Bool) (fuel : Nat) : SyncOutcome × St :=
  syncLoopTasksOnly wf k sorted fail fuel (doPoll wf k sorted (St.init (fun _ => .idle)))

/-- NOT the code: a scan in which `NodeExecution.get_runnable_tasks` returns only the jobs it has *just* unblocked
    (`runnable`) instead of everything in `queued`.  Documentation (`C15_new_only_loses_jobs`): under a finite
    `max_concurrent` the jobs cut off by `tasks[:k]` stay in `queued` and are never handed out again. -/
def scanNewOnly (wf : Wf) (w : World) : List NodeId → NSMap → List NodeId → List Job → NSMap × List Job
  | [], ns, _, tasks => (ns, tasks)
  | n :: rest, ns, nst, tasks =>
    let d := nodeDone w ns n
    if d.1 then scanNewOnly wf w rest d.2 nst tasks
    else if (wf.preds n).any (fun p => nst.contains p) then (d.2, tasks)
    else
      let nst' := if (d.2.get n).started then nst else n :: nst
      let r := nodeRunnable wf w d.2 n
      let fresh := r.2.filter (fun i => !(d.2.get n).queued.contains i)
      scanNewOnly wf w rest r.1 nst' (tasks ++ fresh.map (fun i => (n, i)))

def doPollNewOnly (wf : Wf) (k : Option Nat) (sorted : List NodeId) (st : St) : St :=
  let r := scanNewOnly wf st.w sorted st.ns [] []
  { st with ns := r.1, tasks := truncate k r.2 }

def syncLoopNewOnly (wf : Wf) (k : Option Nat) (sorted : List NodeId) (fail : Ck → Bool) : Nat → St → SyncOutcome × St
  | 0, st => (.outOfFuel, st)
  | fuel + 1, st =>
    let goOn : Bool × St :=
      if !st.tasks.isEmpty then (true, st) else
        let a := anyNotDone st.w st.ns wf.g.nodes
        (a.1, { st with ns := a.2 })
    if !goOn.1 then (.success, goOn.2) else
    match runTasks fail goOn.2 goOn.2.tasks with
    | .error (c, st1) => (.raised c, { st1 with w := setW st1.w c .err })
    | .ok st1 => syncLoopNewOnly wf k sorted fail fuel (doPollNewOnly wf k sorted st1)

def runSyncNewOnly (wf : Wf) (k : Option Nat) (sorted : List NodeId) (fail : Ck → Bool) (fuel : Nat) : SyncOutcome × St :=
  syncLoopNewOnly wf k sorted fail fuel (doPollNewOnly wf k sorted (St.init (fun _ => .idle)))

/-- workflow outputs: the values of every node's jobs -/
def outputs (wf : Wf) (st : St) (n : NodeId) : List Val := (st.ns.get n).cks.map wf.body

end PydraModel.Sched
