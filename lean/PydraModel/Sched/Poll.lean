import PydraModel.Sched.Inv
import PydraModel.Graph.SortLemmas
/-
`Submitter.get_runnable_tasks` keeps the invariant, and every task it returns belongs to a legitimately started
node.  The proof needs that `sorted_nodes` is a topological order: when the scan reaches a node, its predecessors
have been brought up to date earlier in the same poll (or the `not_started` break fires).
-/
namespace PydraModel.Sched
open PydraModel.Graph

theorem mem_cks_ckAt {s : NS} {c : Ck} (h : c ∈ s.cks) : ∃ i, i < s.cks.length ∧ s.ckAt i = c := by
  obtain ⟨i, hi, hc⟩ := List.mem_iff_getElem.mp h
  refine ⟨i, hi, ?_⟩
  unfold NS.ckAt
  rw [List.getD_eq_getElem?_getD, List.getElem?_eq_getElem hi]
  simpa using hc

theorem ckAt_mem_cks {s : NS} {i : Nat} (h : i < s.cks.length) : s.ckAt i ∈ s.cks := by
  unfold NS.ckAt
  rw [List.getD_eq_getElem?_getD, List.getElem?_eq_getElem h]
  simp

theorem isDone_iff (s : NS) : s.isDone = true ↔
    s.started = true ∧ s.queued = [] ∧ s.blk.getD [] = [] ∧ s.running = [] := by
  simp [NS.isDone, NS.restDone, List.isEmpty_iff, and_assoc]

/-- a complete node without failures is `Settled` and all its jobs succeeded -/
theorem settled_of_done {w : World} {s : NS} (hl : LInv w s) (hd : s.isDone = true)
    (he : s.errored = []) (hu : s.unrunnable = false) :
    Settled s ∧ ∀ c, c ∈ s.cks → w c = .ok := by
  obtain ⟨hs, hq, _, hr⟩ := (isDone_iff s).mp hd
  have hb := blk_of_started hl hs
  have hb' : s.blk = some [] := by
    cases hbb : s.blk with
    | none => exact absurd hbb hb
    | some b => rw [hl.blkEmpty b hbb]
  refine ⟨⟨hb', hq, hr, he, hu⟩, ?_⟩
  intro c hc
  obtain ⟨i, hi, hci⟩ := mem_cks_ckAt hc
  rcases hl.cover hb hu i hi with h | h | h | h
  · rw [hq] at h; simp at h
  · rw [hr] at h; simp at h
  · rw [← hci]; exact hl.succOk i h
  · rw [he] at h; simp at h

theorem isDone_of_settled {s : NS} (h : Settled s) : s.isDone = true := by
  obtain ⟨hb, hq, hr, _, _⟩ := h
  rw [isDone_iff]
  refine ⟨started_of_blk (by rw [hb]; simp), hq, by rw [hb]; rfl, hr⟩

theorem isDone_of_unrunnable {w : World} {s : NS} (hl : LInv w s) (h : s.unrunnable = true) :
    s.isDone = true := by
  obtain ⟨hq, hr, _, _, _⟩ := hl.unrun h
  rw [isDone_iff]
  refine ⟨by simp [NS.started, h], hq, ?_, hr⟩
  cases hb : s.blk with
  | none => rfl
  | some b => rw [hl.blkEmpty b hb]; rfl

/-! ### `all(p.done ...)` and `any(not n.done ...)` -/

theorem ninv_allDone {wf : Wf} {w : World} : ∀ (ps : List NodeId) {ns : NSMap}, NInv wf w ns →
    NInv wf w (allDone w ns ps).2
  | [], _, h => h
  | p :: ps, ns, h => by
    show NInv wf w (if (nodeDone w ns p).1 = true then allDone w (nodeDone w ns p).2 ps
      else (false, (nodeDone w ns p).2)).2
    by_cases hd : (nodeDone w ns p).1 = true
    · rw [if_pos hd]; exact ninv_allDone ps (ninv_upd h p)
    · rw [if_neg hd]; exact ninv_upd h p

theorem ninv_anyNotDone {wf : Wf} {w : World} : ∀ (l : List NodeId) {ns : NSMap}, NInv wf w ns →
    NInv wf w (anyNotDone w ns l).2
  | [], _, h => h
  | n :: l, ns, h => by
    show NInv wf w (if (nodeDone w ns n).1 = true then anyNotDone w (nodeDone w ns n).2 l
      else (true, (nodeDone w ns n).2)).2
    by_cases hd : (nodeDone w ns n).1 = true
    · rw [if_pos hd]; exact ninv_anyNotDone l (ninv_upd h n)
    · rw [if_neg hd]; exact ninv_upd h n

theorem allDone_of_fix {w : World} : ∀ (ps : List NodeId) {ns : NSMap}, (∀ p, p ∈ ps → Fix w (ns.get p)) →
    (allDone w ns ps).2 = ns ∧ ((allDone w ns ps).1 = true ↔ ∀ p, p ∈ ps → (ns.get p).isDone = true)
  | [], _, _ => by simp [allDone]
  | p :: ps, ns, hf => by
    have hp : upd w ns p = ns := upd_of_fix (hf p (by simp))
    have h2 : (nodeDone w ns p).2 = ns := hp
    have h1 : (nodeDone w ns p).1 = (ns.get p).isDone := by
      show ((upd w ns p).get p).isDone = _
      rw [hp]
    show (if (nodeDone w ns p).1 = true then allDone w (nodeDone w ns p).2 ps
      else (false, (nodeDone w ns p).2)).2 = ns ∧
      ((if (nodeDone w ns p).1 = true then allDone w (nodeDone w ns p).2 ps
      else (false, (nodeDone w ns p).2)).1 = true ↔ _)
    rw [h2, h1]
    by_cases hd : (ns.get p).isDone = true
    · rw [if_pos hd]
      obtain ⟨h1, h2⟩ := allDone_of_fix ps (fun q hq => hf q (by simp [hq]))
      refine ⟨h1, ?_⟩
      rw [h2]
      constructor
      · intro a q hq
        rcases List.mem_cons.mp hq with rfl | hq
        · exact hd
        · exact a q hq
      · intro a q hq; exact a q (by simp [hq])
    · rw [if_neg hd]
      refine ⟨rfl, ?_⟩
      constructor
      · intro a; exact absurd a (by simp)
      · intro a; exact absurd (a p (by simp)) hd

theorem allDoneAll_cons (w : World) (ns : NSMap) (p : NodeId) (ps : List NodeId) :
    allDoneAll w ns (p :: ps) =
      ((nodeDone w ns p).1 && (allDoneAll w (nodeDone w ns p).2 ps).1, (allDoneAll w (nodeDone w ns p).2 ps).2) := rfl

theorem ninv_allDoneAll {wf : Wf} {w : World} : ∀ (ps : List NodeId) {ns : NSMap}, NInv wf w ns →
    NInv wf w (allDoneAll w ns ps).2
  | [], _, h => h
  | p :: ps, ns, h => by
    rw [allDoneAll_cons]
    exact ninv_allDoneAll ps (ninv_upd h p)

theorem allDoneAll_of_fix {w : World} : ∀ (ps : List NodeId) {ns : NSMap}, (∀ p, p ∈ ps → Fix w (ns.get p)) →
    (allDoneAll w ns ps).2 = ns ∧ ((allDoneAll w ns ps).1 = true ↔ ∀ p, p ∈ ps → (ns.get p).isDone = true)
  | [], _, _ => by simp [allDoneAll]
  | p :: ps, ns, hf => by
    have hp : upd w ns p = ns := upd_of_fix (hf p (by simp))
    have h2 : (nodeDone w ns p).2 = ns := hp
    have h1 : (nodeDone w ns p).1 = (ns.get p).isDone := by
      show ((upd w ns p).get p).isDone = _
      rw [hp]
    rw [allDoneAll_cons, h2, h1]
    obtain ⟨a, b⟩ := allDoneAll_of_fix ps (fun q hq => hf q (by simp [hq]))
    refine ⟨a, ?_⟩
    simp only [Bool.and_eq_true, b]
    constructor
    · rintro ⟨x, y⟩ q hq
      rcases List.mem_cons.mp hq with rfl | hq
      · exact x
      · exact y q hq
    · intro hall
      exact ⟨hall p (by simp), fun q hq => hall q (by simp [hq])⟩

/-! ### `NodeExecution.get_runnable_tasks` -/

/-- the state of a node right after `start()` and the unblocking of all its jobs -/
def startedState (cks : List Ck) : NS := ⟨some [], List.range cks.length, [], [], [], false, cks⟩

theorem linv_startedState (w : World) (cks : List Ck) : LInv w (startedState cks) := by
  constructor <;> simp [startedState]

theorem range_filter_not_mem (n : Nat) :
    (List.range n).filter (fun i => !(List.range n).contains i) = [] := by
  rw [List.filter_eq_nil_iff]; intro i hi; simp [hi]

/-- what `start()` followed by the unblocking does to an unstarted node -/
theorem start_unblock (cks : List Ck) :
    (let s1 : NS := { NS.init with blk := some (List.range cks.length), cks := cks }
     match s1.blk with
     | some b => if b.isEmpty then s1 else
         { s1 with blk := some (b.filter (fun i => !(List.range s1.cks.length).contains i)),
                   queued := s1.queued ++ List.range s1.cks.length }
     | none => s1) = startedState cks := by
  simp only [NS.init, startedState]
  by_cases h : cks.length = 0
  · simp [h]
  · have : (List.range cks.length).isEmpty = false := by
      simp [List.isEmpty_iff, h]
    simp [this, range_filter_not_mem]

structure RunnableSpec (wf : Wf) (w : World) (ns : NSMap) (n : NodeId) (r : NSMap × List Nat) : Prop where
  inv : NInv wf w r.1
  frame : ∀ m, m ≠ n → r.1.get m = ns.get m
  tasks : r.2 = (r.1.get n).queued
  fix : (ns.get n).started = true → r.1.get n = ns.get n
  legit : r.2 ≠ [] → (r.1.get n).blk ≠ none ∧ (r.1.get n).unrunnable = false
  /-- an unstarted node either stays as it is, is marked unrunnable, or is started with fresh jobs -/
  fresh : (ns.get n).started = false →
    r.1.get n = ns.get n ∨ ((r.1.get n).unrunnable = true ∧ (r.1.get n).blk = some []) ∨
      r.1.get n = startedState (wf.mkJobs n (inputsOf wf ns n))

theorem nodeRunnable_spec {wf : Wf} {w : World} {ns : NSMap} {n : NodeId} (h : NInv wf w ns)
    (hnd : (ns.get n).isDone = false)
    (hfix : ∀ p, p ∈ wf.preds n → Fix w (ns.get p)) :
    RunnableSpec wf w ns n (nodeRunnable wf w ns n) := by
  have hl := h.loc n
  have hnu : (ns.get n).unrunnable = false := by
    cases hu : (ns.get n).unrunnable
    · rfl
    · rw [isDone_of_unrunnable hl hu] at hnd; exact absurd hnd (by simp)
  obtain ⟨had2, had1⟩ := allDoneAll_of_fix (wf.preds n) hfix
  unfold nodeRunnable
  simp only
  rw [had2]
  split
  · -- some predecessor has a failed job or is unrunnable
    rename_i hc
    have hbn : (ns.get n).blk = none := by
      cases hb : (ns.get n).blk with
      | none => rfl
      | some b =>
        exfalso
        obtain ⟨p, hp, hpc⟩ := List.any_eq_true.mp hc
        obtain ⟨hs, _⟩ := h.preds n (by rw [hb]; simp) hnu p hp
        obtain ⟨_, _, _, he, hu⟩ := hs
        simp [he, hu] at hpc
    have hinit := hl.unstarted hbn
    have hs1 : ({ ns.get n with unrunnable := true, blk := some [] } : NS) = ⟨some [], [], [], [], [], true, []⟩ := by
      rw [hinit]; rfl
    rw [hs1]
    have hus : updateStatus w (⟨some [], [], [], [], [], true, []⟩ : NS) = ⟨some [], [], [], [], [], true, []⟩ :=
      updateStatus_of_empty w rfl rfl
    have hupd : upd w (setN ns n ⟨some [], [], [], [], [], true, []⟩) n = setN ns n ⟨some [], [], [], [], [], true, []⟩ := by
      apply upd_of_fix; rw [setN_get_same]; exact hus
    rw [hupd]
    have hns : (ns.get n).started = false := by rw [hinit]; exact init_not_started
    constructor
    · apply ninv_setN h n
      · constructor <;> simp
      · intro hs; rw [hs.1] at hbn; exact absurd hbn (by simp)
      · intro he; rw [hinit] at he; exact absurd rfl he
      · intro _; rfl
      · intro _ hu; exact absurd hu (by simp)
      · intro _
        obtain ⟨p, hp, hpc⟩ := List.any_eq_true.mp hc
        refine ⟨p, hp, ?_⟩
        by_cases hpn : p = n
        · subst hpn; rw [setN_get_same]; exact Or.inr rfl
        · rw [setN_get_ne _ _ hpn]
          simp only [Bool.or_eq_true, Bool.not_eq_true', List.isEmpty_eq_false_iff] at hpc
          exact hpc
      · intro _ hu; exact absurd hu (by simp)
    · intro m hm; exact setN_get_ne _ _ hm
    · rw [setN_get_same]
    · intro hs; rw [hns] at hs; exact absurd hs (by simp)
    · intro hne; rw [setN_get_same] at hne; exact absurd rfl hne
    · intro _; right; left; rw [setN_get_same]; exact ⟨rfl, rfl⟩
  · rename_i hc
    split
    · -- all predecessors are done
      rename_i hall
      have hall' := had1.mp hall
      cases hst : (ns.get n).started
      · -- start()
        have hbn : (ns.get n).blk = none := by
          cases hb : (ns.get n).blk with
          | none => rfl
          | some b => rw [started_of_blk (by rw [hb]; simp)] at hst; exact absurd hst (by simp)
        have hinit := hl.unstarted hbn
        simp only [Bool.false_eq_true, if_false]
        have hs2 := start_unblock (wf.mkJobs n (inputsOf wf ns n))
        simp only [NS.init] at hs2
        rw [hinit]
        simp only [NS.init]
        rw [hs2]
        have hpn : ∀ p, p ∈ wf.preds n → p ≠ n := by
          intro p hp hpn; subst hpn
          rw [hall' p hp] at hnd; exact absurd hnd (by simp)
        constructor
        · apply ninv_setN h n
          · exact linv_startedState w _
          · intro hs; rw [hs.1] at hbn; exact absurd hbn (by simp)
          · intro he; rw [hinit] at he; exact absurd rfl he
          · intro hu; rw [hnu] at hu; exact absurd hu (by simp)
          · intro _ _ p hp
            rw [setN_get_ne _ _ (hpn p hp)]
            have hpc : (!(ns.get p).errored.isEmpty || (ns.get p).unrunnable) = false := by
              cases hx : (!(ns.get p).errored.isEmpty || (ns.get p).unrunnable)
              · rfl
              · exact absurd (List.any_eq_true.mpr ⟨p, hp, hx⟩) hc
            simp only [Bool.or_eq_false_iff, Bool.not_eq_false', List.isEmpty_iff] at hpc
            exact settled_of_done (h.loc p) (hall' p hp) hpc.1 hpc.2
          · intro hu; simp [startedState] at hu
          · intro _ _
            show wf.mkJobs n (inputsOf wf ns n) = _
            congr 1
            unfold inputsOf
            apply List.map_congr_left
            intro p hp
            rw [setN_get_ne _ _ (hpn p hp)]
        · intro m hm; exact setN_get_ne _ _ hm
        · rw [setN_get_same]
        · intro hs; rw [hst] at hs; exact absurd hs (by simp)
        · intro _; rw [setN_get_same]; simp [startedState]
        · intro _; right; right; rw [setN_get_same]
      · -- already started earlier: `blocked` is empty, nothing changes
        have hb := blk_of_started hl hst
        simp only [if_true]
        cases hbb : (ns.get n).blk with
        | none => exact absurd hbb hb
        | some b =>
          have hbe := hl.blkEmpty b hbb
          subst hbe
          simp only [List.isEmpty_nil, if_true]
          rw [setN_self]
          exact ⟨h, fun _ _ => rfl, rfl, fun _ => rfl, fun _ => ⟨hb, hnu⟩, fun hs => by rw [hst] at hs; exact absurd hs (by simp)⟩
    · -- some predecessor is still busy
      refine ⟨h, fun _ _ => rfl, rfl, fun _ => rfl, ?_, fun _ => Or.inl rfl⟩
      intro hne
      refine ⟨?_, hnu⟩
      intro hbn
      rw [hl.unstarted hbn] at hne
      exact absurd rfl hne

/-! ### started nodes keep their job lists -/

/-- a node that has been started keeps `blocked is not None`, its unrunnable mark and its jobs -/
def Grow (a b : NSMap) : Prop :=
  ∀ n, (a.get n).blk ≠ none → (b.get n).blk ≠ none ∧ (b.get n).unrunnable = (a.get n).unrunnable ∧
    (b.get n).cks = (a.get n).cks

theorem Grow.refl (a : NSMap) : Grow a a := fun _ h => ⟨h, rfl, rfl⟩

theorem Grow.trans {a b c : NSMap} (h1 : Grow a b) (h2 : Grow b c) : Grow a c := by
  intro n h
  obtain ⟨x1, x2, x3⟩ := h1 n h
  obtain ⟨y1, y2, y3⟩ := h2 n x1
  exact ⟨y1, y2.trans x2, y3.trans x3⟩

theorem grow_upd (w : World) (ns : NSMap) (n : NodeId) : Grow ns (upd w ns n) := by
  intro m h
  by_cases hm : m = n
  · subst hm
    rw [upd_get_same]
    obtain ⟨f1, f2, f3⟩ := updateStatus_frame w (ns.get m)
    exact ⟨by rw [f2]; exact h, f3, f1⟩
  · rw [upd_get_ne _ _ hm]; exact ⟨h, rfl, rfl⟩

theorem grow_allDone (w : World) : ∀ (ps : List NodeId) (ns : NSMap), Grow ns (allDone w ns ps).2
  | [], ns => Grow.refl ns
  | p :: ps, ns => by
    show Grow ns (if (nodeDone w ns p).1 = true then allDone w (nodeDone w ns p).2 ps
      else (false, (nodeDone w ns p).2)).2
    by_cases hd : (nodeDone w ns p).1 = true
    · rw [if_pos hd]; exact (grow_upd w ns p).trans (grow_allDone w ps _)
    · rw [if_neg hd]; exact grow_upd w ns p

theorem grow_allDoneAll (w : World) : ∀ (ps : List NodeId) (ns : NSMap), Grow ns (allDoneAll w ns ps).2
  | [], ns => Grow.refl ns
  | p :: ps, ns => by
    rw [allDoneAll_cons]
    exact (grow_upd w ns p).trans (grow_allDoneAll w ps _)

theorem grow_anyNotDone (w : World) : ∀ (l : List NodeId) (ns : NSMap), Grow ns (anyNotDone w ns l).2
  | [], ns => Grow.refl ns
  | n :: l, ns => by
    show Grow ns (if (nodeDone w ns n).1 = true then anyNotDone w (nodeDone w ns n).2 l
      else (true, (nodeDone w ns n).2)).2
    by_cases hd : (nodeDone w ns n).1 = true
    · rw [if_pos hd]; exact (grow_upd w ns n).trans (grow_anyNotDone w l _)
    · rw [if_neg hd]; exact grow_upd w ns n

theorem grow_of_spec {wf : Wf} {w : World} {ns : NSMap} {n : NodeId} {r : NSMap × List Nat}
    (spec : RunnableSpec wf w ns n r) : Grow ns r.1 := by
  intro m h
  by_cases hm : m = n
  · subst hm; rw [spec.fix (started_of_blk h)]; exact ⟨h, rfl, rfl⟩
  · rw [spec.frame m hm]; exact ⟨h, rfl, rfl⟩

/-! ### the scan of `sorted_nodes` -/

/-- a task handed to the dispatcher belongs to a node that was legitimately started -/
def TaskOK (ns : NSMap) (j : Job) : Prop :=
  (ns.get j.1).blk ≠ none ∧ (ns.get j.1).unrunnable = false ∧ j.2 ∈ (ns.get j.1).queued

structure ScanSt (wf : Wf) (w : World) (ns0 : NSMap) (pre : List NodeId) (ns : NSMap) (nst : List NodeId)
    (tasks : List Job) : Prop where
  inv : NInv wf w ns
  grow : Grow ns0 ns
  upToDate : ∀ p, p ∈ pre → p ∈ nst ∨ Fix w (ns.get p)
  tasksOk : ∀ j, j ∈ tasks → j.1 ∈ pre ∧ TaskOK ns j

/-- `sorted` lists every node once, predecessors first -/
structure TopoOrder (wf : Wf) (sorted : List NodeId) : Prop where
  nodup : sorted.Nodup
  before : ∀ l1 x l2, sorted = l1 ++ x :: l2 → ∀ p, p ∈ wf.preds x → p ∈ l1

theorem scan_cons (wf : Wf) (w : World) (n : NodeId) (rest : List NodeId) (ns : NSMap) (nst : List NodeId)
    (tasks : List Job) :
    scan wf w (n :: rest) ns nst tasks =
      if (nodeDone w ns n).1 = true then scan wf w rest (nodeDone w ns n).2 nst tasks
      else if (wf.preds n).any (fun p => nst.contains p) = true then ((nodeDone w ns n).2, tasks)
      else scan wf w rest (nodeRunnable wf w (nodeDone w ns n).2 n).1
        (if ((nodeDone w ns n).2.get n).started = true then nst else n :: nst)
        (tasks ++ (nodeRunnable wf w (nodeDone w ns n).2 n).2.map (fun i => (n, i))) := rfl

theorem scan_spec {wf : Wf} {w : World} {sorted : List NodeId} (ht : TopoOrder wf sorted) (ns0 : NSMap) :
    ∀ (rest pre : List NodeId) (ns : NSMap) (nst : List NodeId) (tasks : List Job),
      sorted = pre ++ rest → ScanSt wf w ns0 pre ns nst tasks →
      NInv wf w (scan wf w rest ns nst tasks).1 ∧ Grow ns0 (scan wf w rest ns nst tasks).1 ∧
      ∀ j, j ∈ (scan wf w rest ns nst tasks).2 → TaskOK (scan wf w rest ns nst tasks).1 j := by
  intro rest
  induction rest with
  | nil =>
    intro pre ns nst tasks _ hs
    exact ⟨hs.inv, hs.grow, fun j hj => (hs.tasksOk j hj).2⟩
  | cons n rest ih =>
    intro pre ns nst tasks hsorted hs
    have hnpre : n ∉ pre := by
      intro hmem
      have hnd := ht.nodup
      rw [hsorted] at hnd
      have := (List.nodup_append.mp hnd).2.2 n hmem n (by simp)
      exact this rfl
    have hsorted' : sorted = (pre ++ [n]) ++ rest := by rw [hsorted]; simp
    have hpreds : ∀ p, p ∈ wf.preds n → p ∈ pre := ht.before pre n rest hsorted
    -- after `node.done`
    have hinv1 : NInv wf w (upd w ns n) := ninv_upd hs.inv n
    have hfixn : Fix w ((upd w ns n).get n) := by rw [upd_get_same]; exact fix_updateStatus w _
    have hsame : ∀ m, m ∈ pre → (upd w ns n).get m = ns.get m := by
      intro m hm; apply upd_get_ne; intro hmn; subst hmn; exact hnpre hm
    have hup1 : ∀ p, p ∈ pre → p ∈ nst ∨ Fix w ((upd w ns n).get p) := by
      intro p hp; rw [hsame p hp]; exact hs.upToDate p hp
    have htk1 : ∀ j, j ∈ tasks → j.1 ∈ pre ∧ TaskOK (upd w ns n) j := by
      intro j hj
      obtain ⟨a, b⟩ := hs.tasksOk j hj
      refine ⟨a, ?_⟩
      unfold TaskOK; rw [hsame j.1 a]; exact b
    rw [scan_cons]
    have e2 : (nodeDone w ns n).2 = upd w ns n := rfl
    have e1 : (nodeDone w ns n).1 = ((upd w ns n).get n).isDone := rfl
    rw [e2, e1]
    by_cases hd : ((upd w ns n).get n).isDone = true
    · rw [if_pos hd]
      apply ih (pre ++ [n]) _ _ _ hsorted'
      refine ⟨hinv1, hs.grow.trans (grow_upd w ns n), ?_, ?_⟩
      · intro p hp
        rcases List.mem_append.mp hp with hp | hp
        · exact hup1 p hp
        · simp at hp; subst hp; exact Or.inr hfixn
      · intro j hj
        obtain ⟨a, b⟩ := htk1 j hj
        exact ⟨List.mem_append_left _ a, b⟩
    · rw [if_neg hd]
      by_cases hbrk : (wf.preds n).any (fun p => nst.contains p) = true
      · rw [if_pos hbrk]
        exact ⟨hinv1, hs.grow.trans (grow_upd w ns n), fun j hj => (htk1 j hj).2⟩
      · rw [if_neg hbrk]
        have hfixp : ∀ p, p ∈ wf.preds n → Fix w ((upd w ns n).get p) := by
          intro p hp
          rcases hup1 p (hpreds p hp) with hnstp | hf
          · exfalso; apply hbrk
            exact List.any_eq_true.mpr ⟨p, hp, by simpa using hnstp⟩
          · exact hf
        have hd' : ((upd w ns n).get n).isDone = false := by
          cases hx : ((upd w ns n).get n).isDone
          · rfl
          · exact absurd hx hd
        have spec := nodeRunnable_spec hinv1 hd' hfixp
        apply ih (pre ++ [n]) _ _ _ hsorted'
        refine ⟨spec.inv, (hs.grow.trans (grow_upd w ns n)).trans (grow_of_spec spec), ?_, ?_⟩
        · intro p hp0
          rcases List.mem_append.mp hp0 with hp | hp
          · have hpn : p ≠ n := by intro e; rw [e] at hp; exact hnpre hp
            rw [spec.frame p hpn]
            rcases hup1 p hp with a | a
            · left; split
              · exact a
              · exact List.mem_cons_of_mem _ a
            · exact Or.inr a
          · simp at hp; subst hp
            cases hst : ((upd w ns p).get p).started
            · left; simp
            · right; rw [spec.fix hst]; exact hfixn
        · intro j hj
          rcases List.mem_append.mp hj with hj | hj
          · obtain ⟨a, b⟩ := htk1 j hj
            have hjn : j.1 ≠ n := by intro e; rw [e] at a; exact hnpre a
            refine ⟨List.mem_append_left _ a, ?_⟩
            unfold TaskOK; rw [spec.frame j.1 hjn]; exact b
          · obtain ⟨i, hi, rfl⟩ := List.mem_map.mp hj
            refine ⟨by simp, ?_⟩
            have hne : (nodeRunnable wf w (upd w ns n) n).2 ≠ [] := List.ne_nil_of_mem hi
            obtain ⟨a, b⟩ := spec.legit hne
            refine ⟨a, b, ?_⟩
            show i ∈ ((nodeRunnable wf w (upd w ns n) n).1.get n).queued
            rw [← spec.tasks]; exact hi

theorem mem_truncate {k : Option Nat} {tasks : List Job} {j : Job} (h : j ∈ truncate k tasks) : j ∈ tasks := by
  unfold truncate at h
  cases k with
  | none => exact h
  | some k => exact List.mem_of_mem_take h

/-- `Submitter.get_runnable_tasks` keeps the invariant and returns only legitimate tasks -/
theorem poll_spec {wf : Wf} {w : World} {sorted : List NodeId} (ht : TopoOrder wf sorted) (k : Option Nat)
    {ns : NSMap} (h : NInv wf w ns) :
    NInv wf w (poll wf k sorted w ns).1 ∧ Grow ns (poll wf k sorted w ns).1 ∧
    ∀ j, j ∈ (poll wf k sorted w ns).2 → TaskOK (poll wf k sorted w ns).1 j := by
  obtain ⟨a, g, b⟩ := scan_spec ht ns sorted [] ns [] [] (by simp)
    ⟨h, Grow.refl ns, fun p hp => absurd hp (by simp), fun j hj => absurd hj (by simp)⟩
  exact ⟨a, g, fun j hj => b j (mem_truncate hj)⟩

/-- from the theorems about `DiGraph.sorting`: the list it returns is such an order -/
theorem topoOrder_of_sortFrom {wf : Wf} {sorted : List NodeId} (hw : wf.g.wip = [])
    (hn : wf.g.nodes.Nodup) (h : sortFrom wf.g [] = some sorted) : TopoOrder wf sorted := by
  obtain ⟨ht, hp⟩ := sortFrom_spec wf.g [] sorted h
  simp only [if_true] at hp
  refine ⟨hp.nodup_iff.mpr hn, ?_⟩
  intro l1 x l2 hs p hp'
  unfold Wf.preds at hp'
  obtain ⟨e, he, rfl⟩ := List.mem_map.mp hp'
  obtain ⟨he1, he2⟩ := List.mem_filter.mp he
  rcases ht l1 x l2 hs e he1 (by simpa using he2) with a | a
  · exact a
  · rw [hw] at a; simp at a

end PydraModel.Sched
