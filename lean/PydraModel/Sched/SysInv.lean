import PydraModel.Sched.Poll
/-
Invariant of the whole asynchronous loop (`SInv`), kept by every environment move, every poll, the loop head,
the stall detector and the dispatch; hence by every round of every schedule.
-/
namespace PydraModel.Sched
open PydraModel.Graph

/-- what the dispatcher needs to know about a task (stable under later `update_status` calls) -/
def TaskLegit (ns : NSMap) (j : Job) : Prop :=
  (ns.get j.1).blk ≠ none ∧ (ns.get j.1).unrunnable = false ∧ j.2 < (ns.get j.1).cks.length

structure SInv (wf : Wf) (k : Option Nat) (st : St) : Prop where
  ninv : NInv wf st.w st.ns
  futuredNodup : st.futured.Nodup
  futuresNodup : st.futures.Nodup
  futuresSub : ∀ c, c ∈ st.futures → c ∈ st.futured
  /-- a body executes only inside a pending future -/
  lockedPending : ∀ c, st.w c = .locked → c ∈ st.futures
  /-- the number of pending futures never exceeds `max_concurrent` -/
  limit : ∀ k', k = some k' → st.futures.length ≤ k'
  /-- nothing happens to a job on disk before it has been dispatched -/
  touched : ∀ c, st.w c ≠ .idle → c ∈ st.futured
  /-- every dispatched job belongs to a node that was legitimately started -/
  legit : ∀ c, c ∈ st.futured →
    ∃ n, (st.ns.get n).blk ≠ none ∧ (st.ns.get n).unrunnable = false ∧ c ∈ (st.ns.get n).cks
  tasksLegit : ∀ j, j ∈ st.tasks → TaskLegit st.ns j

theorem taskLegit_of_ok {wf : Wf} {w : World} {ns : NSMap} (h : NInv wf w ns) {j : Job} (hj : TaskOK ns j) :
    TaskLegit ns j :=
  ⟨hj.1, hj.2.1, (h.loc j.1).idxOk j.2 (Or.inl hj.2.2)⟩

theorem taskLegit_grow {a b : NSMap} (hg : Grow a b) {j : Job} (h : TaskLegit a j) : TaskLegit b j := by
  obtain ⟨x1, x2, x3⟩ := hg j.1 h.1
  exact ⟨x1, by rw [x2]; exact h.2.1, by rw [x3]; exact h.2.2⟩

theorem legit_grow {a b : NSMap} (hg : Grow a b) {c : Ck}
    (h : ∃ n, (a.get n).blk ≠ none ∧ (a.get n).unrunnable = false ∧ c ∈ (a.get n).cks) :
    ∃ n, (b.get n).blk ≠ none ∧ (b.get n).unrunnable = false ∧ c ∈ (b.get n).cks := by
  obtain ⟨n, h1, h2, h3⟩ := h
  obtain ⟨x1, x2, x3⟩ := hg n h1
  exact ⟨n, x1, by rw [x2]; exact h2, by rw [x3]; exact h3⟩

theorem sinv_init (wf : Wf) (k : Option Nat) : SInv wf k (St.init (fun _ => .idle)) := by
  constructor
  · exact ninv_init wf _
  · simp [St.init]
  · simp [St.init]
  · intro c h; simp [St.init] at h
  · intro c h; simp [St.init] at h
  · intro k' _; simp [St.init]
  · intro c h; simp [St.init] at h
  · intro c h; simp [St.init] at h
  · intro j h; simp [St.init] at h

/-! ### environment moves -/

theorem setW_same (w : World) (c : Ck) (t : Truth) : setW w c t c = t := by simp [setW]
theorem setW_ne (w : World) {c x : Ck} (t : Truth) (h : x ≠ c) : setW w c t x = w x := by simp [setW, h]

theorem wmono_setW {w : World} {c : Ck} {t : Truth} (h1 : w c ≠ .ok) (h2 : w c ≠ .err)
    (h3 : w c = .idle ∨ t ≠ .idle) : WMono w (setW w c t) := by
  constructor
  · intro x hx
    by_cases hxc : x = c
    · subst hxc; exact absurd hx h1
    · rw [setW_ne _ _ hxc]; exact hx
  · intro x hx
    by_cases hxc : x = c
    · subst hxc; exact absurd hx h2
    · rw [setW_ne _ _ hxc]; exact hx
  · intro x hx
    by_cases hxc : x = c
    · subst hxc; rw [setW_same]
      rcases h3 with h3 | h3
      · exact absurd h3 hx
      · exact h3
    · rw [setW_ne _ _ hxc]; exact hx

/-- every environment move respects the monotonicity of the ground truth -/
theorem applyEv_wmono {st st' : St} {e : Ev} (h : applyEv st e = some st') : WMono st.w st'.w := by
  cases e with
  | acquire c =>
    simp only [applyEv] at h
    split at h
    · rename_i hc
      simp only [Bool.and_eq_true, beq_iff_eq] at hc
      cases h
      exact wmono_setW (by rw [hc.2]; simp) (by rw [hc.2]; simp) (Or.inl hc.2)
    · exact absurd h (by simp)
  | finishOk c =>
    simp only [applyEv] at h
    split at h
    · rename_i hc
      simp only [beq_iff_eq] at hc
      cases h
      exact wmono_setW (by rw [hc]; simp) (by rw [hc]; simp) (Or.inr (by simp))
    · exact absurd h (by simp)
  | finishErr c =>
    simp only [applyEv] at h
    split at h
    · rename_i hc
      simp only [beq_iff_eq] at hc
      cases h
      exact wmono_setW (by rw [hc]; simp) (by rw [hc]; simp) (Or.inr (by simp))
    · exact absurd h (by simp)
  | complete c =>
    simp only [applyEv] at h
    split at h
    · cases h; exact WMono.refl _
    · exact absurd h (by simp)
  | vanish c =>
    simp only [applyEv] at h
    split at h
    · rename_i hc
      cases h
      simp only
      split
      · rename_i hl
        simp only [beq_iff_eq] at hl
        exact wmono_setW (by rw [hl]; simp) (by rw [hl]; simp) (Or.inr (by simp))
      · exact WMono.refl _
    · exact absurd h (by simp)

theorem sinv_applyEv {wf : Wf} {k : Option Nat} {st st' : St} {e : Ev} (hs : SInv wf k st)
    (h : applyEv st e = some st') : SInv wf k st' := by
  have hm := applyEv_wmono h
  cases e with
  | acquire c =>
    simp only [applyEv] at h
    split at h
    · rename_i hc
      simp only [Bool.and_eq_true, beq_iff_eq, List.contains_eq_mem, decide_eq_true_eq] at hc
      cases h
      refine ⟨ninv_world hs.ninv hm, hs.futuredNodup, hs.futuresNodup, hs.futuresSub, ?_, hs.limit, ?_,
        hs.legit, hs.tasksLegit⟩
      · intro x hx
        by_cases hxc : x = c
        · subst hxc; exact hc.1
        · simp only [setW_ne _ _ hxc] at hx; exact hs.lockedPending x hx
      · intro x hx
        by_cases hxc : x = c
        · subst hxc; exact hs.futuresSub x hc.1
        · simp only [setW_ne _ _ hxc] at hx; exact hs.touched x hx
    · exact absurd h (by simp)
  | finishOk c =>
    simp only [applyEv] at h
    split at h
    · rename_i hc
      simp only [beq_iff_eq] at hc
      cases h
      refine ⟨ninv_world hs.ninv hm, hs.futuredNodup, hs.futuresNodup, hs.futuresSub, ?_, hs.limit, ?_,
        hs.legit, hs.tasksLegit⟩
      · intro x hx
        by_cases hxc : x = c
        · subst hxc; simp [setW_same] at hx
        · simp only [setW_ne _ _ hxc] at hx; exact hs.lockedPending x hx
      · intro x hx
        by_cases hxc : x = c
        · subst hxc; exact hs.touched x (by rw [hc]; simp)
        · simp only [setW_ne _ _ hxc] at hx; exact hs.touched x hx
    · exact absurd h (by simp)
  | finishErr c =>
    simp only [applyEv] at h
    split at h
    · rename_i hc
      simp only [beq_iff_eq] at hc
      cases h
      refine ⟨ninv_world hs.ninv hm, hs.futuredNodup, hs.futuresNodup, hs.futuresSub, ?_, hs.limit, ?_,
        hs.legit, hs.tasksLegit⟩
      · intro x hx
        by_cases hxc : x = c
        · subst hxc; simp [setW_same] at hx
        · simp only [setW_ne _ _ hxc] at hx; exact hs.lockedPending x hx
      · intro x hx
        by_cases hxc : x = c
        · subst hxc; exact hs.touched x (by rw [hc]; simp)
        · simp only [setW_ne _ _ hxc] at hx; exact hs.touched x hx
    · exact absurd h (by simp)
  | complete c =>
    simp only [applyEv] at h
    split at h
    · rename_i hc
      simp only [Bool.and_eq_true, Bool.or_eq_true, beq_iff_eq, List.contains_eq_mem, decide_eq_true_eq] at hc
      cases h
      refine ⟨hs.ninv, hs.futuredNodup, hs.futuresNodup.erase c,
        fun x hx => hs.futuresSub x (List.mem_of_mem_erase hx), ?_, ?_, hs.touched, hs.legit, hs.tasksLegit⟩
      · intro x hx
        have hxc : x ≠ c := by
          intro e; subst e
          rcases hc.2 with h1 | h1 <;> rw [h1] at hx <;> simp at hx
        exact (List.mem_erase_of_ne hxc).mpr (hs.lockedPending x hx)
      · intro k' hk
        exact Nat.le_trans List.length_erase_le (hs.limit k' hk)
    · exact absurd h (by simp)
  | vanish c =>
    simp only [applyEv] at h
    split at h
    · rename_i hc
      simp only [Bool.and_eq_true, Bool.or_eq_true, beq_iff_eq, List.contains_eq_mem, decide_eq_true_eq] at hc
      cases h
      refine ⟨ninv_world hs.ninv hm, hs.futuredNodup, hs.futuresNodup.erase c,
        fun x hx => hs.futuresSub x (List.mem_of_mem_erase hx), ?_, ?_, ?_, hs.legit, hs.tasksLegit⟩
      · intro x hx
        simp only at hx
        have hxc : x ≠ c := by
          intro e; subst e
          split at hx
          · simp [setW_same] at hx
          · rename_i hnl
            simp only [beq_iff_eq] at hnl
            exact hnl hx
        have hx' : st.w x = .locked := by
          split at hx
          · rw [setW_ne _ _ hxc] at hx; exact hx
          · exact hx
        exact (List.mem_erase_of_ne hxc).mpr (hs.lockedPending x hx')
      · intro k' hk
        exact Nat.le_trans List.length_erase_le (hs.limit k' hk)
      · intro x hx
        simp only at hx
        by_cases hxc : x = c
        · subst hxc; exact hs.futuresSub x hc.1
        · apply hs.touched x
          split at hx
          · rw [setW_ne _ _ hxc] at hx; exact hx
          · exact hx
    · exact absurd h (by simp)

theorem sinv_applyEvs {wf : Wf} {k : Option Nat} : ∀ (es : List Ev) {st st' : St}, SInv wf k st →
    applyEvs st es = some st' → SInv wf k st'
  | [], st, st', hs, h => by simp [applyEvs] at h; subst h; exact hs
  | e :: es, st, st', hs, h => by
    simp only [applyEvs] at h
    split at h
    · rename_i st1 h1
      exact sinv_applyEvs es (sinv_applyEv hs h1) h
    · exact absurd h (by simp)

/-! ### poll, loop head, dispatch -/

theorem sinv_setNs {wf : Wf} {k : Option Nat} {st : St} (hs : SInv wf k st) {ns' : NSMap}
    (hn : NInv wf st.w ns') (hg : Grow st.ns ns') : SInv wf k { st with ns := ns' } :=
  ⟨hn, hs.futuredNodup, hs.futuresNodup, hs.futuresSub, hs.lockedPending, hs.limit, hs.touched,
    fun c hc => legit_grow hg (hs.legit c hc), fun j hj => taskLegit_grow hg (hs.tasksLegit j hj)⟩

theorem sinv_doPoll {wf : Wf} {k : Option Nat} {sorted : List NodeId} (ht : TopoOrder wf sorted) {st : St}
    (hs : SInv wf k st) : SInv wf k (doPoll wf k sorted st) := by
  obtain ⟨a, g, b⟩ := poll_spec ht k hs.ninv
  exact ⟨a, hs.futuredNodup, hs.futuresNodup, hs.futuresSub, hs.lockedPending, hs.limit, hs.touched,
    fun c hc => legit_grow g (hs.legit c hc), fun j hj => taskLegit_of_ok a (b j hj)⟩

theorem sinv_anyNotDone {wf : Wf} {k : Option Nat} {st : St} (hs : SInv wf k st) (l : List NodeId) :
    SInv wf k { st with ns := (anyNotDone st.w st.ns l).2 } :=
  sinv_setNs hs (ninv_anyNotDone l hs.ninv) (grow_anyNotDone st.w l st.ns)

theorem ckOf_mem {st : St} {j : Job} (h : TaskLegit st.ns j) : ckOf st j ∈ (st.ns.get j.1).cks :=
  ckAt_mem_cks h.2.2

theorem sinv_dispatchStep {wf : Wf} {k : Option Nat} {st : St} (hs : SInv wf k st) {j : Job}
    (hj : TaskLegit st.ns j) : SInv wf k (dispatchStep k st j) := by
  unfold dispatchStep
  simp only
  split
  · rename_i hc
    simp only [Bool.and_eq_true, Bool.not_eq_true', List.contains_eq_mem, decide_eq_false_iff_not] at hc
    obtain ⟨hnf, hlim⟩ := hc
    have hnf' : ckOf st j ∉ st.futures := fun h => hnf (hs.futuresSub _ h)
    refine ⟨hs.ninv, ?_, ?_, ?_, ?_, ?_, ?_, ?_, hs.tasksLegit⟩
    · exact List.nodup_append.mpr ⟨hs.futuredNodup, by simp, by
        intro a ha b hb; simp at hb; subst hb; intro e; subst e; exact hnf ha⟩
    · exact List.nodup_append.mpr ⟨hs.futuresNodup, by simp, by
        intro a ha b hb; simp at hb; subst hb; intro e; subst e; exact hnf' ha⟩
    · intro c hc
      rcases List.mem_append.mp hc with h | h
      · exact List.mem_append_left _ (hs.futuresSub c h)
      · exact List.mem_append_right _ h
    · intro c hc; exact List.mem_append_left _ (hs.lockedPending c hc)
    · intro k' hk
      subst hk
      simp only [underLimit, decide_eq_true_eq] at hlim
      simp only [List.length_append, List.length_singleton]
      omega
    · intro c hc; exact List.mem_append_left _ (hs.touched c hc)
    · intro c hc
      rcases List.mem_append.mp hc with h | h
      · exact hs.legit c h
      · simp at h; subst h
        exact ⟨j.1, hj.1, hj.2.1, ckOf_mem hj⟩
  · exact hs

theorem dispatchStep_ns (k : Option Nat) (st : St) (j : Job) : (dispatchStep k st j).ns = st.ns := by
  unfold dispatchStep; simp only; split <;> rfl

theorem sinv_foldl_dispatch {wf : Wf} {k : Option Nat} : ∀ (l : List Job) {st : St}, SInv wf k st →
    (∀ j, j ∈ l → TaskLegit st.ns j) → SInv wf k (l.foldl (dispatchStep k) st)
  | [], _, hs, _ => hs
  | j :: l, st, hs, hl => by
    simp only [List.foldl_cons]
    apply sinv_foldl_dispatch l (sinv_dispatchStep hs (hl j (by simp)))
    intro j' hj'
    rw [dispatchStep_ns]; exact hl j' (by simp [hj'])

theorem sinv_dispatch {wf : Wf} {k : Option Nat} {st : St} (hs : SInv wf k st) : SInv wf k (dispatch k st) :=
  sinv_foldl_dispatch st.tasks hs hs.tasksLegit

theorem sinv_stallLoop {wf : Wf} {k : Option Nat} {sorted : List NodeId} (ht : TopoOrder wf sorted) :
    ∀ (fuel : Nat) {st st' : St}, SInv wf k st → stallLoop wf k sorted fuel st = some st' → SInv wf k st'
  | 0, _, _, _, h => by simp [stallLoop] at h
  | fuel + 1, st, st', hs, h => by
    simp only [stallLoop] at h
    split at h
    · cases h; exact hs
    · split at h
      · cases h; exact sinv_anyNotDone hs _
      · split at h
        · exact absurd h (by simp)
        · exact sinv_stallLoop ht fuel (sinv_doPoll ht (sinv_anyNotDone hs _)) h

/-- the state handed on by the loop head (to the next `fetch_finished`, or at the end of the submission) -/
def Step.state? : Step → Option St
  | .cont st => some st
  | .done _ st => some st
  | .bad => none

theorem sinv_afterPoll {wf : Wf} {k : Option Nat} {sorted : List NodeId} (ht : TopoOrder wf sorted) {st : St}
    (hs : SInv wf k st) {st' : St} (h : (afterPoll wf k sorted st).state? = some st') : SInv wf k st' := by
  unfold afterPoll at h
  split at h
  · simp only [Step.state?, Option.some.injEq] at h; subst h; exact sinv_dispatch hs
  · simp only at h
    split at h
    · simp only [Step.state?, Option.some.injEq] at h; subst h; exact sinv_anyNotDone hs _
    · split at h
      · simp only [Step.state?, Option.some.injEq] at h; subst h; exact sinv_anyNotDone hs _
      · rename_i st2 hst
        simp only [Step.state?, Option.some.injEq] at h; subst h
        exact sinv_dispatch (sinv_stallLoop ht 11 (sinv_anyNotDone hs _) hst)

theorem sinv_start {wf : Wf} {k : Option Nat} {sorted : List NodeId} (ht : TopoOrder wf sorted) {st' : St}
    (h : (start wf k sorted (fun _ => .idle)).state? = some st') : SInv wf k st' :=
  sinv_afterPoll ht (sinv_doPoll ht (sinv_init wf k)) h

theorem sinv_round {wf : Wf} {k : Option Nat} {sorted : List NodeId} (ht : TopoOrder wf sorted) {st : St}
    (hs : SInv wf k st) (moves : List Ev) {st' : St}
    (h : (round wf k sorted st moves).state? = some st') : SInv wf k st' := by
  unfold round at h
  split at h
  · simp [Step.state?] at h
  · split at h
    · simp [Step.state?] at h
    · rename_i st1 hst1
      split at h
      · simp [Step.state?] at h
      · exact sinv_afterPoll ht (sinv_doPoll ht (sinv_applyEvs moves hs hst1)) h

theorem sinv_runFrom {wf : Wf} {k : Option Nat} {sorted : List NodeId} (ht : TopoOrder wf sorted) :
    ∀ (sched : List (List Ev)) (s : Step), (∀ st, s.state? = some st → SInv wf k st) →
      ∀ st', (runFrom wf k sorted s sched).state? = some st' → SInv wf k st'
  | [], s, hs, st', h => by
    cases s <;> simp only [runFrom] at h <;> exact hs st' h
  | mv :: rest, .cont st, hs, st', h => by
    simp only [runFrom] at h
    exact sinv_runFrom ht rest _ (fun st2 h2 => sinv_round ht (hs st rfl) mv h2) st' h
  | _ :: _, .done o st, hs, st', h => by simp only [runFrom] at h; exact hs st' h
  | _ :: _, .bad, _, st', h => by simp [runFrom, Step.state?] at h

/-- THE INVARIANT: every state reached by `expand_workflow_async` under any schedule satisfies `SInv` -/
theorem sinv_runAsync {wf : Wf} {k : Option Nat} {sorted : List NodeId} (ht : TopoOrder wf sorted)
    (sched : List (List Ev)) {st' : St} (h : (runAsync wf k sorted sched).state? = some st') : SInv wf k st' :=
  sinv_runFrom ht sched _ (fun _ h2 => sinv_start ht h2) st' h

end PydraModel.Sched
