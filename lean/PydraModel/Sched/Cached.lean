import PydraModel.Sched.Order
/-
A submission WITHOUT `rerun` over a cache that already holds SUCCESSFUL results (second run over a populated
`cache_root`, results found in `readonly_caches`): `Model.lean` started on a world `w0` with `w0 c ∈ {idle, ok}`.
`Job.run` returns the cached result of such a job without executing anything (`complete` is enabled on a pending
future whose result is on disk; `acquire` needs an `idle` checksum), `job.done` is answered from the disk.
(With pure bodies this is what `Sched/Rerun.lean` specialises to: `view_plain`, `diskWf_plain` below.)

`CInv` is `SInv` without the clause "nothing happens to a job on disk before it has been dispatched", which is what
a populated cache falsifies; everything else is invariant on every start world without locks.  The proofs are
those of `Sched/SysInv.lean`.
-/
namespace PydraModel.Sched
open PydraModel.Graph

structure CInv (wf : Wf) (k : Option Nat) (st : St) : Prop where
  ninv : NInv wf st.w st.ns
  futuredNodup : st.futured.Nodup
  futuresNodup : st.futures.Nodup
  futuresSub : ∀ c, c ∈ st.futures → c ∈ st.futured
  lockedPending : ∀ c, st.w c = .locked → c ∈ st.futures
  limit : ∀ k', k = some k' → st.futures.length ≤ k'
  legit : ∀ c, c ∈ st.futured →
    ∃ n, (st.ns.get n).blk ≠ none ∧ (st.ns.get n).unrunnable = false ∧ c ∈ (st.ns.get n).cks
  tasksLegit : ∀ j, j ∈ st.tasks → TaskLegit st.ns j

/-- no job is executing when the submission starts (no other submission shares the cache) -/
def NoLocks (w0 : World) : Prop := ∀ c, w0 c ≠ .locked

theorem cinv_init (wf : Wf) (k : Option Nat) {w0 : World} (h0 : NoLocks w0) : CInv wf k (St.init w0) := by
  constructor
  · exact ninv_init wf _
  · simp [St.init]
  · simp [St.init]
  · intro c h; simp [St.init] at h
  · intro c h; exact absurd h (h0 c)
  · intro k' _; simp [St.init]
  · intro c h; simp [St.init] at h
  · intro c h; simp [St.init] at h

theorem cinv_applyEv {wf : Wf} {k : Option Nat} {st st' : St} {e : Ev} (hs : CInv wf k st)
    (h : applyEv st e = some st') : CInv wf k st' := by
  have hm := applyEv_wmono h
  cases e with
  | acquire c =>
    simp only [applyEv] at h
    split at h
    · rename_i hc
      simp only [Bool.and_eq_true, beq_iff_eq, List.contains_eq_mem, decide_eq_true_eq] at hc
      cases h
      refine ⟨ninv_world hs.ninv hm, hs.futuredNodup, hs.futuresNodup, hs.futuresSub, ?_, hs.limit,
        hs.legit, hs.tasksLegit⟩
      · intro x hx
        by_cases hxc : x = c
        · subst hxc; exact hc.1
        · simp only [setW_ne _ _ hxc] at hx; exact hs.lockedPending x hx
    · exact absurd h (by simp)
  | finishOk c =>
    simp only [applyEv] at h
    split at h
    · rename_i hc
      simp only [beq_iff_eq] at hc
      cases h
      refine ⟨ninv_world hs.ninv hm, hs.futuredNodup, hs.futuresNodup, hs.futuresSub, ?_, hs.limit,
        hs.legit, hs.tasksLegit⟩
      · intro x hx
        by_cases hxc : x = c
        · subst hxc; simp [setW_same] at hx
        · simp only [setW_ne _ _ hxc] at hx; exact hs.lockedPending x hx
    · exact absurd h (by simp)
  | finishErr c =>
    simp only [applyEv] at h
    split at h
    · rename_i hc
      simp only [beq_iff_eq] at hc
      cases h
      refine ⟨ninv_world hs.ninv hm, hs.futuredNodup, hs.futuresNodup, hs.futuresSub, ?_, hs.limit,
        hs.legit, hs.tasksLegit⟩
      · intro x hx
        by_cases hxc : x = c
        · subst hxc; simp [setW_same] at hx
        · simp only [setW_ne _ _ hxc] at hx; exact hs.lockedPending x hx
    · exact absurd h (by simp)
  | complete c =>
    simp only [applyEv] at h
    split at h
    · rename_i hc
      simp only [Bool.and_eq_true, Bool.or_eq_true, beq_iff_eq, List.contains_eq_mem, decide_eq_true_eq] at hc
      cases h
      refine ⟨hs.ninv, hs.futuredNodup, hs.futuresNodup.erase c,
        fun x hx => hs.futuresSub x (List.mem_of_mem_erase hx), ?_, ?_, hs.legit, hs.tasksLegit⟩
      · intro x hx
        have hxc : x ≠ c := by
          intro e; subst e
          rcases hc.2 with h1 | h1 <;> rw [h1] at hx <;> simp at hx
        exact (List.mem_erase_of_ne hxc).mpr (hs.lockedPending x hx)
      · intro k' hk
        exact Nat.le_trans List.length_erase_le (hs.limit k' hk)
    · exact absurd h (by simp)
  | vanish c =>
    simp only [applyEv] at h
    split at h
    · rename_i hc
      simp only [Bool.and_eq_true, Bool.or_eq_true, beq_iff_eq, List.contains_eq_mem, decide_eq_true_eq] at hc
      cases h
      refine ⟨ninv_world hs.ninv hm, hs.futuredNodup, hs.futuresNodup.erase c,
        fun x hx => hs.futuresSub x (List.mem_of_mem_erase hx), ?_, ?_, hs.legit, hs.tasksLegit⟩
      · intro x hx
        simp only at hx
        have hxc : x ≠ c := by
          intro e; subst e
          split at hx
          · simp [setW_same] at hx
          · rename_i hnl
            simp only [beq_iff_eq] at hnl
            exact hnl hx
        have hx' : st.w x = .locked := by
          split at hx
          · rw [setW_ne _ _ hxc] at hx; exact hx
          · exact hx
        exact (List.mem_erase_of_ne hxc).mpr (hs.lockedPending x hx')
      · intro k' hk
        exact Nat.le_trans List.length_erase_le (hs.limit k' hk)
    · exact absurd h (by simp)


theorem cinv_applyEvs {wf : Wf} {k : Option Nat} : ∀ (es : List Ev) {st st' : St}, CInv wf k st →
    applyEvs st es = some st' → CInv wf k st'
  | [], st, st', hs, h => by simp [applyEvs] at h; subst h; exact hs
  | e :: es, st, st', hs, h => by
    simp only [applyEvs] at h
    split at h
    · rename_i st1 h1
      exact cinv_applyEvs es (cinv_applyEv hs h1) h
    · exact absurd h (by simp)


theorem cinv_setNs {wf : Wf} {k : Option Nat} {st : St} (hs : CInv wf k st) {ns' : NSMap}
    (hn : NInv wf st.w ns') (hg : Grow st.ns ns') : CInv wf k { st with ns := ns' } :=
  ⟨hn, hs.futuredNodup, hs.futuresNodup, hs.futuresSub, hs.lockedPending, hs.limit,
    fun c hc => legit_grow hg (hs.legit c hc), fun j hj => taskLegit_grow hg (hs.tasksLegit j hj)⟩


theorem cinv_doPoll {wf : Wf} {k : Option Nat} {sorted : List NodeId} (ht : TopoOrder wf sorted) {st : St}
    (hs : CInv wf k st) : CInv wf k (doPoll wf k sorted st) := by
  obtain ⟨a, g, b⟩ := poll_spec ht k hs.ninv
  exact ⟨a, hs.futuredNodup, hs.futuresNodup, hs.futuresSub, hs.lockedPending, hs.limit,
    fun c hc => legit_grow g (hs.legit c hc), fun j hj => taskLegit_of_ok a (b j hj)⟩


theorem cinv_anyNotDone {wf : Wf} {k : Option Nat} {st : St} (hs : CInv wf k st) (l : List NodeId) :
    CInv wf k { st with ns := (anyNotDone st.w st.ns l).2 } :=
  cinv_setNs hs (ninv_anyNotDone l hs.ninv) (grow_anyNotDone st.w l st.ns)


theorem cinv_dispatchStep {wf : Wf} {k : Option Nat} {st : St} (hs : CInv wf k st) {j : Job}
    (hj : TaskLegit st.ns j) : CInv wf k (dispatchStep k st j) := by
  unfold dispatchStep
  simp only
  split
  · rename_i hc
    simp only [Bool.and_eq_true, Bool.not_eq_true', List.contains_eq_mem, decide_eq_false_iff_not] at hc
    obtain ⟨hnf, hlim⟩ := hc
    have hnf' : ckOf st j ∉ st.futures := fun h => hnf (hs.futuresSub _ h)
    refine ⟨hs.ninv, ?_, ?_, ?_, ?_, ?_, ?_, hs.tasksLegit⟩
    · exact List.nodup_append.mpr ⟨hs.futuredNodup, by simp, by
        intro a ha b hb; simp at hb; subst hb; intro e; subst e; exact hnf ha⟩
    · exact List.nodup_append.mpr ⟨hs.futuresNodup, by simp, by
        intro a ha b hb; simp at hb; subst hb; intro e; subst e; exact hnf' ha⟩
    · intro c hc
      rcases List.mem_append.mp hc with h | h
      · exact List.mem_append_left _ (hs.futuresSub c h)
      · exact List.mem_append_right _ h
    · intro c hc; exact List.mem_append_left _ (hs.lockedPending c hc)
    · intro k' hk
      subst hk
      simp only [underLimit, decide_eq_true_eq] at hlim
      simp only [List.length_append, List.length_singleton]
      omega
    · intro c hc
      rcases List.mem_append.mp hc with h | h
      · exact hs.legit c h
      · simp at h; subst h
        exact ⟨j.1, hj.1, hj.2.1, ckOf_mem hj⟩
  · exact hs


theorem cinv_foldl_dispatch {wf : Wf} {k : Option Nat} : ∀ (l : List Job) {st : St}, CInv wf k st →
    (∀ j, j ∈ l → TaskLegit st.ns j) → CInv wf k (l.foldl (dispatchStep k) st)
  | [], _, hs, _ => hs
  | j :: l, st, hs, hl => by
    simp only [List.foldl_cons]
    apply cinv_foldl_dispatch l (cinv_dispatchStep hs (hl j (by simp)))
    intro j' hj'
    rw [dispatchStep_ns]; exact hl j' (by simp [hj'])


theorem cinv_dispatch {wf : Wf} {k : Option Nat} {st : St} (hs : CInv wf k st) : CInv wf k (dispatch k st) :=
  cinv_foldl_dispatch st.tasks hs hs.tasksLegit


theorem cinv_stallLoop {wf : Wf} {k : Option Nat} {sorted : List NodeId} (ht : TopoOrder wf sorted) :
    ∀ (fuel : Nat) {st st' : St}, CInv wf k st → stallLoop wf k sorted fuel st = some st' → CInv wf k st'
  | 0, _, _, _, h => by simp [stallLoop] at h
  | fuel + 1, st, st', hs, h => by
    simp only [stallLoop] at h
    split at h
    · cases h; exact hs
    · split at h
      · cases h; exact cinv_anyNotDone hs _
      · split at h
        · exact absurd h (by simp)
        · exact cinv_stallLoop ht fuel (cinv_doPoll ht (cinv_anyNotDone hs _)) h


theorem cinv_afterPoll {wf : Wf} {k : Option Nat} {sorted : List NodeId} (ht : TopoOrder wf sorted) {st : St}
    (hs : CInv wf k st) {st' : St} (h : (afterPoll wf k sorted st).state? = some st') : CInv wf k st' := by
  unfold afterPoll at h
  split at h
  · simp only [Step.state?, Option.some.injEq] at h; subst h; exact cinv_dispatch hs
  · simp only at h
    split at h
    · simp only [Step.state?, Option.some.injEq] at h; subst h; exact cinv_anyNotDone hs _
    · split at h
      · simp only [Step.state?, Option.some.injEq] at h; subst h; exact cinv_anyNotDone hs _
      · rename_i st2 hst
        simp only [Step.state?, Option.some.injEq] at h; subst h
        exact cinv_dispatch (cinv_stallLoop ht 11 (cinv_anyNotDone hs _) hst)


theorem cinv_round {wf : Wf} {k : Option Nat} {sorted : List NodeId} (ht : TopoOrder wf sorted) {st : St}
    (hs : CInv wf k st) (moves : List Ev) {st' : St}
    (h : (round wf k sorted st moves).state? = some st') : CInv wf k st' := by
  unfold round at h
  split at h
  · simp [Step.state?] at h
  · split at h
    · simp [Step.state?] at h
    · rename_i st1 hst1
      split at h
      · simp [Step.state?] at h
      · exact cinv_afterPoll ht (cinv_doPoll ht (cinv_applyEvs moves hs hst1)) h


theorem cinv_runFrom {wf : Wf} {k : Option Nat} {sorted : List NodeId} (ht : TopoOrder wf sorted) :
    ∀ (sched : List (List Ev)) (s : Step), (∀ st, s.state? = some st → CInv wf k st) →
      ∀ st', (runFrom wf k sorted s sched).state? = some st' → CInv wf k st'
  | [], s, hs, st', h => by
    cases s <;> simp only [runFrom] at h <;> exact hs st' h
  | mv :: rest, .cont st, hs, st', h => by
    simp only [runFrom] at h
    exact cinv_runFrom ht rest _ (fun st2 h2 => cinv_round ht (hs st rfl) mv h2) st' h
  | _ :: _, .done o st, hs, st', h => by simp only [runFrom] at h; exact hs st' h
  | _ :: _, .bad, _, st', h => by simp [runFrom, Step.state?] at h


theorem cinv_start {wf : Wf} {k : Option Nat} {sorted : List NodeId} (ht : TopoOrder wf sorted) {w0 : World}
    (h0 : NoLocks w0) {st' : St} (h : (start wf k sorted w0).state? = some st') : CInv wf k st' :=
  cinv_afterPoll ht (cinv_doPoll ht (cinv_init wf k h0)) h

/-- the ground truth only moves forward: in particular a cached successful result stays what it is -/
theorem runFrom_wmono {wf : Wf} {k : Option Nat} {sorted : List NodeId} :
    ∀ (sched : List (List Ev)) (s : Step) (w : World), (∀ st, s.state? = some st → WMono w st.w) →
      ∀ st', (runFrom wf k sorted s sched).state? = some st' → WMono w st'.w
  | [], s, w, hs, st', h => by
    cases s <;> simp only [runFrom] at h <;> exact hs st' h
  | mv :: rest, .cont st, w, hs, st', h => by
    simp only [runFrom] at h
    exact runFrom_wmono rest _ w (fun st2 h2 => (hs st rfl).trans (round_wmono h2)) st' h
  | _ :: _, .done o st, w, hs, st', h => by simp only [runFrom] at h; exact hs st' h
  | _ :: _, .bad, _, _, st', h => by simp [runFrom, Step.state?] at h

theorem start_w {wf : Wf} {k : Option Nat} {sorted : List NodeId} {w0 : World} {st' : St}
    (h : (start wf k sorted w0).state? = some st') : st'.w = w0 :=
  afterPoll_w h

end PydraModel.Sched
