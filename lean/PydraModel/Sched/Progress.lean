import PydraModel.Sched.Failure
/-
Termination: the measure that grows with every completed future, the bound on busy rounds, and `DiGraph.sorting`
succeeds exactly on acyclic graphs.
-/
namespace PydraModel.Sched
open PydraModel.Graph

/-! ### every round that awaits something completes at least one future -/

theorem applyEv_futures {st st' : St} {e : Ev} (h : applyEv st e = some st') :
    st'.futures.length ≤ st.futures.length ∧ st'.futured = st.futured := by
  cases e <;> simp only [applyEv] at h <;> split at h <;>
    first
    | (cases h; exact ⟨Nat.le_refl _, rfl⟩)
    | (cases h; exact ⟨List.length_erase_le, rfl⟩)
    | exact absurd h (by simp)

theorem applyEvs_futures : ∀ (es : List Ev) {st st' : St}, applyEvs st es = some st' →
    st'.futures.length ≤ st.futures.length ∧ st'.futured = st.futured
  | [], st, st', h => by simp [applyEvs] at h; subst h; exact ⟨Nat.le_refl _, rfl⟩
  | e :: es, st, st', h => by
    simp only [applyEvs] at h
    split at h
    · rename_i st1 h1
      obtain ⟨a, b⟩ := applyEv_futures h1
      obtain ⟨c, d⟩ := applyEvs_futures es h
      exact ⟨Nat.le_trans c a, d.trans b⟩
    · exact absurd h (by simp)

/-- dispatching adds the same jobs to the log and to the pending set -/
theorem dispatchStep_balance (k : Option Nat) (st : St) (j : Job) :
    (dispatchStep k st j).futured.length + st.futures.length =
      st.futured.length + (dispatchStep k st j).futures.length := by
  unfold dispatchStep; simp only; split
  · simp only [List.length_append, List.length_singleton]; omega
  · rfl

theorem foldl_dispatch_balance (k : Option Nat) : ∀ (l : List Job) (st : St),
    (l.foldl (dispatchStep k) st).futured.length + st.futures.length =
      st.futured.length + (l.foldl (dispatchStep k) st).futures.length
  | [], _ => rfl
  | j :: l, st => by
    simp only [List.foldl_cons]
    have h1 := foldl_dispatch_balance k l (dispatchStep k st j)
    have h2 := dispatchStep_balance k st j
    omega

theorem dispatch_balance (k : Option Nat) (st : St) :
    (dispatch k st).futured.length + st.futures.length = st.futured.length + (dispatch k st).futures.length :=
  foldl_dispatch_balance k st.tasks st

theorem stallLoop_frame {wf : Wf} {k : Option Nat} {sorted : List NodeId} : ∀ (fuel : Nat) {st st' : St},
    stallLoop wf k sorted fuel st = some st' → st'.futured = st.futured ∧ st'.futures = st.futures
  | 0, _, _, h => by simp [stallLoop] at h
  | fuel + 1, st, st', h => by
    simp only [stallLoop] at h
    split at h
    · cases h; exact ⟨rfl, rfl⟩
    · split at h
      · cases h; exact ⟨rfl, rfl⟩
      · split at h
        · exact absurd h (by simp)
        · obtain ⟨a, b⟩ := stallLoop_frame fuel h
          exact ⟨a.trans rfl, b.trans rfl⟩

theorem afterPoll_balance {wf : Wf} {k : Option Nat} {sorted : List NodeId} {st st' : St}
    (h : (afterPoll wf k sorted st).state? = some st') :
    st'.futured.length + st.futures.length = st.futured.length + st'.futures.length := by
  unfold afterPoll at h
  split at h
  · simp only [Step.state?, Option.some.injEq] at h; subst h; exact dispatch_balance k st
  · simp only at h
    split at h
    · simp only [Step.state?, Option.some.injEq] at h; subst h; rfl
    · split at h
      · simp only [Step.state?, Option.some.injEq] at h; subst h; rfl
      · rename_i st2 hst
        simp only [Step.state?, Option.some.injEq] at h; subst h
        obtain ⟨a, b⟩ := stallLoop_frame 11 hst
        have := dispatch_balance k st2
        rw [a, b] at this
        exact this

/-- number of futures that have completed so far -/
def completed (st : St) : Nat := st.futured.length - st.futures.length

theorem futures_le_futured {wf : Wf} {k : Option Nat} {st : St} (hs : SInv wf k st) :
    st.futures.length ≤ st.futured.length :=
  hs.futuresNodup.length_le_of_subset hs.futuresSub

/-- PROGRESS MEASURE: a round in which the loop awaits something ends with strictly more completed futures -/
theorem round_completes {wf : Wf} {k : Option Nat} {sorted : List NodeId} (ht : TopoOrder wf sorted) {st : St}
    (hs : SInv wf k st) (hne : st.futures ≠ []) (moves : List Ev) {st' : St}
    (h : (round wf k sorted st moves).state? = some st') : completed st < completed st' := by
  have hs' := sinv_round ht hs moves h
  unfold round at h
  split at h
  · simp [Step.state?] at h
  · split at h
    · simp [Step.state?] at h
    · rename_i st1 hst1
      split at h
      · simp [Step.state?] at h
      · rename_i hlen
        obtain ⟨a, b⟩ := applyEvs_futures moves hst1
        have hlt : st1.futures.length < st.futures.length := by
          have hne' : st.futures.isEmpty = false := by simpa [List.isEmpty_iff] using hne
          simp only [hne', Bool.not_false, Bool.true_and, beq_iff_eq] at hlen
          omega
        have hb := afterPoll_balance h
        have e1 : (doPoll wf k sorted st1).futured = st1.futured := rfl
        have e2 : (doPoll wf k sorted st1).futures = st1.futures := rfl
        rw [e1, e2, b] at hb
        have h1 := futures_le_futured hs
        have h2 := futures_le_futured hs'
        unfold completed
        omega

/-- an idle round (nothing awaited) does not change the number of completed futures -/
theorem round_idle_completed {wf : Wf} {k : Option Nat} {sorted : List NodeId} {st : St}
    (he : st.futures = []) (moves : List Ev) {st' : St}
    (h : (round wf k sorted st moves).state? = some st') : completed st' = completed st := by
  unfold round at h
  split at h
  · simp [Step.state?] at h
  · rename_i hm
    have hmoves : moves = [] := by
      cases moves with
      | nil => rfl
      | cons e es => simp [he] at hm
    subst hmoves
    simp only [applyEvs] at h
    split at h
    · simp [Step.state?] at h
    · have hb := afterPoll_balance h
      have e1 : (doPoll wf k sorted st).futured = st.futured := rfl
      have e2 : (doPoll wf k sorted st).futures = st.futures := rfl
      rw [e1, e2] at hb
      unfold completed
      rw [he] at hb ⊢
      simp only [List.length_nil] at hb ⊢
      omega

/-- number of rounds of a run in which the loop awaited at least one future -/
def busyRounds (wf : Wf) (k : Option Nat) (sorted : List NodeId) : Step → List (List Ev) → Nat
  | .cont st, mv :: rest =>
    (if st.futures.isEmpty then 0 else 1) + busyRounds wf k sorted (round wf k sorted st mv) rest
  | _, _ => 0

/-- BOUND: along any run, the number of busy rounds is at most the number of futures that completed, hence at most
    the number of jobs ever dispatched -/
theorem busyRounds_le {wf : Wf} {k : Option Nat} {sorted : List NodeId} (ht : TopoOrder wf sorted) :
    ∀ (sched : List (List Ev)) (s : Step), (∀ st, s.state? = some st → SInv wf k st) →
      ∀ st0 st', s.state? = some st0 → (runFrom wf k sorted s sched).state? = some st' →
        busyRounds wf k sorted s sched + completed st0 ≤ completed st'
  | [], s, _, st0, st', h0, h => by
    have : runFrom wf k sorted s [] = s := by cases s <;> rfl
    rw [this, h0] at h
    cases h
    cases s <;> simp [busyRounds]
  | mv :: rest, .cont st, hs, st0, st', h0, h => by
    simp only [Step.state?, Option.some.injEq] at h0
    subst h0
    simp only [runFrom] at h
    simp only [busyRounds]
    have hsi := hs st rfl
    -- the state after this round (the run goes on from it, so it exists)
    cases hr : round wf k sorted st mv with
    | bad => rw [hr] at h; simp [runFrom, Step.state?] at h
    | cont st1 =>
      rw [hr] at h
      have hst1 : (round wf k sorted st mv).state? = some st1 := by rw [hr]; rfl
      have ih := busyRounds_le ht rest (.cont st1)
        (fun x hx => by simp only [Step.state?, Option.some.injEq] at hx; subst hx; exact sinv_round ht hsi mv hst1)
        st1 st' rfl h
      by_cases he : st.futures = []
      · have := round_idle_completed he mv hst1
        simp only [he, List.isEmpty_nil, if_true]
        omega
      · have := round_completes ht hsi he mv hst1
        have hne : st.futures.isEmpty = false := by simpa [List.isEmpty_iff] using he
        simp only [hne, Bool.false_eq_true, if_false]
        omega
    | done o st1 =>
      rw [hr] at h
      have hst1 : (round wf k sorted st mv).state? = some st1 := by rw [hr]; rfl
      have hrun : runFrom wf k sorted (.done o st1) rest = .done o st1 := by cases rest <;> rfl
      rw [hrun] at h
      simp only [Step.state?, Option.some.injEq] at h
      subst h
      have hb : busyRounds wf k sorted (.done o st1) rest = 0 := by cases rest <;> rfl
      rw [hb]
      by_cases he : st.futures = []
      · have := round_idle_completed he mv hst1
        simp only [he, List.isEmpty_nil, if_true]
        omega
      · have := round_completes ht hsi he mv hst1
        have hne : st.futures.isEmpty = false := by simpa [List.isEmpty_iff] using he
        simp only [hne, Bool.false_eq_true, if_false]
        omega
  | _ :: _, .done o st, _, st0, st', h0, h => by
    simp only [runFrom] at h
    rw [h0] at h; cases h
    simp [busyRounds]
  | _ :: _, .bad, _, _, _, h0, _ => by simp [Step.state?] at h0

/-! ### a poll touches only the nodes of `sorted_nodes` and their predecessors -/

theorem allDone_frame (w : World) {n : NodeId} : ∀ (ps : List NodeId) (ns : NSMap), n ∉ ps →
    (allDone w ns ps).2.get n = ns.get n
  | [], _, _ => rfl
  | p :: ps, ns, h => by
    have hp : n ≠ p := fun e => h (by simp [e])
    have hps : n ∉ ps := fun e => h (by simp [e])
    show ((if (nodeDone w ns p).1 = true then allDone w (nodeDone w ns p).2 ps
      else (false, (nodeDone w ns p).2)).2).get n = ns.get n
    by_cases hd : (nodeDone w ns p).1 = true
    · rw [if_pos hd, allDone_frame w ps _ hps]; exact upd_get_ne w ns hp
    · rw [if_neg hd]; exact upd_get_ne w ns hp

theorem allDoneAll_frame (w : World) {n : NodeId} : ∀ (ps : List NodeId) (ns : NSMap), n ∉ ps →
    (allDoneAll w ns ps).2.get n = ns.get n
  | [], _, _ => rfl
  | p :: ps, ns, h => by
    have hp : n ≠ p := fun e => h (by simp [e])
    have hps : n ∉ ps := fun e => h (by simp [e])
    rw [allDoneAll_cons]
    show (allDoneAll w (nodeDone w ns p).2 ps).2.get n = ns.get n
    rw [allDoneAll_frame w ps _ hps]; exact upd_get_ne w ns hp

theorem nodeRunnable_frame (wf : Wf) (w : World) (ns : NSMap) {n m : NodeId} (hm : m ≠ n)
    (hp : m ∉ wf.preds n) : (nodeRunnable wf w ns n).1.get m = ns.get m := by
  unfold nodeRunnable
  simp only
  split
  · rw [upd_get_ne _ _ hm, setN_get_ne _ _ hm]; exact allDoneAll_frame w _ ns hp
  · split
    · rw [setN_get_ne _ _ hm]; exact allDoneAll_frame w _ ns hp
    · exact allDoneAll_frame w _ ns hp

theorem scan_frame (wf : Wf) (w : World) {n : NodeId} : ∀ (rest : List NodeId) (ns : NSMap) (nst : List NodeId)
    (tasks : List Job), n ∉ rest → (∀ m, m ∈ rest → n ∉ wf.preds m) →
    (scan wf w rest ns nst tasks).1.get n = ns.get n
  | [], _, _, _, _, _ => rfl
  | m :: rest, ns, nst, tasks, h1, h2 => by
    have hnm : n ≠ m := fun e => h1 (by simp [e])
    have hr : n ∉ rest := fun e => h1 (by simp [e])
    have hp : n ∉ wf.preds m := h2 m (by simp)
    have h2' : ∀ x, x ∈ rest → n ∉ wf.preds x := fun x hx => h2 x (by simp [hx])
    have e0 : (nodeDone w ns m).2.get n = ns.get n := upd_get_ne w ns hnm
    rw [scan_cons]
    by_cases hd : (nodeDone w ns m).1 = true
    · rw [if_pos hd, scan_frame wf w rest _ _ _ hr h2', e0]
    · rw [if_neg hd]
      by_cases hb : (wf.preds m).any (fun p => nst.contains p) = true
      · rw [if_pos hb]; exact e0
      · rw [if_neg hb, scan_frame wf w rest _ _ _ hr h2', nodeRunnable_frame wf w _ hnm hp, e0]

/-! ### `DiGraph.sorting` succeeds exactly on acyclic graphs -/

/-- the graph as `Workflow._create_graph` builds it: connections between listed nodes only, each node once -/
structure ClosedGraph (g : G) : Prop where
  wip : g.wip = []
  nodup : g.nodes.Nodup
  src : ∀ e, e ∈ g.edges → e.1 ∈ g.nodes
  dst : ∀ e, e ∈ g.edges → e.2 ∈ g.nodes

theorem acyclic_of_sorted {g : G} (hc : ClosedGraph g) {l : List Id} (h : sortFrom g [] = some l) : Acyclic g := by
  obtain ⟨ht, hp⟩ := sortFrom_spec g [] l h
  simp only [if_true] at hp
  have hnd : l.Nodup := hp.nodup_iff.mpr hc.nodup
  refine ⟨fun x => l.idxOf x, ?_⟩
  intro e he _
  have hb : e.2 ∈ l := hp.mem_iff.mpr (hc.dst e he)
  obtain ⟨l1, l2, hl⟩ := List.append_of_mem hb
  rcases ht l1 e.2 l2 hl e he rfl with ha | ha
  · have hnb : e.2 ∉ l1 := by
      intro hm
      rw [hl] at hnd
      have := (List.nodup_append.mp hnd).2.2 e.2 hm e.2 (by simp)
      exact this rfl
    have h1 : l.idxOf e.1 = l1.idxOf e.1 := by rw [hl, List.idxOf_append, if_pos ha]
    have h2 : l.idxOf e.2 = l1.length := by
      rw [hl, List.idxOf_append, if_neg hnb]; simp
    show l.idxOf e.1 < l.idxOf e.2
    rw [h1, h2]
    exact List.idxOf_lt_length_of_mem ha
  · rw [hc.wip] at ha; simp at ha

theorem sorted_of_acyclic {g : G} (hc : ClosedGraph g) (hac : Acyclic g) : ∃ l, sortFrom g [] = some l :=
  sortFrom_progress g [] hac (fun e he _ => Or.inr (by simpa using hc.src e he))

end PydraModel.Sched
