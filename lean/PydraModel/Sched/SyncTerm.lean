import PydraModel.Sched.Idle
/-
Termination of the synchronous loop (`Submitter.expand_workflow`, debug worker): a potential that grows with every
iteration, hence a fuel bound for `runSync`.
-/
namespace PydraModel.Sched
open PydraModel.Graph

/-- what one poll does in a quiet world (every job untouched or finished): it starts a node, or returns only
    untouched jobs, or finds every node done -/
theorem quiet_poll_cases {wf : Wf} {k : Option Nat} {sorted : List NodeId} (ht : TopoOrder wf sorted)
    (hk : k ≠ some 0) {w : World} {ns : NSMap} (hn : NInv wf w ns) (hq : Quiet w) :
    (∃ n, n ∈ sorted ∧ (ns.get n).blk = none ∧ ((poll wf k sorted w ns).1.get n).blk ≠ none) ∨
    ((poll wf k sorted w ns).2 ≠ [] ∧
      ∀ j, j ∈ (poll wf k sorted w ns).2 → w (((poll wf k sorted w ns).1.get j.1).ckAt j.2) = .idle) ∨
    ((poll wf k sorted w ns).2 = [] ∧ ∀ n, n ∈ sorted → ((poll wf k sorted w ns).1.get n).isDone = true) := by
  have hs0 : ScanSt wf w ns [] ns [] [] :=
    ⟨hn, Grow.refl _, fun p hp => absurd hp (by simp), fun j hj => absurd hj (by simp)⟩
  show (∃ n, n ∈ sorted ∧ (ns.get n).blk = none ∧ ((scan wf w sorted ns [] []).1.get n).blk ≠ none) ∨
    (truncate k (scan wf w sorted ns [] []).2 ≠ [] ∧
      ∀ j, j ∈ truncate k (scan wf w sorted ns [] []).2 → w (((scan wf w sorted ns [] []).1.get j.1).ckAt j.2) = .idle) ∨
    (truncate k (scan wf w sorted ns [] []).2 = [] ∧
      ∀ n, n ∈ sorted → ((scan wf w sorted ns [] []).1.get n).isDone = true)
  by_cases hall : ∀ n, n ∈ sorted → (updateStatus w (ns.get n)).isDone = true
  · right; right
    obtain ⟨a, b, _⟩ := scan_all_done wf w sorted ns [] [] ht.nodup hall
    refine ⟨by rw [a]; cases k <;> simp [truncate], b⟩
  · have hex : ∃ n, n ∈ sorted ∧ (updateStatus w (ns.get n)).isDone = false := by
      by_cases h : ∃ n, n ∈ sorted ∧ (updateStatus w (ns.get n)).isDone = false
      · exact h
      · exfalso; apply hall
        intro n hn
        cases hx : (updateStatus w (ns.get n)).isDone
        · exact absurd ⟨n, hn, hx⟩ h
        · rfl
    rcases scan_progress ht hq ns sorted [] ns (by simp) hs0 (fun p hp => absurd hp (by simp)) hex with h | h
    · by_cases hfresh : ∃ j, j ∈ (scan wf w sorted ns [] []).2 ∧ (ns.get j.1).blk = none
      · left
        obtain ⟨j, hj, hb⟩ := hfresh
        obtain ⟨_, _, hok⟩ := scan_spec ht ns sorted [] ns [] [] (by simp) hs0
        obtain ⟨hjs, _⟩ := scan_tasks_fix ht ns sorted [] ns [] [] (by simp) hs0
          (fun j hj => absurd hj (by simp)) j hj
        exact ⟨j.1, hjs, hb, (hok j hj).1⟩
      · right; left
        refine ⟨truncate_ne_nil hk h, ?_⟩
        intro j hj
        have hj' := mem_truncate hj
        obtain ⟨_, _, hok⟩ := scan_spec ht ns sorted [] ns [] [] (by simp) hs0
        obtain ⟨_, hff⟩ := scan_tasks_fix ht ns sorted [] ns [] [] (by simp) hs0
          (fun j hj => absurd hj (by simp)) j hj'
        have hfix : Fix w ((scan wf w sorted ns [] []).1.get j.1) := by
          rcases hff with hb | hfx
          · exact absurd ⟨j, hj', hb⟩ hfresh
          · exact hfx
        obtain ⟨hb, _, hq'⟩ := hok j hj'
        exact fix_queued_idle hfix (started_of_blk hb) j.2 hq'
    · left
      obtain ⟨n, hn', h1, h2⟩ := h
      exact ⟨n, hn', h1, h2⟩

/-! ### running the tasks of one poll -/

theorem runTasks_noop (fail : Ck → Bool) : ∀ (js : List Job) (st : St),
    (∀ j, j ∈ js → st.w (ckOf st j) = .ok) → runTasks fail st js = .ok st
  | [], _, _ => rfl
  | j :: js, st, h => by
    simp only [runTasks]
    have : (st.w (ckOf st j) == Truth.ok) = true := by rw [h j (by simp)]; rfl
    rw [if_pos this]
    exact runTasks_noop fail js st (fun j' hj' => h j' (by simp [hj']))

/-- the execution log only grows, and it grows if some task had no result yet -/
theorem runTasks_futured (fail : Ck → Bool) : ∀ (js : List Job) (st st' : St), runTasks fail st js = .ok st' →
    st.futured.length ≤ st'.futured.length ∧
    ((∃ j, j ∈ js ∧ st.w (ckOf st j) ≠ .ok) → st.futured.length < st'.futured.length)
  | [], st, st', h => by
    simp only [runTasks, Except.ok.injEq] at h; subst h
    exact ⟨Nat.le_refl _, fun ⟨j, hj, _⟩ => absurd hj (by simp)⟩
  | j :: js, st, st', h => by
    simp only [runTasks] at h
    split at h
    · rename_i hok
      obtain ⟨a, b⟩ := runTasks_futured fail js st st' h
      refine ⟨a, ?_⟩
      rintro ⟨j', hj', hne⟩
      rcases List.mem_cons.mp hj' with rfl | hj'
      · exact absurd (by simpa using hok) hne
      · exact b ⟨j', hj', hne⟩
    · split at h
      · exact absurd h (by simp)
      · obtain ⟨a, _⟩ := runTasks_futured fail js _ st' h
        simp only [List.length_append, List.length_singleton] at a
        exact ⟨by omega, fun _ => by omega⟩

/-! ### the potential -/

/-- the tasks of the last poll are all untouched jobs (so the next iteration executes a body) -/
def armed (st : St) : Nat :=
  if !st.tasks.isEmpty && st.tasks.all (fun j => st.w (ckOf st j) == .idle) then 1 else 0

def syncPot (sorted : List NodeId) (st : St) : Nat :=
  2 * st.futured.length + 2 * startedCount sorted st.ns + armed st

/-- nothing is runnable and every node is done: the loop ends at its next test -/
def Terminal (sorted : List NodeId) (st : St) : Prop :=
  st.tasks = [] ∧ ∀ n, n ∈ sorted → (st.ns.get n).isDone = true

theorem armed_le (st : St) : armed st ≤ 1 := by unfold armed; split <;> omega

theorem armed_zero_of_ok {st : St} (h : ∀ j, j ∈ st.tasks → st.w (ckOf st j) = .ok) : armed st = 0 := by
  unfold armed
  cases ht : st.tasks with
  | nil => simp
  | cons j js =>
    have := h j (by rw [ht]; simp)
    simp [List.all_cons, this]

theorem armed_one {st : St} (h1 : st.tasks ≠ []) (h2 : ∀ j, j ∈ st.tasks → st.w (ckOf st j) = .idle) :
    armed st = 1 := by
  unfold armed
  have a : st.tasks.isEmpty = false := by simpa [List.isEmpty_iff] using h1
  have b : st.tasks.all (fun j => st.w (ckOf st j) == .idle) = true := by
    rw [List.all_eq_true]; intro j hj; rw [h2 j hj]; rfl
  simp [a, b]

theorem quiet_of_sync {wf : Wf} {st : St} (hs : SyncInv wf st) : Quiet st.w := by
  intro c
  rcases hs.twoValued c with h | h
  · exact Or.inl h
  · exact Or.inr (Or.inl h)

/-- ONE ITERATION of the synchronous loop that goes on: the state after the next poll has a larger potential, or
    is terminal.  `g` is the state in which the tasks are run (after the loop test). -/
theorem sync_iteration {wf : Wf} {k : Option Nat} {sorted : List NodeId} (ht : TopoOrder wf sorted)
    (hk : k ≠ some 0) (fail : Ck → Bool) {g st1 : St} (hg : SyncInv wf g)
    (hrun : runTasks fail g g.tasks = .ok st1) :
    syncPot sorted g < syncPot sorted (doPoll wf k sorted st1) ∨ Terminal sorted (doPoll wf k sorted st1) := by
  obtain ⟨hs1, hns1, _⟩ := syncInv_runTasks fail g.tasks hg hg.tasksLegit hrun
  obtain ⟨hle, hlt⟩ := runTasks_futured fail g.tasks g st1 hrun
  have hgrow : Grow st1.ns (doPoll wf k sorted st1).ns := (poll_spec ht k hs1.ninv).2.1
  have hS : startedCount sorted g.ns ≤ startedCount sorted (doPoll wf k sorted st1).ns := by
    rw [← hns1]; exact startedCount_mono sorted hgrow
  have hF : (doPoll wf k sorted st1).futured = st1.futured := rfl
  by_cases hbody : ∃ j, j ∈ g.tasks ∧ g.w (ckOf g j) ≠ .ok
  · -- a body was executed
    left
    have := hlt hbody
    have a1 := armed_le g
    unfold syncPot
    rw [hF]
    omega
  · -- nothing to execute: every task already has its result
    have hallok : ∀ j, j ∈ g.tasks → g.w (ckOf g j) = .ok := by
      intro j hj
      rcases hg.twoValued (ckOf g j) with h | h
      · exact absurd ⟨j, hj, by rw [h]; simp⟩ hbody
      · exact h
    have hst1 : st1 = g := by
      have := runTasks_noop fail g.tasks g hallok
      rw [this] at hrun; simp only [Except.ok.injEq] at hrun; exact hrun.symm
    subst hst1
    have ha0 := armed_zero_of_ok hallok
    rcases quiet_poll_cases (k := k) ht hk hg.ninv (quiet_of_sync hg) with ⟨n, hn, h1, h2⟩ | ⟨hne, hidle⟩ | ⟨hnil, hdone⟩
    · left
      have := startedCount_lt sorted hgrow hn h1 h2
      unfold syncPot
      rw [hF, ha0]
      omega
    · left
      have h1 : armed (doPoll wf k sorted st1) = 1 := armed_one hne hidle
      unfold syncPot
      rw [hF, ha0, h1]
      omega
    · right; exact ⟨hnil, hdone⟩

/-- a state all of whose untouched nodes lie inside `sorted` -/
def OutInit (sorted : List NodeId) (st : St) : Prop := ∀ n, n ∉ sorted → st.ns.get n = NS.init

theorem anyNotDone_keeps_init (w : World) {n : NodeId} : ∀ (l : List NodeId) (ns : NSMap), ns.get n = NS.init →
    ((anyNotDone w ns l).2).get n = NS.init
  | [], _, h => h
  | m :: l, ns, h => by
    have hu : (upd w ns m).get n = NS.init := by
      by_cases hm : n = m
      · subst hm; rw [upd_get_same, h]; exact updateStatus_of_empty w rfl rfl
      · rw [upd_get_ne _ _ hm]; exact h
    show ((if (nodeDone w ns m).1 = true then anyNotDone w (nodeDone w ns m).2 l
      else (true, (nodeDone w ns m).2)).2).get n = NS.init
    by_cases hd : (nodeDone w ns m).1 = true
    · rw [if_pos hd]; exact anyNotDone_keeps_init w l _ hu
    · rw [if_neg hd]; exact hu

/-- TERMINATION of the synchronous loop: if the execution log can never be longer than `N` (the number of jobs),
    then `2 * N + 2 * (nodes) + 3` iterations always suffice: `outOfFuel` is unreachable -/
theorem syncLoop_terminates {wf : Wf} {k : Option Nat} {sorted : List NodeId} (ht : TopoOrder wf sorted)
    (hk : k ≠ some 0) (hperm : ∀ n, n ∈ wf.g.nodes → n ∈ sorted)
    (hclosed : ∀ m, m ∈ sorted → ∀ p, p ∈ wf.preds m → p ∈ sorted)
    (fail : Ck → Bool) (N : Nat)
    (hN : ∀ st, SyncInv wf st → OutInit sorted st → st.futured.length ≤ N) :
    ∀ (fuel : Nat) (st : St), SyncInv wf st → OutInit sorted st →
      (Terminal sorted st ∧ 1 ≤ fuel ∨ (2 * N + 2 * sorted.length + 1 - syncPot sorted st) + 2 ≤ fuel) →
      (syncLoop wf k sorted fail fuel st).1 ≠ .outOfFuel := by
  intro fuel
  induction fuel with
  | zero =>
    intro st _ _ h
    rcases h with ⟨_, h⟩ | h <;> omega
  | succ fuel ih =>
    intro st hs ho hfuel
    have hpotle : ∀ s, SyncInv wf s → OutInit sorted s → syncPot sorted s ≤ 2 * N + 2 * sorted.length + 1 := by
      intro s h1 h2
      have a := hN s h1 h2
      have b := startedCount_le sorted s.ns
      have c := armed_le s
      unfold syncPot; omega
    simp only [syncLoop]
    -- the loop test
    by_cases ht0 : st.tasks.isEmpty = true
    · simp only [ht0, Bool.not_true, Bool.false_eq_true, if_false]
      by_cases ha : (anyNotDone st.w st.ns wf.g.nodes).1 = true
      · simp only [ha, Bool.not_true, Bool.false_eq_true, if_false]
        -- not terminal: the tables after the test
        have hg := syncInv_upd hs wf.g.nodes
        have hog : OutInit sorted { st with ns := (anyNotDone st.w st.ns wf.g.nodes).2 } :=
          fun n hn => anyNotDone_keeps_init st.w wf.g.nodes st.ns (ho n hn)
        have hnotterm : ¬ Terminal sorted st := by
          rintro ⟨_, hd⟩
          have := anyNotDone_false_of_all_done (w := st.w) wf.g.nodes st.ns (fun n hn => hd n (hperm n hn))
          rw [this] at ha; exact absurd ha (by simp)
        have hfuel' : (2 * N + 2 * sorted.length + 1 - syncPot sorted st) + 2 ≤ fuel + 1 := by
          rcases hfuel with ⟨h, _⟩ | h
          · exact absurd h hnotterm
          · exact h
        have hpg : syncPot sorted st ≤ syncPot sorted { st with ns := (anyNotDone st.w st.ns wf.g.nodes).2 } := by
          have := startedCount_mono sorted (grow_anyNotDone st.w wf.g.nodes st.ns)
          have e : armed { st with ns := (anyNotDone st.w st.ns wf.g.nodes).2 } = armed st := by
            have ht' : st.tasks = [] := by simpa [List.isEmpty_iff] using ht0
            unfold armed; simp [ht']
          show 2 * st.futured.length + 2 * startedCount sorted st.ns + armed st ≤
            2 * st.futured.length + 2 * startedCount sorted (anyNotDone st.w st.ns wf.g.nodes).2 +
              armed { st with ns := (anyNotDone st.w st.ns wf.g.nodes).2 }
          rw [e]; omega
        split
        · rename_i c s1 hc; simp
        · rename_i st1 hrun
          have hs1 := (syncInv_runTasks fail _ hg hg.tasksLegit hrun)
          have hs2 := syncInv_doPoll (k := k) ht hs1.1
          have ho2 : OutInit sorted (doPoll wf k sorted st1) := by
            intro n hn
            show (scan wf st1.w sorted st1.ns [] []).1.get n = NS.init
            rw [scan_frame wf st1.w sorted st1.ns [] [] hn (fun m hm hp => hn (hclosed m hm n hp)), hs1.2.1]
            exact hog n hn
          apply ih _ hs2 ho2
          rcases sync_iteration ht hk fail hg hrun with h | h
          · right
            have := hpotle _ hs2 ho2
            omega
          · left; exact ⟨h, by omega⟩
      · have ha' : (anyNotDone st.w st.ns wf.g.nodes).1 = false := by
          cases hx : (anyNotDone st.w st.ns wf.g.nodes).1
          · rfl
          · exact absurd hx ha
        simp [ha']
    · have ht1 : st.tasks.isEmpty = false := by
        cases hx : st.tasks.isEmpty
        · rfl
        · exact absurd hx ht0
      simp only [ht1, Bool.not_false, if_true, Bool.not_true, Bool.false_eq_true, if_false]
      have hnotterm : ¬ Terminal sorted st := by
        rintro ⟨h, _⟩; rw [h] at ht1; simp at ht1
      have hfuel' : (2 * N + 2 * sorted.length + 1 - syncPot sorted st) + 2 ≤ fuel + 1 := by
        rcases hfuel with ⟨h, _⟩ | h
        · exact absurd h hnotterm
        · exact h
      split
      · simp
      · rename_i st1 hrun
        have hs1 := (syncInv_runTasks fail _ hs hs.tasksLegit hrun)
        have hs2 := syncInv_doPoll (k := k) ht hs1.1
        have ho2 : OutInit sorted (doPoll wf k sorted st1) := by
          intro n hn
          show (scan wf st1.w sorted st1.ns [] []).1.get n = NS.init
          rw [scan_frame wf st1.w sorted st1.ns [] [] hn (fun m hm hp => hn (hclosed m hm n hp)), hs1.2.1]
          exact ho n hn
        apply ih _ hs2 ho2
        rcases sync_iteration ht hk fail hs hrun with h | h
        · right
          have := hpotle _ hs2 ho2
          omega
        · left; exact ⟨h, by omega⟩

end PydraModel.Sched
