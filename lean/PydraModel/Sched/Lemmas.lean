import PydraModel.Sched.Model
/-
Helper lemmas for the `Sched` engine: closed form of `update_status`, idempotence, frame properties.
-/
namespace PydraModel.Sched

def tIdle (w : World) (s : NS) (i : Nat) : Bool := w (s.ckAt i) == .idle
def tOk (w : World) (s : NS) (i : Nat) : Bool := w (s.ckAt i) == .ok
def tErr (w : World) (s : NS) (i : Nat) : Bool := w (s.ckAt i) == .err
def tRun (w : World) (s : NS) (i : Nat) : Bool := w (s.ckAt i) == .locked || w (s.ckAt i) == .dead

theorem truth_cases (t : Truth) : t = .idle ∨ t = .locked ∨ t = .dead ∨ t = .ok ∨ t = .err := by
  cases t <;> simp

theorem ckAt_congr {s s' : NS} (h : s'.cks = s.cks) (i : Nat) : s'.ckAt i = s.ckAt i := by
  unfold NS.ckAt; rw [h]

theorem t_congr {s s' : NS} (h : s'.cks = s.cks) (w : World) :
    tIdle w s' = tIdle w s ∧ tOk w s' = tOk w s ∧ tErr w s' = tErr w s ∧ tRun w s' = tRun w s := by
  refine ⟨?_, ?_, ?_, ?_⟩ <;> funext j <;> simp only [tIdle, tOk, tErr, tRun, ckAt_congr h]

/-! ### the `queued` loop -/

theorem stepQueued_frame (w : World) (s : NS) (i : Nat) :
    (stepQueued w s i).cks = s.cks ∧ (stepQueued w s i).blk = s.blk ∧
    (stepQueued w s i).unrunnable = s.unrunnable := by
  unfold stepQueued; split <;> simp

theorem stepQueued_queued (w : World) (s : NS) (i : Nat) :
    (stepQueued w s i).queued = s.queued.filter (fun j => !(j == i && !tIdle w s j)) := by
  unfold stepQueued
  cases h : w (s.ckAt i) <;> simp only [pop]
  · -- idle
    symm; rw [List.filter_eq_self]; intro j _
    by_cases hj : j = i
    · subst hj; simp [tIdle, h]
    · simp [beq_false_of_ne hj]
  all_goals
    apply List.filter_congr; intro j _
    by_cases hj : j = i
    · subst hj; simp [tIdle, h]
    · simp [bne, beq_false_of_ne hj]

theorem stepQueued_successful (w : World) (s : NS) (i : Nat) :
    (stepQueued w s i).successful = s.successful ++ [i].filter (tOk w s) := by
  unfold stepQueued; cases h : w (s.ckAt i) <;> simp [tOk, h]

theorem stepQueued_errored (w : World) (s : NS) (i : Nat) :
    (stepQueued w s i).errored = s.errored ++ [i].filter (tErr w s) := by
  unfold stepQueued; cases h : w (s.ckAt i) <;> simp [tErr, h]

theorem stepQueued_running (w : World) (s : NS) (i : Nat) :
    (stepQueued w s i).running = s.running ++ [i].filter (tRun w s) := by
  unfold stepQueued; cases h : w (s.ckAt i) <;> simp [tRun, h]

theorem foldl_stepQueued (w : World) : ∀ (l : List Nat) (s : NS),
    (l.foldl (stepQueued w) s).cks = s.cks ∧ (l.foldl (stepQueued w) s).blk = s.blk ∧
    (l.foldl (stepQueued w) s).unrunnable = s.unrunnable ∧
    (l.foldl (stepQueued w) s).queued = s.queued.filter (fun j => !(l.contains j && !tIdle w s j)) ∧
    (l.foldl (stepQueued w) s).successful = s.successful ++ l.filter (tOk w s) ∧
    (l.foldl (stepQueued w) s).errored = s.errored ++ l.filter (tErr w s) ∧
    (l.foldl (stepQueued w) s).running = s.running ++ l.filter (tRun w s) := by
  intro l
  induction l with
  | nil =>
    intro s
    refine ⟨rfl, rfl, rfl, ?_, by simp, by simp, by simp⟩
    exact (List.filter_eq_self.mpr (by intro j _; simp)).symm
  | cons i l ih =>
    intro s
    simp only [List.foldl_cons]
    obtain ⟨f1, f2, f3⟩ := stepQueued_frame w s i
    obtain ⟨h1, h2, h3, h4, h5, h6, h7⟩ := ih (stepQueued w s i)
    obtain ⟨k1, k2, k3, k4⟩ := t_congr f1 w
    refine ⟨h1.trans f1, h2.trans f2, h3.trans f3, ?_, ?_, ?_, ?_⟩
    · rw [h4, stepQueued_queued, List.filter_filter, k1]
      apply List.filter_congr; intro j _
      by_cases hj : j = i
      · subst hj; cases tIdle w s j <;> simp
      · simp [beq_false_of_ne hj, hj]
    · rw [h5, stepQueued_successful, k2, List.append_assoc, ← List.filter_append]; rfl
    · rw [h6, stepQueued_errored, k3, List.append_assoc, ← List.filter_append]; rfl
    · rw [h7, stepQueued_running, k4, List.append_assoc, ← List.filter_append]; rfl

/-! ### the `running` loop -/

theorem stepRunning_frame (w : World) (s : NS) (i : Nat) :
    (stepRunning w s i).cks = s.cks ∧ (stepRunning w s i).blk = s.blk ∧
    (stepRunning w s i).unrunnable = s.unrunnable ∧ (stepRunning w s i).queued = s.queued := by
  unfold stepRunning; split <;> simp

theorem stepRunning_running (w : World) (s : NS) (i : Nat) :
    (stepRunning w s i).running = s.running.filter (fun j => !(j == i && (tOk w s j || tErr w s j))) := by
  unfold stepRunning
  cases h : w (s.ckAt i) <;> simp only [pop]
  case ok =>
    apply List.filter_congr; intro j _
    by_cases hj : j = i
    · subst hj; simp [tOk, h]
    · simp [bne, beq_false_of_ne hj]
  case err =>
    apply List.filter_congr; intro j _
    by_cases hj : j = i
    · subst hj; simp [tErr, h]
    · simp [bne, beq_false_of_ne hj]
  all_goals
    symm; rw [List.filter_eq_self]; intro j _
    by_cases hj : j = i
    · subst hj; simp [tOk, tErr, h]
    · simp [beq_false_of_ne hj]

theorem stepRunning_successful (w : World) (s : NS) (i : Nat) :
    (stepRunning w s i).successful = s.successful ++ [i].filter (tOk w s) := by
  unfold stepRunning; cases h : w (s.ckAt i) <;> simp [tOk, h]

theorem stepRunning_errored (w : World) (s : NS) (i : Nat) :
    (stepRunning w s i).errored = s.errored ++ [i].filter (tErr w s) := by
  unfold stepRunning; cases h : w (s.ckAt i) <;> simp [tErr, h]

theorem foldl_stepRunning (w : World) : ∀ (l : List Nat) (s : NS),
    (l.foldl (stepRunning w) s).cks = s.cks ∧ (l.foldl (stepRunning w) s).blk = s.blk ∧
    (l.foldl (stepRunning w) s).unrunnable = s.unrunnable ∧
    (l.foldl (stepRunning w) s).queued = s.queued ∧
    (l.foldl (stepRunning w) s).running =
      s.running.filter (fun j => !(l.contains j && (tOk w s j || tErr w s j))) ∧
    (l.foldl (stepRunning w) s).successful = s.successful ++ l.filter (tOk w s) ∧
    (l.foldl (stepRunning w) s).errored = s.errored ++ l.filter (tErr w s) := by
  intro l
  induction l with
  | nil =>
    intro s
    refine ⟨rfl, rfl, rfl, rfl, ?_, by simp, by simp⟩
    exact (List.filter_eq_self.mpr (by intro j _; simp)).symm
  | cons i l ih =>
    intro s
    simp only [List.foldl_cons]
    obtain ⟨f1, f2, f3, f4⟩ := stepRunning_frame w s i
    obtain ⟨h1, h2, h3, h4, h5, h6, h7⟩ := ih (stepRunning w s i)
    obtain ⟨_, k2, k3, _⟩ := t_congr f1 w
    refine ⟨h1.trans f1, h2.trans f2, h3.trans f3, h4.trans f4, ?_, ?_, ?_⟩
    · rw [h5, stepRunning_running, List.filter_filter, k2, k3]
      apply List.filter_congr; intro j _
      by_cases hj : j = i
      · subst hj; cases tOk w s j <;> cases tErr w s j <;> simp
      · simp [beq_false_of_ne hj, hj]
    · rw [h6, stepRunning_successful, k2, List.append_assoc, ← List.filter_append]; rfl
    · rw [h7, stepRunning_errored, k3, List.append_assoc, ← List.filter_append]; rfl

/-! ### closed form of `update_status` -/

theorem NS.ext7 {a b : NS} (h1 : a.blk = b.blk) (h2 : a.queued = b.queued) (h3 : a.running = b.running)
    (h4 : a.successful = b.successful) (h5 : a.errored = b.errored) (h6 : a.unrunnable = b.unrunnable)
    (h7 : a.cks = b.cks) : a = b := by
  cases a; cases b; simp_all

/-- effect of the `queued` loop -/
def updQ (w : World) (s : NS) : NS :=
  { s with queued := s.queued.filter (tIdle w s),
           running := s.running ++ s.queued.filter (tRun w s),
           successful := s.successful ++ s.queued.filter (tOk w s),
           errored := s.errored ++ s.queued.filter (tErr w s) }

/-- effect of the `running` loop -/
def updR (w : World) (s : NS) : NS :=
  { s with running := s.running.filter (fun j => !(tOk w s j || tErr w s j)),
           successful := s.successful ++ s.running.filter (tOk w s),
           errored := s.errored ++ s.running.filter (tErr w s) }

theorem updateStatus_closed (w : World) (s : NS) :
    updateStatus w s = if s.started then updR w (updQ w s) else s := by
  unfold updateStatus
  cases hs : s.started
  · simp
  · simp only [Bool.not_true, Bool.false_eq_true, if_false, if_true]
    obtain ⟨a1, a2, a3, a4, a5, a6, a7⟩ := foldl_stepQueued w s.queued s
    obtain ⟨b1, b2, b3, b4, b5, b6, b7⟩ :=
      foldl_stepRunning w (s.queued.foldl (stepQueued w) s).running (s.queued.foldl (stepQueued w) s)
    have hq : (updQ w s).cks = s.cks := rfl
    obtain ⟨_, k2, k3, _⟩ := t_congr a1 w
    obtain ⟨_, m2, m3, _⟩ := t_congr hq w
    have hqueued : (s.queued.foldl (stepQueued w) s).queued = (updQ w s).queued := by
      rw [a4]; apply List.filter_congr; intro j hj
      simp [hj]
    have hrun : (s.queued.foldl (stepQueued w) s).running = (updQ w s).running := a7
    apply NS.ext7
    · rw [b2, a2]; rfl
    · rw [b4, hqueued]; rfl
    · rw [b5, hrun, k2, k3]
      show _ = (updQ w s).running.filter (fun j => !(tOk w (updQ w s) j || tErr w (updQ w s) j))
      rw [m2, m3]; apply List.filter_congr; intro j hj
      simp [hj]
    · rw [b6, a5, hrun, k2]
      show _ = (updQ w s).successful ++ (updQ w s).running.filter (tOk w (updQ w s))
      rw [m2]; rfl
    · rw [b7, a6, hrun, k3]
      show _ = (updQ w s).errored ++ (updQ w s).running.filter (tErr w (updQ w s))
      rw [m3]; rfl
    · rw [b3, a3]; rfl
    · rw [b1, a1]; rfl

/-- `update_status` of a started node (abbreviation of the closed form) -/
def US (w : World) (s : NS) : NS := updR w (updQ w s)

theorem US_cks (w : World) (s : NS) : (US w s).cks = s.cks := rfl
theorem US_blk (w : World) (s : NS) : (US w s).blk = s.blk := rfl
theorem US_unrunnable (w : World) (s : NS) : (US w s).unrunnable = s.unrunnable := rfl
theorem US_ckAt (w : World) (s : NS) (i : Nat) : (US w s).ckAt i = s.ckAt i := rfl

theorem tRun_not_fin {w : World} {s : NS} {i : Nat} (h : tRun w s i = true) :
    tOk w s i = false ∧ tErr w s i = false ∧ tIdle w s i = false := by
  unfold tRun at h; unfold tOk tErr tIdle
  cases hw : w (s.ckAt i) <;> simp_all

theorem mem_US_queued (w : World) (s : NS) (i : Nat) :
    i ∈ (US w s).queued ↔ i ∈ s.queued ∧ w (s.ckAt i) = .idle := by
  show i ∈ s.queued.filter (tIdle w s) ↔ _
  simp [List.mem_filter, tIdle]

theorem mem_US_running (w : World) (s : NS) (i : Nat) :
    i ∈ (US w s).running ↔
      (i ∈ s.running ∨ (i ∈ s.queued ∧ (w (s.ckAt i) = .locked ∨ w (s.ckAt i) = .dead))) ∧
      w (s.ckAt i) ≠ .ok ∧ w (s.ckAt i) ≠ .err := by
  show i ∈ (s.running ++ s.queued.filter (tRun w s)).filter
      (fun j => !(tOk w (updQ w s) j || tErr w (updQ w s) j)) ↔ _
  have hq : (updQ w s).cks = s.cks := rfl
  obtain ⟨_, m2, m3, _⟩ := t_congr hq w
  rw [m2, m3]
  simp [List.mem_filter, tRun, tOk, tErr]
  constructor
  · rintro (⟨h, a, b⟩ | ⟨h, ⟨a, b⟩, c⟩)
    · exact ⟨Or.inl h, a, b⟩
    · exact ⟨Or.inr ⟨h, c⟩, a, b⟩
  · rintro ⟨h | ⟨h, c⟩, a, b⟩
    · exact Or.inl ⟨h, a, b⟩
    · exact Or.inr ⟨h, ⟨a, b⟩, c⟩

theorem mem_US_successful (w : World) (s : NS) (i : Nat) :
    i ∈ (US w s).successful ↔ i ∈ s.successful ∨ ((i ∈ s.queued ∨ i ∈ s.running) ∧ w (s.ckAt i) = .ok) := by
  show i ∈ (s.successful ++ s.queued.filter (tOk w s)) ++
      (s.running ++ s.queued.filter (tRun w s)).filter (tOk w (updQ w s)) ↔ _
  have hq : (updQ w s).cks = s.cks := rfl
  obtain ⟨_, m2, _, _⟩ := t_congr hq w
  rw [m2]
  simp only [List.mem_append, List.mem_filter, tOk, tRun, beq_iff_eq, Bool.or_eq_true]
  constructor
  · rintro ((h | ⟨h, ho⟩) | ⟨h | ⟨h, _⟩, ho⟩)
    · exact Or.inl h
    · exact Or.inr ⟨Or.inl h, ho⟩
    · exact Or.inr ⟨Or.inr h, ho⟩
    · exact Or.inr ⟨Or.inl h, ho⟩
  · rintro (h | ⟨h | h, ho⟩)
    · exact Or.inl (Or.inl h)
    · exact Or.inl (Or.inr ⟨h, ho⟩)
    · exact Or.inr ⟨Or.inl h, ho⟩

theorem mem_US_errored (w : World) (s : NS) (i : Nat) :
    i ∈ (US w s).errored ↔ i ∈ s.errored ∨ ((i ∈ s.queued ∨ i ∈ s.running) ∧ w (s.ckAt i) = .err) := by
  show i ∈ (s.errored ++ s.queued.filter (tErr w s)) ++
      (s.running ++ s.queued.filter (tRun w s)).filter (tErr w (updQ w s)) ↔ _
  have hq : (updQ w s).cks = s.cks := rfl
  obtain ⟨_, _, m3, _⟩ := t_congr hq w
  rw [m3]
  simp only [List.mem_append, List.mem_filter, tErr, tRun, beq_iff_eq, Bool.or_eq_true]
  constructor
  · rintro ((h | ⟨h, ho⟩) | ⟨h | ⟨h, _⟩, ho⟩)
    · exact Or.inl h
    · exact Or.inr ⟨Or.inl h, ho⟩
    · exact Or.inr ⟨Or.inr h, ho⟩
    · exact Or.inr ⟨Or.inl h, ho⟩
  · rintro (h | ⟨h | h, ho⟩)
    · exact Or.inl (Or.inl h)
    · exact Or.inl (Or.inr ⟨h, ho⟩)
    · exact Or.inr ⟨Or.inl h, ho⟩

/-! ### idempotence: a second `update_status` at the same ground truth changes nothing -/

theorem US_idem (w : World) (s : NS) : US w (US w s) = US w s := by
  have hc : (US w s).cks = s.cks := rfl
  obtain ⟨k1, k2, k3, k4⟩ := t_congr hc w
  have hc2 : (updQ w (US w s)).cks = s.cks := rfl
  obtain ⟨_, m2, m3, _⟩ := t_congr hc2 w
  have hq : (US w s).queued = s.queued.filter (tIdle w s) := rfl
  have hr : (US w s).running =
      (s.running ++ s.queued.filter (tRun w s)).filter (fun j => !(tOk w s j || tErr w s j)) := by
    show (s.running ++ s.queued.filter (tRun w s)).filter
      (fun j => !(tOk w (updQ w s) j || tErr w (updQ w s) j)) = _
    have hq' : (updQ w s).cks = s.cks := rfl
    obtain ⟨_, n2, n3, _⟩ := t_congr hq' w
    rw [n2, n3]
  -- the queued jobs that remain are idle
  have q_idle : ∀ j ∈ (US w s).queued, tIdle w s j = true := by
    intro j hj; rw [hq] at hj; exact (List.mem_filter.mp hj).2
  have q_run : (US w s).queued.filter (tRun w s) = [] := by
    rw [List.filter_eq_nil_iff]; intro j hj
    have := q_idle j hj
    unfold tIdle at this; unfold tRun
    cases hw : w (s.ckAt j) <;> simp_all
  have q_ok : (US w s).queued.filter (tOk w s) = [] := by
    rw [List.filter_eq_nil_iff]; intro j hj
    have := q_idle j hj
    unfold tIdle at this; unfold tOk
    cases hw : w (s.ckAt j) <;> simp_all
  have q_err : (US w s).queued.filter (tErr w s) = [] := by
    rw [List.filter_eq_nil_iff]; intro j hj
    have := q_idle j hj
    unfold tIdle at this; unfold tErr
    cases hw : w (s.ckAt j) <;> simp_all
  have r_nofin : ∀ j ∈ (US w s).running, (tOk w s j || tErr w s j) = false := by
    intro j hj; rw [hr] at hj
    have := (List.mem_filter.mp hj).2
    simpa using this
  have r_ok : (US w s).running.filter (tOk w s) = [] := by
    rw [List.filter_eq_nil_iff]; intro j hj
    have := r_nofin j hj
    simp only [Bool.or_eq_false_iff] at this
    simp [this.1]
  have r_err : (US w s).running.filter (tErr w s) = [] := by
    rw [List.filter_eq_nil_iff]; intro j hj
    have := r_nofin j hj
    simp only [Bool.or_eq_false_iff] at this
    simp [this.2]
  apply NS.ext7
  · rfl
  · show (US w s).queued.filter (tIdle w (US w s)) = (US w s).queued
    rw [k1, List.filter_eq_self]; exact q_idle
  · show ((US w s).running ++ (US w s).queued.filter (tRun w (US w s))).filter
        (fun j => !(tOk w (updQ w (US w s)) j || tErr w (updQ w (US w s)) j)) = (US w s).running
    rw [k4, q_run, List.append_nil, m2, m3, List.filter_eq_self]
    intro j hj; simp [r_nofin j hj]
  · show ((US w s).successful ++ (US w s).queued.filter (tOk w (US w s))) ++
        ((US w s).running ++ (US w s).queued.filter (tRun w (US w s))).filter (tOk w (updQ w (US w s)))
        = (US w s).successful
    rw [k2, k4, q_ok, q_run, m2, List.append_nil, List.append_nil, r_ok, List.append_nil]
  · show ((US w s).errored ++ (US w s).queued.filter (tErr w (US w s))) ++
        ((US w s).running ++ (US w s).queued.filter (tRun w (US w s))).filter (tErr w (updQ w (US w s)))
        = (US w s).errored
    rw [k3, k4, q_err, q_run, m3, List.append_nil, List.append_nil, r_err, List.append_nil]
  · rfl
  · rfl

theorem updateStatus_idem (w : World) (s : NS) : updateStatus w (updateStatus w s) = updateStatus w s := by
  rw [updateStatus_closed w s]
  cases hs : s.started
  · simp only [Bool.false_eq_true, if_false]; rw [updateStatus_closed, hs]; simp
  · simp only [if_true]
    rw [updateStatus_closed]
    split
    · exact US_idem w s
    · rfl

/-- the node's tables are up to date with respect to the ground truth `w` -/
def Fix (w : World) (s : NS) : Prop := updateStatus w s = s

theorem fix_updateStatus (w : World) (s : NS) : Fix w (updateStatus w s) := updateStatus_idem w s

theorem updateStatus_frame (w : World) (s : NS) :
    (updateStatus w s).cks = s.cks ∧ (updateStatus w s).blk = s.blk ∧
    (updateStatus w s).unrunnable = s.unrunnable := by
  rw [updateStatus_closed]; split <;> exact ⟨rfl, rfl, rfl⟩

theorem updateStatus_ckAt (w : World) (s : NS) (i : Nat) : (updateStatus w s).ckAt i = s.ckAt i :=
  ckAt_congr (updateStatus_frame w s).1 i

/-! ### the node map -/

@[simp] theorem setN_get_same (ns : NSMap) (n : NodeId) (s : NS) : (setN ns n s).get n = s := by
  simp [setN]

theorem setN_get_ne (ns : NSMap) {n m : NodeId} (s : NS) (h : m ≠ n) : (setN ns n s).get m = ns.get m := by
  simp [setN, h]

theorem setN_get (ns : NSMap) (n m : NodeId) (s : NS) :
    (setN ns n s).get m = if m = n then s else ns.get m := rfl

theorem NSMap.ext' {a b : NSMap} (h : ∀ n, a.get n = b.get n) : a = b := by
  cases a; cases b; simp only [NSMap.mk.injEq]; funext n; exact h n

theorem setN_self (ns : NSMap) (n : NodeId) : setN ns n (ns.get n) = ns := by
  apply NSMap.ext'; intro m; rw [setN_get]; split
  · rename_i h; rw [h]
  · rfl

theorem upd_get_same (w : World) (ns : NSMap) (n : NodeId) :
    (upd w ns n).get n = updateStatus w (ns.get n) := by simp [upd]

theorem upd_get_ne (w : World) (ns : NSMap) {n m : NodeId} (h : m ≠ n) : (upd w ns n).get m = ns.get m := by
  simp [upd, setN_get_ne _ _ h]

theorem upd_of_fix {w : World} {ns : NSMap} {n : NodeId} (h : Fix w (ns.get n)) : upd w ns n = ns := by
  unfold upd; rw [h]; exact setN_self ns n

end PydraModel.Sched
