import PydraModel.Sched.Idle
/-
What the `not_started` break of `Submitter.get_runnable_tasks` costs: one poll advances a chain of unstarted nodes by
one level only, and a node is examined by a poll as soon as everything before it in `sorted_nodes` has been started.
-/
namespace PydraModel.Sched
open PydraModel.Graph

/-- ONE LEVEL PER POLL: a node that consumes a node which was unstarted when the scan began is left unstarted by
    this scan (the break fires at it, or before it) -/
theorem scan_one_level {wf : Wf} {w : World} {sorted : List NodeId} (ht : TopoOrder wf sorted) (ns0 : NSMap) :
    ∀ (rest pre : List NodeId) (ns : NSMap) (nst : List NodeId) (tasks : List Job),
      sorted = pre ++ rest → ScanSt wf w ns0 pre ns nst tasks →
      (∀ p, p ∈ pre → (ns0.get p).blk = none → p ∈ nst) →
      (∀ x, x ∈ rest → ns.get x = ns0.get x) →
      ∀ m, m ∈ rest → (∃ n, n ∈ wf.preds m ∧ (ns0.get n).blk = none) → (ns0.get m).blk = none →
        ((scan wf w rest ns nst tasks).1.get m).blk = none := by
  intro rest
  induction rest with
  | nil => intro _ _ _ _ _ _ _ _ m hm; exact absurd hm (by simp)
  | cons x rest ih =>
    intro pre ns nst tasks hsorted hs hnst hunt m hm hpred hmb
    obtain ⟨hnpre, hsame, hfixx, hs1⟩ := scan_step_upd ht hsorted hs
    have hsorted' : sorted = (pre ++ [x]) ++ rest := by rw [hsorted]; simp
    have hxrest : x ∉ rest := by
      intro hmem
      have hnd := ht.nodup
      rw [hsorted] at hnd
      exact (List.nodup_cons.mp (List.nodup_append.mp hnd).2.1).1 hmem
    have hpreds : ∀ p, p ∈ wf.preds x → p ∈ pre := ht.before pre x rest hsorted
    rw [scan_cons]
    have e2 : (nodeDone w ns x).2 = upd w ns x := rfl
    have e1 : (nodeDone w ns x).1 = ((upd w ns x).get x).isDone := rfl
    rw [e2, e1]
    have hupd_blk : ((upd w ns x).get x).blk = (ns.get x).blk := by
      rw [upd_get_same]; exact (updateStatus_frame w _).2.1
    by_cases hmx : m = x
    · -- the break fires at m itself
      subst hmx
      obtain ⟨n, hn, hnb⟩ := hpred
      have hnn : n ∈ nst := hnst n (hpreds n hn) hnb
      have hmnone : (ns.get m).blk = none := by rw [hunt m (by simp)]; exact hmb
      have hnd : ((upd w ns m).get m).isDone = false := by
        have hinit := (hs.inv.loc m).unstarted hmnone
        rw [upd_get_same, hinit, updateStatus_of_empty w rfl rfl]
        rfl
      rw [if_neg (by rw [hnd]; simp)]
      have hb : (wf.preds m).any (fun p => nst.contains p) = true :=
        List.any_eq_true.mpr ⟨n, hn, by simpa using hnn⟩
      rw [if_pos hb]
      show ((upd w ns m).get m).blk = none
      rw [hupd_blk]; exact hmnone
    · have hm' : m ∈ rest := by
        rcases List.mem_cons.mp hm with h | h
        · exact absurd h hmx
        · exact h
      have hunt1 : ∀ y, y ∈ rest → (upd w ns x).get y = ns0.get y := by
        intro y hy
        rw [hsame y (fun e => hxrest (e ▸ hy))]; exact hunt y (by simp [hy])
      by_cases hd : ((upd w ns x).get x).isDone = true
      · rw [if_pos hd]
        apply ih _ _ _ _ hsorted' hs1 _ hunt1 m hm' hpred hmb
        intro p hp hpb
        rcases List.mem_append.mp hp with hp | hp
        · exact hnst p hp hpb
        · simp at hp; subst hp
          -- a done node was started
          exfalso
          have hb : (ns.get p).blk = none := by rw [hunt p (by simp)]; exact hpb
          have hinit := (hs.inv.loc p).unstarted hb
          rw [upd_get_same, hinit, updateStatus_of_empty w rfl rfl] at hd
          exact absurd hd (by decide)
      · rw [if_neg hd]
        by_cases hbrk : (wf.preds x).any (fun p => nst.contains p) = true
        · rw [if_pos hbrk]
          show ((upd w ns x).get m).blk = none
          rw [hunt1 m hm']; exact hmb
        · rw [if_neg hbrk]
          have hd' : ((upd w ns x).get x).isDone = false := by
            cases hx : ((upd w ns x).get x).isDone
            · rfl
            · exact absurd hx hd
          obtain ⟨_, spec, hs2⟩ := scan_step_run ht hsorted hs hd' hbrk
          apply ih _ _ _ _ hsorted' hs2 _ _ m hm' hpred hmb
          · intro p hp hpb
            rcases List.mem_append.mp hp with hp | hp
            · have := hnst p hp hpb
              split
              · exact this
              · exact List.mem_cons_of_mem _ this
            · simp at hp; subst hp
              have hb : ((upd w ns p).get p).blk = none := by
                rw [hupd_blk, hunt p (by simp)]; exact hpb
              have hst : ((upd w ns p).get p).started = false := by
                rw [(hs1.inv.loc p).unstarted hb]; exact init_not_started
              simp [hst]
          · intro y hy
            rw [spec.frame y (fun e => hxrest (e ▸ hy))]; exact hunt1 y hy

/-- EXAMINED AS SOON AS NOTHING EARLIER IS UNSTARTED: if every node before `y` in `sorted_nodes` has been started,
    `y` itself has not, and all predecessors of `y` are done, then this scan starts `y` (or marks it unrunnable) -/
theorem scan_reaches {wf : Wf} {w : World} {sorted : List NodeId} (ht : TopoOrder wf sorted) (ns0 : NSMap)
    (y : NodeId) (post : List NodeId) :
    ∀ (mid pre : List NodeId) (ns : NSMap) (tasks : List Job),
      sorted = pre ++ (mid ++ y :: post) → ScanSt wf w ns0 pre ns [] tasks →
      (∀ x, x ∈ mid → (ns.get x).blk ≠ none) → (ns.get y).blk = none →
      (∀ p, p ∈ wf.preds y → (ns.get p).isDone = true) →
      ((scan wf w (mid ++ y :: post) ns [] tasks).1.get y).blk ≠ none := by
  intro mid
  induction mid with
  | nil =>
    intro pre ns tasks hsorted hs _ hyb hpd
    simp only [List.nil_append] at hsorted ⊢
    obtain ⟨hnpre, hsame, hfixy, hs1⟩ := scan_step_upd ht hsorted hs
    have hsorted' : sorted = (pre ++ [y]) ++ post := by rw [hsorted]; simp
    rw [scan_cons]
    have e2 : (nodeDone w ns y).2 = upd w ns y := rfl
    have e1 : (nodeDone w ns y).1 = ((upd w ns y).get y).isDone := rfl
    rw [e2, e1]
    have hinit := (hs.inv.loc y).unstarted hyb
    have hyu : (upd w ns y).get y = NS.init := by
      rw [upd_get_same, hinit]; exact updateStatus_of_empty w rfl rfl
    have hd' : ((upd w ns y).get y).isDone = false := by rw [hyu]; rfl
    rw [if_neg (by rw [hd']; simp)]
    have hnb : ¬ (wf.preds y).any (fun p => ([] : List NodeId).contains p) = true := by simp
    rw [if_neg hnb]
    obtain ⟨hfixp, spec, hs2⟩ := scan_step_run ht hsorted hs hd' hnb
    have hst : ((upd w ns y).get y).started = false := by rw [hyu]; exact init_not_started
    have hstart := nodeRunnable_starts hst (fun p hp => (hfixp p hp).2)
      (by
        intro p hp
        have hpp := (hfixp p hp).1
        rw [hsame p (fun e => hnpre (e ▸ hpp))]; exact hpd p hp)
    have hs2' : ScanSt wf w (nodeRunnable wf w (upd w ns y) y).1 (pre ++ [y]) (nodeRunnable wf w (upd w ns y) y).1
        (if ((upd w ns y).get y).started = true then [] else [y])
        (tasks ++ (nodeRunnable wf w (upd w ns y) y).2.map (fun i => (y, i))) :=
      ⟨hs2.inv, Grow.refl _, hs2.upToDate, hs2.tasksOk⟩
    obtain ⟨_, g, _⟩ := scan_spec ht _ post (pre ++ [y]) _ _ _ hsorted' hs2'
    exact (g y hstart).1
  | cons x mid ih =>
    intro pre ns tasks hsorted hs hmid hyb hpd
    have hsorted0 : sorted = pre ++ x :: (mid ++ y :: post) := by rw [hsorted]; simp
    obtain ⟨hnpre, hsame, hfixx, hs1⟩ := scan_step_upd ht hsorted0 hs
    have hsorted' : sorted = (pre ++ [x]) ++ (mid ++ y :: post) := by rw [hsorted0]; simp
    have hxy : y ≠ x := by
      intro e
      have hnd := ht.nodup
      rw [hsorted0] at hnd
      have := (List.nodup_cons.mp (List.nodup_append.mp hnd).2.1).1
      exact this (by rw [← e]; simp)
    have hxmid : ∀ z, z ∈ mid → z ≠ x := by
      intro z hz e
      have hnd := ht.nodup
      rw [hsorted0] at hnd
      have := (List.nodup_cons.mp (List.nodup_append.mp hnd).2.1).1
      exact this (by rw [← e]; simp [hz])
    show ((scan wf w (x :: (mid ++ y :: post)) ns [] tasks).1.get y).blk ≠ none
    rw [scan_cons]
    have e2 : (nodeDone w ns x).2 = upd w ns x := rfl
    have e1 : (nodeDone w ns x).1 = ((upd w ns x).get x).isDone := rfl
    rw [e2, e1]
    have hxs : ((upd w ns x).get x).started = true := by
      apply started_of_blk
      rw [upd_get_same, (updateStatus_frame w _).2.1]; exact hmid x (by simp)
    by_cases hd : ((upd w ns x).get x).isDone = true
    · rw [if_pos hd]
      apply ih _ _ _ hsorted' hs1
      · intro z hz; rw [hsame z (hxmid z hz)]; exact hmid z (by simp [hz])
      · rw [hsame y hxy]; exact hyb
      · intro p hp; exact isDone_upd_stable x (hpd p hp)
    · rw [if_neg hd]
      have hnb : ¬ (wf.preds x).any (fun p => ([] : List NodeId).contains p) = true := by simp
      rw [if_neg hnb]
      have hd' : ((upd w ns x).get x).isDone = false := by
        cases hx : ((upd w ns x).get x).isDone
        · rfl
        · exact absurd hx hd
      obtain ⟨_, spec, hs2⟩ := scan_step_run ht hsorted0 hs hd' hnb
      simp only [hxs, if_true] at hs2 ⊢
      apply ih _ _ _ hsorted' hs2
      · intro z hz; rw [spec.frame z (hxmid z hz), hsame z (hxmid z hz)]; exact hmid z (by simp [hz])
      · rw [spec.frame y hxy, hsame y hxy]; exact hyb
      · intro p hp
        by_cases hpx : p = x
        · -- x is not done, the predecessors of y are
          exfalso
          have := isDone_upd_stable (w := w) x (hpd p hp)
          rw [hpx] at this
          rw [this] at hd'; exact absurd hd' (by simp)
        · rw [spec.frame p hpx]; exact isDone_upd_stable x (hpd p hp)

end PydraModel.Sched
