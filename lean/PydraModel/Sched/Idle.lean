import PydraModel.Sched.Progress
/-
Idle iterations (nothing awaited) of a fault-free run make progress: either something is dispatched, or the
submission ends, or a node that had not been started is started.
-/
namespace PydraModel.Sched
open PydraModel.Graph

/-! ### what up-to-date tables say -/

theorem fix_queued_idle {w : World} {s : NS} (hf : Fix w s) (hs : s.started = true) :
    ∀ i, i ∈ s.queued → w (s.ckAt i) = .idle := by
  intro i hi
  have : updateStatus w s = US w s := by rw [updateStatus_closed, hs]; rfl
  have h2 : US w s = s := by rw [← this]; exact hf
  have : i ∈ (US w s).queued := by rw [h2]; exact hi
  exact ((mem_US_queued w s i).mp this).2

theorem fix_running_open {w : World} {s : NS} (hf : Fix w s) (hs : s.started = true) :
    ∀ i, i ∈ s.running → w (s.ckAt i) ≠ .ok ∧ w (s.ckAt i) ≠ .err := by
  intro i hi
  have : updateStatus w s = US w s := by rw [updateStatus_closed, hs]; rfl
  have h2 : US w s = s := by rw [← this]; exact hf
  have : i ∈ (US w s).running := by rw [h2]; exact hi
  exact ((mem_US_running w s i).mp this).2

/-- the ground truth of a fault-free run while nothing is pending: every job is untouched or has its result -/
def Quiet (w : World) : Prop := ∀ c, w c = .idle ∨ w c = .ok ∨ w c = .err

/-- an up-to-date, started node that is not done has a queued job when the world is quiet -/
theorem queued_of_not_done {w : World} {s : NS} (hl : LInv w s) (hq : Quiet w) (hf : Fix w s)
    (hs : s.started = true) (hnd : s.isDone = false) : s.queued ≠ [] := by
  intro hqe
  have hb := blk_of_started hl hs
  have hrun : s.running = [] := by
    apply List.eq_nil_iff_forall_not_mem.mpr
    intro i hi
    have h1 := fix_running_open hf hs i hi
    have h2 := hl.runBusy i hi
    rcases hq (s.ckAt i) with h | h | h
    · exact h2 h
    · exact h1.1 h
    · exact h1.2 h
  have : s.isDone = true := by
    rw [isDone_iff]
    refine ⟨hs, hqe, ?_, hrun⟩
    cases hbb : s.blk with
    | none => exact absurd hbb hb
    | some b => rw [hl.blkEmpty b hbb]; rfl
  rw [this] at hnd; exact absurd hnd (by simp)

/-! ### the dispatcher -/

theorem dispatchStep_futures_mono (k : Option Nat) (st : St) (j : Job) :
    st.futures.length ≤ (dispatchStep k st j).futures.length := by
  unfold dispatchStep; simp only; split
  · simp
  · exact Nat.le_refl _

theorem foldl_dispatch_futures_mono (k : Option Nat) : ∀ (l : List Job) (st : St),
    st.futures.length ≤ (l.foldl (dispatchStep k) st).futures.length
  | [], _ => Nat.le_refl _
  | j :: l, st => by
    simp only [List.foldl_cons]
    exact Nat.le_trans (dispatchStep_futures_mono k st j) (foldl_dispatch_futures_mono k l _)

/-- if nothing is pending before and after the dispatch, every task was already in the dispatch log -/
theorem dispatch_nothing {k : Option Nat} (hk : k ≠ some 0) : ∀ (l : List Job) (st : St), st.futures = [] →
    (l.foldl (dispatchStep k) st).futures = [] → ∀ j, j ∈ l → ckOf st j ∈ st.futured
  | [], _, _, _, j, hj => absurd hj (by simp)
  | j0 :: l, st, h0, h1, j, hj => by
    simp only [List.foldl_cons] at h1
    by_cases hc : ckOf st j0 ∈ st.futured
    · -- j0 is skipped: the state does not change
      have hstep : dispatchStep k st j0 = st := by
        unfold dispatchStep; simp [hc]
      rw [hstep] at h1
      rcases List.mem_cons.mp hj with rfl | hj
      · exact hc
      · exact dispatch_nothing hk l st h0 h1 j hj
    · -- j0 would be dispatched: then something is pending afterwards
      exfalso
      have hlim : underLimit k st.futures = true := by
        unfold underLimit
        cases k with
        | none => rfl
        | some k' =>
          simp only [h0, List.length_nil, decide_eq_true_eq]
          cases k' with
          | zero => exact absurd rfl hk
          | succ n => omega
      have hstep : (dispatchStep k st j0).futures = st.futures ++ [ckOf st j0] := by
        unfold dispatchStep; simp [hc, hlim]
      have := foldl_dispatch_futures_mono k l (dispatchStep k st j0)
      rw [h1, hstep] at this
      simp at this

/-! ### more about one scan of `sorted_nodes` -/

theorem scan_tasks_mono (wf : Wf) (w : World) : ∀ (rest : List NodeId) (ns : NSMap) (nst : List NodeId)
    (tasks : List Job) (j : Job), j ∈ tasks → j ∈ (scan wf w rest ns nst tasks).2
  | [], _, _, _, _, h => h
  | m :: rest, ns, nst, tasks, j, h => by
    rw [scan_cons]
    by_cases hd : (nodeDone w ns m).1 = true
    · rw [if_pos hd]; exact scan_tasks_mono wf w rest _ _ _ j h
    · rw [if_neg hd]
      by_cases hb : (wf.preds m).any (fun p => nst.contains p) = true
      · rw [if_pos hb]; exact h
      · rw [if_neg hb]; exact scan_tasks_mono wf w rest _ _ _ j (List.mem_append_left _ h)

/-- when every remaining node is done (after its `update_status`), the scan only refreshes them -/
theorem scan_all_done (wf : Wf) (w : World) : ∀ (rest : List NodeId) (ns : NSMap) (nst : List NodeId)
    (tasks : List Job), rest.Nodup → (∀ n, n ∈ rest → (updateStatus w (ns.get n)).isDone = true) →
    (scan wf w rest ns nst tasks).2 = tasks ∧
    (∀ n, n ∈ rest → ((scan wf w rest ns nst tasks).1.get n).isDone = true) ∧
    (∀ m, m ∉ rest → (scan wf w rest ns nst tasks).1.get m = ns.get m)
  | [], _, _, _, _, _ => ⟨rfl, fun _ h => absurd h (by simp), fun _ _ => rfl⟩
  | m :: rest, ns, nst, tasks, hnd, hall => by
    obtain ⟨hm, hnd'⟩ := List.nodup_cons.mp hnd
    have hd : (nodeDone w ns m).1 = true := by
      show ((upd w ns m).get m).isDone = true
      rw [upd_get_same]; exact hall m (by simp)
    rw [scan_cons, if_pos hd]
    have hall' : ∀ n, n ∈ rest → (updateStatus w ((nodeDone w ns m).2.get n)).isDone = true := by
      intro n hn
      have hne : n ≠ m := fun e => hm (e ▸ hn)
      show (updateStatus w ((upd w ns m).get n)).isDone = true
      rw [upd_get_ne _ _ hne]; exact hall n (by simp [hn])
    obtain ⟨a, b, c⟩ := scan_all_done wf w rest (nodeDone w ns m).2 nst tasks hnd' hall'
    refine ⟨a, ?_, ?_⟩
    · intro n hn
      rcases List.mem_cons.mp hn with rfl | hn
      · rw [c n hm]; exact hd
      · exact b n hn
    · intro x hx
      have hxm : x ≠ m := fun e => hx (by simp [e])
      have hxr : x ∉ rest := fun e => hx (by simp [e])
      rw [c x hxr]; exact upd_get_ne w ns hxm

/-- an unstarted node whose predecessors are all done (and up to date) is started or marked unrunnable -/
theorem nodeRunnable_starts {wf : Wf} {w : World} {ns : NSMap} {n : NodeId} (hns : (ns.get n).started = false)
    (hfix : ∀ p, p ∈ wf.preds n → Fix w (ns.get p)) (hdone : ∀ p, p ∈ wf.preds n → (ns.get p).isDone = true) :
    ((nodeRunnable wf w ns n).1.get n).blk ≠ none := by
  obtain ⟨h2, h1⟩ := allDoneAll_of_fix (wf.preds n) hfix
  unfold nodeRunnable
  simp only
  rw [h2]
  split
  · rw [upd_get_same, (updateStatus_frame w _).2.1, setN_get_same]; simp
  · have : (allDoneAll w ns (wf.preds n)).1 = true := h1.mpr hdone
    rw [if_pos this, setN_get_same]
    simp only [hns, Bool.false_eq_true, if_false]
    split <;> simp

/-! ### one step of the scan, as lemmas (the same reasoning as in `scan_spec`) -/

theorem scan_step_upd {wf : Wf} {w : World} {sorted : List NodeId} (ht : TopoOrder wf sorted) {ns0 : NSMap}
    {pre : List NodeId} {m : NodeId} {rest : List NodeId} {ns : NSMap} {nst : List NodeId} {tasks : List Job}
    (hsorted : sorted = pre ++ m :: rest) (hs : ScanSt wf w ns0 pre ns nst tasks) :
    m ∉ pre ∧ (∀ x, x ≠ m → (upd w ns m).get x = ns.get x) ∧ Fix w ((upd w ns m).get m) ∧
    ScanSt wf w ns0 (pre ++ [m]) (upd w ns m) nst tasks := by
  have hnpre : m ∉ pre := by
    intro hmem
    have hnd := ht.nodup
    rw [hsorted] at hnd
    exact (List.nodup_append.mp hnd).2.2 m hmem m (by simp) rfl
  have hsame : ∀ x, x ≠ m → (upd w ns m).get x = ns.get x := fun x hx => upd_get_ne w ns hx
  have hfix : Fix w ((upd w ns m).get m) := by rw [upd_get_same]; exact fix_updateStatus w _
  refine ⟨hnpre, hsame, hfix, ninv_upd hs.inv m, hs.grow.trans (grow_upd w ns m), ?_, ?_⟩
  · intro p hp
    rcases List.mem_append.mp hp with hp | hp
    · have hpm : p ≠ m := fun e => hnpre (e ▸ hp)
      rw [hsame p hpm]; exact hs.upToDate p hp
    · simp at hp; subst hp; exact Or.inr hfix
  · intro j hj
    obtain ⟨a, b⟩ := hs.tasksOk j hj
    have hjm : j.1 ≠ m := fun e => hnpre (e ▸ a)
    refine ⟨List.mem_append_left _ a, ?_⟩
    unfold TaskOK; rw [hsame j.1 hjm]; exact b

theorem scan_step_run {wf : Wf} {w : World} {sorted : List NodeId} (ht : TopoOrder wf sorted) {ns0 : NSMap}
    {pre : List NodeId} {m : NodeId} {rest : List NodeId} {ns : NSMap} {nst : List NodeId} {tasks : List Job}
    (hsorted : sorted = pre ++ m :: rest) (hs : ScanSt wf w ns0 pre ns nst tasks)
    (hnd : ((upd w ns m).get m).isDone = false)
    (hnb : ¬ (wf.preds m).any (fun p => nst.contains p) = true) :
    (∀ p, p ∈ wf.preds m → p ∈ pre ∧ Fix w ((upd w ns m).get p)) ∧
    RunnableSpec wf w (upd w ns m) m (nodeRunnable wf w (upd w ns m) m) ∧
    ScanSt wf w ns0 (pre ++ [m]) (nodeRunnable wf w (upd w ns m) m).1
      (if ((upd w ns m).get m).started = true then nst else m :: nst)
      (tasks ++ (nodeRunnable wf w (upd w ns m) m).2.map (fun i => (m, i))) := by
  obtain ⟨hnpre, hsame, hfixm, hs1⟩ := scan_step_upd ht hsorted hs
  have hpreds : ∀ p, p ∈ wf.preds m → p ∈ pre := ht.before pre m rest hsorted
  have hfixp : ∀ p, p ∈ wf.preds m → p ∈ pre ∧ Fix w ((upd w ns m).get p) := by
    intro p hp
    refine ⟨hpreds p hp, ?_⟩
    rcases hs1.upToDate p (List.mem_append_left _ (hpreds p hp)) with hn | hf
    · exfalso; apply hnb
      exact List.any_eq_true.mpr ⟨p, hp, by simpa using hn⟩
    · exact hf
  have spec := nodeRunnable_spec hs1.inv hnd (fun p hp => (hfixp p hp).2)
  refine ⟨hfixp, spec, spec.inv, hs1.grow.trans (grow_of_spec spec), ?_, ?_⟩
  · intro p hp0
    rcases List.mem_append.mp hp0 with hp | hp
    · have hpn : p ≠ m := fun e => hnpre (e ▸ hp)
      rw [spec.frame p hpn]
      rcases hs1.upToDate p (List.mem_append_left _ hp) with a | a
      · left; split
        · exact a
        · exact List.mem_cons_of_mem _ a
      · exact Or.inr a
    · simp at hp; subst hp
      cases hst : ((upd w ns p).get p).started
      · left; simp
      · right; rw [spec.fix hst]; exact hfixm
  · intro j hj
    rcases List.mem_append.mp hj with hj | hj
    · obtain ⟨a, b⟩ := hs1.tasksOk j hj
      have a' : j.1 ∈ pre := by
        rcases List.mem_append.mp a with a | a
        · exact a
        · exfalso
          simp at a
          obtain ⟨a0, _⟩ := hs.tasksOk j hj
          exact hnpre (a ▸ a0)
      have hjn : j.1 ≠ m := fun e => hnpre (e ▸ a')
      refine ⟨a, ?_⟩
      unfold TaskOK; rw [spec.frame j.1 hjn]; exact b
    · obtain ⟨i, hi, rfl⟩ := List.mem_map.mp hj
      refine ⟨by simp, ?_⟩
      have hne : (nodeRunnable wf w (upd w ns m) m).2 ≠ [] := List.ne_nil_of_mem hi
      obtain ⟨a, b⟩ := spec.legit hne
      refine ⟨a, b, ?_⟩
      show i ∈ ((nodeRunnable wf w (upd w ns m) m).1.get m).queued
      rw [← spec.tasks]; exact hi

/-- every task returned by the scan belongs to a node that was started by this very scan, or to a node whose
    tables are up to date -/
theorem scan_tasks_fix {wf : Wf} {w : World} {sorted : List NodeId} (ht : TopoOrder wf sorted) (ns0 : NSMap) :
    ∀ (rest pre : List NodeId) (ns : NSMap) (nst : List NodeId) (tasks : List Job),
      sorted = pre ++ rest → ScanSt wf w ns0 pre ns nst tasks →
      (∀ j, j ∈ tasks → (ns0.get j.1).blk = none ∨ Fix w (ns.get j.1)) →
      ∀ j, j ∈ (scan wf w rest ns nst tasks).2 →
        j.1 ∈ sorted ∧ ((ns0.get j.1).blk = none ∨ Fix w ((scan wf w rest ns nst tasks).1.get j.1)) := by
  intro rest
  induction rest with
  | nil =>
    intro pre ns nst tasks hsorted hs htf j hj
    refine ⟨?_, htf j hj⟩
    rw [hsorted]; simp; exact (hs.tasksOk j hj).1
  | cons m rest ih =>
    intro pre ns nst tasks hsorted hs htf
    obtain ⟨hnpre, hsame, hfixm, hs1⟩ := scan_step_upd ht hsorted hs
    have hsorted' : sorted = (pre ++ [m]) ++ rest := by rw [hsorted]; simp
    have htf1 : ∀ j, j ∈ tasks → (ns0.get j.1).blk = none ∨ Fix w ((upd w ns m).get j.1) := by
      intro j hj
      have hjm : j.1 ≠ m := fun e => hnpre (e ▸ (hs.tasksOk j hj).1)
      rw [hsame j.1 hjm]; exact htf j hj
    rw [scan_cons]
    have e2 : (nodeDone w ns m).2 = upd w ns m := rfl
    have e1 : (nodeDone w ns m).1 = ((upd w ns m).get m).isDone := rfl
    rw [e2, e1]
    by_cases hd : ((upd w ns m).get m).isDone = true
    · rw [if_pos hd]; exact ih _ _ _ _ hsorted' hs1 htf1
    · rw [if_neg hd]
      by_cases hbrk : (wf.preds m).any (fun p => nst.contains p) = true
      · rw [if_pos hbrk]
        intro j hj
        refine ⟨?_, htf1 j hj⟩
        rw [hsorted]; exact List.mem_append_left _ (hs.tasksOk j hj).1
      · rw [if_neg hbrk]
        have hd' : ((upd w ns m).get m).isDone = false := by
          cases hx : ((upd w ns m).get m).isDone
          · rfl
          · exact absurd hx hd
        obtain ⟨_, spec, hs2⟩ := scan_step_run ht hsorted hs hd' hbrk
        apply ih _ _ _ _ hsorted' hs2
        intro j hj
        rcases List.mem_append.mp hj with hj | hj
        · have hjm : j.1 ≠ m := fun e => hnpre (e ▸ (hs.tasksOk j hj).1)
          rw [spec.frame j.1 hjm]; exact htf1 j hj
        · obtain ⟨i, _, rfl⟩ := List.mem_map.mp hj
          show (ns0.get m).blk = none ∨ Fix w ((nodeRunnable wf w (upd w ns m) m).1.get m)
          cases hst : ((upd w ns m).get m).started
          · left
            -- not started now, hence not started at the beginning of the scan
            have hb : ((upd w ns m).get m).blk = none := by
              cases hbb : ((upd w ns m).get m).blk with
              | none => rfl
              | some b => rw [started_of_blk (by rw [hbb]; simp)] at hst; exact absurd hst (by simp)
            cases h0 : (ns0.get m).blk with
            | none => rfl
            | some b =>
              exfalso
              have := (hs1.grow m (by rw [h0]; simp)).1
              exact this hb
          · right; rw [spec.fix hst]; exact hfixm

/-- PROGRESS of one scan in a quiet world: if some node is not done, the scan returns a task or starts a node -/
theorem scan_progress {wf : Wf} {w : World} {sorted : List NodeId} (ht : TopoOrder wf sorted) (hq : Quiet w)
    (ns0 : NSMap) :
    ∀ (rest pre : List NodeId) (ns : NSMap), sorted = pre ++ rest → ScanSt wf w ns0 pre ns [] [] →
      (∀ p, p ∈ pre → (ns.get p).isDone = true) →
      (∃ n, n ∈ rest ∧ (updateStatus w (ns.get n)).isDone = false) →
      (scan wf w rest ns [] []).2 ≠ [] ∨
      ∃ n, n ∈ rest ∧ (ns.get n).blk = none ∧ ((scan wf w rest ns [] []).1.get n).blk ≠ none := by
  intro rest
  induction rest with
  | nil => intro pre ns _ _ _ h; obtain ⟨n, hn, _⟩ := h; exact absurd hn (by simp)
  | cons m rest ih =>
    intro pre ns hsorted hs hdone hex
    obtain ⟨hnpre, hsame, hfixm, hs1⟩ := scan_step_upd ht hsorted hs
    have hsorted' : sorted = (pre ++ [m]) ++ rest := by rw [hsorted]; simp
    have hmrest : m ∉ rest := by
      intro hmem
      have hnd := ht.nodup
      rw [hsorted] at hnd
      have := (List.nodup_append.mp hnd).2.1
      exact (List.nodup_cons.mp this).1 hmem
    rw [scan_cons]
    have e2 : (nodeDone w ns m).2 = upd w ns m := rfl
    have e1 : (nodeDone w ns m).1 = ((upd w ns m).get m).isDone := rfl
    rw [e2, e1]
    by_cases hd : ((upd w ns m).get m).isDone = true
    · rw [if_pos hd]
      obtain ⟨n, hn, hnd⟩ := hex
      have hnm : n ≠ m := by
        intro e; subst e
        rw [upd_get_same] at hd; rw [hd] at hnd; exact absurd hnd (by simp)
      have hn' : n ∈ rest := by
        rcases List.mem_cons.mp hn with h | h
        · exact absurd h hnm
        · exact h
      have := ih (pre ++ [m]) (upd w ns m) hsorted' hs1
        (by
          intro p hp
          rcases List.mem_append.mp hp with hp | hp
          · rw [hsame p (fun e => hnpre (e ▸ hp))]; exact hdone p hp
          · simp at hp; subst hp; exact hd)
        ⟨n, hn', by rw [hsame n hnm]; exact hnd⟩
      rcases this with h | ⟨n', hn1, hn2, hn3⟩
      · exact Or.inl h
      · refine Or.inr ⟨n', List.mem_cons_of_mem _ hn1, ?_, hn3⟩
        rw [← hsame n' (fun e => hmrest (e ▸ hn1))]; exact hn2
    · rw [if_neg hd]
      have hnb : ¬ (wf.preds m).any (fun p => ([] : List NodeId).contains p) = true := by simp
      rw [if_neg hnb]
      have hd' : ((upd w ns m).get m).isDone = false := by
        cases hx : ((upd w ns m).get m).isDone
        · rfl
        · exact absurd hx hd
      obtain ⟨hfixp, spec, hs2⟩ := scan_step_run ht hsorted hs hd' hnb
      cases hst : ((upd w ns m).get m).started
      · -- the node is started (or marked unrunnable) by this scan
        right
        refine ⟨m, by simp, ?_, ?_⟩
        · have hb : ((upd w ns m).get m).blk = none := by
            cases hbb : ((upd w ns m).get m).blk with
            | none => rfl
            | some b => rw [started_of_blk (by rw [hbb]; simp)] at hst; exact absurd hst (by simp)
          rw [upd_get_same, (updateStatus_frame w _).2.1] at hb; exact hb
        · have hstart := nodeRunnable_starts hst (fun p hp => (hfixp p hp).2)
            (by
              intro p hp
              have hpp := (hfixp p hp).1
              rw [hsame p (fun e => hnpre (e ▸ hpp))]; exact hdone p hpp)
          -- the rest of the scan keeps it started
          have hs2' : ScanSt wf w (nodeRunnable wf w (upd w ns m) m).1 (pre ++ [m]) (nodeRunnable wf w (upd w ns m) m).1
              (if ((upd w ns m).get m).started = true then [] else [m])
              ([] ++ (nodeRunnable wf w (upd w ns m) m).2.map (fun i => (m, i))) :=
            ⟨hs2.inv, Grow.refl _, hs2.upToDate, hs2.tasksOk⟩
          obtain ⟨_, g, _⟩ := scan_spec ht _ rest (pre ++ [m]) _ _ _ hsorted' hs2'
          have hg := (g m hstart).1
          simp only [hst] at hg
          exact hg
      · -- started earlier and not done: it has a queued job, which is returned
        left
        have hq' : ((upd w ns m).get m).queued ≠ [] :=
          queued_of_not_done (hs1.inv.loc m) hq hfixm hst hd'
        have hr2 : (nodeRunnable wf w (upd w ns m) m).2 ≠ [] := by
          rw [spec.tasks, spec.fix hst]; exact hq'
        obtain ⟨i, hi⟩ := List.exists_mem_of_ne_nil _ hr2
        exact List.ne_nil_of_mem (scan_tasks_mono wf w rest _ _ _ (m, i)
          (List.mem_append_right _ (List.mem_map.mpr ⟨i, hi, rfl⟩)))

/-! ### an idle iteration of a fault-free run -/

theorem quiet_of_idle {wf : Wf} {k : Option Nat} {st : St} (hs : SInv wf k st) (hf : FF st)
    (he : st.futures = []) : Quiet st.w := by
  intro c
  rcases truth_cases (st.w c) with t | t | t | t | t
  · exact Or.inl t
  · have := hs.lockedPending c t; rw [he] at this; simp at this
  · exact absurd t (hf.noDead c)
  · exact Or.inr (Or.inl t)
  · exact Or.inr (Or.inr t)

theorem truncate_ne_nil {k : Option Nat} (hk : k ≠ some 0) {tasks : List Job} (h : tasks ≠ []) :
    truncate k tasks ≠ [] := by
  unfold truncate
  cases k with
  | none => exact h
  | some k' =>
    cases k' with
    | zero => exact absurd rfl hk
    | succ n =>
      cases tasks with
      | nil => exact absurd rfl h
      | cons a l => simp

/-- what one poll does when nothing is pending in a fault-free run -/
theorem idle_poll_cases {wf : Wf} {k : Option Nat} {sorted : List NodeId} (hw : WellFormed wf sorted)
    (hk : k ≠ some 0) {st : St} (hs : SInv wf k st) (hf : FF st) (he : st.futures = []) :
    (∃ n, n ∈ sorted ∧ (st.ns.get n).blk = none ∧ ((doPoll wf k sorted st).ns.get n).blk ≠ none) ∨
    ((doPoll wf k sorted st).tasks ≠ [] ∧
      ∀ j, j ∈ (doPoll wf k sorted st).tasks → ckOf (doPoll wf k sorted st) j ∉ st.futured) ∨
    ((doPoll wf k sorted st).tasks = [] ∧ ∀ n, n ∈ sorted → ((doPoll wf k sorted st).ns.get n).isDone = true) := by
  have ht := hw.topo
  have hq := quiet_of_idle hs hf he
  have hs0 : ScanSt wf st.w st.ns [] st.ns [] [] :=
    ⟨hs.ninv, Grow.refl _, fun p hp => absurd hp (by simp), fun j hj => absurd hj (by simp)⟩
  show (∃ n, n ∈ sorted ∧ (st.ns.get n).blk = none ∧ ((scan wf st.w sorted st.ns [] []).1.get n).blk ≠ none) ∨
    (truncate k (scan wf st.w sorted st.ns [] []).2 ≠ [] ∧
      ∀ j, j ∈ truncate k (scan wf st.w sorted st.ns [] []).2 → ckOf (doPoll wf k sorted st) j ∉ st.futured) ∨
    (truncate k (scan wf st.w sorted st.ns [] []).2 = [] ∧
      ∀ n, n ∈ sorted → ((scan wf st.w sorted st.ns [] []).1.get n).isDone = true)
  by_cases hall : ∀ n, n ∈ sorted → (updateStatus st.w (st.ns.get n)).isDone = true
  · right; right
    obtain ⟨a, b, _⟩ := scan_all_done wf st.w sorted st.ns [] [] ht.nodup hall
    refine ⟨by rw [a]; cases k <;> simp [truncate], b⟩
  · have hex : ∃ n, n ∈ sorted ∧ (updateStatus st.w (st.ns.get n)).isDone = false := by
      by_cases h : ∃ n, n ∈ sorted ∧ (updateStatus st.w (st.ns.get n)).isDone = false
      · exact h
      · exfalso; apply hall
        intro n hn
        cases hx : (updateStatus st.w (st.ns.get n)).isDone
        · exact absurd ⟨n, hn, hx⟩ h
        · rfl
    rcases scan_progress ht hq st.ns sorted [] st.ns (by simp) hs0 (fun p hp => absurd hp (by simp)) hex with h | h
    · -- tasks are returned
      by_cases hfresh : ∃ j, j ∈ (scan wf st.w sorted st.ns [] []).2 ∧ (st.ns.get j.1).blk = none
      · left
        obtain ⟨j, hj, hb⟩ := hfresh
        obtain ⟨_, _, hok⟩ := scan_spec ht st.ns sorted [] st.ns [] [] (by simp) hs0
        obtain ⟨hjs, _⟩ := scan_tasks_fix ht st.ns sorted [] st.ns [] [] (by simp) hs0
          (fun j hj => absurd hj (by simp)) j hj
        exact ⟨j.1, hjs, hb, (hok j hj).1⟩
      · right; left
        refine ⟨truncate_ne_nil hk h, ?_⟩
        intro j hj
        have hj' := mem_truncate hj
        obtain ⟨hinv, _, hok⟩ := scan_spec ht st.ns sorted [] st.ns [] [] (by simp) hs0
        obtain ⟨_, hff⟩ := scan_tasks_fix ht st.ns sorted [] st.ns [] [] (by simp) hs0
          (fun j hj => absurd hj (by simp)) j hj'
        have hfix : Fix st.w ((scan wf st.w sorted st.ns [] []).1.get j.1) := by
          rcases hff with hb | hfx
          · exact absurd ⟨j, hj', hb⟩ hfresh
          · exact hfx
        obtain ⟨hb, _, hq'⟩ := hok j hj'
        have hidle := fix_queued_idle hfix (started_of_blk hb) j.2 hq'
        intro hmem
        have := hf.completedFinal _ hmem (by rw [he]; simp)
        have hck : ckOf (doPoll wf k sorted st) j = ((scan wf st.w sorted st.ns [] []).1.get j.1).ckAt j.2 := rfl
        rw [hck, hidle] at this
        rcases this with h1 | h1 <;> exact absurd h1 (by simp)
    · left
      obtain ⟨n, hn, h1, h2⟩ := h
      exact ⟨n, hn, h1, h2⟩

theorem anyNotDone_false_of_all_done {w : World} : ∀ (l : List NodeId) (ns : NSMap),
    (∀ n, n ∈ l → (ns.get n).isDone = true) → (anyNotDone w ns l).1 = false
  | [], _, _ => rfl
  | m :: l, ns, h => by
    have hx : anyNotDone w ns (m :: l) = (if (nodeDone w ns m).1 = true then anyNotDone w (nodeDone w ns m).2 l
      else (true, (nodeDone w ns m).2)) := rfl
    have hd : (nodeDone w ns m).1 = true := isDone_upd_stable m (h m (by simp))
    rw [hx, if_pos hd]
    apply anyNotDone_false_of_all_done l
    intro n hn
    exact isDone_upd_stable m (h n (by simp [hn]))

theorem afterPoll_ne_bad (wf : Wf) (k : Option Nat) (sorted : List NodeId) (st : St) :
    ∃ st', (afterPoll wf k sorted st).state? = some st' := by
  cases hap : afterPoll wf k sorted st with
  | cont s => exact ⟨s, rfl⟩
  | done o s => exact ⟨s, rfl⟩
  | bad =>
    exfalso
    unfold afterPoll at hap
    split at hap
    · exact absurd hap (by simp)
    · simp only at hap
      split at hap
      · exact absurd hap (by simp)
      · split at hap <;> exact absurd hap (by simp)

/-- started nodes stay started through the loop head -/
theorem grow_loopInv {wf : Wf} {k : Option Nat} {sorted : List NodeId} (ht : TopoOrder wf sorted) (ns0 : NSMap) :
    LoopInv wf k sorted (fun _ => True) (fun st => Grow ns0 st.ns) := by
  constructor
  · intro st e st' _ hp _ h
    have : st'.ns = st.ns := by
      cases e <;> simp only [applyEv] at h <;> split at h <;> first | (cases h; rfl) | exact absurd h (by simp)
    rw [this]; exact hp
  · intro st hs hp
    obtain ⟨_, g, _⟩ := poll_spec ht k hs.ninv
    exact hp.trans g
  · intro st l _ hp; exact hp.trans (grow_anyNotDone st.w l st.ns)
  · intro st j _ _ hp; rw [dispatchStep_ns]; exact hp

theorem dispatch_futured (k : Option Nat) (st : St) : ∀ c, c ∈ st.futured → c ∈ (dispatch k st).futured := by
  unfold dispatch
  generalize st.tasks = l
  induction l generalizing st with
  | nil => intro c h; exact h
  | cons j l ih =>
    intro c h
    simp only [List.foldl_cons]
    apply ih
    unfold dispatchStep; simp only; split
    · exact List.mem_append_left _ h
    · exact h

/-- IDLE PROGRESS: an iteration of a fault-free run that awaits nothing ends the submission, or dispatches a job,
    or starts (or marks unrunnable) a node that had not been started -/
theorem idle_round_progress {wf : Wf} {k : Option Nat} {sorted : List NodeId} (hw : WellFormed wf sorted)
    (hk : k ≠ some 0) {st : St} (hs : SInv wf k st) (hf : FF st) (he : st.futures = []) :
    (∃ o st', round wf k sorted st [] = .done o st') ∨
    ∃ st', round wf k sorted st [] = .cont st' ∧
      (st'.futures ≠ [] ∨ ∃ n, n ∈ sorted ∧ (st.ns.get n).blk = none ∧ (st'.ns.get n).blk ≠ none) := by
  have hround : round wf k sorted st [] = afterPoll wf k sorted (doPoll wf k sorted st) := by
    unfold round; simp [applyEvs, he]
  have hs1 := sinv_doPoll hw.topo hs (k := k)
  rw [hround]
  cases hap : afterPoll wf k sorted (doPoll wf k sorted st) with
  | bad =>
    obtain ⟨s, hs'⟩ := afterPoll_ne_bad wf k sorted (doPoll wf k sorted st)
    rw [hap] at hs'; simp [Step.state?] at hs'
  | done o s => exact Or.inl ⟨o, s, rfl⟩
  | cont st' =>
    right
    refine ⟨st', rfl, ?_⟩
    have hstate : (afterPoll wf k sorted (doPoll wf k sorted st)).state? = some st' := by rw [hap]; rfl
    rcases idle_poll_cases hw hk hs hf he with ⟨n, hn, h1, h2⟩ | ⟨hne, hnf⟩ | ⟨hnil, hdone⟩
    · -- a node was started by the poll; the loop head keeps it started
      right
      have hg := li_afterPoll (grow_loopInv hw.topo (doPoll wf k sorted st).ns) hw.topo hs1 (Grow.refl _) hstate
      exact ⟨n, hn, h1, (hg n h2).1⟩
    · -- the poll returned only untouched, not yet dispatched jobs: the first one is dispatched
      left
      intro hfe
      unfold afterPoll at hap
      have hc : (!(doPoll wf k sorted st).tasks.isEmpty || !(doPoll wf k sorted st).futures.isEmpty) = true := by
        have : (doPoll wf k sorted st).tasks.isEmpty = false := by simpa [List.isEmpty_iff] using hne
        simp [this]
      rw [if_pos hc] at hap
      simp only [Step.cont.injEq] at hap
      subst hap
      obtain ⟨j, hj⟩ := List.exists_mem_of_ne_nil _ hne
      have := dispatch_nothing hk (doPoll wf k sorted st).tasks (doPoll wf k sorted st) he hfe j hj
      exact hnf j hj this
    · -- nothing to do and every node is done: the loop would have ended
      exfalso
      unfold afterPoll at hap
      have hc : (!(doPoll wf k sorted st).tasks.isEmpty || !(doPoll wf k sorted st).futures.isEmpty) = false := by
        have h2 : (doPoll wf k sorted st).futures = [] := he
        simp [hnil, h2]
      rw [if_neg (by rw [hc]; simp)] at hap
      simp only at hap
      have hperm : ∀ n, n ∈ wf.g.nodes → n ∈ sorted := by
        intro n hn
        have := (sortFrom_spec wf.g [] sorted hw.sorted).2
        simp only [if_true] at this
        exact this.mem_iff.mpr hn
      have hfalse := anyNotDone_false_of_all_done (w := (doPoll wf k sorted st).w) wf.g.nodes
        (doPoll wf k sorted st).ns (fun n hn => hdone n (hperm n hn))
      rw [hfalse] at hap
      simp at hap

/-! ### counting: every iteration of a fault-free run increases a bounded potential -/

theorem filter_length_mono {α : Type} (p q : α → Bool) : ∀ (l : List α), (∀ x, x ∈ l → p x = true → q x = true) →
    (l.filter p).length ≤ (l.filter q).length
  | [], _ => Nat.le_refl _
  | a :: l, h => by
    have ih := filter_length_mono p q l (fun x hx => h x (by simp [hx]))
    simp only [List.filter_cons]
    cases hp : p a
    · simp only [Bool.false_eq_true, if_false]
      split
      · simp only [List.length_cons]; omega
      · exact ih
    · have hq := h a (by simp) hp
      simp only [hq, if_true, List.length_cons]
      omega

theorem filter_length_lt {α : Type} (p q : α → Bool) : ∀ (l : List α), (∀ x, x ∈ l → p x = true → q x = true) →
    (∃ x, x ∈ l ∧ p x = false ∧ q x = true) → (l.filter p).length < (l.filter q).length
  | [], _, h => by obtain ⟨x, hx, _⟩ := h; exact absurd hx (by simp)
  | a :: l, h, hex => by
    have hmono := filter_length_mono p q l (fun x hx => h x (by simp [hx]))
    simp only [List.filter_cons]
    obtain ⟨x, hx, hpx, hqx⟩ := hex
    rcases List.mem_cons.mp hx with rfl | hx
    · simp only [hpx, hqx, Bool.false_eq_true, if_false, if_true, List.length_cons]
      omega
    · have ih := filter_length_lt p q l (fun y hy => h y (by simp [hy])) ⟨x, hx, hpx, hqx⟩
      cases hp : p a
      · simp only [Bool.false_eq_true, if_false]
        split
        · simp only [List.length_cons]; omega
        · exact ih
      · have hq := h a (by simp) hp
        simp only [hq, if_true, List.length_cons]
        omega

/-- number of nodes of the workflow that have been started (or marked unrunnable) -/
def startedCount (sorted : List NodeId) (ns : NSMap) : Nat :=
  (sorted.filter (fun n => (ns.get n).blk.isSome)).length

theorem startedCount_le (sorted : List NodeId) (ns : NSMap) : startedCount sorted ns ≤ sorted.length :=
  List.length_filter_le _ _

theorem startedCount_mono (sorted : List NodeId) {a b : NSMap} (hg : Grow a b) :
    startedCount sorted a ≤ startedCount sorted b := by
  apply filter_length_mono
  intro n _ hn
  have : (a.get n).blk ≠ none := by
    intro h; rw [h] at hn; simp at hn
  have := (hg n this).1
  cases hb : (b.get n).blk with
  | none => exact absurd hb this
  | some _ => rfl

theorem startedCount_lt (sorted : List NodeId) {a b : NSMap} (hg : Grow a b) {n : NodeId} (hn : n ∈ sorted)
    (ha : (a.get n).blk = none) (hb : (b.get n).blk ≠ none) : startedCount sorted a < startedCount sorted b := by
  apply filter_length_lt
  · intro m _ hm
    have : (a.get m).blk ≠ none := by
      intro h; rw [h] at hm; simp at hm
    have := (hg m this).1
    cases hbb : (b.get m).blk with
    | none => exact absurd hbb this
    | some _ => rfl
  · refine ⟨n, hn, by rw [ha]; rfl, ?_⟩
    cases hbb : (b.get n).blk with
    | none => exact absurd hbb hb
    | some _ => rfl

/-- the potential: twice the completed futures, plus the started nodes, plus one while something is pending -/
def potential (sorted : List NodeId) (st : St) : Nat :=
  2 * completed st + startedCount sorted st.ns + (if st.futures.isEmpty then 0 else 1)

theorem potential_le {wf : Wf} {k : Option Nat} (sorted : List NodeId) {st : St} (hs : SInv wf k st) :
    potential sorted st ≤ 2 * st.futured.length + sorted.length + 1 := by
  unfold potential completed
  have := startedCount_le sorted st.ns
  have := futures_le_futured hs
  split <;> omega

theorem round_grow {wf : Wf} {k : Option Nat} {sorted : List NodeId} (ht : TopoOrder wf sorted) {st : St}
    (hs : SInv wf k st) (moves : List Ev) {st' : St} (h : (round wf k sorted st moves).state? = some st') :
    Grow st.ns st'.ns :=
  li_round (grow_loopInv ht st.ns) ht hs (Grow.refl _) moves (fun _ _ => trivial) h

/-- every iteration of a fault-free run that leaves the loop running increases the potential -/
theorem round_potential {wf : Wf} {k : Option Nat} {sorted : List NodeId} (hw : WellFormed wf sorted)
    (hk : k ≠ some 0) {st : St} (hs : SInv wf k st) (hf : FF st) (moves : List Ev) {st' : St}
    (h : round wf k sorted st moves = .cont st') : potential sorted st < potential sorted st' := by
  have hstate : (round wf k sorted st moves).state? = some st' := by rw [h]; rfl
  have hg := round_grow hw.topo hs moves hstate
  have hmono := startedCount_mono sorted hg
  by_cases he : st.futures = []
  · -- idle iteration
    have hmoves : moves = [] := by
      cases moves with
      | nil => rfl
      | cons e es =>
        unfold round at h
        simp [he] at h
    subst hmoves
    have hc := round_idle_completed he [] hstate
    rcases idle_round_progress hw hk hs hf he with ⟨o, s, hd⟩ | ⟨s, hcs, hprog⟩
    · rw [hd] at h; exact absurd h (by simp)
    · rw [hcs] at h
      simp only [Step.cont.injEq] at h
      subst h
      unfold potential
      rw [hc]
      simp only [he, List.isEmpty_nil, if_true]
      rcases hprog with hne | ⟨n, hn, h1, h2⟩
      · have : s.futures.isEmpty = false := by simpa [List.isEmpty_iff] using hne
        simp only [this, Bool.false_eq_true, if_false]
        omega
      · have := startedCount_lt sorted hg hn h1 h2
        split <;> omega
  · -- the loop awaited something: a future completed
    have hc := round_completes hw.topo hs he moves hstate
    have hne : st.futures.isEmpty = false := by simpa [List.isEmpty_iff] using he
    unfold potential
    simp only [hne, Bool.false_eq_true, if_false]
    split <;> omega

/-- number of iterations of the loop that a run actually performs -/
def roundsRun (wf : Wf) (k : Option Nat) (sorted : List NodeId) : Step → List (List Ev) → Nat
  | .cont st, mv :: rest =>
    match round wf k sorted st mv with
    | .bad => 0
    | r => 1 + roundsRun wf k sorted r rest
  | _, _ => 0

theorem round_potential_le {wf : Wf} {k : Option Nat} {sorted : List NodeId} (hw : WellFormed wf sorted)
    {st : St} (hs : SInv wf k st) (moves : List Ev) {st' : St}
    (hstate : (round wf k sorted st moves).state? = some st') : potential sorted st ≤ potential sorted st' := by
  have hg := round_grow hw.topo hs moves hstate
  have hmono := startedCount_mono sorted hg
  unfold potential
  by_cases he : st.futures = []
  · have hmoves : moves = [] := by
      cases moves with
      | nil => rfl
      | cons e es =>
        unfold round at hstate
        simp [he, Step.state?] at hstate
    subst hmoves
    have hc := round_idle_completed he [] hstate
    rw [hc]
    simp only [he, List.isEmpty_nil, if_true]
    omega
  · have hc := round_completes hw.topo hs he moves hstate
    have hne : st.futures.isEmpty = false := by simpa [List.isEmpty_iff] using he
    simp only [hne, Bool.false_eq_true, if_false]
    omega

/-- TERMINATION BOUND (from any reached state): along a fault-free schedule the number of iterations performed
    is at most the growth of the potential, plus one for the iteration that ends the submission -/
theorem roundsRun_le {wf : Wf} {k : Option Nat} {sorted : List NodeId} (hw : WellFormed wf sorted)
    (hk : k ≠ some 0) : ∀ (sched : List (List Ev)) (st : St), SInv wf k st → FF st →
      (∀ mv, mv ∈ sched → ∀ e, e ∈ mv → noVanish e) →
      ∀ st', (runFrom wf k sorted (.cont st) sched).state? = some st' →
        roundsRun wf k sorted (.cont st) sched + potential sorted st ≤ potential sorted st' + 1
  | [], st, _, _, _, st', h => by
    simp only [runFrom, Step.state?, Option.some.injEq] at h
    subst h
    simp [roundsRun]
  | mv :: rest, st, hs, hf, hff, st', h => by
    simp only [runFrom] at h
    cases hr : round wf k sorted st mv with
    | bad =>
      rw [hr] at h
      cases rest <;> simp [runFrom, Step.state?] at h
    | done o s1 =>
      rw [hr] at h
      have hrun : runFrom wf k sorted (.done o s1) rest = .done o s1 := by cases rest <;> rfl
      rw [hrun] at h
      simp only [Step.state?, Option.some.injEq] at h
      subst h
      have hle := round_potential_le hw hs mv (by rw [hr]; rfl : (round wf k sorted st mv).state? = some s1)
      have hz : roundsRun wf k sorted (.done o s1) rest = 0 := by cases rest <;> rfl
      simp only [roundsRun, hr, hz]
      omega
    | cont s1 =>
      rw [hr] at h
      have hstate : (round wf k sorted st mv).state? = some s1 := by rw [hr]; rfl
      have hs1 := sinv_round hw.topo hs mv hstate
      have hf1 := li_round (ff_loopInv wf k sorted) hw.topo hs hf mv (hff mv (by simp)) hstate
      have ih := roundsRun_le hw hk rest s1 hs1 hf1 (fun m hm => hff m (by simp [hm])) st' h
      have hlt := round_potential hw hk hs hf mv hr
      simp only [roundsRun, hr]
      omega

end PydraModel.Sched
