import PydraModel.Sched.Order
/-
Failure propagation: which nodes are downstream of a failed job (`Doomed`), that they are never started, that
everything else is executed, and what the outcome of the submission names.
-/
namespace PydraModel.Sched
open PydraModel.Graph

/-- a node one of whose jobs has failed, as the disk says -/
def FailedNode (st : St) (p : NodeId) : Prop := ∃ c, c ∈ (st.ns.get p).cks ∧ st.w c = .err

/-- a node that has a failed job somewhere upstream (dependence is at node granularity, as in the scheduler) -/
inductive Doomed (wf : Wf) (st : St) : NodeId → Prop
  | direct {p n : NodeId} : p ∈ wf.preds n → FailedNode st p → Doomed wf st n
  | step {p n : NodeId} : p ∈ wf.preds n → Doomed wf st p → Doomed wf st n

/-- a doomed node is never started: it has no jobs, nothing of it is ever dispatched -/
theorem doomed_not_started {wf : Wf} {st : St} (h : NInv wf st.w st.ns) {n : NodeId} (hd : Doomed wf st n) :
    ¬ ((st.ns.get n).blk ≠ none ∧ (st.ns.get n).unrunnable = false) := by
  induction hd with
  | direct hp hf =>
    rintro ⟨hb, hu⟩
    obtain ⟨c, hc, he⟩ := hf
    have := (h.preds _ hb hu _ hp).2 c hc
    rw [he] at this; exact absurd this (by simp)
  | step hp _ ih =>
    rintro ⟨hb, hu⟩
    have hs := (h.preds _ hb hu _ hp).1
    exact ih ⟨by rw [hs.1]; simp, hs.2.2.2.2⟩

theorem mem_preds_iff {wf : Wf} {p n : NodeId} : p ∈ wf.preds n ↔ (p, n) ∈ wf.g.edges := by
  unfold Wf.preds
  simp only [List.mem_map, List.mem_filter, beq_iff_eq]
  constructor
  · rintro ⟨e, ⟨he, rfl⟩, rfl⟩; exact he
  · intro h; exact ⟨(p, n), ⟨h, rfl⟩, rfl⟩

/-- a node is marked unrunnable only if it is doomed (needs an acyclic graph: the chain of reasons ends) -/
theorem unrunnable_doomed {wf : Wf} {st : St} (h : NInv wf st.w st.ns) (hw : wf.g.wip = [])
    (hac : Acyclic wf.g) : ∀ n, (st.ns.get n).unrunnable = true → Doomed wf st n := by
  obtain ⟨r, hr⟩ := hac
  have hrank : ∀ p n, p ∈ wf.preds n → r p < r n := by
    intro p n hp
    have := hr (p, n) (mem_preds_iff.mp hp) (by rw [hw]; simp)
    exact this
  intro n
  induction hn : r n using Nat.strongRecOn generalizing n with
  | _ m ih =>
    intro hu
    obtain ⟨p, hp, hc⟩ := h.whyUnrun n hu
    rcases hc with hc | hc
    · obtain ⟨i, hi⟩ := List.exists_mem_of_ne_nil _ hc
      have hl := h.loc p
      have herr := hl.errErr i hi
      have hlt := hl.idxOk i (Or.inr (Or.inr (Or.inr hi)))
      exact Doomed.direct hp ⟨_, ckAt_mem_cks hlt, herr⟩
    · exact Doomed.step hp (ih (r p) (by rw [← hn]; exact hrank p n hp) p rfl hc)

/-! ### how a run ends -/

theorem runFrom_done {wf : Wf} {k : Option Nat} {sorted : List NodeId} {o : Outcome} {st : St} :
    ∀ (sched : List (List Ev)) (s : Step), runFrom wf k sorted s sched = .done o st →
      s = .done o st ∨ ∃ stp, afterPoll wf k sorted stp = .done o st
  | [], s, h => by
    cases s <;> simp only [runFrom] at h <;> first | exact Or.inl h | exact absurd h (by simp)
  | mv :: rest, .cont st0, h => by
    simp only [runFrom] at h
    rcases runFrom_done rest _ h with h1 | h1
    · right
      unfold round at h1
      split at h1
      · exact absurd h1 (by simp)
      · split at h1
        · exact absurd h1 (by simp)
        · split at h1
          · exact absurd h1 (by simp)
          · exact ⟨_, h1⟩
    · exact Or.inr h1
  | _ :: _, .done _ _, h => by simp only [runFrom] at h; exact Or.inl h
  | _ :: _, .bad, h => by simp [runFrom] at h

theorem runAsync_done {wf : Wf} {k : Option Nat} {sorted : List NodeId} {sched : List (List Ev)} {o : Outcome}
    {st : St} (h : runAsync wf k sorted sched = .done o st) : ∃ stp, afterPoll wf k sorted stp = .done o st := by
  rcases runFrom_done sched _ h with h1 | h1
  · exact ⟨_, h1⟩
  · exact h1

/-- What holds when the loop has ended *normally* (every node done, nothing pending) in a fault-free run. -/
theorem final_state {wf : Wf} {k : Option Nat} {st : St} (hs : SInv wf k st) (hf : FF st)
    (hw : wf.g.wip = []) (hac : Acyclic wf.g)
    (hdone : ∀ n, n ∈ wf.g.nodes → (st.ns.get n).isDone = true) (hnf : st.futures = []) :
    -- every job of every node that is not downstream of a failure has been executed and has a result
    (∀ n, n ∈ wf.g.nodes → ¬ Doomed wf st n →
      (st.ns.get n).blk ≠ none ∧ (st.ns.get n).unrunnable = false ∧
      ∀ c, c ∈ (st.ns.get n).cks → c ∈ st.futured ∧ (st.w c = .ok ∨ st.w c = .err)) ∧
    -- nodes downstream of a failure were given no jobs at all
    (∀ n, n ∈ wf.g.nodes → Doomed wf st n → (st.ns.get n).unrunnable = true ∧ (st.ns.get n).cks = []) ∧
    -- every executed body belongs to a node that is not downstream of a failure
    (∀ c, st.w c ≠ .idle → ∃ n, c ∈ (st.ns.get n).cks ∧ ¬ Doomed wf st n) ∧
    -- the collected errors are exactly the failed jobs
    (∀ c, c ∈ st.errors ↔ st.w c = .err) := by
  have hn := hs.ninv
  refine ⟨?_, ?_, ?_, ?_⟩
  · intro n hnn hnd
    have hl := hn.loc n
    have hnu : (st.ns.get n).unrunnable = false := by
      cases hu : (st.ns.get n).unrunnable
      · rfl
      · exact absurd (unrunnable_doomed hn hw hac n hu) hnd
    obtain ⟨hst, hq, _, hr⟩ := (isDone_iff _).mp (hdone n hnn)
    have hb := blk_of_started hl hst
    refine ⟨hb, hnu, ?_⟩
    intro c hc
    obtain ⟨i, hi, hci⟩ := mem_cks_ckAt hc
    have hfin : st.w c = .ok ∨ st.w c = .err := by
      rcases hl.cover hb hnu i hi with h | h | h | h
      · rw [hq] at h; simp at h
      · rw [hr] at h; simp at h
      · left; rw [← hci]; exact hl.succOk i h
      · right; rw [← hci]; exact hl.errErr i h
    refine ⟨hs.touched c ?_, hfin⟩
    rcases hfin with h | h <;> rw [h] <;> simp
  · intro n hnn hd
    have hl := hn.loc n
    have hns := doomed_not_started hn hd
    obtain ⟨hst, _, _, _⟩ := (isDone_iff _).mp (hdone n hnn)
    have hb := blk_of_started hl hst
    have hu : (st.ns.get n).unrunnable = true := by
      cases hu : (st.ns.get n).unrunnable
      · exact absurd ⟨hb, hu⟩ hns
      · rfl
    exact ⟨hu, (hl.unrun hu).2.2.2.2⟩
  · intro c hc
    obtain ⟨n, hb, hu, hcn⟩ := hs.legit c (hs.touched c hc)
    exact ⟨n, hcn, fun hd => doomed_not_started hn hd ⟨hb, hu⟩⟩
  · intro c
    constructor
    · exact hf.namedErr c
    · intro he
      rcases hf.errNamed c he with h | h
      · rw [hnf] at h; simp at h
      · exact h

end PydraModel.Sched
