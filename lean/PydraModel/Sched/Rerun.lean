import PydraModel.Sched.SysInv
/-
Submissions over PRE-EXISTING RESULTS (second run over a populated `cache_root`, `readonly_caches`, `rerun=True`,
errored first results).  The loop (`poll`, `afterPoll`, `dispatch`, the stall detector) is the one of `Sched/Model.lean`,
unchanged; what is new is the disk and what the worker does with a dispatched job.

Disk.  `st.w` is the `cache_root` of the submission: it may hold results at the beginning (`ok` / `err`: left by an
earlier submission).  `cfg.ro` are the results found in `readonly_caches` (never written).  `Job.done`, `Job.errored`
and the lazy-field values are answered from `load_result(checksum, [cache_root] + readonly_caches)`, i.e. from `view`:
the result in `cache_root` if there is one, else the one of a readonly cache, else the lock file.  In particular a
pre-existing result is *seen* (the job counts as done / errored) until the re-execution deletes it
(`Job._populate_filesystem`, right after the lock is taken — move `acquire`); a result of a readonly cache is seen
even while the job is executing.

Worker (`Job.run(rerun)` under the lock): a job whose visible result is successful and that is not to be re-run is a
cache hit — the future completes without a body (`complete` without `acquire`); otherwise (`rerun`, or an errored
result, or no result) the body is executed.  `began` / `ended` log the bodies started / ended IN THIS SUBMISSION.
Values: a body executed in this submission returns `wf.body c`, a pre-existing result holds `cfg.oldv c` (bodies may
depend on external state, so the two may differ although the checksum is the same).
-/
namespace PydraModel.Sched
open PydraModel.Graph

structure RCfg where
  rerun : Bool
  ro : Ck → Truth
  oldv : Ck → Val

structure RSt where
  st : St
  began : List Ck
  ended : List Ck

/-- what `load_result` / `run_start_time` answer -/
def view (cfg : RCfg) (w : World) : World := fun c =>
  match w c with
  | .ok => .ok
  | .err => .err
  | t => match cfg.ro c with
    | .ok => .ok
    | .err => .err
    | _ => t

/-- the workflow as the disk presents it now: values of results written in this submission are fresh -/
def diskWf (wf : Wf) (cfg : RCfg) (ended : List Ck) : Wf :=
  { wf with body := fun c => if ended.contains c then wf.body c else cfg.oldv c }

/-- `Job.run` returns the cached result without executing anything -/
def isHit (cfg : RCfg) (rst : RSt) (c : Ck) : Bool :=
  !cfg.rerun && view cfg rst.st.w c == .ok && !rst.began.contains c

def applyEvR (cfg : RCfg) (rst : RSt) : Ev → Option RSt
  | .acquire c =>
    if rst.st.futures.contains c && !rst.began.contains c && !isHit cfg rst c then
      some { rst with st := { rst.st with w := setW rst.st.w c .locked }, began := rst.began ++ [c] }
    else none
  | .finishOk c =>
    if rst.began.contains c && !rst.ended.contains c then
      some { rst with st := { rst.st with w := setW rst.st.w c .ok }, ended := rst.ended ++ [c] }
    else none
  | .finishErr c =>
    if rst.began.contains c && !rst.ended.contains c then
      some { rst with st := { rst.st with w := setW rst.st.w c .err }, ended := rst.ended ++ [c] }
    else none
  | .complete c =>
    if rst.st.futures.contains c && (rst.ended.contains c || isHit cfg rst c) then
      some { rst with st := { rst.st with
        futures := rst.st.futures.erase c,
        errors := if rst.ended.contains c && rst.st.w c == .err then rst.st.errors ++ [c] else rst.st.errors } }
    else none
  | .vanish _ => none

def applyEvsR (cfg : RCfg) : RSt → List Ev → Option RSt
  | rst, [] => some rst
  | rst, e :: es => match applyEvR cfg rst e with
    | some rst' => applyEvsR cfg rst' es
    | none => none

inductive RStep
  | cont (rst : RSt)
  | done (o : Outcome) (rst : RSt)
  | bad

def RStep.state? : RStep → Option RSt
  | .cont r => some r
  | .done _ r => some r
  | .bad => none

/-- the loop's state with the disk as the loop reads it -/
def seen (cfg : RCfg) (rst : RSt) : St := { rst.st with w := view cfg rst.st.w }

def back (rst : RSt) (st' : St) : RSt := { rst with st := { st' with w := rst.st.w } }

/-- one poll, the loop head and one dispatch; the loop never writes the disk -/
def pollStepR (wf : Wf) (k : Option Nat) (sorted : List NodeId) (cfg : RCfg) (rst : RSt) : RStep :=
  let wfd := diskWf wf cfg rst.ended
  match afterPoll wfd k sorted (doPoll wfd k sorted (seen cfg rst)) with
  | .cont st' => .cont (back rst st')
  | .done o st' => .done o (back rst st')
  | .bad => .bad

def roundR (wf : Wf) (k : Option Nat) (sorted : List NodeId) (cfg : RCfg) (rst : RSt) (moves : List Ev) : RStep :=
  if rst.st.futures.isEmpty && !moves.isEmpty then .bad else
  match applyEvsR cfg rst moves with
  | none => .bad
  | some r1 =>
    if !rst.st.futures.isEmpty && r1.st.futures.length == rst.st.futures.length then .bad else
    pollStepR wf k sorted cfg r1

def runFromR (wf : Wf) (k : Option Nat) (sorted : List NodeId) (cfg : RCfg) : RStep → List (List Ev) → RStep
  | .cont rst, mv :: rest => runFromR wf k sorted cfg (roundR wf k sorted cfg rst mv) rest
  | s, _ => s

def RSt.init (w0 : World) : RSt := ⟨St.init w0, [], []⟩

/-- `expand_workflow_async` over a cache that holds `w0` (and readonly caches `cfg.ro`) -/
def runAsyncR (wf : Wf) (k : Option Nat) (sorted : List NodeId) (cfg : RCfg) (w0 : World)
    (sched : List (List Ev)) : RStep :=
  runFromR wf k sorted cfg (pollStepR wf k sorted cfg (RSt.init w0)) sched

/-! ### the synchronous loop -/

/-- `for job in tasks: self.worker.run(job, rerun=...)` -/
def runTasksR (cfg : RCfg) (fail : Ck → Bool) : RSt → List Job → Except (Ck × RSt) RSt
  | rst, [] => .ok rst
  | rst, j :: js =>
    let c := ckOf rst.st j
    if !cfg.rerun && view cfg rst.st.w c == .ok then runTasksR cfg fail rst js
    else
      let r1 : RSt := { rst with began := rst.began ++ [c], ended := rst.ended ++ [c],
                                 st := { rst.st with futured := rst.st.futured ++ [c] } }
      if fail c then .error (c, { r1 with st := { r1.st with w := setW rst.st.w c .err } })
      else runTasksR cfg fail { r1 with st := { r1.st with w := setW rst.st.w c .ok } } js

def doPollR (wf : Wf) (k : Option Nat) (sorted : List NodeId) (cfg : RCfg) (rst : RSt) : RSt :=
  back rst (doPoll (diskWf wf cfg rst.ended) k sorted (seen cfg rst))

def syncLoopR (wf : Wf) (k : Option Nat) (sorted : List NodeId) (cfg : RCfg) (fail : Ck → Bool) :
    Nat → RSt → SyncOutcome × RSt
  | 0, rst => (.outOfFuel, rst)
  | fuel + 1, rst =>
    let goOn : Bool × RSt :=
      if !rst.st.tasks.isEmpty then (true, rst) else
        let a := anyNotDone (view cfg rst.st.w) rst.st.ns wf.g.nodes
        (a.1, { rst with st := { rst.st with ns := a.2 } })
    if !goOn.1 then (.success, goOn.2) else
    match runTasksR cfg fail goOn.2 goOn.2.st.tasks with
    | .error (c, r1) => (.raised c, r1)
    | .ok r1 => syncLoopR wf k sorted cfg fail fuel (doPollR wf k sorted cfg r1)

def runSyncR (wf : Wf) (k : Option Nat) (sorted : List NodeId) (cfg : RCfg) (w0 : World) (fail : Ck → Bool)
    (fuel : Nat) : SyncOutcome × RSt :=
  syncLoopR wf k sorted cfg fail fuel (doPollR wf k sorted cfg (RSt.init w0))

/-- the workflow outputs as read from the disk at the end -/
def outputsR (wf : Wf) (cfg : RCfg) (rst : RSt) (n : NodeId) : List Val :=
  (rst.st.ns.get n).cks.map (diskWf wf cfg rst.ended).body

/-- bodies executing now -/
def executing (rst : RSt) : List Ck := rst.began.filter (fun c => !rst.ended.contains c)

end PydraModel.Sched
