import PydraModel.Sched.SysInv
/-
Submissions over PRE-EXISTING RESULTS (second run over a populated `cache_root`, `readonly_caches`, `rerun=True`,
errored first results).  The loop (`poll`, `afterPoll`, `dispatch`, the stall detector) is the one of `Sched/Model.lean`,
unchanged; what is new is the disk and what the worker does with a dispatched job.

Disk.  `st.w` is the `cache_root` of the submission: it may hold results at the beginning (`ok` / `err`: left by an
earlier submission).  `cfg.ro` are the results found in `readonly_caches` (never written).  `Job.done`, `Job.errored`
and the lazy-field values are answered from `load_result(checksum, [cache_root] + readonly_caches)`, i.e. from `view`:
the result in `cache_root` if there is one, else the one of a readonly cache, else the lock file.  In particular a
pre-existing result is *seen* (the job counts as done / errored) until the re-execution deletes it
(`Job._populate_filesystem`, right after the lock is taken — move `acquire`); a result of a readonly cache is seen
even while the job is executing.

Worker (`Job.run(rerun)` under the lock): a job whose visible result is successful and that is not to be re-run is a
cache hit — the future completes without a body (`complete` without `acquire`); otherwise (`rerun`, or an errored
result, or no result) the body is executed.  `began` / `ended` log the bodies started / ended IN THIS SUBMISSION.
Values: a body executed in this submission returns `wf.body c`, a pre-existing result holds `cfg.oldv c` (bodies may
depend on external state, so the two may differ although the checksum is the same).
-/
namespace PydraModel.Sched
open PydraModel.Graph

structure RCfg where
  rerun : Bool
  ro : Ck → Truth
  oldv : Ck → Val

structure RSt where
  st : St
  began : List Ck
  ended : List Ck

/-- what `load_result` / `run_start_time` answer -/
def view (cfg : RCfg) (w : World) : World := fun c =>
  match w c with
  | .ok => .ok
  | .err => .err
  | t => match cfg.ro c with
    | .ok => .ok
    | .err => .err
    | _ => t

/-- the workflow as the disk presents it now: values of results written in this submission are fresh -/
def diskWf (wf : Wf) (cfg : RCfg) (ended : List Ck) : Wf :=
  { wf with body := fun c => if ended.contains c then wf.body c else cfg.oldv c }

/-- `Job.run` returns the cached result without executing anything -/
def isHit (cfg : RCfg) (rst : RSt) (c : Ck) : Bool :=
  !cfg.rerun && view cfg rst.st.w c == .ok && !rst.began.contains c

def applyEvR (cfg : RCfg) (rst : RSt) : Ev → Option RSt
  | .acquire c =>
    if rst.st.futures.contains c && !rst.began.contains c && !isHit cfg rst c then
      some { rst with st := { rst.st with w := setW rst.st.w c .locked }, began := rst.began ++ [c] }
    else none
  | .finishOk c =>
    if rst.began.contains c && !rst.ended.contains c then
      some { rst with st := { rst.st with w := setW rst.st.w c .ok }, ended := rst.ended ++ [c] }
    else none
  | .finishErr c =>
    if rst.began.contains c && !rst.ended.contains c then
      some { rst with st := { rst.st with w := setW rst.st.w c .err }, ended := rst.ended ++ [c] }
    else none
  | .complete c =>
    if rst.st.futures.contains c && (rst.ended.contains c || isHit cfg rst c) then
      some { rst with st := { rst.st with
        futures := rst.st.futures.erase c,
        errors := if rst.ended.contains c && rst.st.w c == .err then rst.st.errors ++ [c] else rst.st.errors } }
    else none
  | .vanish _ => none

def applyEvsR (cfg : RCfg) : RSt → List Ev → Option RSt
  | rst, [] => some rst
  | rst, e :: es => match applyEvR cfg rst e with
    | some rst' => applyEvsR cfg rst' es
    | none => none

inductive RStep
  | cont (rst : RSt)
  | done (o : Outcome) (rst : RSt)
  | crash (rst : RSt)   -- `start()` found no result for a predecessor's job (LazyField._get_value raises): the workflow job fails
  | bad

def RStep.state? : RStep → Option RSt
  | .cont r => some r
  | .done _ r => some r
  | .crash r => some r
  | .bad => none

/-- `start()` resolves the lazy inputs of a node from the result files of its predecessors' jobs.  A predecessor that
    was taken as done from an OLD result which its re-execution has meanwhile deleted (and not yet replaced) has no
    result: `_get_value` raises and the submission ends.  (`ns0` / `ns1`: tables before / after the poll.) -/
def lostInput (wf : Wf) (v : World) (ns0 ns1 : NSMap) (sorted : List NodeId) : Bool :=
  sorted.any (fun n => (ns0.get n).blk.isNone && (ns1.get n).blk.isSome && !(ns1.get n).unrunnable &&
    (wf.preds n).any (fun p => (ns1.get p).cks.any (fun c => v c != .ok)))

/-- the loop's state with the disk as the loop reads it -/
def seen (cfg : RCfg) (rst : RSt) : St := { rst.st with w := view cfg rst.st.w }

def back (rst : RSt) (st' : St) : RSt := { rst with st := { st' with w := rst.st.w } }

/-- one poll, the loop head and one dispatch; the loop never writes the disk -/
def pollStepR (wf : Wf) (k : Option Nat) (sorted : List NodeId) (cfg : RCfg) (rst : RSt) : RStep :=
  let wfd := diskWf wf cfg rst.ended
  let st1 := doPoll wfd k sorted (seen cfg rst)
  if lostInput wf (view cfg rst.st.w) rst.st.ns st1.ns sorted then .crash (back rst st1) else
  match afterPoll wfd k sorted st1 with
  | .cont st' => .cont (back rst st')
  | .done o st' => .done o (back rst st')
  | .bad => .bad

def roundR (wf : Wf) (k : Option Nat) (sorted : List NodeId) (cfg : RCfg) (rst : RSt) (moves : List Ev) : RStep :=
  if rst.st.futures.isEmpty && !moves.isEmpty then .bad else
  match applyEvsR cfg rst moves with
  | none => .bad
  | some r1 =>
    if !rst.st.futures.isEmpty && r1.st.futures.length == rst.st.futures.length then .bad else
    pollStepR wf k sorted cfg r1

def runFromR (wf : Wf) (k : Option Nat) (sorted : List NodeId) (cfg : RCfg) : RStep → List (List Ev) → RStep
  | .cont rst, mv :: rest => runFromR wf k sorted cfg (roundR wf k sorted cfg rst mv) rest
  | s, _ => s

def RSt.init (w0 : World) : RSt := ⟨St.init w0, [], []⟩

/-- `expand_workflow_async` over a cache that holds `w0` (and readonly caches `cfg.ro`) -/
def runAsyncR (wf : Wf) (k : Option Nat) (sorted : List NodeId) (cfg : RCfg) (w0 : World)
    (sched : List (List Ev)) : RStep :=
  runFromR wf k sorted cfg (pollStepR wf k sorted cfg (RSt.init w0)) sched

/-! ### the synchronous loop -/

/-- `for job in tasks: self.worker.run(job, rerun=...)` -/
def runTasksR (cfg : RCfg) (fail : Ck → Bool) : RSt → List Job → Except (Ck × RSt) RSt
  | rst, [] => .ok rst
  | rst, j :: js =>
    let c := ckOf rst.st j
    if !cfg.rerun && view cfg rst.st.w c == .ok then runTasksR cfg fail rst js
    else
      let r1 : RSt := { rst with began := rst.began ++ [c], ended := rst.ended ++ [c],
                                 st := { rst.st with futured := rst.st.futured ++ [c] } }
      if fail c then .error (c, { r1 with st := { r1.st with w := setW rst.st.w c .err } })
      else runTasksR cfg fail { r1 with st := { r1.st with w := setW rst.st.w c .ok } } js

def doPollR (wf : Wf) (k : Option Nat) (sorted : List NodeId) (cfg : RCfg) (rst : RSt) : RSt :=
  back rst (doPoll (diskWf wf cfg rst.ended) k sorted (seen cfg rst))

def syncLoopR (wf : Wf) (k : Option Nat) (sorted : List NodeId) (cfg : RCfg) (fail : Ck → Bool) :
    Nat → RSt → SyncOutcome × RSt
  | 0, rst => (.outOfFuel, rst)
  | fuel + 1, rst =>
    let goOn : Bool × RSt :=
      if !rst.st.tasks.isEmpty then (true, rst) else
        let a := anyNotDone (view cfg rst.st.w) rst.st.ns wf.g.nodes
        (a.1, { rst with st := { rst.st with ns := a.2 } })
    if !goOn.1 then (.success, goOn.2) else
    match runTasksR cfg fail goOn.2 goOn.2.st.tasks with
    | .error (c, r1) => (.raised c, r1)
    | .ok r1 => syncLoopR wf k sorted cfg fail fuel (doPollR wf k sorted cfg r1)

def runSyncR (wf : Wf) (k : Option Nat) (sorted : List NodeId) (cfg : RCfg) (w0 : World) (fail : Ck → Bool)
    (fuel : Nat) : SyncOutcome × RSt :=
  syncLoopR wf k sorted cfg fail fuel (doPollR wf k sorted cfg (RSt.init w0))

/-- the workflow outputs as read from the disk at the end -/
def outputsR (wf : Wf) (cfg : RCfg) (rst : RSt) (n : NodeId) : List Val :=
  (rst.st.ns.get n).cks.map (diskWf wf cfg rst.ended).body

/-- bodies executing now -/
def executingR (rst : RSt) : List Ck := rst.began.filter (fun c => !rst.ended.contains c)

/-! ### the futures bookkeeping of the loop does not depend on the disk -/

structure FInv (k : Option Nat) (st : St) : Prop where
  futuredNodup : st.futured.Nodup
  futuresNodup : st.futures.Nodup
  futuresSub : ∀ c, c ∈ st.futures → c ∈ st.futured
  limit : ∀ k', k = some k' → st.futures.length ≤ k'

theorem finv_congr {k : Option Nat} {st st' : St} (h : FInv k st) (h1 : st'.futures = st.futures)
    (h2 : st'.futured = st.futured) : FInv k st' :=
  ⟨by rw [h2]; exact h.futuredNodup, by rw [h1]; exact h.futuresNodup, by rw [h1, h2]; exact h.futuresSub,
   by rw [h1]; exact h.limit⟩

/-- what the loop's own steps leave alone, and how `futured` grows -/
structure Kept (st st' : St) : Prop where
  w : st'.w = st.w
  errors : st'.errors = st.errors
  futuredGrows : ∀ c, c ∈ st.futured → c ∈ st'.futured
  futuresGrows : ∀ c, c ∈ st.futures → c ∈ st'.futures

theorem Kept.refl (st : St) : Kept st st := ⟨rfl, rfl, fun _ h => h, fun _ h => h⟩

theorem Kept.trans {a b c : St} (h1 : Kept a b) (h2 : Kept b c) : Kept a c :=
  ⟨h2.w.trans h1.w, h2.errors.trans h1.errors, fun x h => h2.futuredGrows x (h1.futuredGrows x h),
   fun x h => h2.futuresGrows x (h1.futuresGrows x h)⟩

theorem finv_dispatchStep {k : Option Nat} {st : St} (hs : FInv k st) (j : Job) :
    FInv k (dispatchStep k st j) ∧ Kept st (dispatchStep k st j) := by
  unfold dispatchStep
  simp only
  split
  · rename_i hc
    simp only [Bool.and_eq_true, Bool.not_eq_true', List.contains_eq_mem, decide_eq_false_iff_not] at hc
    obtain ⟨hnf, hlim⟩ := hc
    have hnf' : ckOf st j ∉ st.futures := fun h => hnf (hs.futuresSub _ h)
    refine ⟨⟨?_, ?_, ?_, ?_⟩, ⟨rfl, rfl, fun c h => List.mem_append_left _ h, fun c h => List.mem_append_left _ h⟩⟩
    · exact List.nodup_append.mpr ⟨hs.futuredNodup, by simp, by
        intro a ha b hb; simp at hb; subst hb; intro e; subst e; exact hnf ha⟩
    · exact List.nodup_append.mpr ⟨hs.futuresNodup, by simp, by
        intro a ha b hb; simp at hb; subst hb; intro e; subst e; exact hnf' ha⟩
    · intro c hc
      rcases List.mem_append.mp hc with h | h
      · exact List.mem_append_left _ (hs.futuresSub c h)
      · exact List.mem_append_right _ h
    · intro k' hk
      subst hk
      simp only [underLimit, decide_eq_true_eq] at hlim
      simp only [List.length_append, List.length_singleton]
      omega
  · exact ⟨hs, Kept.refl st⟩

theorem finv_foldl_dispatch {k : Option Nat} : ∀ (l : List Job) {st : St}, FInv k st →
    FInv k (l.foldl (dispatchStep k) st) ∧ Kept st (l.foldl (dispatchStep k) st)
  | [], st, hs => ⟨hs, Kept.refl st⟩
  | j :: l, st, hs => by
    simp only [List.foldl_cons]
    have h1 := finv_dispatchStep hs j
    have h2 := finv_foldl_dispatch l h1.1
    exact ⟨h2.1, h1.2.trans h2.2⟩

theorem finv_dispatch {k : Option Nat} {st : St} (hs : FInv k st) : FInv k (dispatch k st) ∧ Kept st (dispatch k st) :=
  finv_foldl_dispatch st.tasks hs

/-- a step that changes tables and tasks only -/
def SameQ (st st' : St) : Prop :=
  st'.w = st.w ∧ st'.errors = st.errors ∧ st'.futured = st.futured ∧ st'.futures = st.futures

theorem SameQ.kept {st st' : St} (h : SameQ st st') : Kept st st' :=
  ⟨h.1, h.2.1, fun c hc => by rw [h.2.2.1]; exact hc, fun c hc => by rw [h.2.2.2]; exact hc⟩

theorem SameQ.finv {k : Option Nat} {st st' : St} (h : SameQ st st') (hs : FInv k st) : FInv k st' :=
  finv_congr hs h.2.2.2 h.2.2.1

theorem SameQ.trans {a b c : St} (h1 : SameQ a b) (h2 : SameQ b c) : SameQ a c :=
  ⟨h2.1.trans h1.1, h2.2.1.trans h1.2.1, h2.2.2.1.trans h1.2.2.1, h2.2.2.2.trans h1.2.2.2⟩

theorem sameQ_doPoll (wf : Wf) (k : Option Nat) (sorted : List NodeId) (st : St) : SameQ st (doPoll wf k sorted st) :=
  ⟨rfl, rfl, rfl, rfl⟩

theorem sameQ_stallLoop {wf : Wf} {k : Option Nat} {sorted : List NodeId} :
    ∀ (fuel : Nat) {st st' : St}, stallLoop wf k sorted fuel st = some st' → SameQ st st'
  | 0, _, _, h => by simp [stallLoop] at h
  | fuel + 1, st, st', h => by
    simp only [stallLoop] at h
    split at h
    · cases h; exact ⟨rfl, rfl, rfl, rfl⟩
    · split at h
      · cases h; exact ⟨rfl, rfl, rfl, rfl⟩
      · split at h
        · exact absurd h (by simp)
        · have q := sameQ_stallLoop fuel h
          exact ⟨q.1, q.2.1, q.2.2.1, q.2.2.2⟩

theorem finv_afterPoll {wf : Wf} {k : Option Nat} {sorted : List NodeId} {st : St}
    (hs : FInv k st) {st' : St} (h : (afterPoll wf k sorted st).state? = some st') : FInv k st' ∧ Kept st st' := by
  unfold afterPoll at h
  split at h
  · simp only [Step.state?, Option.some.injEq] at h; subst h; exact finv_dispatch hs
  · simp only at h
    split at h
    · simp only [Step.state?, Option.some.injEq] at h; subst h
      exact ⟨finv_congr hs rfl rfl, ⟨rfl, rfl, fun _ h => h, fun _ h => h⟩⟩
    · split at h
      · simp only [Step.state?, Option.some.injEq] at h; subst h
        exact ⟨finv_congr hs rfl rfl, ⟨rfl, rfl, fun _ h => h, fun _ h => h⟩⟩
      · rename_i st2 hst
        simp only [Step.state?, Option.some.injEq] at h; subst h
        have q := sameQ_stallLoop 11 hst
        have q0 : SameQ st { st with ns := (anyNotDone st.w st.ns wf.g.nodes).2 } := ⟨rfl, rfl, rfl, rfl⟩
        have q2 := q0.trans q
        have d := finv_dispatch (q2.finv hs)
        exact ⟨d.1, q2.kept.trans d.2⟩

/-! ### C16 over pre-existing results -/

/-- bodies execute only inside pending futures -/
structure RInv (k : Option Nat) (rst : RSt) : Prop where
  f : FInv k rst.st
  beganNodup : rst.began.Nodup
  endedSub : ∀ c, c ∈ rst.ended → c ∈ rst.began
  beganSub : ∀ c, c ∈ rst.began → c ∈ rst.st.futured
  execPending : ∀ c, c ∈ rst.began → c ∉ rst.ended → c ∈ rst.st.futures

theorem rinv_init (k : Option Nat) (w0 : World) : RInv k (RSt.init w0) := by
  refine ⟨⟨?_, ?_, ?_, ?_⟩, ?_, ?_, ?_, ?_⟩ <;> simp [RSt.init, St.init]

theorem rinv_applyEvR {cfg : RCfg} {k : Option Nat} {rst rst' : RSt} {e : Ev} (hi : RInv k rst)
    (h : applyEvR cfg rst e = some rst') : RInv k rst' := by
  cases e with
  | acquire c =>
    simp only [applyEvR] at h
    split at h
    · rename_i hc
      simp only [Bool.and_eq_true, Bool.not_eq_true', List.contains_eq_mem, decide_eq_true_eq,
        decide_eq_false_iff_not] at hc
      obtain ⟨⟨hf, hnb⟩, _⟩ := hc
      cases h
      refine ⟨finv_congr hi.f rfl rfl, ?_, ?_, ?_, ?_⟩
      · exact List.nodup_append.mpr ⟨hi.beganNodup, by simp, by
          intro a ha b hb; simp at hb; subst hb; intro e; subst e; exact hnb ha⟩
      · intro x hx; exact List.mem_append_left _ (hi.endedSub x hx)
      · intro x hx
        rcases List.mem_append.mp hx with h | h
        · exact hi.beganSub x h
        · simp at h; subst h; exact hi.f.futuresSub _ hf
      · intro x hx hne
        rcases List.mem_append.mp hx with h | h
        · exact hi.execPending x h hne
        · simp at h; subst h; exact hf
    · exact absurd h (by simp)
  | finishOk c =>
    simp only [applyEvR] at h
    split at h
    · rename_i hc
      simp only [Bool.and_eq_true, Bool.not_eq_true', List.contains_eq_mem, decide_eq_true_eq,
        decide_eq_false_iff_not] at hc
      cases h
      refine ⟨finv_congr hi.f rfl rfl, hi.beganNodup, ?_, hi.beganSub, ?_⟩
      · intro x hx
        rcases List.mem_append.mp hx with h | h
        · exact hi.endedSub x h
        · simp at h; subst h; exact hc.1
      · intro x hx hne
        exact hi.execPending x hx (fun h => hne (List.mem_append_left _ h))
    · exact absurd h (by simp)
  | finishErr c =>
    simp only [applyEvR] at h
    split at h
    · rename_i hc
      simp only [Bool.and_eq_true, Bool.not_eq_true', List.contains_eq_mem, decide_eq_true_eq,
        decide_eq_false_iff_not] at hc
      cases h
      refine ⟨finv_congr hi.f rfl rfl, hi.beganNodup, ?_, hi.beganSub, ?_⟩
      · intro x hx
        rcases List.mem_append.mp hx with h | h
        · exact hi.endedSub x h
        · simp at h; subst h; exact hc.1
      · intro x hx hne
        exact hi.execPending x hx (fun h => hne (List.mem_append_left _ h))
    · exact absurd h (by simp)
  | complete c =>
    simp only [applyEvR] at h
    split at h
    · rename_i hc
      simp only [Bool.and_eq_true, Bool.or_eq_true, List.contains_eq_mem, decide_eq_true_eq] at hc
      obtain ⟨_, hdone⟩ := hc
      cases h
      refine ⟨⟨hi.f.futuredNodup, hi.f.futuresNodup.erase c,
        fun x hx => hi.f.futuresSub x (List.mem_of_mem_erase hx), ?_⟩, hi.beganNodup, hi.endedSub, hi.beganSub, ?_⟩
      · intro k' hk
        exact Nat.le_trans (List.length_erase_le) (hi.f.limit k' hk)
      · intro x hx hne
        have hp := hi.execPending x hx hne
        by_cases hxc : x = c
        · subst hxc
          rcases hdone with h | h
          · exact absurd h hne
          · simp only [isHit, Bool.and_eq_true, Bool.not_eq_true', List.contains_eq_mem, decide_eq_false_iff_not] at h
            exact absurd hx h.2
        · exact (List.mem_erase_of_ne hxc).mpr hp
    · exact absurd h (by simp)
  | vanish c => simp [applyEvR] at h

theorem rinv_applyEvsR {cfg : RCfg} {k : Option Nat} : ∀ (es : List Ev) {rst rst' : RSt}, RInv k rst →
    applyEvsR cfg rst es = some rst' → RInv k rst'
  | [], _, _, hi, h => by simp only [applyEvsR, Option.some.injEq] at h; subst h; exact hi
  | e :: es, rst, rst', hi, h => by
    simp only [applyEvsR] at h
    split at h
    · rename_i r1 h1; exact rinv_applyEvsR es (rinv_applyEvR hi h1) h
    · exact absurd h (by simp)

theorem rinv_back {k : Option Nat} {rst : RSt} (hi : RInv k rst) {st' : St} (hf : FInv k st')
    (hk : ∀ c, c ∈ rst.st.futured → c ∈ st'.futured) (hk2 : ∀ c, c ∈ rst.st.futures → c ∈ st'.futures) :
    RInv k (back rst st') :=
  ⟨finv_congr hf rfl rfl, hi.beganNodup, hi.endedSub, fun c hc => hk c (hi.beganSub c hc),
   fun c hc hne => hk2 c (hi.execPending c hc hne)⟩

theorem rinv_pollStepR {wf : Wf} {k : Option Nat} {sorted : List NodeId} {cfg : RCfg} {rst : RSt} (hi : RInv k rst)
    {rst' : RSt} (h : (pollStepR wf k sorted cfg rst).state? = some rst') : RInv k rst' := by
  unfold pollStepR at h
  simp only at h
  split at h
  · simp only [RStep.state?, Option.some.injEq] at h; subst h
    exact rinv_back hi (finv_congr hi.f rfl rfl) (fun _ h => h) (fun _ h => h)
  have key : ∀ st', (afterPoll (diskWf wf cfg rst.ended) k sorted
      (doPoll (diskWf wf cfg rst.ended) k sorted (seen cfg rst))).state? = some st' → RInv k (back rst st') := by
    intro st' hst
    have hf0 : FInv k (doPoll (diskWf wf cfg rst.ended) k sorted (seen cfg rst)) := finv_congr hi.f rfl rfl
    obtain ⟨hf, hk⟩ := finv_afterPoll hf0 hst
    exact rinv_back hi hf hk.futuredGrows hk.futuresGrows
  split at h
  · rename_i st' hst
    simp only [RStep.state?, Option.some.injEq] at h; subst h
    exact key st' (by rw [hst]; rfl)
  · rename_i o st' hst
    simp only [RStep.state?, Option.some.injEq] at h; subst h
    exact key st' (by rw [hst]; rfl)
  · simp [RStep.state?] at h

theorem rinv_roundR {wf : Wf} {k : Option Nat} {sorted : List NodeId} {cfg : RCfg} {rst : RSt} (hi : RInv k rst)
    (moves : List Ev) {rst' : RSt} (h : (roundR wf k sorted cfg rst moves).state? = some rst') : RInv k rst' := by
  unfold roundR at h
  split at h
  · simp [RStep.state?] at h
  · split at h
    · simp [RStep.state?] at h
    · rename_i r1 h1
      split at h
      · simp [RStep.state?] at h
      · exact rinv_pollStepR (rinv_applyEvsR moves hi h1) h

theorem rinv_runFromR {wf : Wf} {k : Option Nat} {sorted : List NodeId} {cfg : RCfg} :
    ∀ (sched : List (List Ev)) (s : RStep), (∀ r, s.state? = some r → RInv k r) →
      ∀ r, (runFromR wf k sorted cfg s sched).state? = some r → RInv k r
  | [], s, hs, r, h => by
    cases s <;> simp only [runFromR] at h <;> exact hs r h
  | mv :: rest, .cont rst, hs, r, h => by
    simp only [runFromR] at h
    exact rinv_runFromR rest _ (fun r' hr' => rinv_roundR (hs rst rfl) mv hr') r h
  | _ :: _, .done o rst, hs, r, h => by simp only [runFromR] at h; exact hs r h
  | _ :: _, .crash rst, hs, r, h => by simp only [runFromR] at h; exact hs r h
  | _ :: _, .bad, _, r, h => by simp [runFromR, RStep.state?] at h

theorem rinv_runAsyncR {wf : Wf} {k : Option Nat} {sorted : List NodeId} {cfg : RCfg} {w0 : World}
    (sched : List (List Ev)) {r : RSt} (h : (runAsyncR wf k sorted cfg w0 sched).state? = some r) : RInv k r :=
  rinv_runFromR sched _ (fun _ hr => rinv_pollStepR (rinv_init k w0) hr) r h

theorem executingR_le {k : Nat} {rst : RSt} (hi : RInv (some k) rst) : (executingR rst).length ≤ k := by
  have hnd : (executingR rst).Nodup := hi.beganNodup.filter _
  have hsub : ∀ c, c ∈ executingR rst → c ∈ rst.st.futures := by
    intro c hc
    simp only [executingR, List.mem_filter, Bool.not_eq_true', List.contains_eq_mem, decide_eq_false_iff_not] at hc
    exact hi.execPending c hc.1 hc.2
  exact Nat.le_trans (hnd.length_le_of_subset hsub) (hi.f.limit k rfl)

end PydraModel.Sched
