import PydraModel.Sched.Failure
/-
A finer semantics of one poll: the disk may change between any two `update_status` calls of
`Submitter.get_runnable_tasks` (before every `node.done` of the scan and before every `p.done` of
`all([p.done for p in predecessors])`).  While a poll runs the event loop does not, so only *disk* moves (a body starts,
finishes, fails) can happen then; futures complete between polls as before.  `update_status` itself is kept atomic.

With the order of tests after the D64 repair (refresh every predecessor, then decide from that snapshot) the
invariants go through WITHOUT the "predecessors are up to date" argument of the atomic model: the decision only uses
tables that are consistent with *some* earlier ground truth, and `ok` / `err` are final.
-/
namespace PydraModel.Sched
open PydraModel.Graph

/-- one list of moves per disk-reading step, consumed in order (an exhausted tape = nothing happens any more) -/
abbrev Tape := List (List Ev)

/-- moves that can happen while the loop is busy polling: a body starts, finishes or fails -/
def diskMove : Ev → Prop
  | .acquire _ => True
  | .finishOk _ => True
  | .finishErr _ => True
  | _ => False

def envStep (st : St) : Tape → Option (St × Tape)
  | [] => some (st, [])
  | mv :: t => (applyEvs st mv).map (fun s => (s, t))

/-- `node.done`, preceded by whatever happened on disk since the last read -/
def nodeDoneI (st : St) (n : NodeId) (tape : Tape) : Option (Bool × St × Tape) :=
  match envStep st tape with
  | none => none
  | some (s, t) => some (((upd s.w s.ns n).get n).isDone, { s with ns := upd s.w s.ns n }, t)

/-- `all([p.done for p in predecessors])` with moves before every `p.done` -/
def allDoneAllI : St → List NodeId → Tape → Option (Bool × St × Tape)
  | st, [], t => some (true, st, t)
  | st, p :: ps, t =>
    match nodeDoneI st p t with
    | none => none
    | some (d, s1, t1) =>
      match allDoneAllI s1 ps t1 with
      | none => none
      | some (d2, s2, t2) => some (d && d2, s2, t2)

/-- the part of `NodeExecution.get_runnable_tasks` after the refresh of the predecessors: it reads no job status
    (`start()` reads the results of predecessors that are done; those are final) -/
def nodeDecide (wf : Wf) (w : World) (ad : Bool) (ns : NSMap) (n : NodeId) : NSMap × List Nat :=
  if (wf.preds n).any (fun p => !(ns.get p).errored.isEmpty || (ns.get p).unrunnable) then
    let ns1 := upd w (setN ns n { ns.get n with unrunnable := true, blk := some [] }) n
    (ns1, (ns1.get n).queued)
  else
    if ad then
      let s0 := ns.get n
      let s1 := if s0.started then s0 else
        let cks := wf.mkJobs n (inputsOf wf ns n)
        { s0 with blk := some (List.range cks.length), cks := cks }
      let inds := List.range s1.cks.length
      let s2 := match s1.blk with
        | some b => if b.isEmpty then s1 else
            { s1 with blk := some (b.filter (fun i => !inds.contains i)), queued := s1.queued ++ inds }
        | none => s1
      (setN ns n s2, s2.queued)
    else (ns, (ns.get n).queued)

/-- the atomic `nodeRunnable` is "refresh, then decide" -/
theorem nodeRunnable_eq (wf : Wf) (w : World) (ns : NSMap) (n : NodeId) :
    nodeRunnable wf w ns n =
      nodeDecide wf w (allDoneAll w ns (wf.preds n)).1 (allDoneAll w ns (wf.preds n)).2 n := rfl

def nodeRunnableI (wf : Wf) (st : St) (n : NodeId) (tape : Tape) : Option (St × List Nat × Tape) :=
  match allDoneAllI st (wf.preds n) tape with
  | none => none
  | some (ad, s, t) =>
    let r := nodeDecide wf s.w ad s.ns n
    some ({ s with ns := r.1 }, r.2, t)

/-- the scan of `sorted_nodes` with the disk changing underneath -/
def scanI (wf : Wf) : List NodeId → St → List NodeId → List Job → Tape → Option (St × List Job × Tape)
  | [], st, _, tasks, t => some (st, tasks, t)
  | n :: rest, st, nst, tasks, t =>
    match nodeDoneI st n t with
    | none => none
    | some (d, s1, t1) =>
      if d then scanI wf rest s1 nst tasks t1
      else if (wf.preds n).any (fun p => nst.contains p) then some (s1, tasks, t1)
      else
        let nst' := if (s1.ns.get n).started then nst else n :: nst
        match nodeRunnableI wf s1 n t1 with
        | none => none
        | some (s2, q, t2) => scanI wf rest s2 nst' (tasks ++ q.map (fun i => (n, i))) t2

def doPollI (wf : Wf) (k : Option Nat) (sorted : List NodeId) (st : St) (tape : Tape) : Option St :=
  match scanI wf sorted st [] [] tape with
  | none => none
  | some (s, tasks, _) => some { s with tasks := truncate k tasks }

/-- one loop iteration: moves while the loop awaits, then a poll during which the disk keeps changing (`tape`),
    then the loop head and the dispatch (no disk read there) -/
def roundI (wf : Wf) (k : Option Nat) (sorted : List NodeId) (st : St) (moves : List Ev) (tape : Tape) : Step :=
  if st.futures.isEmpty && !moves.isEmpty then .bad else
  match applyEvs st moves with
  | none => .bad
  | some st1 =>
    if !st.futures.isEmpty && st1.futures.length == st.futures.length then .bad else
    match doPollI wf k sorted st1 tape with
    | none => .bad
    | some st2 => afterPoll wf k sorted st2

def runFromI (wf : Wf) (k : Option Nat) (sorted : List NodeId) : Step → List (List Ev × Tape) → Step
  | .cont st, (mv, tape) :: rest => runFromI wf k sorted (roundI wf k sorted st mv tape) rest
  | s, _ => s

/-- `expand_workflow_async` under a schedule that also says what happens on disk during every poll -/
def runAsyncI (wf : Wf) (k : Option Nat) (sorted : List NodeId) (sched : List (List Ev × Tape)) : Step :=
  runFromI wf k sorted (start wf k sorted (fun _ => .idle)) sched

/-! ### the decision step needs no "up to date" hypothesis -/

structure DecideSpec (wf : Wf) (w : World) (ns : NSMap) (n : NodeId) (r : NSMap × List Nat) : Prop where
  inv : NInv wf w r.1
  grow : Grow ns r.1
  tasks : ∀ i, i ∈ r.2 → (r.1.get n).blk ≠ none ∧ (r.1.get n).unrunnable = false ∧ i < (r.1.get n).cks.length

theorem allDone_isDone_stable {w : World} {ns : NSMap} (n m : NodeId) (h : (ns.get n).isDone = true) :
    ((upd w ns m).get n).isDone = true := isDone_upd_stable m h

theorem nodeDecide_spec {wf : Wf} {w : World} {ns : NSMap} {n : NodeId} {ad : Bool} (h : NInv wf w ns)
    (hnd : (ns.get n).isDone = false)
    (hall : ad = true → ∀ p, p ∈ wf.preds n → (ns.get p).isDone = true) :
    DecideSpec wf w ns n (nodeDecide wf w ad ns n) := by
  have hl := h.loc n
  have hnu : (ns.get n).unrunnable = false := by
    cases hu : (ns.get n).unrunnable
    · rfl
    · rw [isDone_of_unrunnable hl hu] at hnd; exact absurd hnd (by simp)
  unfold nodeDecide
  split
  · rename_i hc
    have hbn : (ns.get n).blk = none := by
      cases hb : (ns.get n).blk with
      | none => rfl
      | some b =>
        exfalso
        obtain ⟨p, hp, hpc⟩ := List.any_eq_true.mp hc
        obtain ⟨hs, _⟩ := h.preds n (by rw [hb]; simp) hnu p hp
        obtain ⟨_, _, _, he, hu⟩ := hs
        simp [he, hu] at hpc
    have hinit := hl.unstarted hbn
    have hs1 : ({ ns.get n with unrunnable := true, blk := some [] } : NS) = ⟨some [], [], [], [], [], true, []⟩ := by
      rw [hinit]; rfl
    simp only [hs1]
    have hus : updateStatus w (⟨some [], [], [], [], [], true, []⟩ : NS) = ⟨some [], [], [], [], [], true, []⟩ :=
      updateStatus_of_empty w rfl rfl
    have hupd : upd w (setN ns n ⟨some [], [], [], [], [], true, []⟩) n = setN ns n ⟨some [], [], [], [], [], true, []⟩ := by
      apply upd_of_fix; rw [setN_get_same]; exact hus
    rw [hupd]
    refine ⟨?_, ?_, ?_⟩
    · apply ninv_setN h n
      · constructor <;> simp
      · intro hs; rw [hs.1] at hbn; exact absurd hbn (by simp)
      · intro he; rw [hinit] at he; exact absurd rfl he
      · intro _; rfl
      · intro _ hu; exact absurd hu (by simp)
      · intro _
        obtain ⟨p, hp, hpc⟩ := List.any_eq_true.mp hc
        refine ⟨p, hp, ?_⟩
        by_cases hpn : p = n
        · subst hpn; rw [setN_get_same]; exact Or.inr rfl
        · rw [setN_get_ne _ _ hpn]
          simp only [Bool.or_eq_true, Bool.not_eq_true', List.isEmpty_eq_false_iff] at hpc
          exact hpc
      · intro _ hu; exact absurd hu (by simp)
    · intro m hm
      by_cases hmn : m = n
      · subst hmn; rw [hbn] at hm; exact absurd rfl hm
      · rw [setN_get_ne _ _ hmn]; exact ⟨hm, rfl, rfl⟩
    · intro i hi; rw [setN_get_same] at hi; simp at hi
  · rename_i hc
    cases had : ad
    · -- some predecessor is still busy
      simp only [Bool.false_eq_true, if_false]
      refine ⟨h, Grow.refl _, ?_⟩
      intro i hi
      have hb : (ns.get n).blk ≠ none := by
        intro hbn; rw [hl.unstarted hbn] at hi; simp [NS.init] at hi
      exact ⟨hb, hnu, hl.idxOk i (Or.inl hi)⟩
    · simp only [if_true]
      have hall' := hall had
      cases hst : (ns.get n).started
      · have hbn : (ns.get n).blk = none := by
          cases hb : (ns.get n).blk with
          | none => rfl
          | some b => rw [started_of_blk (by rw [hb]; simp)] at hst; exact absurd hst (by simp)
        have hinit := hl.unstarted hbn
        simp only [Bool.false_eq_true, if_false]
        have hs2 := start_unblock (wf.mkJobs n (inputsOf wf ns n))
        simp only [NS.init] at hs2
        rw [hinit]
        simp only [NS.init]
        rw [hs2]
        have hpn : ∀ p, p ∈ wf.preds n → p ≠ n := by
          intro p hp hpn; subst hpn
          rw [hall' p hp] at hnd; exact absurd hnd (by simp)
        refine ⟨?_, ?_, ?_⟩
        · apply ninv_setN h n
          · exact linv_startedState w _
          · intro hs; rw [hs.1] at hbn; exact absurd hbn (by simp)
          · intro he; rw [hinit] at he; exact absurd rfl he
          · intro hu; rw [hnu] at hu; exact absurd hu (by simp)
          · intro _ _ p hp
            rw [setN_get_ne _ _ (hpn p hp)]
            have hpc : (!(ns.get p).errored.isEmpty || (ns.get p).unrunnable) = false := by
              cases hx : (!(ns.get p).errored.isEmpty || (ns.get p).unrunnable)
              · rfl
              · exact absurd (List.any_eq_true.mpr ⟨p, hp, hx⟩) hc
            simp only [Bool.or_eq_false_iff, Bool.not_eq_false', List.isEmpty_iff] at hpc
            exact settled_of_done (h.loc p) (hall' p hp) hpc.1 hpc.2
          · intro hu; simp [startedState] at hu
          · intro _ _
            show wf.mkJobs n (inputsOf wf ns n) = _
            congr 1
            unfold inputsOf
            apply List.map_congr_left
            intro p hp
            rw [setN_get_ne _ _ (hpn p hp)]
        · intro m hm
          by_cases hmn : m = n
          · subst hmn; rw [hbn] at hm; exact absurd rfl hm
          · rw [setN_get_ne _ _ hmn]; exact ⟨hm, rfl, rfl⟩
        · intro i hi
          rw [setN_get_same]
          simp only [startedState, List.mem_range] at hi ⊢
          exact ⟨by simp, trivial, hi⟩
      · have hb := blk_of_started hl hst
        simp only [if_true]
        cases hbb : (ns.get n).blk with
        | none => exact absurd hbb hb
        | some b =>
          have hbe := hl.blkEmpty b hbb
          subst hbe
          simp only [List.isEmpty_nil, if_true]
          rw [setN_self]
          refine ⟨h, Grow.refl _, ?_⟩
          intro i hi
          exact ⟨hb, hnu, hl.idxOk i (Or.inl hi)⟩

/-! ### the invariants along an interleaved poll -/

def TapeOK (tape : Tape) : Prop := ∀ mv, mv ∈ tape → ∀ e, e ∈ mv → diskMove e

theorem noVanish_of_disk {e : Ev} (h : diskMove e) : noVanish e := by
  cases e <;> simp [diskMove, noVanish] at h ⊢

/-- `SInv` together with the fault-free invariant -/
structure Good (wf : Wf) (k : Option Nat) (st : St) : Prop where
  s : SInv wf k st
  f : FF st

theorem good_setNs {wf : Wf} {k : Option Nat} {st : St} (h : Good wf k st) {ns' : NSMap}
    (hn : NInv wf st.w ns') (hg : Grow st.ns ns') : Good wf k { st with ns := ns' } :=
  ⟨sinv_setNs h.s hn hg, ⟨h.f.errNamed, h.f.namedErr, h.f.noDead, h.f.completedFinal⟩⟩

theorem good_envStep {wf : Wf} {k : Option Nat} {sorted : List NodeId} {st s : St} {tape t : Tape}
    (h : Good wf k st) (ht : TapeOK tape) (he : envStep st tape = some (s, t)) :
    Good wf k s ∧ TapeOK t ∧ s.ns = st.ns ∧ s.tasks = st.tasks := by
  cases tape with
  | nil => simp only [envStep, Option.some.injEq, Prod.mk.injEq] at he; obtain ⟨rfl, rfl⟩ := he; exact ⟨h, ht, rfl, rfl⟩
  | cons mv tl =>
    simp only [envStep, Option.map_eq_some_iff, Prod.mk.injEq] at he
    obtain ⟨s', hs', rfl, rfl⟩ := he
    have hmv : ∀ e, e ∈ mv → noVanish e := fun e he => noVanish_of_disk (ht mv (by simp) e he)
    refine ⟨⟨sinv_applyEvs mv h.s hs', li_applyEvs (ff_loopInv wf k sorted) mv h.s h.f hmv hs'⟩,
      fun m hm => ht m (by simp [hm]), ?_, ?_⟩
    · -- environment moves never touch the tables
      have : ∀ (es : List Ev) (a b : St), applyEvs a es = some b → b.ns = a.ns ∧ b.tasks = a.tasks := by
        intro es
        induction es with
        | nil => intro a b hab; simp only [applyEvs, Option.some.injEq] at hab; subst hab; exact ⟨rfl, rfl⟩
        | cons e es ih =>
          intro a b hab
          simp only [applyEvs] at hab
          split at hab
          · rename_i a1 ha1
            have h1 : a1.ns = a.ns ∧ a1.tasks = a.tasks := by
              cases e <;> simp only [applyEv] at ha1 <;> split at ha1 <;>
                first | (cases ha1; exact ⟨rfl, rfl⟩) | exact absurd ha1 (by simp)
            obtain ⟨x, y⟩ := ih a1 b hab
            exact ⟨x.trans h1.1, y.trans h1.2⟩
          · exact absurd hab (by simp)
      exact (this mv st s' hs').1
    · have : ∀ (es : List Ev) (a b : St), applyEvs a es = some b → b.tasks = a.tasks := by
        intro es
        induction es with
        | nil => intro a b hab; simp only [applyEvs, Option.some.injEq] at hab; subst hab; rfl
        | cons e es ih =>
          intro a b hab
          simp only [applyEvs] at hab
          split at hab
          · rename_i a1 ha1
            have h1 : a1.tasks = a.tasks := by
              cases e <;> simp only [applyEv] at ha1 <;> split at ha1 <;>
                first | (cases ha1; rfl) | exact absurd ha1 (by simp)
            exact (ih a1 b hab).trans h1
          · exact absurd hab (by simp)
      exact this mv st s' hs'

theorem good_nodeDoneI {wf : Wf} {k : Option Nat} {sorted : List NodeId} {st s1 : St} {tape t1 : Tape} {n : NodeId}
    {d : Bool} (h : Good wf k st) (ht : TapeOK tape) (he : nodeDoneI st n tape = some (d, s1, t1)) :
    Good wf k s1 ∧ TapeOK t1 ∧ Grow st.ns s1.ns ∧ s1.tasks = st.tasks ∧ d = (s1.ns.get n).isDone ∧
    (∀ m, m ≠ n → s1.ns.get m = st.ns.get m) ∧
    (∀ m, (st.ns.get m).isDone = true → (s1.ns.get m).isDone = true) := by
  unfold nodeDoneI at he
  split at he
  · exact absurd he (by simp)
  · rename_i s t hes
    simp only [Option.some.injEq, Prod.mk.injEq] at he
    obtain ⟨rfl, rfl, rfl⟩ := he
    obtain ⟨hg, htt, hns, htk⟩ := good_envStep (sorted := sorted) h ht hes
    refine ⟨good_setNs hg (ninv_upd hg.s.ninv n) (grow_upd s.w s.ns n), htt, ?_, htk, rfl, ?_, ?_⟩
    · rw [← hns]; exact grow_upd s.w s.ns n
    · intro m hm; show (upd s.w s.ns n).get m = _; rw [upd_get_ne _ _ hm, hns]
    · intro m hm; show ((upd s.w s.ns n).get m).isDone = true
      apply isDone_upd_stable; rw [hns]; exact hm

theorem good_allDoneAllI {wf : Wf} {k : Option Nat} {sorted : List NodeId} : ∀ (ps : List NodeId) {st s : St}
    {tape t : Tape} {ad : Bool}, Good wf k st → TapeOK tape → allDoneAllI st ps tape = some (ad, s, t) →
    Good wf k s ∧ TapeOK t ∧ Grow st.ns s.ns ∧ s.tasks = st.tasks ∧
    (ad = true → ∀ p, p ∈ ps → (s.ns.get p).isDone = true) ∧
    (∀ m, m ∉ ps → s.ns.get m = st.ns.get m) ∧
    (∀ m, (st.ns.get m).isDone = true → (s.ns.get m).isDone = true)
  | [], st, s, tape, t, ad, h, ht, he => by
    simp only [allDoneAllI, Option.some.injEq, Prod.mk.injEq] at he
    obtain ⟨rfl, rfl, rfl⟩ := he
    exact ⟨h, ht, Grow.refl _, rfl, fun _ p hp => absurd hp (by simp), fun _ _ => rfl, fun _ hm => hm⟩
  | p :: ps, st, s, tape, t, ad, h, ht, he => by
    simp only [allDoneAllI] at he
    split at he
    · exact absurd he (by simp)
    · rename_i d s1 t1 h1
      split at he
      · exact absurd he (by simp)
      · rename_i d2 s2 t2 h2
        simp only [Option.some.injEq, Prod.mk.injEq] at he
        obtain ⟨rfl, rfl, rfl⟩ := he
        obtain ⟨g1, tt1, gr1, tk1, hd1, fr1, st1⟩ := good_nodeDoneI (sorted := sorted) h ht h1
        obtain ⟨g2, tt2, gr2, tk2, hd2, fr2, st2⟩ := good_allDoneAllI (sorted := sorted) ps g1 tt1 h2
        refine ⟨g2, tt2, gr1.trans gr2, tk2.trans tk1, ?_, ?_, fun m hm => st2 m (st1 m hm)⟩
        · intro hand q hq
          simp only [Bool.and_eq_true] at hand
          rcases List.mem_cons.mp hq with rfl | hq
          · apply st2; rw [← hd1]; exact hand.1
          · exact hd2 hand.2 q hq
        · intro m hm
          have hmp : m ≠ p := fun e => hm (by simp [e])
          have hmps : m ∉ ps := fun e => hm (by simp [e])
          rw [fr2 m hmps, fr1 m hmp]

theorem good_nodeRunnableI {wf : Wf} {k : Option Nat} {sorted : List NodeId} {st s2 : St} {tape t2 : Tape}
    {n : NodeId} {q : List Nat} (h : Good wf k st) (ht : TapeOK tape) (hself : n ∉ wf.preds n)
    (hnd : (st.ns.get n).isDone = false) (he : nodeRunnableI wf st n tape = some (s2, q, t2)) :
    Good wf k s2 ∧ TapeOK t2 ∧ Grow st.ns s2.ns ∧ s2.tasks = st.tasks ∧
    ∀ i, i ∈ q → TaskLegit s2.ns (n, i) := by
  unfold nodeRunnableI at he
  split at he
  · exact absurd he (by simp)
  · rename_i ad s t ha
    simp only [Option.some.injEq, Prod.mk.injEq] at he
    obtain ⟨rfl, rfl, rfl⟩ := he
    obtain ⟨g, tt, gr, tk, hd, fr, _⟩ := good_allDoneAllI (sorted := sorted) (wf.preds n) h ht ha
    have hnd' : (s.ns.get n).isDone = false := by rw [fr n hself]; exact hnd
    have spec := nodeDecide_spec (ad := ad) g.s.ninv hnd' hd
    exact ⟨good_setNs g spec.inv spec.grow, tt, gr.trans spec.grow, tk, fun i hi => spec.tasks i hi⟩

theorem good_scanI {wf : Wf} {k : Option Nat} {sorted : List NodeId} (htopo : TopoOrder wf sorted) :
    ∀ (rest pre : List NodeId) (st : St) (nst : List NodeId) (tasks : List Job) (tape : Tape) {s : St}
      {out : List Job} {t : Tape}, sorted = pre ++ rest → Good wf k st → TapeOK tape →
      (∀ j, j ∈ tasks → TaskLegit st.ns j) → scanI wf rest st nst tasks tape = some (s, out, t) →
      Good wf k s ∧ Grow st.ns s.ns ∧ (∀ j, j ∈ out → TaskLegit s.ns j) := by
  intro rest
  induction rest with
  | nil =>
    intro pre st nst tasks tape s out t _ h _ htl he
    simp only [scanI, Option.some.injEq, Prod.mk.injEq] at he
    obtain ⟨rfl, rfl, rfl⟩ := he
    exact ⟨h, Grow.refl _, htl⟩
  | cons n rest ih =>
    intro pre st nst tasks tape s out t hsorted h ht htl he
    have hsorted' : sorted = (pre ++ [n]) ++ rest := by rw [hsorted]; simp
    have hself : n ∉ wf.preds n := by
      intro hmem
      have hp := htopo.before pre n rest hsorted n hmem
      have hnd := htopo.nodup
      rw [hsorted] at hnd
      exact (List.nodup_append.mp hnd).2.2 n hp n (by simp) rfl
    simp only [scanI] at he
    split at he
    · exact absurd he (by simp)
    · rename_i d s1 t1 h1
      obtain ⟨g1, tt1, gr1, _, hd1, _, _⟩ := good_nodeDoneI (sorted := sorted) h ht h1
      have htl1 : ∀ j, j ∈ tasks → TaskLegit s1.ns j := fun j hj => taskLegit_grow gr1 (htl j hj)
      split at he
      · obtain ⟨a, b, c⟩ := ih (pre ++ [n]) s1 nst tasks t1 hsorted' g1 tt1 htl1 he
        exact ⟨a, gr1.trans b, c⟩
      · rename_i hdf
        split at he
        · simp only [Option.some.injEq, Prod.mk.injEq] at he
          obtain ⟨rfl, rfl, rfl⟩ := he
          exact ⟨g1, gr1, htl1⟩
        · split at he
          · exact absurd he (by simp)
          · rename_i s2 q t2 h2
            have hnd : (s1.ns.get n).isDone = false := by
              cases hx : (s1.ns.get n).isDone
              · rfl
              · rw [hd1, hx] at hdf; exact absurd rfl hdf
            obtain ⟨g2, tt2, gr2, _, hq⟩ := good_nodeRunnableI (sorted := sorted) g1 tt1 hself hnd h2
            obtain ⟨a, b, c⟩ := ih (pre ++ [n]) s2 _ _ t2 hsorted' g2 tt2
              (by
                intro j hj
                rcases List.mem_append.mp hj with hj | hj
                · exact taskLegit_grow gr2 (htl1 j hj)
                · obtain ⟨i, hi, rfl⟩ := List.mem_map.mp hj
                  exact hq i hi) he
            exact ⟨a, (gr1.trans gr2).trans b, c⟩

theorem good_doPollI {wf : Wf} {k : Option Nat} {sorted : List NodeId} (htopo : TopoOrder wf sorted) {st st2 : St}
    {tape : Tape} (h : Good wf k st) (ht : TapeOK tape) (he : doPollI wf k sorted st tape = some st2) :
    Good wf k st2 := by
  unfold doPollI at he
  split at he
  · exact absurd he (by simp)
  · rename_i s tasks t hs
    simp only [Option.some.injEq] at he
    subst he
    obtain ⟨g, _, hl⟩ := good_scanI (k := k) htopo sorted [] st [] [] tape (by simp) h ht
      (fun j hj => absurd hj (by simp)) hs
    exact ⟨⟨g.s.ninv, g.s.futuredNodup, g.s.futuresNodup, g.s.futuresSub, g.s.lockedPending, g.s.limit, g.s.touched,
      g.s.legit, fun j hj => hl j (mem_truncate hj)⟩,
      ⟨g.f.errNamed, g.f.namedErr, g.f.noDead, g.f.completedFinal⟩⟩

/-- a schedule for the finer semantics: no lost jobs between polls, disk moves only during polls -/
def SchedOK (sched : List (List Ev × Tape)) : Prop :=
  ∀ x, x ∈ sched → (∀ e, e ∈ x.1 → noVanish e) ∧ TapeOK x.2

theorem good_roundI {wf : Wf} {k : Option Nat} {sorted : List NodeId} (htopo : TopoOrder wf sorted) {st : St}
    (h : Good wf k st) (moves : List Ev) (tape : Tape) (hm : ∀ e, e ∈ moves → noVanish e) (ht : TapeOK tape)
    {st' : St} (he : (roundI wf k sorted st moves tape).state? = some st') : Good wf k st' := by
  unfold roundI at he
  split at he
  · simp [Step.state?] at he
  · split at he
    · simp [Step.state?] at he
    · rename_i st1 hst1
      split at he
      · simp [Step.state?] at he
      · split at he
        · simp [Step.state?] at he
        · rename_i st2 hst2
          have g1 : Good wf k st1 :=
            ⟨sinv_applyEvs moves h.s hst1, li_applyEvs (ff_loopInv wf k sorted) moves h.s h.f hm hst1⟩
          have g2 := good_doPollI htopo g1 ht hst2
          exact ⟨sinv_afterPoll htopo g2.s he, li_afterPoll (ff_loopInv wf k sorted) htopo g2.s g2.f he⟩

theorem good_runFromI {wf : Wf} {k : Option Nat} {sorted : List NodeId} (htopo : TopoOrder wf sorted) :
    ∀ (sched : List (List Ev × Tape)) (s : Step), SchedOK sched → (∀ st, s.state? = some st → Good wf k st) →
      ∀ st', (runFromI wf k sorted s sched).state? = some st' → Good wf k st'
  | [], s, _, hs, st', h => by
    cases s <;> simp only [runFromI] at h <;> exact hs st' h
  | (mv, tape) :: rest, .cont st, hok, hs, st', h => by
    simp only [runFromI] at h
    obtain ⟨a, b⟩ := hok (mv, tape) (by simp)
    exact good_runFromI htopo rest _ (fun x hx => hok x (by simp [hx]))
      (fun st2 h2 => good_roundI htopo (hs st rfl) mv tape a b h2) st' h
  | _ :: _, .done o st, _, hs, st', h => by simp only [runFromI] at h; exact hs st' h
  | _ :: _, .bad, _, _, st', h => by simp [runFromI, Step.state?] at h

/-- THE INVARIANTS hold in every state reached under the finer semantics -/
theorem good_runAsyncI {wf : Wf} {k : Option Nat} {sorted : List NodeId} (htopo : TopoOrder wf sorted)
    (sched : List (List Ev × Tape)) (hok : SchedOK sched) {st' : St}
    (h : (runAsyncI wf k sorted sched).state? = some st') : Good wf k st' :=
  good_runFromI htopo sched _ hok
    (fun st h2 => ⟨sinv_start htopo h2,
      li_afterPoll (ff_loopInv wf k sorted) htopo (sinv_doPoll htopo (sinv_init wf k))
        ((ff_loopInv wf k sorted).poll _ (sinv_init wf k) ff_init) h2⟩) st' h

/-- how a run of the finer semantics ends: through the same loop head -/
theorem runFromI_done {wf : Wf} {k : Option Nat} {sorted : List NodeId} {o : Outcome} {st : St} :
    ∀ (sched : List (List Ev × Tape)) (s : Step), runFromI wf k sorted s sched = .done o st →
      s = .done o st ∨ ∃ stp, afterPoll wf k sorted stp = .done o st
  | [], s, h => by
    cases s <;> simp only [runFromI] at h <;> first | exact Or.inl h | exact absurd h (by simp)
  | (mv, tape) :: rest, .cont st0, h => by
    simp only [runFromI] at h
    rcases runFromI_done rest _ h with h1 | h1
    · right
      unfold roundI at h1
      split at h1
      · exact absurd h1 (by simp)
      · split at h1
        · exact absurd h1 (by simp)
        · split at h1
          · exact absurd h1 (by simp)
          · split at h1
            · exact absurd h1 (by simp)
            · exact ⟨_, h1⟩
    · exact Or.inr h1
  | _ :: _, .done _ _, h => by simp only [runFromI] at h; exact Or.inl h
  | _ :: _, .bad, h => by simp [runFromI] at h

/-! ### the atomic semantics is the special case "nothing happens during a poll" -/

theorem allDoneAllI_nil : ∀ (ps : List NodeId) (st : St),
    allDoneAllI st ps [] = some ((allDoneAll st.w st.ns ps).1, { st with ns := (allDoneAll st.w st.ns ps).2 }, [])
  | [], _ => rfl
  | p :: ps, st => by
    have h1 : nodeDoneI st p [] = some (((upd st.w st.ns p).get p).isDone, { st with ns := upd st.w st.ns p }, []) := rfl
    simp only [allDoneAllI, h1]
    rw [allDoneAllI_nil ps { st with ns := upd st.w st.ns p }]
    rfl

theorem scanI_nil (wf : Wf) : ∀ (rest : List NodeId) (st : St) (nst : List NodeId) (tasks : List Job),
    scanI wf rest st nst tasks [] =
      some ({ st with ns := (scan wf st.w rest st.ns nst tasks).1 }, (scan wf st.w rest st.ns nst tasks).2, [])
  | [], _, _, _ => rfl
  | n :: rest, st, nst, tasks => by
    have h1 : nodeDoneI st n [] = some (((upd st.w st.ns n).get n).isDone, { st with ns := upd st.w st.ns n }, []) := rfl
    have e2 : (nodeDone st.w st.ns n).2 = upd st.w st.ns n := rfl
    have e1 : (nodeDone st.w st.ns n).1 = ((upd st.w st.ns n).get n).isDone := rfl
    simp only [scanI, h1]
    rw [scan_cons, e1, e2]
    by_cases hd : ((upd st.w st.ns n).get n).isDone = true
    · rw [if_pos hd, if_pos hd, scanI_nil wf rest { st with ns := upd st.w st.ns n } nst tasks]
    · rw [if_neg hd, if_neg hd]
      by_cases hb : (wf.preds n).any (fun p => nst.contains p) = true
      · rw [if_pos hb, if_pos hb]
      · rw [if_neg hb, if_neg hb]
        have h2 : nodeRunnableI wf { st with ns := upd st.w st.ns n } n [] =
            some ({ st with ns := (nodeRunnable wf st.w (upd st.w st.ns n) n).1 },
              (nodeRunnable wf st.w (upd st.w st.ns n) n).2, []) := by
          unfold nodeRunnableI
          rw [allDoneAllI_nil]
          rfl
        simp only [h2]
        rw [scanI_nil wf rest { st with ns := (nodeRunnable wf st.w (upd st.w st.ns n) n).1 } _ _]

theorem roundI_nil (wf : Wf) (k : Option Nat) (sorted : List NodeId) (st : St) (moves : List Ev) :
    roundI wf k sorted st moves [] = round wf k sorted st moves := by
  have hp : ∀ st1, doPollI wf k sorted st1 [] = some (doPoll wf k sorted st1) := by
    intro st1
    unfold doPollI
    rw [scanI_nil]
    rfl
  unfold roundI round
  by_cases h1 : (st.futures.isEmpty && !moves.isEmpty) = true
  · rw [if_pos h1, if_pos h1]
  · rw [if_neg h1, if_neg h1]
    cases h2 : applyEvs st moves with
    | none => rfl
    | some st1 =>
      simp only
      by_cases h3 : (!st.futures.isEmpty && st1.futures.length == st.futures.length) = true
      · rw [if_pos h3, if_pos h3]
      · rw [if_neg h3, if_neg h3, hp st1]

end PydraModel.Sched
