import PydraModel.Sched.Reach
/-
The dispatch log respects precedence (`LogOrd`), monotonicity of the ground truth along a run, and the
invariant of the synchronous loop (`expand_workflow`, debug worker).
-/
namespace PydraModel.Sched
open PydraModel.Graph

/-- hypotheses on the workflow graph shared by all theorems: what `Workflow._create_graph` builds and
    `DiGraph.sorting` returns -/
structure WellFormed (wf : Wf) (sorted : List NodeId) : Prop where
  wip : wf.g.wip = []
  nodup : wf.g.nodes.Nodup
  sorted : sortFrom wf.g [] = some sorted

theorem WellFormed.topo {wf : Wf} {sorted : List NodeId} (h : WellFormed wf sorted) : TopoOrder wf sorted :=
  topoOrder_of_sortFrom h.wip h.nodup h.sorted

theorem split_snoc {α : Type} {l l1 l2 : List α} {a c : α} (h : l ++ [a] = l1 ++ c :: l2) :
    (l2 = [] ∧ l1 = l ∧ c = a) ∨ (∃ l2', l2 = l2' ++ [a] ∧ l = l1 ++ c :: l2') := by
  rcases List.eq_nil_or_concat l2 with rfl | ⟨l2', b, rfl⟩
  · left
    have := List.append_inj' h (by simp)
    simp at this
    exact ⟨rfl, this.1.symm, this.2.symm⟩
  · right
    have h' : l ++ [a] = (l1 ++ c :: l2') ++ [b] := by rw [h]; simp
    have := List.append_inj' h' (by simp)
    simp at this
    exact ⟨l2', by rw [this.2]; simp, this.1⟩

/-- every entry of the dispatch log belongs to a started node all of whose predecessors' jobs are *earlier*
    entries of the log -/
def LogOrd (wf : Wf) (st : St) : Prop :=
  ∀ l1 c l2, st.futured = l1 ++ c :: l2 →
    ∃ n, (st.ns.get n).blk ≠ none ∧ (st.ns.get n).unrunnable = false ∧ c ∈ (st.ns.get n).cks ∧
      ∀ p, p ∈ wf.preds n → ∀ c', c' ∈ (st.ns.get p).cks → c' ∈ l1

theorem logOrd_grow {wf : Wf} {st : St} {ns' : NSMap} (hn : NInv wf st.w st.ns) (hg : Grow st.ns ns')
    (h : LogOrd wf st) : LogOrd wf { st with ns := ns' } := by
  intro l1 c l2 hs
  obtain ⟨n, h1, h2, h3, h4⟩ := h l1 c l2 hs
  obtain ⟨x1, x2, x3⟩ := hg n h1
  refine ⟨n, x1, by rw [x2]; exact h2, by rw [x3]; exact h3, ?_⟩
  intro p hp c' hc'
  have hsp := (hn.preds n h1 h2 p hp).1
  obtain ⟨_, _, y3⟩ := hg p (by rw [hsp.1]; simp)
  exact h4 p hp c' (by rw [← y3]; exact hc')

theorem logOrd_loopInv {wf : Wf} {k : Option Nat} {sorted : List NodeId} (ht : TopoOrder wf sorted) :
    LoopInv wf k sorted (fun _ => True) (LogOrd wf) := by
  constructor
  · intro st e st' _ hp _ h
    have hf : st'.futured = st.futured ∧ st'.ns = st.ns := by
      cases e <;> simp only [applyEv] at h <;> split at h <;> first | (cases h; exact ⟨rfl, rfl⟩) | exact absurd h (by simp)
    intro l1 c l2 hs
    rw [hf.1] at hs
    rw [hf.2]
    exact hp l1 c l2 hs
  · intro st hs hp
    obtain ⟨_, g, _⟩ := poll_spec ht k hs.ninv
    exact logOrd_grow hs.ninv g hp
  · intro st l hs hp
    exact logOrd_grow hs.ninv (grow_anyNotDone st.w l st.ns) hp
  · intro st j hs hj hp
    unfold dispatchStep
    simp only
    split
    · intro l1 c l2 hsplit
      simp only at hsplit
      rcases split_snoc hsplit with ⟨_, h1, h2⟩ | ⟨l2', _, h2⟩
      · subst h1; subst h2
        refine ⟨j.1, hj.1, hj.2.1, ckOf_mem hj, ?_⟩
        intro p hp' c' hc'
        have hok := (hs.ninv.preds j.1 hj.1 hj.2.1 p hp').2 c' hc'
        exact hs.touched c' (by rw [hok]; simp)
      · exact hp l1 c l2' h2
    · exact hp

theorem logOrd_init (wf : Wf) : LogOrd wf (St.init (fun _ => .idle)) := by
  intro l1 c l2 h; simp [St.init] at h

/-! ### the ground truth only moves forward along a run -/

theorem applyEvs_wmono : ∀ (es : List Ev) {st st' : St}, applyEvs st es = some st' → WMono st.w st'.w
  | [], st, st', h => by simp [applyEvs] at h; subst h; exact WMono.refl _
  | e :: es, st, st', h => by
    simp only [applyEvs] at h
    split at h
    · rename_i st1 h1
      exact (applyEv_wmono h1).trans (applyEvs_wmono es h)
    · exact absurd h (by simp)

theorem dispatch_w (k : Option Nat) (st : St) : (dispatch k st).w = st.w := by
  unfold dispatch
  generalize st.tasks = l
  induction l generalizing st with
  | nil => rfl
  | cons j l ih => simp only [List.foldl_cons]; rw [ih]; exact (dispatchStep_frame k st j).1

theorem stallLoop_w {wf : Wf} {k : Option Nat} {sorted : List NodeId} : ∀ (fuel : Nat) {st st' : St},
    stallLoop wf k sorted fuel st = some st' → st'.w = st.w
  | 0, _, _, h => by simp [stallLoop] at h
  | fuel + 1, st, st', h => by
    simp only [stallLoop] at h
    split at h
    · cases h; rfl
    · split at h
      · cases h; rfl
      · split at h
        · exact absurd h (by simp)
        · exact (stallLoop_w fuel h).trans rfl

theorem afterPoll_w {wf : Wf} {k : Option Nat} {sorted : List NodeId} {st st' : St}
    (h : (afterPoll wf k sorted st).state? = some st') : st'.w = st.w := by
  unfold afterPoll at h
  split at h
  · simp only [Step.state?, Option.some.injEq] at h; subst h; exact dispatch_w k st
  · simp only at h
    split at h
    · simp only [Step.state?, Option.some.injEq] at h; subst h; rfl
    · split at h
      · simp only [Step.state?, Option.some.injEq] at h; subst h; rfl
      · rename_i st2 hst
        simp only [Step.state?, Option.some.injEq] at h; subst h
        rw [dispatch_w]; exact (stallLoop_w 11 hst).trans rfl

theorem round_wmono {wf : Wf} {k : Option Nat} {sorted : List NodeId} {st st' : St} {moves : List Ev}
    (h : (round wf k sorted st moves).state? = some st') : WMono st.w st'.w := by
  unfold round at h
  split at h
  · simp [Step.state?] at h
  · split at h
    · simp [Step.state?] at h
    · rename_i st1 hst1
      split at h
      · simp [Step.state?] at h
      · have := afterPoll_w h
        rw [this]
        show WMono st.w st1.w
        exact applyEvs_wmono moves hst1

/-! ### the synchronous loop -/

structure SyncInv (wf : Wf) (st : St) : Prop where
  ninv : NInv wf st.w st.ns
  twoValued : ∀ c, st.w c = .idle ∨ st.w c = .ok
  ranOk : ∀ c, c ∈ st.futured ↔ st.w c = .ok
  nodup : st.futured.Nodup
  tasksLegit : ∀ j, j ∈ st.tasks → TaskLegit st.ns j
  logOrd : LogOrd wf st

theorem syncInv_init (wf : Wf) : SyncInv wf (St.init (fun _ => .idle)) := by
  refine ⟨ninv_init wf _, fun _ => Or.inl rfl, ?_, by simp [St.init], ?_, logOrd_init wf⟩
  · intro c; simp [St.init]
  · intro j h; simp [St.init] at h

theorem syncInv_doPoll {wf : Wf} {k : Option Nat} {sorted : List NodeId} (ht : TopoOrder wf sorted) {st : St}
    (hs : SyncInv wf st) : SyncInv wf (doPoll wf k sorted st) := by
  obtain ⟨a, g, b⟩ := poll_spec ht k hs.ninv
  exact ⟨a, hs.twoValued, hs.ranOk, hs.nodup, fun j hj => taskLegit_of_ok a (b j hj),
    logOrd_grow hs.ninv g hs.logOrd⟩

theorem syncInv_upd {wf : Wf} {st : St} (hs : SyncInv wf st) (l : List NodeId) :
    SyncInv wf { st with ns := (anyNotDone st.w st.ns l).2 } :=
  ⟨ninv_anyNotDone l hs.ninv, hs.twoValued, hs.ranOk, hs.nodup,
    fun j hj => taskLegit_grow (grow_anyNotDone st.w l st.ns) (hs.tasksLegit j hj),
    logOrd_grow hs.ninv (grow_anyNotDone st.w l st.ns) hs.logOrd⟩

/-- running the tasks of one poll one after the other: the invariant is kept while no body fails, and a body
    that does run has all its predecessors' results *before* it in the execution log -/
theorem syncInv_runTasks {wf : Wf} (fail : Ck → Bool) : ∀ (js : List Job) {st st' : St}, SyncInv wf st →
    (∀ j, j ∈ js → TaskLegit st.ns j) → runTasks fail st js = .ok st' →
    SyncInv wf st' ∧ st'.ns = st.ns ∧ st'.tasks = st.tasks
  | [], st, st', hs, _, h => by simp [runTasks] at h; subst h; exact ⟨hs, rfl, rfl⟩
  | j :: js, st, st', hs, hl, h => by
    simp only [runTasks] at h
    split at h
    · exact syncInv_runTasks fail js hs (fun j' hj' => hl j' (by simp [hj'])) h
    · rename_i hnok
      split at h
      · exact absurd h (by simp)
      · have hj := hl j (by simp)
        have hidle : st.w (ckOf st j) = .idle := by
          rcases hs.twoValued (ckOf st j) with h1 | h1
          · exact h1
          · simp [h1] at hnok
        have hm : WMono st.w (setW st.w (ckOf st j) .ok) :=
          wmono_setW (by rw [hidle]; simp) (by rw [hidle]; simp) (Or.inl hidle)
        have hnf : ckOf st j ∉ st.futured := by
          intro hmem; have := (hs.ranOk _).mp hmem; rw [hidle] at this; exact absurd this (by simp)
        have hs' : SyncInv wf { st with w := setW st.w (ckOf st j) .ok, futured := st.futured ++ [ckOf st j] } := by
          refine ⟨ninv_world hs.ninv hm, ?_, ?_, ?_, hs.tasksLegit, ?_⟩
          · intro c
            by_cases hc : c = ckOf st j
            · subst hc; right; simp [setW_same]
            · simp only [setW_ne _ _ hc]; exact hs.twoValued c
          · intro c
            by_cases hc : c = ckOf st j
            · subst hc; simp [setW_same]
            · simp only [setW_ne _ _ hc, List.mem_append, List.mem_singleton, hc, or_false]
              exact hs.ranOk c
          · exact List.nodup_append.mpr ⟨hs.nodup, by simp, by
              intro a ha b hb; simp at hb; subst hb; intro e; subst e; exact hnf ha⟩
          · intro l1 c l2 hsplit
            simp only at hsplit
            rcases split_snoc hsplit with ⟨_, h1, h2⟩ | ⟨l2', _, h2⟩
            · subst h1; subst h2
              refine ⟨j.1, hj.1, hj.2.1, ckOf_mem hj, ?_⟩
              intro p hp' c' hc'
              exact (hs.ranOk c').mpr ((hs.ninv.preds j.1 hj.1 hj.2.1 p hp').2 c' hc')
            · exact hs.logOrd l1 c l2' h2
        obtain ⟨a, b, c⟩ := syncInv_runTasks fail js hs' (fun j' hj' => hl j' (by simp [hj'])) h
        exact ⟨a, b, c⟩

/-- ... and when a body raises, the state at that moment still satisfies the invariant; the raising body itself
    had not run before -/
theorem syncInv_runTasks_err {wf : Wf} (fail : Ck → Bool) : ∀ (js : List Job) {st st' : St} {c : Ck},
    SyncInv wf st → (∀ j, j ∈ js → TaskLegit st.ns j) → runTasks fail st js = .error (c, st') →
    SyncInv wf st' ∧ st'.w c ≠ .ok
  | [], st, st', c, _, _, h => by simp [runTasks] at h
  | j :: js, st, st', c, hs, hl, h => by
    simp only [runTasks] at h
    split at h
    · exact syncInv_runTasks_err fail js hs (fun j' hj' => hl j' (by simp [hj'])) h
    · rename_i hnok
      split at h
      · simp only [Except.error.injEq, Prod.mk.injEq] at h
        obtain ⟨rfl, rfl⟩ := h
        exact ⟨hs, by simpa using hnok⟩
      · -- the body of `j` ran successfully: same step as in `syncInv_runTasks`, then go on
        have hstep : ∃ st1, runTasks fail st [j] = .ok st1 ∧
            st1 = { st with w := setW st.w (ckOf st j) .ok, futured := st.futured ++ [ckOf st j] } := by
          refine ⟨_, ?_, rfl⟩
          simp only [runTasks]
          rw [if_neg hnok]
          rename_i hnf
          rw [if_neg hnf]
        obtain ⟨st1, h1, rfl⟩ := hstep
        obtain ⟨a, b, _⟩ := syncInv_runTasks fail [j] hs (fun j' hj' => by
          simp at hj'; subst hj'; exact hl j' (by simp)) h1
        exact syncInv_runTasks_err fail js a (fun j' hj' => by
          show TaskLegit st.ns j'; exact hl j' (by simp [hj'])) h

/-- the state in which `syncLoop` stops satisfies the invariant, except that after a raising body the world
    additionally records that body's failure (nothing is executed afterwards) -/
theorem syncLoop_spec {wf : Wf} {k : Option Nat} {sorted : List NodeId} (ht : TopoOrder wf sorted)
    (fail : Ck → Bool) : ∀ (fuel : Nat) {st : St}, SyncInv wf st →
      ∀ o st', syncLoop wf k sorted fail fuel st = (o, st') →
        LogOrd wf st' ∧ st'.futured.Nodup ∧ (∀ c, c ∈ st'.futured → st'.w c = .ok)
  | 0, st, hs, o, st', h => by
    simp only [syncLoop, Prod.mk.injEq] at h
    obtain ⟨_, rfl⟩ := h
    exact ⟨hs.logOrd, hs.nodup, fun c hc => (hs.ranOk c).mp hc⟩
  | fuel + 1, st, hs, o, st', h => by
    simp only [syncLoop] at h
    -- the state after evaluating the loop condition
    have hgo : SyncInv wf (if !st.tasks.isEmpty then (true, st) else
        ((anyNotDone st.w st.ns wf.g.nodes).1, { st with ns := (anyNotDone st.w st.ns wf.g.nodes).2 })).2 := by
      split
      · exact hs
      · exact syncInv_upd hs _
    generalize (if !st.tasks.isEmpty then (true, st) else
        ((anyNotDone st.w st.ns wf.g.nodes).1, { st with ns := (anyNotDone st.w st.ns wf.g.nodes).2 })) = go at h hgo
    split at h
    · simp only [Prod.mk.injEq] at h
      obtain ⟨_, rfl⟩ := h
      exact ⟨hgo.logOrd, hgo.nodup, fun c hc => (hgo.ranOk c).mp hc⟩
    · split at h
      · rename_i c st1 hc
        simp only [Prod.mk.injEq] at h
        obtain ⟨_, rfl⟩ := h
        obtain ⟨a, hnok⟩ := syncInv_runTasks_err fail _ hgo hgo.tasksLegit hc
        -- the body of `c` raised: it is now recorded as failed; the log is unchanged
        refine ⟨a.logOrd, a.nodup, ?_⟩
        intro x hx
        have hxok := (a.ranOk x).mp hx
        by_cases hxc : x = c
        · subst hxc; exact absurd hxok hnok
        · simp only [setW_ne _ _ hxc]; exact hxok
      · rename_i st1 hst1
        obtain ⟨a, _, _⟩ := syncInv_runTasks fail _ hgo hgo.tasksLegit hst1
        exact syncLoop_spec ht fail fuel (syncInv_doPoll ht a) o st' h

end PydraModel.Sched
