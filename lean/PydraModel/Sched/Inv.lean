import PydraModel.Sched.Lemmas
/-
Invariant of the NodeExecution tables (`NInv`) and its preservation by `update_status`, by changes of the
ground truth that respect monotonicity, and by a controlled change of a single node.
-/
namespace PydraModel.Sched

/-- a node that is complete and whose jobs all succeeded, as its successors see it when they start -/
def Settled (s : NS) : Prop :=
  s.blk = some [] ∧ s.queued = [] ∧ s.running = [] ∧ s.errored = [] ∧ s.unrunnable = false

/-- node-local part of the invariant -/
structure LInv (w : World) (s : NS) : Prop where
  unstarted : s.blk = none → s = NS.init
  blkEmpty : ∀ b, s.blk = some b → b = []
  unrun : s.unrunnable = true →
    s.queued = [] ∧ s.running = [] ∧ s.successful = [] ∧ s.errored = [] ∧ s.cks = []
  cover : s.blk ≠ none → s.unrunnable = false → ∀ i, i < s.cks.length →
    i ∈ s.queued ∨ i ∈ s.running ∨ i ∈ s.successful ∨ i ∈ s.errored
  succOk : ∀ i, i ∈ s.successful → w (s.ckAt i) = .ok
  errErr : ∀ i, i ∈ s.errored → w (s.ckAt i) = .err
  runBusy : ∀ i, i ∈ s.running → w (s.ckAt i) ≠ .idle
  idxOk : ∀ i, (i ∈ s.queued ∨ i ∈ s.running ∨ i ∈ s.successful ∨ i ∈ s.errored) → i < s.cks.length

structure NInv (wf : Wf) (w : World) (ns : NSMap) : Prop where
  loc : ∀ n, LInv w (ns.get n)
  /-- a node that was started (and is not marked unrunnable) has only complete, fully successful predecessors -/
  preds : ∀ n, (ns.get n).blk ≠ none → (ns.get n).unrunnable = false → ∀ p, p ∈ wf.preds n →
    Settled (ns.get p) ∧ ∀ c, c ∈ (ns.get p).cks → w c = .ok
  /-- a node is marked unrunnable only because of a predecessor with a failed job or an unrunnable predecessor -/
  whyUnrun : ∀ n, (ns.get n).unrunnable = true →
    ∃ p, p ∈ wf.preds n ∧ ((ns.get p).errored ≠ [] ∨ (ns.get p).unrunnable = true)
  /-- the jobs of a started node are the ones `start()` builds from the values of its predecessors' jobs -/
  jobsOf : ∀ n, (ns.get n).blk ≠ none → (ns.get n).unrunnable = false →
    (ns.get n).cks = wf.mkJobs n (inputsOf wf ns n)

theorem linv_init (w : World) : LInv w NS.init := by
  constructor <;> simp [NS.init]

theorem ninv_init (wf : Wf) (w : World) : NInv wf w ⟨fun _ => NS.init⟩ := by
  constructor
  · intro n; exact linv_init w
  · intro n h; simp [NS.init] at h
  · intro n h; simp [NS.init] at h
  · intro n h; simp [NS.init] at h

theorem init_not_started : NS.init.started = false := by simp [NS.init, NS.started]

theorem started_of_blk {s : NS} (h : s.blk ≠ none) : s.started = true := by
  unfold NS.started
  cases hb : s.blk with
  | none => exact absurd hb h
  | some b => simp

theorem blk_of_started {w : World} {s : NS} (hl : LInv w s) (h : s.started = true) : s.blk ≠ none := by
  intro hb
  rw [hl.unstarted hb, init_not_started] at h
  exact absurd h (by simp)

/-! ### `update_status` keeps the local invariant -/

theorem updateStatus_of_empty (w : World) {s : NS} (hq : s.queued = []) (hr : s.running = []) :
    updateStatus w s = s := by
  rw [updateStatus_closed]
  split
  · apply NS.ext7 <;> simp [updR, updQ, hq, hr]
  · rfl

theorem updateStatus_of_settled (w : World) {s : NS} (h : Settled s) : updateStatus w s = s :=
  updateStatus_of_empty w h.2.1 h.2.2.1

theorem linv_US {w : World} {s : NS} (hl : LInv w s) (hs : s.started = true) : LInv w (US w s) := by
  have hb := blk_of_started hl hs
  constructor
  · intro h; exact absurd h hb
  · intro b h; exact hl.blkEmpty b h
  · intro h
    obtain ⟨h1, h2, h3, h4, h5⟩ := hl.unrun h
    refine ⟨?_, ?_, ?_, ?_, h5⟩
    · apply List.eq_nil_iff_forall_not_mem.mpr; intro i hi
      rw [mem_US_queued] at hi; rw [h1] at hi; simp at hi
    · apply List.eq_nil_iff_forall_not_mem.mpr; intro i hi
      rw [mem_US_running] at hi; rw [h1, h2] at hi; simp at hi
    · apply List.eq_nil_iff_forall_not_mem.mpr; intro i hi
      rw [mem_US_successful] at hi; rw [h1, h2, h3] at hi; simp at hi
    · apply List.eq_nil_iff_forall_not_mem.mpr; intro i hi
      rw [mem_US_errored] at hi; rw [h1, h2, h4] at hi; simp at hi
  · intro _ hu i hi
    rw [mem_US_queued, mem_US_running, mem_US_successful, mem_US_errored]
    rcases hl.cover hb hu i hi with h | h | h | h
    · rcases truth_cases (w (s.ckAt i)) with t | t | t | t | t
      · exact Or.inl ⟨h, t⟩
      · exact Or.inr (Or.inl ⟨Or.inr ⟨h, Or.inl t⟩, by simp [t], by simp [t]⟩)
      · exact Or.inr (Or.inl ⟨Or.inr ⟨h, Or.inr t⟩, by simp [t], by simp [t]⟩)
      · exact Or.inr (Or.inr (Or.inl (Or.inr ⟨Or.inl h, t⟩)))
      · exact Or.inr (Or.inr (Or.inr (Or.inr ⟨Or.inl h, t⟩)))
    · rcases truth_cases (w (s.ckAt i)) with t | t | t | t | t
      · exact absurd t (hl.runBusy i h)
      · exact Or.inr (Or.inl ⟨Or.inl h, by simp [t], by simp [t]⟩)
      · exact Or.inr (Or.inl ⟨Or.inl h, by simp [t], by simp [t]⟩)
      · exact Or.inr (Or.inr (Or.inl (Or.inr ⟨Or.inr h, t⟩)))
      · exact Or.inr (Or.inr (Or.inr (Or.inr ⟨Or.inr h, t⟩)))
    · exact Or.inr (Or.inr (Or.inl (Or.inl h)))
    · exact Or.inr (Or.inr (Or.inr (Or.inl h)))
  · intro i hi
    rw [mem_US_successful] at hi
    rcases hi with h | ⟨_, h⟩
    · exact hl.succOk i h
    · exact h
  · intro i hi
    rw [mem_US_errored] at hi
    rcases hi with h | ⟨_, h⟩
    · exact hl.errErr i h
    · exact h
  · intro i hi
    rw [mem_US_running] at hi
    rcases hi.1 with h | ⟨_, h | h⟩
    · exact hl.runBusy i h
    · rw [US_ckAt, h]; simp
    · rw [US_ckAt, h]; simp
  · intro i hi
    rw [mem_US_queued, mem_US_running, mem_US_successful, mem_US_errored] at hi
    show i < s.cks.length
    rcases hi with h | h | h | h
    · exact hl.idxOk i (Or.inl h.1)
    · rcases h.1 with h | h
      · exact hl.idxOk i (Or.inr (Or.inl h))
      · exact hl.idxOk i (Or.inl h.1)
    · rcases h with h | ⟨h | h, _⟩
      · exact hl.idxOk i (Or.inr (Or.inr (Or.inl h)))
      · exact hl.idxOk i (Or.inl h)
      · exact hl.idxOk i (Or.inr (Or.inl h))
    · rcases h with h | ⟨h | h, _⟩
      · exact hl.idxOk i (Or.inr (Or.inr (Or.inr h)))
      · exact hl.idxOk i (Or.inl h)
      · exact hl.idxOk i (Or.inr (Or.inl h))

theorem linv_updateStatus {w : World} {s : NS} (hl : LInv w s) : LInv w (updateStatus w s) := by
  rw [updateStatus_closed]
  split
  · rename_i h; exact linv_US hl h
  · exact hl

theorem errored_mono_updateStatus (w : World) (s : NS) {i : Nat} (h : i ∈ s.errored) :
    i ∈ (updateStatus w s).errored := by
  rw [updateStatus_closed]
  split
  · show i ∈ (US w s).errored
    rw [mem_US_errored]; exact Or.inl h
  · exact h

theorem errored_ne_nil_updateStatus (w : World) (s : NS) (h : s.errored ≠ []) :
    (updateStatus w s).errored ≠ [] := by
  obtain ⟨i, hi⟩ := List.exists_mem_of_ne_nil _ h
  exact List.ne_nil_of_mem (errored_mono_updateStatus w s hi)

/-! ### changing one node -/

/-- Replace the state of node `n` by `s'`.  The invariant is kept if `s'` is locally fine, a settled node
    is left alone, failure marks are not lost, and the two relational clauses hold for `n` itself. -/
theorem ninv_setN {wf : Wf} {w : World} {ns : NSMap} (h : NInv wf w ns) (n : NodeId) (s' : NS)
    (hl : LInv w s')
    (hsettled : Settled (ns.get n) → s' = ns.get n)
    (herr : (ns.get n).errored ≠ [] → s'.errored ≠ [])
    (hunr : (ns.get n).unrunnable = true → s'.unrunnable = true)
    (hpreds : s'.blk ≠ none → s'.unrunnable = false → ∀ p, p ∈ wf.preds n →
      Settled ((setN ns n s').get p) ∧ ∀ c, c ∈ ((setN ns n s').get p).cks → w c = .ok)
    (hwhy : s'.unrunnable = true → ∃ p, p ∈ wf.preds n ∧
      (((setN ns n s').get p).errored ≠ [] ∨ ((setN ns n s').get p).unrunnable = true))
    (hjobs : s'.blk ≠ none → s'.unrunnable = false → s'.cks = wf.mkJobs n (inputsOf wf (setN ns n s') n)) :
    NInv wf w (setN ns n s') := by
  constructor
  · intro m
    rw [setN_get]; split
    · exact hl
    · exact h.loc m
  · intro m hb hu p hp
    by_cases hm : m = n
    · subst hm
      rw [setN_get_same] at hb hu
      exact hpreds hb hu p hp
    · rw [setN_get_ne _ _ hm] at hb hu
      obtain ⟨h1, h2⟩ := h.preds m hb hu p hp
      by_cases hpn : p = n
      · subst hpn
        rw [setN_get_same, hsettled h1]
        exact ⟨h1, h2⟩
      · rw [setN_get_ne _ _ hpn]; exact ⟨h1, h2⟩
  · intro m hu
    by_cases hm : m = n
    · subst hm
      rw [setN_get_same] at hu
      exact hwhy hu
    · rw [setN_get_ne _ _ hm] at hu
      obtain ⟨p, hp, h1⟩ := h.whyUnrun m hu
      refine ⟨p, hp, ?_⟩
      by_cases hpn : p = n
      · subst hpn
        rw [setN_get_same]
        rcases h1 with h1 | h1
        · exact Or.inl (herr h1)
        · exact Or.inr (hunr h1)
      · rw [setN_get_ne _ _ hpn]; exact h1
  · intro m hb hu
    by_cases hm : m = n
    · subst hm
      rw [setN_get_same] at hb hu ⊢
      exact hjobs hb hu
    · rw [setN_get_ne _ _ hm] at hb hu ⊢
      rw [h.jobsOf m hb hu]
      congr 1
      unfold inputsOf
      apply List.map_congr_left
      intro p hp
      by_cases hpn : p = n
      · subst hpn
        rw [setN_get_same, hsettled (h.preds m hb hu p hp).1]
      · rw [setN_get_ne _ _ hpn]

/-- special case: `blk`, `unrunnable` and `cks` of the node do not change -/
theorem ninv_setN_frame {wf : Wf} {w : World} {ns : NSMap} (h : NInv wf w ns) (n : NodeId) (s' : NS)
    (hl : LInv w s')
    (hb : s'.blk = (ns.get n).blk) (hu : s'.unrunnable = (ns.get n).unrunnable)
    (hc : s'.cks = (ns.get n).cks)
    (hsettled : Settled (ns.get n) → s' = ns.get n)
    (herr : (ns.get n).errored ≠ [] → s'.errored ≠ []) :
    NInv wf w (setN ns n s') := by
  apply ninv_setN h n s' hl hsettled herr
  · intro h1; rw [hu]; exact h1
  · intro h1 h2 p hp
    rw [hb] at h1; rw [hu] at h2
    obtain ⟨a, b⟩ := h.preds n h1 h2 p hp
    by_cases hpn : p = n
    · subst hpn; rw [setN_get_same, hsettled a]; exact ⟨a, b⟩
    · rw [setN_get_ne _ _ hpn]; exact ⟨a, b⟩
  · intro h1
    rw [hu] at h1
    obtain ⟨p, hp, a⟩ := h.whyUnrun n h1
    refine ⟨p, hp, ?_⟩
    by_cases hpn : p = n
    · subst hpn; rw [setN_get_same]
      rcases a with a | a
      · exact Or.inl (herr a)
      · exact Or.inr (by rw [hu]; exact a)
    · rw [setN_get_ne _ _ hpn]; exact a
  · intro h1 h2
    rw [hb] at h1; rw [hu] at h2
    rw [hc, h.jobsOf n h1 h2]
    congr 1
    unfold inputsOf
    apply List.map_congr_left
    intro p hp
    by_cases hpn : p = n
    · subst hpn
      rw [setN_get_same, hsettled (h.preds p h1 h2 p hp).1]
    · rw [setN_get_ne _ _ hpn]

theorem ninv_upd {wf : Wf} {w : World} {ns : NSMap} (h : NInv wf w ns) (n : NodeId) :
    NInv wf w (upd w ns n) := by
  unfold upd
  obtain ⟨f1, f2, f3⟩ := updateStatus_frame w (ns.get n)
  exact ninv_setN_frame h n _ (linv_updateStatus (h.loc n)) f2 f3 f1
    (fun hs => updateStatus_of_settled w hs) (errored_ne_nil_updateStatus w _)

/-! ### changing the ground truth -/

/-- what every environment move guarantees: results are final, a started job never looks idle again -/
structure WMono (w w' : World) : Prop where
  ok : ∀ c, w c = .ok → w' c = .ok
  err : ∀ c, w c = .err → w' c = .err
  busy : ∀ c, w c ≠ .idle → w' c ≠ .idle

theorem WMono.refl (w : World) : WMono w w := ⟨fun _ h => h, fun _ h => h, fun _ h => h⟩

theorem WMono.trans {a b c : World} (h1 : WMono a b) (h2 : WMono b c) : WMono a c :=
  ⟨fun x h => h2.ok x (h1.ok x h), fun x h => h2.err x (h1.err x h), fun x h => h2.busy x (h1.busy x h)⟩

theorem linv_world {w w' : World} {s : NS} (hl : LInv w s) (hm : WMono w w') : LInv w' s :=
  ⟨hl.unstarted, hl.blkEmpty, hl.unrun, hl.cover, fun i hi => hm.ok _ (hl.succOk i hi),
    fun i hi => hm.err _ (hl.errErr i hi), fun i hi => hm.busy _ (hl.runBusy i hi), hl.idxOk⟩

theorem ninv_world {wf : Wf} {w w' : World} {ns : NSMap} (h : NInv wf w ns) (hm : WMono w w') :
    NInv wf w' ns :=
  ⟨fun n => linv_world (h.loc n) hm,
   fun n hb hu p hp => ⟨(h.preds n hb hu p hp).1, fun c hc => hm.ok c ((h.preds n hb hu p hp).2 c hc)⟩,
   h.whyUnrun, h.jobsOf⟩

end PydraModel.Sched
