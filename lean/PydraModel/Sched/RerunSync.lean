import PydraModel.Sched.Rerun
import PydraModel.Sched.Idle
import PydraModel.Sched.Order
/-
What the code GUARANTEES under `rerun=True`: the synchronous loop (debug worker) without a `max_concurrent` limit.
There every job a poll returns is executed before the next poll, so no poll ever looks at a job that this
submission has not executed: the tables only ever record results of THIS submission (`TabE`), whatever the cache and
the readonly caches held before.  Consequences (`Props/C15.lean`): precedence in the form "a body starts only after
the bodies of all jobs of all predecessor nodes have ended in this submission", every job is re-executed, and the
outputs are the values of this submission.  (With a finite limit, or with an asynchronous worker, this fails:
finding D73.)
-/
namespace PydraModel.Sched
open PydraModel.Graph

/-- the tables only hold jobs that were executed in this submission, except the jobs just handed out (`tasks`) -/
structure TabE (ended : List Ck) (ns : NSMap) (tasks : List Job) : Prop where
  fin : ∀ n i, (i ∈ (ns.get n).running ∨ i ∈ (ns.get n).successful ∨ i ∈ (ns.get n).errored) →
    (ns.get n).ckAt i ∈ ended
  que : ∀ n i, i ∈ (ns.get n).queued → (ns.get n).ckAt i ∈ ended ∨ (n, i) ∈ tasks

/-- every job in any table was executed in this submission -/
def AllE (ended : List Ck) (ns : NSMap) : Prop :=
  ∀ n i, (i ∈ (ns.get n).queued ∨ i ∈ (ns.get n).running ∨ i ∈ (ns.get n).successful ∨ i ∈ (ns.get n).errored) →
    (ns.get n).ckAt i ∈ ended

theorem tabE_of_allE {ended : List Ck} {ns : NSMap} (h : AllE ended ns) (tasks : List Job) : TabE ended ns tasks :=
  ⟨fun n i hi => h n i (Or.inr hi), fun n i hi => Or.inl (h n i (Or.inl hi))⟩

theorem tables_updateStatus (w : World) (s : NS) (i : Nat) :
    (i ∈ (updateStatus w s).queued → i ∈ s.queued) ∧
    ((i ∈ (updateStatus w s).running ∨ i ∈ (updateStatus w s).successful ∨ i ∈ (updateStatus w s).errored) →
      i ∈ s.queued ∨ i ∈ s.running ∨ i ∈ s.successful ∨ i ∈ s.errored) := by
  rw [updateStatus_closed]
  cases hs : s.started
  · simp only [Bool.false_eq_true, if_false]
    exact ⟨fun h => h, fun h => Or.inr h⟩
  · simp only [if_true]
    show (i ∈ (US w s).queued → _) ∧ ((i ∈ (US w s).running ∨ i ∈ (US w s).successful ∨ i ∈ (US w s).errored) → _)
    constructor
    · intro h; exact ((mem_US_queued w s i).mp h).1
    · rintro (h | h | h)
      · rcases ((mem_US_running w s i).mp h).1 with a | ⟨a, _⟩
        · exact Or.inr (Or.inl a)
        · exact Or.inl a
      · rcases (mem_US_successful w s i).mp h with a | ⟨a | a, _⟩
        · exact Or.inr (Or.inr (Or.inl a))
        · exact Or.inl a
        · exact Or.inr (Or.inl a)
      · rcases (mem_US_errored w s i).mp h with a | ⟨a | a, _⟩
        · exact Or.inr (Or.inr (Or.inr a))
        · exact Or.inl a
        · exact Or.inr (Or.inl a)

theorem allE_upd {ended : List Ck} {ns : NSMap} (h : AllE ended ns) (w : World) (m : NodeId) :
    AllE ended (upd w ns m) := by
  intro n i hi
  by_cases hn : n = m
  · subst hn
    rw [upd_get_same] at hi ⊢
    rw [updateStatus_ckAt]
    obtain ⟨a, b⟩ := tables_updateStatus w (ns.get n) i
    rcases hi with hi | hi
    · exact h n i (Or.inl (a hi))
    · exact h n i (b hi)
  · rw [upd_get_ne _ _ hn] at hi ⊢; exact h n i hi

theorem allE_anyNotDone {ended : List Ck} (w : World) : ∀ (l : List NodeId) {ns : NSMap}, AllE ended ns →
    AllE ended (anyNotDone w ns l).2
  | [], _, h => h
  | n :: l, ns, h => by
    show AllE ended (if (nodeDone w ns n).1 = true then anyNotDone w (nodeDone w ns n).2 l
      else (true, (nodeDone w ns n).2)).2
    by_cases hd : (nodeDone w ns n).1 = true
    · rw [if_pos hd]; exact allE_anyNotDone w l (allE_upd h w n)
    · rw [if_neg hd]; exact allE_upd h w n

/-- one scan: the tables keep holding executed jobs only; what is newly queued is in the returned tasks -/
theorem scan_tabE {wf : Wf} {w : World} {sorted : List NodeId} (ht : TopoOrder wf sorted) (ended : List Ck)
    (ns0 : NSMap) (h0 : AllE ended ns0) :
    ∀ (rest pre : List NodeId) (ns : NSMap) (nst : List NodeId) (tasks : List Job),
      sorted = pre ++ rest → ScanSt wf w ns0 pre ns nst tasks →
      (∀ x, x ∉ pre → ns.get x = ns0.get x) → TabE ended ns tasks →
      TabE ended (scan wf w rest ns nst tasks).1 (scan wf w rest ns nst tasks).2 := by
  intro rest
  induction rest with
  | nil => intro pre ns nst tasks _ _ _ hte; exact hte
  | cons m rest ih =>
    intro pre ns nst tasks hsorted hs hsame0 hte
    obtain ⟨hnpre, hsame, _, hs1⟩ := scan_step_upd ht hsorted hs
    have hsorted' : sorted = (pre ++ [m]) ++ rest := by rw [hsorted]; simp
    have hm0 : ns.get m = ns0.get m := hsame0 m hnpre
    -- after `node.done` of `m`
    have hte1 : TabE ended (upd w ns m) tasks := by
      constructor
      · intro n i hi
        by_cases hn : n = m
        · subst hn
          rw [upd_get_same] at hi ⊢
          rw [updateStatus_ckAt, hm0]
          rw [hm0] at hi
          exact h0 n i ((tables_updateStatus w (ns0.get n) i).2 hi)
        · rw [hsame n hn] at hi ⊢; exact hte.fin n i hi
      · intro n i hi
        by_cases hn : n = m
        · subst hn
          rw [upd_get_same] at hi ⊢
          rw [updateStatus_ckAt, hm0]
          rw [hm0] at hi
          exact Or.inl (h0 n i (Or.inl ((tables_updateStatus w (ns0.get n) i).1 hi)))
        · rw [hsame n hn] at hi ⊢; exact hte.que n i hi
    have hsame1 : ∀ x, x ∉ pre ++ [m] → (upd w ns m).get x = ns0.get x := by
      intro x hx
      have hxm : x ≠ m := fun e => hx (by simp [e])
      have hxp : x ∉ pre := fun e => hx (List.mem_append_left _ e)
      rw [hsame x hxm]; exact hsame0 x hxp
    rw [scan_cons]
    have e2 : (nodeDone w ns m).2 = upd w ns m := rfl
    have e1 : (nodeDone w ns m).1 = ((upd w ns m).get m).isDone := rfl
    rw [e2, e1]
    by_cases hd : ((upd w ns m).get m).isDone = true
    · rw [if_pos hd]; exact ih _ _ _ _ hsorted' hs1 hsame1 hte1
    · rw [if_neg hd]
      by_cases hbrk : (wf.preds m).any (fun p => nst.contains p) = true
      · rw [if_pos hbrk]; exact hte1
      · rw [if_neg hbrk]
        have hd' : ((upd w ns m).get m).isDone = false := by
          cases hx : ((upd w ns m).get m).isDone
          · rfl
          · exact absurd hx hd
        obtain ⟨_, spec, hs2⟩ := scan_step_run ht hsorted hs hd' hbrk
        apply ih _ _ _ _ hsorted' hs2
        · intro x hx
          have hxm : x ≠ m := fun e => hx (by simp [e])
          rw [spec.frame x hxm]; exact hsame1 x hx
        · have hsub : ∀ j, j ∈ tasks → j ∈ tasks ++ (nodeRunnable wf w (upd w ns m) m).2.map (fun i => (m, i)) :=
            fun j hj => List.mem_append_left _ hj
          -- the tables of `m` after `get_runnable_tasks`
          have hmcase : (nodeRunnable wf w (upd w ns m) m).1.get m = (upd w ns m).get m ∨
              (((nodeRunnable wf w (upd w ns m) m).1.get m).queued = [] ∧
               ((nodeRunnable wf w (upd w ns m) m).1.get m).running = [] ∧
               ((nodeRunnable wf w (upd w ns m) m).1.get m).successful = [] ∧
               ((nodeRunnable wf w (upd w ns m) m).1.get m).errored = []) ∨
              (((nodeRunnable wf w (upd w ns m) m).1.get m).running = [] ∧
               ((nodeRunnable wf w (upd w ns m) m).1.get m).successful = [] ∧
               ((nodeRunnable wf w (upd w ns m) m).1.get m).errored = []) := by
            cases hst : ((upd w ns m).get m).started
            · rcases spec.fresh hst with a | ⟨a, _⟩ | a
              · exact Or.inl a
              · obtain ⟨x1, x2, x3, x4, _⟩ := (spec.inv.loc m).unrun a
                exact Or.inr (Or.inl ⟨x1, x2, x3, x4⟩)
              · right; right; rw [a]; exact ⟨rfl, rfl, rfl⟩
            · exact Or.inl (spec.fix hst)
          constructor
          · intro n i hi
            by_cases hn : n = m
            · subst hn
              rcases hmcase with a | ⟨_, x2, x3, x4⟩ | ⟨x2, x3, x4⟩
              · rw [a] at hi ⊢; exact hte1.fin n i hi
              · rw [x2, x3, x4] at hi; simp at hi
              · rw [x2, x3, x4] at hi; simp at hi
            · rw [spec.frame n hn] at hi ⊢; exact hte1.fin n i hi
          · intro n i hi
            by_cases hn : n = m
            · subst hn
              right
              apply List.mem_append_right
              rw [spec.tasks]
              exact List.mem_map.mpr ⟨i, hi, rfl⟩
            · rw [spec.frame n hn] at hi ⊢
              rcases hte1.que n i hi with a | a
              · exact Or.inl a
              · exact Or.inr (hsub _ a)

theorem poll_tabE {wf : Wf} {w : World} {sorted : List NodeId} (ht : TopoOrder wf sorted) {ended : List Ck}
    {ns : NSMap} (hn : NInv wf w ns) (h0 : AllE ended ns) :
    TabE ended (poll wf none sorted w ns).1 (poll wf none sorted w ns).2 :=
  scan_tabE ht ended ns h0 sorted [] ns [] [] (by simp)
    ⟨hn, Grow.refl ns, fun p hp => absurd hp (by simp), fun j hj => absurd hj (by simp)⟩
    (fun _ _ => rfl) (tabE_of_allE h0 [])

/-! ### the invariant of the synchronous loop under `rerun`, without a limit -/

/-- the execution log of this submission: every body belongs to a started node all of whose predecessors' jobs
    ended EARLIER IN THIS SUBMISSION -/
def OrdR (wf : Wf) (rst : RSt) : Prop :=
  ∀ l1 c l2, rst.ended = l1 ++ c :: l2 →
    ∃ n, (rst.st.ns.get n).blk ≠ none ∧ (rst.st.ns.get n).unrunnable = false ∧ c ∈ (rst.st.ns.get n).cks ∧
      ∀ p, p ∈ wf.preds n → ∀ c', c' ∈ (rst.st.ns.get p).cks → c' ∈ l1

structure RSInv (wf : Wf) (cfg : RCfg) (rst : RSt) : Prop where
  ninv : NInv (diskWf wf cfg rst.ended) (view cfg rst.st.w) rst.st.ns
  tab : TabE rst.ended rst.st.ns rst.st.tasks
  fresh : ∀ c, c ∈ rst.ended → rst.st.w c = .ok
  tasksLegit : ∀ j, j ∈ rst.st.tasks → TaskLegit rst.st.ns j
  ord : OrdR wf rst
  log : rst.began = rst.ended

theorem view_of_ok (cfg : RCfg) {w : World} {c : Ck} (h : w c = .ok) : view cfg w c = .ok := by
  unfold view; rw [h]

theorem view_setW_ok (cfg : RCfg) (w : World) (c : Ck) : view cfg (setW w c .ok) = setW (view cfg w) c .ok := by
  funext x
  by_cases hx : x = c
  · subst hx; unfold view; simp [setW_same]
  · unfold view; simp only [setW_ne _ _ hx]

/-- the jobs of the predecessors of a started node were all executed in this submission -/
theorem pred_cks_ended {wf : Wf} {w : World} {ns : NSMap} {ended : List Ck} {tasks : List Job}
    (hn : NInv wf w ns) (ht : TabE ended ns tasks) {n : NodeId} (hb : (ns.get n).blk ≠ none)
    (hu : (ns.get n).unrunnable = false) {p : NodeId} (hp : p ∈ wf.preds n) {c : Ck} (hc : c ∈ (ns.get p).cks) :
    c ∈ ended := by
  obtain ⟨hb', hq, hr, he, hu'⟩ := (hn.preds n hb hu p hp).1
  obtain ⟨i, hi, hci⟩ := mem_cks_ckAt hc
  have hbp : (ns.get p).blk ≠ none := by rw [hb']; simp
  rcases (hn.loc p).cover hbp hu' i hi with h | h | h | h
  · rw [hq] at h; simp at h
  · rw [hr] at h; simp at h
  · rw [← hci]; exact ht.fin p i (Or.inr (Or.inl h))
  · rw [he] at h; simp at h

theorem diskWf_preds (wf : Wf) (cfg : RCfg) (e : List Ck) (n : NodeId) : (diskWf wf cfg e).preds n = wf.preds n := rfl

/-- executing a body (successfully) keeps the invariant of the tables: the disk changes at one checksum that no
    finished table entry refers to unless it already held this submission's result -/
theorem ninv_exec {wf : Wf} {cfg : RCfg} {e : List Ck} {v : World} {ns : NSMap} {tasks : List Job}
    (hn : NInv (diskWf wf cfg e) v ns) (ht : TabE e ns tasks) (hfresh : ∀ x, x ∈ e → v x = .ok) (c : Ck) :
    NInv (diskWf wf cfg (e ++ [c])) (setW v c .ok) ns := by
  refine ⟨?_, ?_, hn.whyUnrun, ?_⟩
  · intro n
    have hl := hn.loc n
    refine ⟨hl.unstarted, hl.blkEmpty, hl.unrun, hl.cover, ?_, ?_, ?_, hl.idxOk⟩
    · intro i hi
      by_cases hc : (ns.get n).ckAt i = c
      · rw [hc, setW_same]
      · rw [setW_ne _ _ hc]; exact hl.succOk i hi
    · intro i hi
      exfalso
      have h1 := hfresh _ (ht.fin n i (Or.inr (Or.inr hi)))
      rw [hl.errErr i hi] at h1
      exact absurd h1 (by simp)
    · intro i hi
      by_cases hc : (ns.get n).ckAt i = c
      · rw [hc, setW_same]; simp
      · rw [setW_ne _ _ hc]; exact hl.runBusy i hi
  · intro n hb hu p hp
    refine ⟨(hn.preds n hb hu p hp).1, ?_⟩
    intro c' hc'
    by_cases hc : c' = c
    · rw [hc, setW_same]
    · rw [setW_ne _ _ hc]; exact (hn.preds n hb hu p hp).2 c' hc'
  · intro n hb hu
    have hin : inputsOf (diskWf wf cfg (e ++ [c])) ns n = inputsOf (diskWf wf cfg e) ns n := by
      unfold inputsOf
      apply List.map_congr_left
      intro p hp
      apply List.map_congr_left
      intro c' hc'
      have hmem : c' ∈ e := pred_cks_ended hn ht hb hu hp hc'
      show (if (e ++ [c]).contains c' then wf.body c' else cfg.oldv c') = (if e.contains c' then wf.body c' else cfg.oldv c')
      have h1 : (e ++ [c]).contains c' = true := by simp [hmem]
      have h2 : e.contains c' = true := by simp [hmem]
      rw [h1, h2]
    show (ns.get n).cks = wf.mkJobs n (inputsOf (diskWf wf cfg (e ++ [c])) ns n)
    rw [hin]
    exact hn.jobsOf n hb hu

/-- the jobs of started nodes are built from THIS submission's values -/
theorem ninv_plain {wf : Wf} {cfg : RCfg} {e : List Ck} {v : World} {ns : NSMap} {tasks : List Job}
    (hn : NInv (diskWf wf cfg e) v ns) (ht : TabE e ns tasks) : NInv wf v ns := by
  refine ⟨hn.loc, hn.preds, hn.whyUnrun, ?_⟩
  intro n hb hu
  have hin : inputsOf wf ns n = inputsOf (diskWf wf cfg e) ns n := by
    unfold inputsOf
    apply List.map_congr_left
    intro p hp
    apply List.map_congr_left
    intro c' hc'
    have hmem : c' ∈ e := pred_cks_ended hn ht hb hu hp hc'
    show wf.body c' = (if e.contains c' then wf.body c' else cfg.oldv c')
    have h2 : e.contains c' = true := by simp [hmem]
    rw [h2]; rfl
  rw [hin]
  exact hn.jobsOf n hb hu

theorem ordR_grow {wf : Wf} {rst : RSt} {w : World} {wf' : Wf} (hp : ∀ n, wf'.preds n = wf.preds n)
    (hn : NInv wf' w rst.st.ns) {ns' : NSMap} (hg : Grow rst.st.ns ns')
    (h : OrdR wf rst) : OrdR wf { rst with st := { rst.st with ns := ns' } } := by
  intro l1 c l2 hs
  obtain ⟨n, h1, h2, h3, h4⟩ := h l1 c l2 hs
  obtain ⟨x1, x2, x3⟩ := hg n h1
  refine ⟨n, x1, by rw [x2]; exact h2, by rw [x3]; exact h3, ?_⟩
  intro p hpp c' hc'
  have hsp := (hn.preds n h1 h2 p (by rw [hp]; exact hpp)).1
  obtain ⟨_, _, y3⟩ := hg p (by rw [hsp.1]; simp)
  exact h4 p hpp c' (by rw [← y3]; exact hc')

/-- the state after the body of `c` has been executed successfully -/
def execOk (rst : RSt) (c : Ck) : RSt :=
  { rst with began := rst.began ++ [c], ended := rst.ended ++ [c], st := { rst.st with futured := rst.st.futured ++ [c], w := setW rst.st.w c .ok } }

/-- `for job in tasks: worker.run(job, rerun=True)` while no body fails -/
theorem rsinv_runTasksR {wf : Wf} {cfg : RCfg} (hr : cfg.rerun = true) (fail : Ck → Bool) :
    ∀ (js : List Job) {rst rst' : RSt}, RSInv wf cfg rst → (∀ j, j ∈ js → TaskLegit rst.st.ns j) →
      runTasksR cfg fail rst js = .ok rst' →
      RSInv wf cfg rst' ∧ rst'.st.ns = rst.st.ns ∧ rst'.st.tasks = rst.st.tasks ∧
      (∀ c, c ∈ rst.ended → c ∈ rst'.ended) ∧ (∀ j, j ∈ js → ckOf rst.st j ∈ rst'.ended)
  | [], rst, rst', hs, _, h => by
    simp only [runTasksR, Except.ok.injEq] at h; subst h
    exact ⟨hs, rfl, rfl, fun _ h => h, fun j hj => absurd hj (by simp)⟩
  | j :: js, rst, rst', hs, hl, h => by
    simp only [runTasksR, hr, Bool.not_true, Bool.false_and, Bool.false_eq_true, if_false] at h
    split at h
    · exact absurd h (by simp)
    · have hj := hl j (by simp)
      have hs' : RSInv wf cfg (execOk rst (ckOf rst.st j)) := by
        refine ⟨?_, ?_, ?_, hs.tasksLegit, ?_, ?_⟩
        · show NInv (diskWf wf cfg (rst.ended ++ [ckOf rst.st j])) (view cfg (setW rst.st.w (ckOf rst.st j) .ok)) rst.st.ns
          rw [view_setW_ok]
          exact ninv_exec hs.ninv hs.tab (fun x hx => view_of_ok cfg (hs.fresh x hx)) _
        · exact ⟨fun n i hi => List.mem_append_left _ (hs.tab.fin n i hi), fun n i hi => by
            rcases hs.tab.que n i hi with a | a
            · exact Or.inl (List.mem_append_left _ a)
            · exact Or.inr a⟩
        · intro c hc
          show setW rst.st.w (ckOf rst.st j) .ok c = .ok
          by_cases hcc : c = ckOf rst.st j
          · rw [hcc, setW_same]
          · rw [setW_ne _ _ hcc]
            rcases List.mem_append.mp hc with a | a
            · exact hs.fresh c a
            · simp at a; exact absurd a hcc
        · intro l1 c l2 hsplit
          have hsplit' : rst.ended ++ [ckOf rst.st j] = l1 ++ c :: l2 := hsplit
          rcases split_snoc hsplit' with ⟨_, h1, h2⟩ | ⟨l2', _, h2⟩
          · subst h1; subst h2
            refine ⟨j.1, hj.1, hj.2.1, ckOf_mem hj, ?_⟩
            intro p hp' c' hc'
            exact pred_cks_ended hs.ninv hs.tab hj.1 hj.2.1 (by rw [diskWf_preds]; exact hp') hc'
          · exact hs.ord l1 c l2' h2
        · show rst.began ++ [ckOf rst.st j] = rst.ended ++ [ckOf rst.st j]
          rw [hs.log]
      obtain ⟨a, b, c, d, e⟩ := rsinv_runTasksR hr fail js hs' (fun j' hj' => hl j' (by simp [hj'])) h
      refine ⟨a, b, c, fun x hx => d x (List.mem_append_left _ hx), ?_⟩
      intro j' hj'
      rcases List.mem_cons.mp hj' with e1 | e1
      · subst e1; exact d _ (by show ckOf rst.st j' ∈ rst.ended ++ [ckOf rst.st j']; simp)
      · exact e j' e1

/-- a raising body: the log up to and including it is still ordered -/
theorem ordR_runTasksR_err {wf : Wf} {cfg : RCfg} (hr : cfg.rerun = true) (fail : Ck → Bool) :
    ∀ (js : List Job) {rst rst' : RSt} {c : Ck}, RSInv wf cfg rst → (∀ j, j ∈ js → TaskLegit rst.st.ns j) →
      runTasksR cfg fail rst js = .error (c, rst') → OrdR wf rst' ∧ rst'.began = rst'.ended
  | [], rst, rst', c, _, _, h => by simp [runTasksR] at h
  | j :: js, rst, rst', c, hs, hl, h => by
    have hj := hl j (by simp)
    by_cases hf : fail (ckOf rst.st j) = true
    · simp only [runTasksR, hr, Bool.not_true, Bool.false_and, Bool.false_eq_true, if_false, hf, if_true,
        Except.error.injEq, Prod.mk.injEq] at h
      obtain ⟨rfl, rfl⟩ := h
      constructor
      · intro l1 c l2 hsplit
        have hsplit' : rst.ended ++ [ckOf rst.st j] = l1 ++ c :: l2 := hsplit
        rcases split_snoc hsplit' with ⟨_, h1, h2⟩ | ⟨l2', _, h2⟩
        · subst h1; subst h2
          refine ⟨j.1, hj.1, hj.2.1, ckOf_mem hj, ?_⟩
          intro p hp' c' hc'
          exact pred_cks_ended hs.ninv hs.tab hj.1 hj.2.1 (by rw [diskWf_preds]; exact hp') hc'
        · exact hs.ord l1 c l2' h2
      · show rst.began ++ [ckOf rst.st j] = rst.ended ++ [ckOf rst.st j]
        rw [hs.log]
    · -- the body of `j` ran successfully: one step of `rsinv_runTasksR`, then go on
      have h1 : runTasksR cfg fail rst [j] = .ok (execOk rst (ckOf rst.st j)) := by
        simp only [runTasksR, hr, Bool.not_true, Bool.false_and, Bool.false_eq_true, if_false, hf]
        rfl
      obtain ⟨a, b, _⟩ := rsinv_runTasksR hr fail [j] hs (fun j' hj' => by
        simp at hj'; subst hj'; exact hj) h1
      simp only [runTasksR, hr, Bool.not_true, Bool.false_and, Bool.false_eq_true, if_false, hf] at h
      exact ordR_runTasksR_err hr fail js a (fun j' hj' => by
        show TaskLegit rst.st.ns j'; exact hl j' (by simp [hj'])) h

/-! ### the loop -/

theorem topo_diskWf {wf : Wf} {sorted : List NodeId} (ht : TopoOrder wf sorted) (cfg : RCfg) (e : List Ck) :
    TopoOrder (diskWf wf cfg e) sorted := ⟨ht.nodup, ht.before⟩

theorem allE_of_tab {ended : List Ck} {ns : NSMap} {tasks : List Job} (h : TabE ended ns tasks)
    (ht : ∀ n i, (n, i) ∈ tasks → (ns.get n).ckAt i ∈ ended) : AllE ended ns := by
  intro n i hi
  rcases hi with hi | hi
  · rcases h.que n i hi with a | a
    · exact a
    · exact ht n i a
  · exact h.fin n i hi

theorem rsinv_upd {wf : Wf} {cfg : RCfg} {rst : RSt} (hs : RSInv wf cfg rst) (ht0 : rst.st.tasks = []) (l : List NodeId) :
    RSInv wf cfg { rst with st := { rst.st with ns := (anyNotDone (view cfg rst.st.w) rst.st.ns l).2 } } := by
  have hall : AllE rst.ended rst.st.ns := allE_of_tab hs.tab (fun n i h => by rw [ht0] at h; simp at h)
  refine ⟨ninv_anyNotDone l hs.ninv, tabE_of_allE (allE_anyNotDone _ l hall) _, hs.fresh, ?_, ?_, hs.log⟩
  · intro j hj
    have : j ∈ rst.st.tasks := hj
    rw [ht0] at this; simp at this
  · exact ordR_grow (fun _ => rfl) hs.ninv (grow_anyNotDone _ l rst.st.ns) hs.ord

theorem rsinv_doPollR {wf : Wf} {cfg : RCfg} {sorted : List NodeId} (ht : TopoOrder wf sorted) {rst : RSt}
    (hs : RSInv wf cfg rst) (hall : AllE rst.ended rst.st.ns) : RSInv wf cfg (doPollR wf none sorted cfg rst) := by
  have htd := topo_diskWf ht cfg rst.ended
  obtain ⟨a, g, b⟩ := poll_spec htd none hs.ninv
  refine ⟨a, poll_tabE htd hs.ninv hall, hs.fresh, fun j hj => taskLegit_of_ok a (b j hj), ?_, hs.log⟩
  exact ordR_grow (fun _ => rfl) hs.ninv g hs.ord

theorem syncLoopR_spec {wf : Wf} {cfg : RCfg} {sorted : List NodeId} (ht : TopoOrder wf sorted)
    (hr : cfg.rerun = true) (fail : Ck → Bool) : ∀ (fuel : Nat) {rst : RSt}, RSInv wf cfg rst →
      OrdR wf (syncLoopR wf none sorted cfg fail fuel rst).2 ∧
      (syncLoopR wf none sorted cfg fail fuel rst).2.began = (syncLoopR wf none sorted cfg fail fuel rst).2.ended ∧
      ((syncLoopR wf none sorted cfg fail fuel rst).1 = .success →
        RSInv wf cfg (syncLoopR wf none sorted cfg fail fuel rst).2 ∧
        AllE (syncLoopR wf none sorted cfg fail fuel rst).2.ended (syncLoopR wf none sorted cfg fail fuel rst).2.st.ns ∧
        ∀ n, n ∈ wf.g.nodes → ((syncLoopR wf none sorted cfg fail fuel rst).2.st.ns.get n).isDone = true)
  | 0, rst, hs => by
    simp only [syncLoopR]
    exact ⟨hs.ord, hs.log, fun h => absurd h (by simp)⟩
  | fuel + 1, rst, hs => by
    -- the iteration: run the tasks of the last poll, poll again
    have step : ∀ r0 : RSt, RSInv wf cfg r0 →
        (match runTasksR cfg fail r0 r0.st.tasks with
          | .error (c, r1) => ((SyncOutcome.raised c, r1) : SyncOutcome × RSt)
          | .ok r1 => syncLoopR wf none sorted cfg fail fuel (doPollR wf none sorted cfg r1)) =
          (syncLoopR wf none sorted cfg fail (fuel + 1) rst) →
        OrdR wf (syncLoopR wf none sorted cfg fail (fuel + 1) rst).2 ∧
        (syncLoopR wf none sorted cfg fail (fuel + 1) rst).2.began = (syncLoopR wf none sorted cfg fail (fuel + 1) rst).2.ended ∧
        ((syncLoopR wf none sorted cfg fail (fuel + 1) rst).1 = .success →
          RSInv wf cfg (syncLoopR wf none sorted cfg fail (fuel + 1) rst).2 ∧
          AllE (syncLoopR wf none sorted cfg fail (fuel + 1) rst).2.ended (syncLoopR wf none sorted cfg fail (fuel + 1) rst).2.st.ns ∧
          ∀ n, n ∈ wf.g.nodes → ((syncLoopR wf none sorted cfg fail (fuel + 1) rst).2.st.ns.get n).isDone = true) := by
      intro r0 h0 heq
      rw [← heq]
      cases hrt : runTasksR cfg fail r0 r0.st.tasks with
      | error x =>
        obtain ⟨c, r1⟩ := x
        obtain ⟨o1, o2⟩ := ordR_runTasksR_err hr fail _ h0 h0.tasksLegit hrt
        exact ⟨o1, o2, fun h => absurd h (by simp)⟩
      | ok r1 =>
        obtain ⟨a, b, c, _, e⟩ := rsinv_runTasksR hr fail _ h0 h0.tasksLegit hrt
        have hall : AllE r1.ended r1.st.ns := by
          apply allE_of_tab a.tab
          intro n i hni
          rw [b]
          have := e (n, i) (by rw [← c]; exact hni)
          exact this
        exact syncLoopR_spec ht hr fail fuel (rsinv_doPollR ht a hall)
    by_cases ht0 : rst.st.tasks.isEmpty = true
    · by_cases ha : (anyNotDone (view cfg rst.st.w) rst.st.ns wf.g.nodes).1 = true
      · apply step _ (rsinv_upd hs (List.isEmpty_iff.mp ht0) wf.g.nodes)
        simp only [syncLoopR, ht0, Bool.not_true, Bool.false_eq_true, if_false, ha]
        rfl
      · have ha' : (anyNotDone (view cfg rst.st.w) rst.st.ns wf.g.nodes).1 = false := by
          cases hx : (anyNotDone (view cfg rst.st.w) rst.st.ns wf.g.nodes).1
          · rfl
          · exact absurd hx ha
        have hu := rsinv_upd hs (List.isEmpty_iff.mp ht0) wf.g.nodes
        simp only [syncLoopR, ht0, Bool.not_true, Bool.false_eq_true, if_false, ha', Bool.not_false, if_true]
        refine ⟨hu.ord, hu.log, fun _ => ⟨hu, ?_, fun n hn => anyNotDone_false _ ha' n hn⟩⟩
        exact allE_of_tab hu.tab (fun n i h => by
          have : (n, i) ∈ rst.st.tasks := h
          rw [List.isEmpty_iff.mp ht0] at this; simp at this)
    · have ht1 : rst.st.tasks.isEmpty = false := by
        cases hx : rst.st.tasks.isEmpty
        · rfl
        · exact absurd hx ht0
      apply step _ hs
      simp only [syncLoopR, ht1, Bool.not_false, if_true, Bool.not_true, Bool.false_eq_true, if_false]
      rfl

theorem rsinv_init (wf : Wf) (cfg : RCfg) (w0 : World) : RSInv wf cfg (RSt.init w0) := by
  refine ⟨ninv_init _ _, ⟨?_, ?_⟩, ?_, ?_, ?_, rfl⟩
  · intro n i hi; simp [RSt.init, St.init, NS.init] at hi
  · intro n i hi; simp [RSt.init, St.init, NS.init] at hi
  · intro c hc; simp [RSt.init] at hc
  · intro j hj; simp [RSt.init, St.init] at hj
  · intro l1 c l2 h; simp [RSt.init] at h

theorem allE_init (w0 : World) : AllE (RSt.init w0).ended (RSt.init w0).st.ns := by
  intro n i hi; simp [RSt.init, St.init, NS.init] at hi

end PydraModel.Sched
