import PydraModel.Sched.SysInv
/-
A small framework for further invariants of the asynchronous loop (so that the induction over rounds is
done once), the fault-free invariant (`FF`), and what is known when the loop ends normally.
-/
namespace PydraModel.Sched
open PydraModel.Graph

/-- `P` is kept by everything the loop and the (allowed part of the) environment do; `SInv` may be assumed -/
structure LoopInv (wf : Wf) (k : Option Nat) (sorted : List NodeId) (allowed : Ev → Prop) (P : St → Prop) : Prop where
  ev : ∀ st e st', SInv wf k st → P st → allowed e → applyEv st e = some st' → P st'
  poll : ∀ st, SInv wf k st → P st → P (doPoll wf k sorted st)
  upd : ∀ st l, SInv wf k st → P st → P { st with ns := (anyNotDone st.w st.ns l).2 }
  disp : ∀ st j, SInv wf k st → TaskLegit st.ns j → P st → P (dispatchStep k st j)

section
variable {wf : Wf} {k : Option Nat} {sorted : List NodeId} {allowed : Ev → Prop} {P : St → Prop}

theorem li_applyEvs (li : LoopInv wf k sorted allowed P) : ∀ (es : List Ev) {st st' : St}, SInv wf k st → P st →
    (∀ e, e ∈ es → allowed e) → applyEvs st es = some st' → P st'
  | [], st, st', _, hp, _, h => by simp [applyEvs] at h; subst h; exact hp
  | e :: es, st, st', hs, hp, ha, h => by
    simp only [applyEvs] at h
    split at h
    · rename_i st1 h1
      exact li_applyEvs li es (sinv_applyEv hs h1) (li.ev st e st1 hs hp (ha e (by simp)) h1)
        (fun e' he' => ha e' (by simp [he'])) h
    · exact absurd h (by simp)

theorem li_foldl_dispatch (li : LoopInv wf k sorted allowed P) : ∀ (l : List Job) {st : St}, SInv wf k st →
    (∀ j, j ∈ l → TaskLegit st.ns j) → P st → P (l.foldl (dispatchStep k) st)
  | [], _, _, _, hp => hp
  | j :: l, st, hs, hl, hp => by
    simp only [List.foldl_cons]
    apply li_foldl_dispatch li l (sinv_dispatchStep hs (hl j (by simp)))
    · intro j' hj'; rw [dispatchStep_ns]; exact hl j' (by simp [hj'])
    · exact li.disp st j hs (hl j (by simp)) hp

theorem li_dispatch (li : LoopInv wf k sorted allowed P) {st : St} (hs : SInv wf k st) (hp : P st) :
    P (dispatch k st) :=
  li_foldl_dispatch li st.tasks hs hs.tasksLegit hp

theorem li_stallLoop (li : LoopInv wf k sorted allowed P) (ht : TopoOrder wf sorted) :
    ∀ (fuel : Nat) {st st' : St}, SInv wf k st → P st → stallLoop wf k sorted fuel st = some st' → P st'
  | 0, _, _, _, _, h => by simp [stallLoop] at h
  | fuel + 1, st, st', hs, hp, h => by
    simp only [stallLoop] at h
    split at h
    · cases h; exact hp
    · split at h
      · cases h; exact li.upd st _ hs hp
      · split at h
        · exact absurd h (by simp)
        · exact li_stallLoop li ht fuel (sinv_doPoll ht (sinv_anyNotDone hs _))
            (li.poll _ (sinv_anyNotDone hs _) (li.upd st _ hs hp)) h

theorem li_afterPoll (li : LoopInv wf k sorted allowed P) (ht : TopoOrder wf sorted) {st : St}
    (hs : SInv wf k st) (hp : P st) {st' : St} (h : (afterPoll wf k sorted st).state? = some st') : P st' := by
  unfold afterPoll at h
  split at h
  · simp only [Step.state?, Option.some.injEq] at h; subst h; exact li_dispatch li hs hp
  · simp only at h
    split at h
    · simp only [Step.state?, Option.some.injEq] at h; subst h; exact li.upd st _ hs hp
    · split at h
      · simp only [Step.state?, Option.some.injEq] at h; subst h; exact li.upd st _ hs hp
      · rename_i st2 hst
        simp only [Step.state?, Option.some.injEq] at h; subst h
        exact li_dispatch li (sinv_stallLoop ht 11 (sinv_anyNotDone hs _) hst)
          (li_stallLoop li ht 11 (sinv_anyNotDone hs _) (li.upd st _ hs hp) hst)

theorem li_round (li : LoopInv wf k sorted allowed P) (ht : TopoOrder wf sorted) {st : St}
    (hs : SInv wf k st) (hp : P st) (moves : List Ev) (ha : ∀ e, e ∈ moves → allowed e) {st' : St}
    (h : (round wf k sorted st moves).state? = some st') : P st' := by
  unfold round at h
  split at h
  · simp [Step.state?] at h
  · split at h
    · simp [Step.state?] at h
    · rename_i st1 hst1
      split at h
      · simp [Step.state?] at h
      · have hs1 := sinv_applyEvs moves hs hst1
        exact li_afterPoll li ht (sinv_doPoll ht hs1) (li.poll _ hs1 (li_applyEvs li moves hs hp ha hst1)) h

theorem li_runFrom (li : LoopInv wf k sorted allowed P) (ht : TopoOrder wf sorted) :
    ∀ (sched : List (List Ev)) (s : Step), (∀ mv, mv ∈ sched → ∀ e, e ∈ mv → allowed e) →
      (∀ st, s.state? = some st → SInv wf k st ∧ P st) →
      ∀ st', (runFrom wf k sorted s sched).state? = some st' → P st'
  | [], s, _, hs, st', h => by
    cases s <;> simp only [runFrom] at h <;> exact (hs st' h).2
  | mv :: rest, .cont st, ha, hs, st', h => by
    simp only [runFrom] at h
    obtain ⟨a, b⟩ := hs st rfl
    exact li_runFrom li ht rest _ (fun m hm => ha m (by simp [hm]))
      (fun st2 h2 => ⟨sinv_round ht a mv h2, li_round li ht a b mv (ha mv (by simp)) h2⟩) st' h
  | _ :: _, .done o st, _, hs, st', h => by simp only [runFrom] at h; exact (hs st' h).2
  | _ :: _, .bad, _, _, st', h => by simp [runFrom, Step.state?] at h

/-- every state reached under a schedule of allowed moves satisfies `P` -/
theorem li_runAsync (li : LoopInv wf k sorted allowed P) (ht : TopoOrder wf sorted)
    (hinit : P (St.init (fun _ => .idle))) (sched : List (List Ev))
    (ha : ∀ mv, mv ∈ sched → ∀ e, e ∈ mv → allowed e) {st' : St}
    (h : (runAsync wf k sorted sched).state? = some st') : P st' :=
  li_runFrom li ht sched _ ha
    (fun st h2 => ⟨sinv_start ht h2,
      li_afterPoll li ht (sinv_doPoll ht (sinv_init wf k)) (li.poll _ (sinv_init wf k) hinit) h2⟩) st' h

end

/-! ### fields touched by the loop's own steps -/

theorem doPoll_frame (wf : Wf) (k : Option Nat) (sorted : List NodeId) (st : St) :
    (doPoll wf k sorted st).w = st.w ∧ (doPoll wf k sorted st).futures = st.futures ∧
    (doPoll wf k sorted st).futured = st.futured ∧ (doPoll wf k sorted st).errors = st.errors :=
  ⟨rfl, rfl, rfl, rfl⟩

theorem dispatchStep_frame (k : Option Nat) (st : St) (j : Job) :
    (dispatchStep k st j).w = st.w ∧ (dispatchStep k st j).errors = st.errors ∧
    (dispatchStep k st j).tasks = st.tasks := by
  unfold dispatchStep; simp only; split <;> exact ⟨rfl, rfl, rfl⟩

/-! ### the fault-free invariant: no `vanish` move -/

def noVanish : Ev → Prop
  | .vanish _ => False
  | _ => True

/-- with a worker that never loses a job: completed futures have a result, the collected errors are exactly the
    failed jobs whose future has completed, no lock is orphaned -/
structure FF (st : St) : Prop where
  errNamed : ∀ c, st.w c = .err → c ∈ st.futures ∨ c ∈ st.errors
  namedErr : ∀ c, c ∈ st.errors → st.w c = .err
  noDead : ∀ c, st.w c ≠ .dead
  completedFinal : ∀ c, c ∈ st.futured → c ∉ st.futures → st.w c = .ok ∨ st.w c = .err

theorem ff_loopInv (wf : Wf) (k : Option Nat) (sorted : List NodeId) : LoopInv wf k sorted noVanish FF := by
  constructor
  · intro st e st' hs hp ha h
    cases e with
    | acquire c =>
      simp only [applyEv] at h
      split at h
      · rename_i hc
        simp only [Bool.and_eq_true, beq_iff_eq, List.contains_eq_mem, decide_eq_true_eq] at hc
        cases h
        refine ⟨?_, ?_, ?_, ?_⟩
        · intro x hx
          by_cases hxc : x = c
          · subst hxc; simp [setW_same] at hx
          · simp only [setW_ne _ _ hxc] at hx; exact hp.errNamed x hx
        · intro x hx
          by_cases hxc : x = c
          · subst hxc; have := hp.namedErr x hx; rw [hc.2] at this; exact absurd this (by simp)
          · simp only [setW_ne _ _ hxc]; exact hp.namedErr x hx
        · intro x
          by_cases hxc : x = c
          · subst hxc; simp [setW_same]
          · simp only [setW_ne _ _ hxc]; exact hp.noDead x
        · intro x hx hnx
          by_cases hxc : x = c
          · subst hxc; exact absurd hc.1 hnx
          · simp only [setW_ne _ _ hxc]; exact hp.completedFinal x hx hnx
      · exact absurd h (by simp)
    | finishOk c =>
      simp only [applyEv] at h
      split at h
      · rename_i hc
        simp only [beq_iff_eq] at hc
        cases h
        refine ⟨?_, ?_, ?_, ?_⟩
        · intro x hx
          by_cases hxc : x = c
          · subst hxc; simp [setW_same] at hx
          · simp only [setW_ne _ _ hxc] at hx; exact hp.errNamed x hx
        · intro x hx
          by_cases hxc : x = c
          · subst hxc; have := hp.namedErr x hx; rw [hc] at this; exact absurd this (by simp)
          · simp only [setW_ne _ _ hxc]; exact hp.namedErr x hx
        · intro x
          by_cases hxc : x = c
          · subst hxc; simp [setW_same]
          · simp only [setW_ne _ _ hxc]; exact hp.noDead x
        · intro x hx hnx
          by_cases hxc : x = c
          · subst hxc; simp [setW_same]
          · simp only [setW_ne _ _ hxc]; exact hp.completedFinal x hx hnx
      · exact absurd h (by simp)
    | finishErr c =>
      simp only [applyEv] at h
      split at h
      · rename_i hc
        simp only [beq_iff_eq] at hc
        cases h
        refine ⟨?_, ?_, ?_, ?_⟩
        · intro x hx
          by_cases hxc : x = c
          · subst hxc; exact Or.inl (hs.lockedPending x hc)
          · simp only [setW_ne _ _ hxc] at hx; exact hp.errNamed x hx
        · intro x hx
          by_cases hxc : x = c
          · subst hxc; simp [setW_same]
          · simp only [setW_ne _ _ hxc]; exact hp.namedErr x hx
        · intro x
          by_cases hxc : x = c
          · subst hxc; simp [setW_same]
          · simp only [setW_ne _ _ hxc]; exact hp.noDead x
        · intro x hx hnx
          by_cases hxc : x = c
          · subst hxc; simp [setW_same]
          · simp only [setW_ne _ _ hxc]; exact hp.completedFinal x hx hnx
      · exact absurd h (by simp)
    | complete c =>
      simp only [applyEv] at h
      split at h
      · rename_i hc
        simp only [Bool.and_eq_true, Bool.or_eq_true, beq_iff_eq, List.contains_eq_mem, decide_eq_true_eq] at hc
        cases h
        refine ⟨?_, ?_, hp.noDead, ?_⟩
        · intro x hx
          simp only at hx ⊢
          by_cases hxc : x = c
          · subst hxc; right; simp only [hx, beq_self_eq_true, if_true]; simp
          · rcases hp.errNamed x hx with h1 | h1
            · exact Or.inl ((List.mem_erase_of_ne hxc).mpr h1)
            · right; split
              · exact List.mem_append_left _ h1
              · exact h1
        · intro x hx
          simp only at hx ⊢
          split at hx
          · rename_i he
            simp only [beq_iff_eq] at he
            rcases List.mem_append.mp hx with h1 | h1
            · exact hp.namedErr x h1
            · simp at h1; subst h1; exact he
          · exact hp.namedErr x hx
        · intro x hx hnx
          simp only at hx hnx ⊢
          by_cases hxc : x = c
          · subst hxc; exact hc.2
          · exact hp.completedFinal x hx (fun hm => hnx ((List.mem_erase_of_ne hxc).mpr hm))
      · exact absurd h (by simp)
    | vanish c => exact absurd ha (by simp [noVanish])
  · intro st _ hp; exact ⟨hp.errNamed, hp.namedErr, hp.noDead, hp.completedFinal⟩
  · intro st l _ hp; exact ⟨hp.errNamed, hp.namedErr, hp.noDead, hp.completedFinal⟩
  · intro st j _ _ hp
    unfold dispatchStep
    simp only
    split
    · refine ⟨?_, hp.namedErr, hp.noDead, ?_⟩
      · intro x hx
        rcases hp.errNamed x hx with h1 | h1
        · exact Or.inl (List.mem_append_left _ h1)
        · exact Or.inr h1
      · intro x hx hnx
        simp only at hx hnx
        rcases List.mem_append.mp hx with h1 | h1
        · exact hp.completedFinal x h1 (fun hm => hnx (List.mem_append_left _ hm))
        · exact absurd (List.mem_append_right _ h1) hnx
    · exact hp

theorem ff_init : FF (St.init (fun _ => .idle)) := by
  constructor <;> simp [St.init]

/-! ### the loop ends normally only when every node is done -/

theorem isDone_upd_stable {w : World} {ns : NSMap} {n : NodeId} (m : NodeId) (h : (ns.get n).isDone = true) :
    ((upd w ns m).get n).isDone = true := by
  by_cases hm : n = m
  · subst hm
    rw [upd_get_same]
    obtain ⟨_, hq, _, hr⟩ := (isDone_iff _).mp h
    rw [updateStatus_of_empty w hq hr]; exact h
  · rw [upd_get_ne _ _ hm]; exact h

theorem isDone_anyNotDone_stable {w : World} {n : NodeId} : ∀ (l : List NodeId) {ns : NSMap},
    (ns.get n).isDone = true → (((anyNotDone w ns l).2).get n).isDone = true
  | [], _, h => h
  | m :: l, ns, h => by
    show (((if (nodeDone w ns m).1 = true then anyNotDone w (nodeDone w ns m).2 l
      else (true, (nodeDone w ns m).2)).2).get n).isDone = true
    by_cases hd : (nodeDone w ns m).1 = true
    · rw [if_pos hd]; exact isDone_anyNotDone_stable l (isDone_upd_stable m h)
    · rw [if_neg hd]; exact isDone_upd_stable m h

theorem anyNotDone_false {w : World} : ∀ (l : List NodeId) {ns : NSMap}, (anyNotDone w ns l).1 = false →
    ∀ n, n ∈ l → (((anyNotDone w ns l).2).get n).isDone = true
  | [], _, _, n, hn => absurd hn (by simp)
  | m :: l, ns, h, n, hn => by
    have hx : anyNotDone w ns (m :: l) = (if (nodeDone w ns m).1 = true then anyNotDone w (nodeDone w ns m).2 l
      else (true, (nodeDone w ns m).2)) := rfl
    rw [hx] at h ⊢
    by_cases hd : (nodeDone w ns m).1 = true
    · rw [if_pos hd] at h ⊢
      rcases List.mem_cons.mp hn with rfl | hn
      · exact isDone_anyNotDone_stable l hd
      · exact anyNotDone_false l h n hn
    · rw [if_neg hd] at h; exact absurd h (by simp)

theorem anyNotDone_true {w : World} : ∀ (l : List NodeId) {ns : NSMap}, (anyNotDone w ns l).1 = true →
    ∃ n, n ∈ l ∧ (((anyNotDone w ns l).2).get n).isDone = false
  | [], _, h => by simp [anyNotDone] at h
  | m :: l, ns, h => by
    have hx : anyNotDone w ns (m :: l) = (if (nodeDone w ns m).1 = true then anyNotDone w (nodeDone w ns m).2 l
      else (true, (nodeDone w ns m).2)) := rfl
    rw [hx] at h ⊢
    by_cases hd : (nodeDone w ns m).1 = true
    · rw [if_pos hd] at h ⊢
      obtain ⟨n, hn, hnd⟩ := anyNotDone_true l h
      exact ⟨n, List.mem_cons_of_mem _ hn, hnd⟩
    · rw [if_neg hd]
      refine ⟨m, by simp, ?_⟩
      cases hx : ((nodeDone w ns m).2.get m).isDone
      · rfl
      · exact absurd hx hd

/-- `afterPoll` ends the submission normally only in a state where nothing is pending and every node is done -/
theorem afterPoll_done_normal {wf : Wf} {k : Option Nat} {sorted : List NodeId} {st st' : St} {o : Outcome}
    (h : afterPoll wf k sorted st = .done o st') :
    st'.futures = [] ∧ st'.w = st.w ∧ st'.errors = st.errors ∧ st'.futured = st.futured ∧
    ((∀ n, n ∈ wf.g.nodes → (st'.ns.get n).isDone = true) ∧ o = finish wf st' ∨
      ((∃ n, n ∈ wf.g.nodes ∧ (st'.ns.get n).isDone = false) ∧
        o = (if !st'.errors.isEmpty then .failed st'.errors else .stall))) := by
  unfold afterPoll at h
  split at h
  · exact absurd h (by simp)
  · rename_i hc
    simp only [Bool.or_eq_true, Bool.not_eq_true', not_or, Bool.not_eq_false, List.isEmpty_iff] at hc
    simp only at h
    split at h
    · rename_i ha
      simp only [Step.done.injEq] at h
      obtain ⟨h1, h2⟩ := h
      subst h2
      refine ⟨hc.2, rfl, rfl, rfl, Or.inl ⟨?_, h1.symm⟩⟩
      intro n hn
      exact anyNotDone_false _ (by simpa using ha) n hn
    · rename_i ha
      split at h
      · simp only [Step.done.injEq] at h
        obtain ⟨h1, h2⟩ := h
        subst h2
        refine ⟨hc.2, rfl, rfl, rfl, Or.inr ⟨?_, h1.symm⟩⟩
        exact anyNotDone_true _ (by simpa using ha)
      · exact absurd h (by simp)

end PydraModel.Sched
