import PydraModel.Basic
/-
Engine `PathTemplate` (DESIGN §5.7, property C26): output path templates of shell tasks.

Mirrors, as they are at the pinned commit,
  pydra/compose/shell/templating.py  template_update_single, _template_formatting (string template),
                                     _single_template_formatting, _element_formatting
  pydra/compose/shell/task.py        ShellOutputs._resolve_value (→ template_update_single(spec_type="output"))
and the parts of CPython they lean on: `re.findall` for the two field regexes, `str.format` for the
subset `{{`, `}}`, `{name}`, `{name:.Nf}`, `str.split(".", 1)`, `PurePosixPath(..).name`, `cache_dir / name`.

Strings are `List Char`.  A *file* value is kept as (directory components, file name): the harness only hands
absolute, normalised paths of existing files to the implementation (what `File`-typed inputs hold).
Everything the model does not cover answers `.error (.unmodelled …)`; the generator stays clear of it.
-/
namespace PydraModel.PathTemplate

abbrev Str := List Char

instance {ε α} [DecidableEq ε] [DecidableEq α] : DecidableEq (Except ε α) := fun a b =>
  match a, b with
  | .ok x, .ok y => if h : x = y then isTrue (by rw [h]) else isFalse (fun e => h (by cases e; rfl))
  | .error x, .error y => if h : x = y then isTrue (by rw [h]) else isFalse (fun e => h (by cases e; rfl))
  | .ok _, .error _ => isFalse (fun e => by cases e)
  | .error _, .ok _ => isFalse (fun e => by cases e)

inductive Err
  | attributeError      -- "{z} is not provided in the input"
  | multiplePaths       -- Exception "can't have multiple paths in … template"
  | lengthMismatch      -- Exception "all fields used in … template have to have the same length"
  | keyError            -- str.format: name not among the detected fields
  | valueError          -- str.format: single brace, 'f' format on a str
  | unmodelled (why : String)
  deriving DecidableEq, Repr

/-- scalar input values: `str`, `int`, and a `float` given exactly as `m / 10^k` -/
inductive Scalar
  | str (s : Str)
  | int (i : Int)
  | dec (m : Int) (k : Nat)
  deriving DecidableEq, Repr

/-- an absolute normalised file path `/d1/…/dn/name` -/
structure FileVal where
  dir : List Str
  name : Str
  deriving DecidableEq, Repr

inductive Val
  | sc (s : Scalar)
  | file (f : FileVal)
  | list (xs : List Scalar)
  | none
  deriving DecidableEq, Repr

/-- entries of `val_dict` -/
inductive DVal
  | sc (s : Scalar)
  | list (xs : List Scalar)
  deriving DecidableEq, Repr

abbrev Dict := List (Str × DVal)

/-! ### characters and numbers -/

/-- `\w` restricted to ASCII (the driver rejects non-ASCII templates) -/
def isWord (c : Char) : Bool := c.isAlphanum || c == '_'

def isSpecChar (c : Char) : Bool := c.isDigit || c == '.'

def natToStr (n : Nat) : Str := (Nat.repr n).toList

def intToStr (i : Int) : Str := if i < 0 then '-' :: natToStr i.natAbs else natToStr i.natAbs

def padLeft (n : Nat) (c : Char) (s : Str) : Str := List.replicate (n - s.length) c ++ s

def dropTrailingZeros (s : Str) : Str := (s.reverse.dropWhile (· == '0')).reverse

/-- `repr(float)` of the exactly representable value `m / 10^k` (no exponent form in the generated range) -/
def decRepr (m : Int) (k : Nat) : Str :=
  let a := m.natAbs
  let ip := a / 10 ^ k
  let fp := dropTrailingZeros (padLeft k '0' (natToStr (a % 10 ^ k)))
  (if m < 0 then ['-'] else []) ++ natToStr ip ++ '.' :: (if fp = [] then ['0'] else fp)

/-- `format(x, ".Nf")` for `x = m / 10^k` exactly: correct rounding, ties to even -/
def fixed (m : Int) (k n : Nat) : Str :=
  let a := m.natAbs
  let num := a * 10 ^ n
  let den := 10 ^ k
  let q := num / den
  let r := num % den
  let q' := if 2 * r > den || (2 * r == den && q % 2 == 1) then q + 1 else q
  let ip := q' / 10 ^ n
  let fp := q' % 10 ^ n
  (if m < 0 then ['-'] else []) ++ natToStr ip ++ (if n = 0 then [] else '.' :: padLeft n '0' (natToStr fp))

def digitsToNat (s : Str) : Nat := s.foldl (fun acc c => acc * 10 + (c.toNat - '0'.toNat)) 0

/-- the format specs the model covers: exactly `.N…f` -/
def parsePrecision (spec : Str) : Option Nat :=
  match spec with
  | '.' :: r =>
    let ds := r.takeWhile Char.isDigit
    if ds ≠ [] ∧ r.dropWhile Char.isDigit = ['f'] then some (digitsToNat ds) else none
  | _ => none

def scalarStr : Scalar → Str
  | .str s => s
  | .int i => intToStr i
  | .dec m k => decRepr m k

def formatScalar (v : Scalar) (spec : Option Str) : Except Err Str :=
  match spec with
  | none => .ok (scalarStr v)
  | some [] => .ok (scalarStr v)
  | some sp =>
    match parsePrecision sp with
    | none => .error (.unmodelled "format-spec")
    | some n =>
      match v with
      | .str _ => .error .valueError            -- Unknown format code 'f' for object of type 'str'
      | .int i => .ok (fixed i 0 n)
      | .dec m k => .ok (fixed m k n)

/-! ### the two `re.findall` scans of `_single_template_formatting` -/

/-- `re.findall(r"{\w+}", s)`, names only.  State: `none` = outside, `some acc` = after `{` with the word read so far. -/
def findPlainAux : Option Str → Str → List Str
  | _, [] => []
  | st, c :: t =>
    if c = '{' then findPlainAux (some []) t
    else match st with
      | none => findPlainAux none t
      | some acc =>
        if isWord c then findPlainAux (some (acc ++ [c])) t
        else if c = '}' ∧ acc ≠ [] then acc :: findPlainAux none t
        else findPlainAux none t

def findPlain (s : Str) : List Str := findPlainAux none s

inductive SpecState
  | out
  | name (acc : Str)
  | spec (nm : Str) (n : Nat)      -- after ':' having read n chars of `[0-9.]`
  | afterF (nm : Str)              -- after the `f`
  deriving DecidableEq, Repr

/-- `re.findall(r"{\w+:[0-9.]+f}", s)` followed by `re.sub(":[0-9.]+f", "", el)`, names only. -/
def findSpecAux : SpecState → Str → List Str
  | _, [] => []
  | st, c :: t =>
    if c = '{' then findSpecAux (.name []) t
    else match st with
      | .out => findSpecAux .out t
      | .name acc =>
        if isWord c then findSpecAux (.name (acc ++ [c])) t
        else if c = ':' ∧ acc ≠ [] then findSpecAux (.spec acc 0) t
        else findSpecAux .out t
      | .spec nm n =>
        if isSpecChar c then findSpecAux (.spec nm (n + 1)) t
        else if c = 'f' ∧ n ≠ 0 then findSpecAux (.afterF nm) t
        else findSpecAux .out t
      | .afterF nm =>
        if c = '}' then nm :: findSpecAux .out t else findSpecAux .out t

def findSpec (s : Str) : List Str := findSpecAux .out s

/-- `inp_fields` (names without the braces), in the order the code builds the list -/
def fieldNames (tmpl : Str) : List Str := findPlain tmpl ++ findSpec tmpl

/-! ### `str.format(**d)` -/

def lookup (d : Dict) (n : Str) : Option DVal := (d.find? (fun e => e.1 == n)).map (·.2)

/-- one replacement field `{body}` -/
def renderField (d : Dict) (body : Str) : Except Err Str :=
  let nm := body.takeWhile (fun c => !(c == ':' || c == '!'))
  let rest := body.dropWhile (fun c => !(c == ':' || c == '!'))
  if nm = [] ∨ !nm.all isWord ∨ nm.all Char.isDigit then .error (.unmodelled "field-name") else
  match rest with
  | '!' :: _ => .error (.unmodelled "conversion")
  | _ =>
    let spec : Option Str := match rest with | ':' :: sp => some sp | _ => none
    match lookup d nm with
    | none => .error .keyError
    | some (.list _) => .error (.unmodelled "list-in-format")
    | some (.sc v) => formatScalar v spec

/-- `tmpl.format(**d)`; state `none` = literal text, `some acc` = inside a replacement field.
    Fields are rendered as they are met, so the first error in reading order wins (as in CPython). -/
def fmtAux (d : Dict) : Option Str → Str → Except Err Str
  | none, [] => .ok []
  | some _, [] => .error .valueError                      -- expected '}' before end of string
  | none, '{' :: '{' :: t => (fmtAux d none t).map ('{' :: ·)
  | none, '}' :: '}' :: t => (fmtAux d none t).map ('}' :: ·)
  | none, '{' :: t => fmtAux d (some []) t
  | none, '}' :: _ => .error .valueError                  -- Single '}' encountered
  | none, c :: t => (fmtAux d none t).map (c :: ·)
  | some acc, '}' :: t =>
    match renderField d acc with
    | .error e => .error e
    | .ok s => (fmtAux d none t).map (s ++ ·)
  | some _, '{' :: _ => .error (.unmodelled "nested-brace")
  | some acc, c :: t => fmtAux d (some (acc ++ [c])) t

def fmt (d : Dict) (tmpl : Str) : Except Err Str := fmtAux d none tmpl

/-! ### paths -/

/-- `PurePosixPath(p).parts` without the anchor -/
def comps (p : Str) : List Str :=
  (splitOnChar '/' p).filter (fun c => !(c == [] || c == ['.']))

/-- `PurePosixPath(p).name` -/
def pathName (p : Str) : Str := ((comps p).getLast?).getD []

/-- `str` of an absolute path with the given components -/
def renderAbs (cs : List Str) : Str := if cs = [] then ['/'] else cs.flatMap (fun c => '/' :: c)

/-- `cache_dir / name` for a normalised absolute `cache_dir` (joining `""` leaves the directory itself) -/
def joinCd (cd n : Str) : Str := if n = [] then cd else cd ++ '/' :: n

/-- `Path(f).name.split(".", maxsplit=1)` -/
def splitExt (fname : Str) : Str × Option Str :=
  (fname.takeWhile (· != '.'),
   match fname.dropWhile (· != '.') with
   | [] => none
   | _ :: e => some e)

/-- `str(Path(f).parent / stem)` -/
def fileStem (f : FileVal) (stem : Str) : Str :=
  renderAbs (if stem = [] then f.dir else f.dir ++ [stem])

def withExt (s : Str) (ext : Option Str) : Str :=
  match ext with
  | none => s
  | some e => s ++ '.' :: e

/-- `template.endswith("{" + name + "}")` -/
def endsWithField (tmpl name : Str) : Bool := (('{' :: name) ++ ['}']).isSuffixOf tmpl

/-! ### `_element_formatting` -/

def elementFormat (tmpl : Str) (d : Dict) (file : Option (Str × FileVal)) (keep : Bool) : Except Err Str :=
  match file with
  | none => fmt d tmpl
  | some (fx, f) =>
    let stem := (splitExt f.name).1
    let ext : Option Str := if keep then (splitExt f.name).2 else none
    let filename := fileStem f stem
    if endsWithField tmpl fx then
      fmt ((fx, .sc (.str (withExt filename ext))) :: d) tmpl
    else if !tmpl.contains '.' then
      (fmt ((fx, .sc (.str filename)) :: d) tmpl).map (fun s => withExt s ext)
    else
      fmt ((fx, .sc (.str filename)) :: d) tmpl

/-! ### `_single_template_formatting` -/

structure Config where
  tmpl : Str
  vals : List (Str × Val)       -- `attrs_values(task)`
  keep : Bool                   -- fld.keep_extension
  multi : Bool                  -- fld.type is MultiOutputFile
  deriving DecidableEq, Repr

def lookupVal (vals : List (Str × Val)) (n : Str) : Option Val := (vals.find? (fun e => e.1 == n)).map (·.2)

/-- Python `val_dict[k] = v` on an insertion-ordered dict -/
def dictSet (d : Dict) (k : Str) (v : DVal) : Dict :=
  if d.any (fun e => e.1 == k) then d.map (fun e => if e.1 == k then (k, v) else e) else d ++ [(k, v)]

/-- the `for inp_fld in inp_fields` loop: `none` = some referenced value is `None` -/
def collect (vals : List (Str × Val)) : List Str → Dict → Option (Str × FileVal) →
    Except Err (Option (Dict × Option (Str × FileVal)))
  | [], d, file => .ok (some (d, file))
  | n :: ns, d, file =>
    match lookupVal vals n with
    | none => .error .attributeError
    | some .none => .ok none
    | some (.file f) =>
      match file with
      | some _ => .error .multiplePaths
      | none => collect vals ns d (some (n, f))
    | some (.sc s) => collect vals ns (dictSet d n (.sc s)) file
    | some (.list xs) => collect vals ns (dictSet d n (.list xs)) file

inductive Formatted
  | one (s : Str)
  | many (ss : List Str)
  deriving DecidableEq, Repr

def isListEntry : Str × DVal → Bool
  | (_, .list _) => true
  | _ => false

def listLen : DVal → Nat
  | .list xs => xs.length
  | _ => 0

/-- `val_dict_el`: every list entry replaced by its `i`-th element -/
def pickElem (d : Dict) (i : Nat) : Dict :=
  d.map fun e => match e.2 with
    | .list xs => (e.1, match xs[i]? with | some x => DVal.sc x | none => DVal.list [])
    | _ => e

def singleFormat (c : Config) : Except Err (Option Formatted) :=
  let names := fieldNames c.tmpl
  if names = [] then .ok (some (.one c.tmpl)) else
  match collect c.vals names [] none with
  | .error e => .error e
  | .ok none => .ok none
  | .ok (some (d, file)) =>
    let lists := d.filter isListEntry
    if c.multi ∧ lists ≠ [] then
      let n := match lists with | e :: _ => listLen e.2 | [] => 0
      if lists.any (fun e => listLen e.2 != n) then .error .lengthMismatch else
      ((List.range n).mapM (fun i => elementFormat c.tmpl (pickElem d i) file c.keep)).map (fun ss => some (.many ss))
    else
      (elementFormat c.tmpl d file c.keep).map (fun s => some (.one s))

/-! ### `template_update_single` / `_resolve_value` -/

/-- what the user gave for the outarg itself -/
inductive Given
  | template            -- `True` (the default of a mandatory outarg): use the template
  | off                 -- `False` / `None`
  | path (p : Str)      -- an explicit path
  deriving DecidableEq, Repr

inductive Out
  | absent
  | one (p : Str)
  | many (ps : List Str)
  deriving DecidableEq, Repr

def resolve (cd : Str) (c : Config) (g : Given) : Except Err Out :=
  match g with
  | .path p => .ok (.one p)
  | .off => .ok .absent
  | .template =>
    match singleFormat c with
    | .error e => .error e
    | .ok none => .ok .absent
    | .ok (some (.one s)) => .ok (.one (joinCd cd (pathName s)))
    | .ok (some (.many ss)) => .ok (.many (ss.map fun s => joinCd cd (pathName s)))

/-- `ShellOutputs._resolve_value` for an outarg with a template: `spec_type="output"` skips the
    explicit-value branch (explicit `Path`s are passed through by `_from_job` before it is called). -/
def resolveOutput (cd : Str) (c : Config) : Except Err Out := resolve cd c .template

/-! ### the property's vocabulary -/

/-- a plain file name: non-empty, not "." or "..", no separator -/
def IsPlainName (n : Str) : Prop := n ≠ [] ∧ n ≠ ['.'] ∧ n ≠ ['.', '.'] ∧ '/' ∉ n

instance (n : Str) : Decidable (IsPlainName n) := by unfold IsPlainName; infer_instance

/-- `p` is `cd / n` for a plain name `n` -/
def InsideAsPlainName (cd p : Str) : Prop := ∃ n, IsPlainName n ∧ p = cd ++ '/' :: n

/-- the last component of a formatted template is a usable name (decidable; the D16 match rule is its negation) -/
def TailOK (s : Str) : Bool :=
  match (comps s).getLast? with
  | none => false
  | some l => l != ['.', '.']

/-- the formatted strings of a configuration (before `Path(..).name`) -/
def formattedStrings (c : Config) : List Str :=
  match singleFormat c with
  | .ok (some (.one s)) => [s]
  | .ok (some (.many ss)) => ss
  | _ => []

def TemplateTailOK (c : Config) : Bool := (formattedStrings c).all TailOK

end PydraModel.PathTemplate
