import PydraModel.PathTemplate.Model
/-
Helper lemmas for C26: path components, `str.split`, literal tails of format strings.
-/
namespace PydraModel.PathTemplate
open PydraModel

/-! ### `splitOnChar` -/

theorem splitOnChar_ne_nil (c : Char) (s : Str) : splitOnChar c s ≠ [] := by
  induction s with
  | nil => simp [splitOnChar]
  | cons x xs ih =>
    unfold splitOnChar
    split
    · simp
    · split <;> simp

theorem splitOnChar_no_sep (c : Char) (s : Str) : ∀ p ∈ splitOnChar c s, c ∉ p := by
  induction s with
  | nil => intro p hp; simp [splitOnChar] at hp; subst hp; simp
  | cons x xs ih =>
    intro p hp
    unfold splitOnChar at hp
    split at hp
    · rcases List.mem_cons.mp hp with rfl | h
      · simp
      · exact ih p h
    · rename_i hx
      split at hp
      · simp at hp; subst hp; simp; exact fun h => hx h.symm
      · rename_i q qs heq
        rcases List.mem_cons.mp hp with rfl | h
        · have hq : c ∉ q := ih q (by rw [heq]; simp)
          simp only [List.mem_cons, not_or]
          exact ⟨fun h => hx h.symm, hq⟩
        · exact ih p (by rw [heq]; simp [h])

/-- splitting a string that has no separator gives the string itself -/
theorem splitOnChar_of_not_mem (c : Char) (s : Str) (h : c ∉ s) : splitOnChar c s = [s] := by
  induction s with
  | nil => rfl
  | cons x xs ih =>
    have hx : x ≠ c := fun e => h (by simp [e])
    have hxs : c ∉ xs := fun e => h (by simp [e])
    unfold splitOnChar
    simp [hx, ih hxs]

/-- appending a separator-free tail only extends the last piece -/
theorem splitOnChar_append (c : Char) (s t : Str) (ht : c ∉ t) :
    splitOnChar c (s ++ t) = (splitOnChar c s).dropLast ++ [((splitOnChar c s).getLast (splitOnChar_ne_nil c s)) ++ t] := by
  induction s with
  | nil => simp [splitOnChar, splitOnChar_of_not_mem c t ht]
  | cons x xs ih =>
    by_cases hx : x = c
    · subst hx
      have h1 : splitOnChar x (x :: xs ++ t) = [] :: splitOnChar x (xs ++ t) := by
        simp [splitOnChar]
      have h2 : splitOnChar x (x :: xs) = [] :: splitOnChar x xs := by simp [splitOnChar]
      have hne := splitOnChar_ne_nil x xs
      rw [h1, ih]
      simp only [h2]
      rw [List.dropLast_cons_of_ne_nil hne, List.getLast_cons hne]
      simp
    · have hne := splitOnChar_ne_nil c xs
      obtain ⟨p, ps, hps⟩ : ∃ p ps, splitOnChar c xs = p :: ps := by
        cases h : splitOnChar c xs with
        | nil => exact absurd h hne
        | cons p ps => exact ⟨p, ps, rfl⟩
      have h2 : splitOnChar c (x :: xs) = (x :: p) :: ps := by
        simp [splitOnChar, hx, hps]
      have hne' := splitOnChar_ne_nil c (xs ++ t)
      obtain ⟨q, qs, hqs⟩ : ∃ q qs, splitOnChar c (xs ++ t) = q :: qs := by
        cases h : splitOnChar c (xs ++ t) with
        | nil => exact absurd h hne'
        | cons q qs => exact ⟨q, qs, rfl⟩
      have h1 : splitOnChar c (x :: xs ++ t) = (x :: q) :: qs := by
        simp [splitOnChar, hx, hqs]
      rw [h1]
      simp only [h2]
      have ih' := ih
      rw [hqs] at ih'
      simp only [hps] at ih'
      cases ps with
      | nil =>
        simp at ih'
        simp [ih']
      | cons r rs =>
        simp at ih'
        simp [ih']

/-! ### components and names -/

def keepComp (c : Str) : Bool := !(c == [] || c == ['.'])

theorem comps_eq (p : Str) : comps p = (splitOnChar '/' p).filter keepComp := rfl

theorem mem_comps {p c : Str} (h : c ∈ comps p) : c ≠ [] ∧ c ≠ ['.'] ∧ '/' ∉ c := by
  rw [comps_eq] at h
  obtain ⟨h1, h2⟩ := List.mem_filter.mp h
  have := splitOnChar_no_sep '/' p c h1
  refine ⟨?_, ?_, this⟩
  · intro e; subst e; simp [keepComp] at h2
  · intro e; subst e; simp [keepComp] at h2

theorem getLast?_filter_append_singleton {α} (f : α → Bool) (l : List α) (a : α) (h : f a = true) :
    ((l ++ [a]).filter f).getLast? = some a := by
  simp [List.filter_append, h]

theorem pathName_cases (s : Str) :
    pathName s = [] ∨ pathName s = ['.', '.'] ∨ IsPlainName (pathName s) := by
  unfold pathName
  cases h : (comps s).getLast? with
  | none => left; rfl
  | some l =>
    have hm : l ∈ comps s := List.mem_of_getLast? h
    obtain ⟨h1, h2, h3⟩ := mem_comps hm
    by_cases hd : l = ['.', '.']
    · right; left; simpa using hd
    · right; right; simpa [IsPlainName] using ⟨h1, h2, hd, h3⟩

theorem pathName_of_tailOK {s : Str} (h : TailOK s = true) : IsPlainName (pathName s) := by
  unfold TailOK at h
  unfold pathName
  cases hl : (comps s).getLast? with
  | none => simp [hl] at h
  | some l =>
    simp [hl] at h
    have hm : l ∈ comps s := List.mem_of_getLast? hl
    obtain ⟨h1, h2, h3⟩ := mem_comps hm
    simpa [IsPlainName] using ⟨h1, h2, h, h3⟩

theorem pathName_of_not_tailOK {s : Str} (h : TailOK s = false) :
    pathName s = [] ∨ pathName s = ['.', '.'] := by
  unfold TailOK at h
  unfold pathName
  cases hl : (comps s).getLast? with
  | none => left; rfl
  | some l =>
    simp [hl] at h
    right; simpa using h

/-- the last component of `pre ++ suf` when `suf` is separator-free and not made of dots only -/
theorem comps_getLast_append (pre suf : Str) (hs : '/' ∉ suf) (hdot : ∃ c ∈ suf, c ≠ '.') :
    (comps (pre ++ suf)).getLast? =
      some (((splitOnChar '/' pre).getLast (splitOnChar_ne_nil '/' pre)) ++ suf) := by
  rw [comps_eq, splitOnChar_append '/' pre suf hs]
  apply getLast?_filter_append_singleton
  obtain ⟨c, hc, hcd⟩ := hdot
  generalize (splitOnChar '/' pre).getLast (splitOnChar_ne_nil '/' pre) = l
  have hmem : c ∈ l ++ suf := by simp [hc]
  simp only [keepComp, Bool.not_eq_true', Bool.or_eq_false_iff, beq_eq_false_iff_ne, ne_eq]
  refine ⟨?_, ?_⟩
  · intro e; rw [e] at hmem; simp at hmem
  · intro e; rw [e] at hmem; simp at hmem; exact hcd hmem

theorem tailOK_append (pre suf : Str) (hs : '/' ∉ suf) (hdot : ∃ c ∈ suf, c ≠ '.') :
    TailOK (pre ++ suf) = true := by
  unfold TailOK
  rw [comps_getLast_append pre suf hs hdot]
  obtain ⟨c, hc, hcd⟩ := hdot
  generalize (splitOnChar '/' pre).getLast (splitOnChar_ne_nil '/' pre) = l
  have hmem : c ∈ l ++ suf := by simp [hc]
  simp only [bne_iff_ne, ne_eq]
  intro e
  rw [e] at hmem
  simp at hmem
  exact hcd hmem

theorem pathName_append (pre suf : Str) (hs : '/' ∉ suf) (hdot : ∃ c ∈ suf, c ≠ '.') :
    pathName (pre ++ suf) = ((splitOnChar '/' pre).getLast (splitOnChar_ne_nil '/' pre)) ++ suf := by
  unfold pathName
  rw [comps_getLast_append pre suf hs hdot]
  rfl

/-! ### `joinCd` -/

theorem joinCd_plain (cd n : Str) (h : n ≠ []) : joinCd cd n = cd ++ '/' :: n := by
  simp [joinCd, h]

/-! ### literal tails of format strings -/

def isLitChar (c : Char) : Bool := !(c == '{' || c == '}')

theorem fmtAux_none_lit (d : Dict) (suf : Str) (h : suf.all isLitChar = true) :
    fmtAux d none suf = .ok suf := by
  induction suf with
  | nil => rfl
  | cons c t ih =>
    simp only [List.all_cons, Bool.and_eq_true] at h
    have hc1 : c ≠ '{' := by
      intro e; subst e; simp [isLitChar] at h
    have hc2 : c ≠ '}' := by
      intro e; subst e; simp [isLitChar] at h
    have : fmtAux d none (c :: t) = (fmtAux d none t).map (c :: ·) := by
      rw [fmtAux.eq_def]
      split <;> simp_all
    rw [this, ih h.2]
    rfl

theorem map_ok {α β ε} {f : α → β} {x : Except ε α} {b : β} (h : Except.map f x = .ok b) :
    ∃ a, x = .ok a ∧ b = f a := by
  cases x with
  | error e => simp [Except.map] at h
  | ok a => simp [Except.map] at h; exact ⟨a, rfl, h.symm⟩

/-- `(t ++ suf).format(**d) = t.format(**d) + suf` for a brace-free literal `suf` (in every scanner state) -/
theorem fmtAux_append_lit (d : Dict) (suf : Str) (h : suf.all isLitChar = true) (st : Option Str) (t : Str) :
    ∀ s, fmtAux d st t = .ok s → fmtAux d st (t ++ suf) = .ok (s ++ suf) := by
  fun_induction fmtAux d st t with
  | case1 => intro s hs; cases hs; simpa using fmtAux_none_lit d suf h
  | case2 => intro s hs; cases hs
  | case3 t ih =>
    intro s hs
    obtain ⟨s', h1, rfl⟩ := map_ok hs
    simp [fmtAux, ih s' h1, Except.map]
  | case4 t ih =>
    intro s hs
    obtain ⟨s', h1, rfl⟩ := map_ok hs
    simp [fmtAux, ih s' h1, Except.map]
  | case5 t hn ih =>
    intro s hs
    cases t with
    | nil => simp [fmtAux] at hs
    | cons c t' =>
      have hc : c ≠ '{' := fun e => hn t' (by rw [e])
      have := ih s hs
      rw [List.cons_append, fmtAux.eq_5 _ _ (by intro t e; simp at e; exact hc e.1)]
      exact this
  | case6 => intro s hs; cases hs
  | case7 c t h1 h2 h3 h4 ih =>
    intro s hs
    obtain ⟨s', hs', rfl⟩ := map_ok hs
    rw [List.cons_append, fmtAux.eq_7 _ _ _ (by intro t e; exact absurd e h3) (by intro t e; exact absurd e h4) h3 h4]
    simp [ih s' hs', Except.map]
  | case8 => intro s hs; cases hs
  | case9 acc t s0 hr ih =>
    intro s hs
    obtain ⟨s', hs', rfl⟩ := map_ok hs
    simp [fmtAux, hr, ih s' hs', Except.map]
  | case10 => intro s hs; cases hs
  | case11 acc c t h1 h2 ih =>
    intro s hs
    rw [List.cons_append, fmtAux.eq_10 _ _ _ _ h1 h2]
    exact ih s hs

theorem fmt_append_lit (d : Dict) (t suf s : Str) (h : suf.all isLitChar = true) (hs : fmt d t = .ok s) :
    fmt d (t ++ suf) = .ok (s ++ suf) := fmtAux_append_lit d suf h none t s hs

/-- inside a replacement field a brace-free tail never closes the field -/
theorem fmtAux_some_lit_err (d : Dict) (suf : Str) (h : suf.all isLitChar = true) :
    ∀ acc, ∃ e, fmtAux d (some acc) suf = .error e := by
  induction suf with
  | nil => intro acc; exact ⟨_, rfl⟩
  | cons c t ih =>
    intro acc
    simp only [List.all_cons, Bool.and_eq_true] at h
    have hc1 : c ≠ '{' := by intro e; subst e; simp [isLitChar] at h
    have hc2 : c ≠ '}' := by intro e; subst e; simp [isLitChar] at h
    rw [fmtAux.eq_10 _ _ _ _ hc2 hc1]
    exact ih h.2 _

theorem head_lit {suf : Str} (h : suf.all isLitChar = true) (b : Char) (hb : isLitChar b = false) :
    ∀ t, suf = b :: t → False := by
  intro t e
  subst e
  simp only [List.all_cons, Bool.and_eq_true] at h
  rw [hb] at h
  exact absurd h.1 (by simp)

/-- an error of `t.format` is not repaired by appending a brace-free literal -/
theorem fmtAux_append_lit_err (d : Dict) (suf : Str) (h : suf.all isLitChar = true) (st : Option Str) (t : Str) :
    ∀ e, fmtAux d st t = .error e → ∃ e', fmtAux d st (t ++ suf) = .error e' := by
  fun_induction fmtAux d st t with
  | case1 => intro e he; cases he
  | case2 acc => intro e _; simpa using fmtAux_some_lit_err d suf h acc
  | case3 t ih =>
    intro e he
    cases hx : fmtAux d none t with
    | ok a => simp [hx, Except.map] at he
    | error e0 =>
      obtain ⟨e', h'⟩ := ih e0 hx
      exact ⟨e', by simp [fmtAux, h', Except.map]⟩
  | case4 t ih =>
    intro e he
    cases hx : fmtAux d none t with
    | ok a => simp [hx, Except.map] at he
    | error e0 =>
      obtain ⟨e', h'⟩ := ih e0 hx
      exact ⟨e', by simp [fmtAux, h', Except.map]⟩
  | case5 t hn ih =>
    intro e he
    have hn' : ∀ t', t ++ suf = '{' :: t' → False := by
      cases t with
      | nil => simpa using head_lit h '{' (by decide)
      | cons c t0 => intro t' e'; simp at e'; exact hn t0 (by rw [e'.1])
    obtain ⟨e', h'⟩ := ih e he
    exact ⟨e', by rw [List.cons_append, fmtAux.eq_5 _ _ hn']; exact h'⟩
  | case6 tail hn =>
    intro e _
    have hn' : ∀ t', tail ++ suf = '}' :: t' → False := by
      cases tail with
      | nil => simpa using head_lit h '}' (by decide)
      | cons c t0 => intro t' e'; simp at e'; exact hn t0 (by rw [e'.1])
    exact ⟨_, by rw [List.cons_append, fmtAux.eq_6 _ _ hn']⟩
  | case7 c t h1 h2 h3 h4 ih =>
    intro e he
    cases hx : fmtAux d none t with
    | ok a => simp [hx, Except.map] at he
    | error e0 =>
      obtain ⟨e', h'⟩ := ih e0 hx
      refine ⟨e', ?_⟩
      rw [List.cons_append, fmtAux.eq_7 _ _ _ (by intro t e; exact absurd e h3) (by intro t e; exact absurd e h4) h3 h4]
      simp [h', Except.map]
  | case8 acc t e0 hr => intro e _; exact ⟨e0, by simp [fmtAux, hr]⟩
  | case9 acc t s0 hr ih =>
    intro e he
    cases hx : fmtAux d none t with
    | ok a => simp [hx, Except.map] at he
    | error e0 =>
      obtain ⟨e', h'⟩ := ih e0 hx
      exact ⟨e', by simp [fmtAux, hr, h', Except.map]⟩
  | case10 acc tail => intro e _; exact ⟨.unmodelled "nested-brace", by simp [fmtAux]⟩
  | case11 acc c t h1 h2 ih =>
    intro e he
    obtain ⟨e', h'⟩ := ih e he
    exact ⟨e', by rw [List.cons_append, fmtAux.eq_10 _ _ _ _ h1 h2]; exact h'⟩

/-- every successful `(t ++ suf).format(**d)` ends with the literal `suf` -/
theorem fmt_append_lit_inv (d : Dict) (t suf s : Str) (h : suf.all isLitChar = true)
    (hs : fmt d (t ++ suf) = .ok s) : ∃ s', fmt d t = .ok s' ∧ s = s' ++ suf := by
  cases ht : fmt d t with
  | error e =>
    obtain ⟨e', h'⟩ := fmtAux_append_lit_err d suf h none t e ht
    unfold fmt at hs
    rw [h'] at hs
    cases hs
  | ok s' =>
    have := fmt_append_lit d t suf s' h ht
    rw [this] at hs
    cases hs
    exact ⟨s', rfl, rfl⟩

theorem collect_congr (vals vals' : List (Str × Val)) (ns : List Str)
    (h : ∀ n ∈ ns, lookupVal vals n = lookupVal vals' n) :
    ∀ d file, collect vals ns d file = collect vals' ns d file := by
  induction ns with
  | nil => intro d file; rfl
  | cons n ns ih =>
    intro d file
    have hn := h n (by simp)
    have ih' := ih (fun m hm => h m (by simp [hm]))
    unfold collect
    rw [hn]
    cases lookupVal vals' n with
    | none => rfl
    | some v =>
      cases v with
      | none => rfl
      | file f => cases file <;> simp [ih']
      | sc s => simp [ih']
      | list xs => simp [ih']

theorem splitExt_stem (n : Str) : splitExt (splitExt n).1 = ((splitExt n).1, none) := by
  unfold splitExt
  simp only
  have h1 : ∀ l : Str, (l.takeWhile (· != '.')).takeWhile (· != '.') = l.takeWhile (· != '.') := by
    intro l
    induction l with
    | nil => rfl
    | cons a l ih => by_cases ha : (a != '.') = true <;> simp [List.takeWhile, ha, ih]
  have h2 : ∀ l : Str, (l.takeWhile (· != '.')).dropWhile (· != '.') = [] := by
    intro l
    induction l with
    | nil => rfl
    | cons a l ih => by_cases ha : (a != '.') = true <;> simp [List.takeWhile, ha, ih]
  rw [h1, h2]

end PydraModel.PathTemplate
