import PydraModel.PathTemplate.Lemmas
/-
Helper lemmas for C26, part 2: the template `{x}suffix` end to end (field scans, formatting, name of the result).
-/
namespace PydraModel.PathTemplate
open PydraModel

theorem word_ne_brace {c : Char} (h : isWord c = true) : c ≠ '{' ∧ c ≠ '}' ∧ c ≠ ':' ∧ c ≠ '!' ∧ c ≠ '.' ∧ c ≠ '/' := by
  refine ⟨?_, ?_, ?_, ?_, ?_, ?_⟩ <;> (intro e; subst e; revert h; decide)

/-! ### the two scans on `{x}suf` -/

theorem findPlainAux_no_brace (st : Option Str) (s : Str) (h : '{' ∉ s) (hst : st = none) : findPlainAux st s = [] := by
  subst hst
  induction s with
  | nil => rfl
  | cons c t ih =>
    have hc : c ≠ '{' := fun e => h (by simp [e])
    have ht : '{' ∉ t := fun e => h (by simp [e])
    simp [findPlainAux, hc, ih ht]

theorem findPlainAux_word (acc x rest : Str) (hx : ∀ c ∈ x, isWord c = true) (hne : acc ++ x ≠ []) :
    findPlainAux (some acc) (x ++ '}' :: rest) = (acc ++ x) :: findPlainAux none rest := by
  induction x generalizing acc with
  | nil =>
    have : acc ≠ [] := by simpa using hne
    simp [findPlainAux, this, show isWord '}' = false by decide]
  | cons c t ih =>
    have hc := hx c (by simp)
    have hb := (word_ne_brace hc).1
    rw [List.cons_append]
    simp only [findPlainAux, hb, if_false, hc, if_true]
    rw [ih (acc ++ [c]) (fun d hd => hx d (by simp [hd])) (by simp)]
    simp

theorem findPlain_single (x suf : Str) (hx : ∀ c ∈ x, isWord c = true) (hne : x ≠ []) (hs : '{' ∉ suf) :
    findPlain ('{' :: (x ++ '}' :: suf)) = [x] := by
  unfold findPlain
  simp only [findPlainAux, if_true]
  rw [findPlainAux_word [] x suf hx (by simpa using hne), findPlainAux_no_brace none suf hs rfl]
  simp

theorem findSpecAux_no_brace (s : Str) (h : '{' ∉ s) : findSpecAux .out s = [] := by
  induction s with
  | nil => rfl
  | cons c t ih =>
    have hc : c ≠ '{' := fun e => h (by simp [e])
    have ht : '{' ∉ t := fun e => h (by simp [e])
    simp [findSpecAux, hc, ih ht]

theorem findSpecAux_word (acc x rest : Str) (hx : ∀ c ∈ x, isWord c = true) (hr : '{' ∉ rest) :
    findSpecAux (.name acc) (x ++ '}' :: rest) = [] := by
  induction x generalizing acc with
  | nil =>
    simp [findSpecAux, show isWord '}' = false by decide, findSpecAux_no_brace rest hr]
  | cons c t ih =>
    have hc := hx c (by simp)
    have hb := (word_ne_brace hc).1
    rw [List.cons_append]
    simp only [findSpecAux, hb, if_false, hc, if_true]
    exact ih (acc ++ [c]) (fun d hd => hx d (by simp [hd]))

theorem fieldNames_single (x suf : Str) (hx : ∀ c ∈ x, isWord c = true) (hne : x ≠ []) (hs : '{' ∉ suf) :
    fieldNames ('{' :: (x ++ '}' :: suf)) = [x] := by
  unfold fieldNames
  rw [findPlain_single x suf hx hne hs]
  unfold findSpec
  simp only [findSpecAux, if_true]
  rw [findSpecAux_word [] x suf hx hs]
  rfl

/-! ### formatting `{x}suf` -/

theorem fmtAux_field (d : Dict) (acc x rest : Str) (hx : ∀ c ∈ x, isWord c = true) :
    fmtAux d (some acc) (x ++ '}' :: rest)
      = match renderField d (acc ++ x) with
        | .error e => .error e
        | .ok s => (fmtAux d none rest).map (s ++ ·) := by
  induction x generalizing acc with
  | nil =>
    simp only [List.nil_append, List.append_nil, fmtAux]
    cases renderField d acc <;> rfl
  | cons c t ih =>
    have hc := hx c (by simp)
    obtain ⟨h1, h2, _⟩ := word_ne_brace hc
    rw [List.cons_append, fmtAux.eq_10 _ _ _ _ h2 h1, ih (acc ++ [c]) (fun d hd => hx d (by simp [hd]))]
    simp

theorem renderField_word (d : Dict) (x : Str) (v : Str) (hx : ∀ c ∈ x, isWord c = true) (hne : x ≠ [])
    (hnd : x.all Char.isDigit = false) (hl : lookup d x = some (.sc (.str v))) : renderField d x = .ok v := by
  have hp : ∀ c ∈ x, (!(c == ':' || c == '!')) = true := by
    intro c hc
    obtain ⟨_, _, h3, h4, _⟩ := word_ne_brace (hx c hc)
    simp [h3, h4]
  have h1 : x.takeWhile (fun c => !(c == ':' || c == '!')) = x := by
    clear hne hnd hl hx
    induction x with
    | nil => rfl
    | cons a l ih =>
      rw [List.takeWhile_cons, hp a (by simp)]
      simp only [if_true]
      rw [ih (fun c hc => hp c (by simp [hc]))]
  have h2 : x.dropWhile (fun c => !(c == ':' || c == '!')) = [] := by
    clear hne hnd hl hx h1
    induction x with
    | nil => rfl
    | cons a l ih =>
      rw [List.dropWhile_cons, hp a (by simp)]
      simp only [if_true]
      exact ih (fun c hc => hp c (by simp [hc]))
  have hall : x.all isWord = true := by simpa [List.all_eq_true] using hx
  unfold renderField
  simp only [h1, h2, hne, hall, hnd, hl]
  simp [formatScalar, scalarStr]

/-- `"{x}suf".format(x=v) = v + suf` for a word `x` and a brace-free `suf` -/
theorem fmt_single (d : Dict) (x suf v : Str) (hx : ∀ c ∈ x, isWord c = true) (hne : x ≠ [])
    (hnd : x.all Char.isDigit = false) (hs : suf.all isLitChar = true) (hl : lookup d x = some (.sc (.str v))) :
    fmt d ('{' :: (x ++ '}' :: suf)) = .ok (v ++ suf) := by
  unfold fmt
  have hhead : ∀ t, x ++ '}' :: suf = '{' :: t → False := by
    intro t e
    cases x with
    | nil => exact hne rfl
    | cons c r =>
      simp at e
      exact (word_ne_brace (hx c (by simp))).1 e.1
  rw [fmtAux.eq_5 _ _ hhead, fmtAux_field d [] x suf hx]
  simp only [List.nil_append, renderField_word d x v hx hne hnd hl, fmtAux_none_lit d suf hs]
  rfl

/-! ### the name of `/dir…/stem` followed by a separator-free tail -/

theorem splitOnChar_length_ge (c : Char) (s : Str) (h : c ∈ s) : 2 ≤ (splitOnChar c s).length := by
  induction s with
  | nil => simp at h
  | cons x xs ih =>
    by_cases hx : x = c
    · subst hx
      have : splitOnChar x (x :: xs) = [] :: splitOnChar x xs := by simp [splitOnChar]
      rw [this]
      have := List.length_pos_iff.mpr (splitOnChar_ne_nil x xs)
      simp only [List.length_cons]
      omega
    · have hc : c ∈ xs := by
        rcases List.mem_cons.mp h with e | e
        · exact absurd e.symm hx
        · exact e
      have := ih hc
      cases hs : splitOnChar c xs with
      | nil => exact absurd hs (splitOnChar_ne_nil c xs)
      | cons p ps =>
        have h2 : splitOnChar c (x :: xs) = (x :: p) :: ps := by simp [splitOnChar, hx, hs]
        rw [h2]
        rw [hs] at this
        simpa using this

/-- the last piece after a separator is the last piece of what follows it -/
theorem splitOnChar_getLast?_after (c : Char) (a b : Str) :
    (splitOnChar c (a ++ c :: b)).getLast? = (splitOnChar c b).getLast? := by
  induction a with
  | nil =>
    have : splitOnChar c (c :: b) = [] :: splitOnChar c b := by simp [splitOnChar]
    rw [List.nil_append, this, List.getLast?_cons_of_ne_nil (splitOnChar_ne_nil c b)]
  | cons x xs ih =>
    by_cases hx : x = c
    · subst hx
      have : splitOnChar x (x :: xs ++ x :: b) = [] :: splitOnChar x (xs ++ x :: b) := by simp [splitOnChar]
      rw [this, List.getLast?_cons_of_ne_nil (splitOnChar_ne_nil x _), ih]
    · have hlen := splitOnChar_length_ge c (xs ++ c :: b) (by simp)
      cases hs : splitOnChar c (xs ++ c :: b) with
      | nil => exact absurd hs (splitOnChar_ne_nil c _)
      | cons p ps =>
        have h2 : splitOnChar c (x :: xs ++ c :: b) = (x :: p) :: ps := by simp [splitOnChar, hx, hs]
        rw [hs] at ih hlen
        have hps : ps ≠ [] := by
          intro e; subst e; simp at hlen
        rw [h2, List.getLast?_cons_of_ne_nil hps, ← ih, List.getLast?_cons_of_ne_nil hps]

theorem renderAbs_snoc (cs : List Str) (n : Str) : renderAbs (cs ++ [n]) = (cs.flatMap (fun c => '/' :: c)) ++ '/' :: n := by
  simp [renderAbs, List.flatMap_append]

/-- `PurePosixPath("/d1/…/stem" + tail).name = stem + tail` for separator-free `stem`, `tail` with a non-dot character -/
theorem pathName_file_tail (dir : List Str) (stem tail : Str) (hs : '/' ∉ stem) (ht : '/' ∉ tail)
    (hdot : ∃ c ∈ tail, c ≠ '.') : pathName (renderAbs (dir ++ [stem]) ++ tail) = stem ++ tail := by
  have hst : '/' ∉ stem ++ tail := by simp [hs, ht]
  have hdot' : ∃ c ∈ stem ++ tail, c ≠ '.' := by
    obtain ⟨c, hc, hcd⟩ := hdot
    exact ⟨c, by simp [hc], hcd⟩
  have e : renderAbs (dir ++ [stem]) ++ tail = (dir.flatMap (fun c => '/' :: c) ++ ['/']) ++ (stem ++ tail) := by
    rw [renderAbs_snoc]; simp
  rw [e, pathName_append _ _ hst hdot']
  have hl : (splitOnChar '/' (dir.flatMap (fun c => '/' :: c) ++ ['/'])).getLast? = some [] := by
    have := splitOnChar_getLast?_after '/' (dir.flatMap (fun c => '/' :: c)) []
    simpa [splitOnChar] using this
  rw [List.getLast?_eq_some_getLast (splitOnChar_ne_nil '/' _)] at hl
  rw [Option.some.inj hl]
  rfl

theorem splitExt_of (stem ext : Str) (h : '.' ∉ stem) : splitExt (stem ++ '.' :: ext) = (stem, some ext) := by
  have hp : ∀ l : Str, '.' ∉ l → (l ++ '.' :: ext).takeWhile (· != '.') = l ∧ (l ++ '.' :: ext).dropWhile (· != '.') = '.' :: ext := by
    intro l
    induction l with
    | nil => intro _; simp
    | cons a l ih =>
      intro hl
      have ha : a ≠ '.' := fun e => hl (by simp [e])
      have := ih (fun e => hl (by simp [e]))
      simp [ha, this]
  unfold splitExt
  simp [(hp stem h).1, (hp stem h).2]

theorem endsWithField_false (x suf : Str) (hne : suf ≠ []) (hs : suf.all isLitChar = true) :
    endsWithField ('{' :: (x ++ '}' :: suf)) x = false := by
  obtain ⟨ini, l, rfl⟩ : ∃ ini l, suf = ini ++ [l] := by
    rcases List.eq_nil_or_concat suf with h | ⟨ini, l, h⟩
    · exact absurd h hne
    · exact ⟨ini, l, by simpa using h⟩
  have hl : l ≠ '}' := by
    intro e; subst e
    simp [List.all_append, isLitChar] at hs
  unfold endsWithField
  rw [Bool.eq_false_iff]
  intro h
  have := List.isSuffixOf_iff_suffix.mp h
  obtain ⟨t, ht⟩ := this
  have e1 : (t ++ ('{' :: x ++ ['}'])).getLast? = some '}' := by
    rw [show t ++ ('{' :: x ++ ['}']) = (t ++ '{' :: x) ++ ['}'] by simp]
    exact List.getLast?_concat
  have e2 : ('{' :: (x ++ '}' :: (ini ++ [l]))).getLast? = some l := by
    rw [show '{' :: (x ++ '}' :: (ini ++ [l])) = ('{' :: (x ++ '}' :: ini)) ++ [l] by simp]
    exact List.getLast?_concat
  rw [ht, e2] at e1
  exact hl (Option.some.inj e1)

end PydraModel.PathTemplate
