import PydraModel.Gen.RulesCallSites
/-
C31 "violations are reported before any execution": the ordered call events of `Task.__call__`,
`Submitter.__call__`, `Job.__init__`, `Job.run`, `Task._check_rules` are regenerated from the source on every
run (`Gen/RulesCallSites.lean`); the ordering statements below are closed by `decide` on that data, and the
meaning of the boolean checker is given by a general lemma.
-/
namespace PydraModel.Rules.CallSites
open PydraModel.Gen.RulesCallSites

structure Ev where
  recv : String
  attr : String
  /-- inside if / loop / try / nested definition: not certain to have completed when later statements run -/
  guarded : Bool
  deriving DecidableEq, Repr

def ofRaw (r : RawEv) : Ev := ⟨r.1, r.2.1, r.2.2⟩

/-- calls that start the execution of a job or of a task body -/
def isExec (e : Ev) : Bool :=
  e.attr == "submit" || e.attr == "run" || e.attr == "run_async" || e.attr == "_run" ||
  e.attr == "run_until_complete"

/-- an unconditional call of the rule check -/
def isCheck (e : Ev) : Bool := e.attr == "_check_rules" && !e.guarded

def checkedBeforeGo (p q : Ev → Bool) : Bool → List Ev → Bool
  | _, [] => true
  | seen, e :: es => (!(q e) || seen) && checkedBeforeGo p q (seen || p e) es

/-- every `q`-event is preceded by a `p`-event -/
def checkedBefore (p q : Ev → Bool) (l : List Ev) : Bool := checkedBeforeGo p q false l

theorem checkedBeforeGo_spec (p q : Ev → Bool) (seen : Bool) (l : List Ev)
    (h : checkedBeforeGo p q seen l = true) :
    ∀ pre e post, l = pre ++ e :: post → q e = true → seen = true ∨ ∃ c ∈ pre, p c = true := by
  induction l generalizing seen with
  | nil => intro pre e post hl; cases pre <;> simp at hl
  | cons x xs ih =>
    intro pre e post hl hq
    unfold checkedBeforeGo at h
    rw [Bool.and_eq_true] at h
    cases pre with
    | nil =>
      simp at hl
      obtain ⟨rfl, _⟩ := hl
      left
      have := h.1
      simpa [hq] using this
    | cons y ys =>
      simp at hl
      obtain ⟨rfl, rfl⟩ := hl
      rcases ih (seen || p x) h.2 ys e post rfl hq with hs | ⟨c, hc, hp⟩
      · rcases Bool.or_eq_true _ _ |>.mp hs with h1 | h1
        · exact Or.inl h1
        · exact Or.inr ⟨x, by simp, h1⟩
      · exact Or.inr ⟨c, by simp [hc], hp⟩

/-- Meaning of the checker, for every event list: each `q`-event has a `p`-event strictly before it. -/
theorem checkedBefore_spec (p q : Ev → Bool) (l : List Ev) (h : checkedBefore p q l = true) :
    ∀ pre e post, l = pre ++ e :: post → q e = true → ∃ c ∈ pre, p c = true := by
  intro pre e post hl hq
  rcases checkedBeforeGo_spec p q false l h pre e post hl hq with h | h
  · simp at h
  · exact h

/-- replace each call of the `Job` constructor by the events of `Job.__init__` -/
def inlineJob (body l : List Ev) : List Ev :=
  l.flatMap (fun e => if e.recv == "" && e.attr == "Job"
                      then body.map (fun b => { b with guarded := b.guarded || e.guarded }) else [e])

def taskCallEv := taskCall.map ofRaw
def checkRulesEv := checkRules.map ofRaw
def submitterCallEv := submitterCall.map ofRaw
def submitterSubmitEv := submitterSubmit.map ofRaw
def jobInitEv := jobInit.map ofRaw
def jobRunEv := jobRun.map ofRaw

end PydraModel.Rules.CallSites
