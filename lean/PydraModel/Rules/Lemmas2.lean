import PydraModel.Rules.Lemmas
namespace PydraModel.Rules

/-- Definitions the generator produces: fields that carry or are named in requirements can be left
    unset only at the price of a "Mandatory field" error (no `readonly` / `path_template` fields), and
    requirements name fields of the task (`Task._check_arg_refs`). -/
def Closed (d : Def) : Prop :=
  (∀ f ∈ d.fields, f.requires ≠ [] → f.exempt = false) ∧
  (∀ f ∈ d.fields, ∀ rs ∈ f.requires, ∀ r ∈ rs, ∃ g ∈ d.fields, g.name = r.name ∧ g.exempt = false)

instance (d : Def) : Decidable (Closed d) := by unfold Closed; infer_instance

/-- The assignments on which the code's three notions of "set" cannot be told apart from the property's:
    no empty string in an exclusive group, no `False` on a required field whose type is not exactly `bool`,
    no `True` on an optional file-set field, no lazy value on a field that has requirements. -/
def Uniform (d : Def) (a : Assignment) : Prop :=
  (∀ g ∈ d.xor, ∀ x ∈ g, ∀ n, x = some n → a n ≠ .str "") ∧
  (∀ f ∈ d.fields, ∀ rs ∈ f.requires, ∀ r ∈ rs, a r.name = .bool false → isBoolField d r.name = true) ∧
  (∀ f ∈ d.fields, f.optFileset = true → a f.name ≠ .bool true) ∧
  (∀ f ∈ d.fields, f.requires ≠ [] → a f.name ≠ .lazy)

instance (d : Def) (a : Assignment) : Decidable (Uniform d a) := by unfold Uniform; infer_instance

theorem triggers_iff_isSet (f : Field) (v : Val) (hu : v ≠ .unset) (hf : f.optFileset = true → v ≠ .bool true)
    (hl : v ≠ .lazy) :
    triggers f v = true ↔ IsSet v := by
  unfold triggers IsSet
  cases v with
  | unset => exact (hu rfl).elim
  | lazy => exact (hl rfl).elim
  | none => simp
  | str s => simp
  | bool b =>
    cases b with
    | false => simp
    | true =>
      cases ho : f.optFileset with
      | false => simp
      | true => exact ((hf ho) rfl).elim

theorem truthy_iff_isSet (v : Val) (h : v ≠ .str "") : truthy v = true ↔ IsSet v := by
  unfold truthy IsSet
  cases v with
  | unset => simp
  | none => simp
  | bool b => cases b <;> simp
  | lazy => simp
  | str s =>
    have : s ≠ "" := fun hs => h (by rw [hs])
    simp [this]

theorem codeReq_iff_isSet (d : Def) (n : Name) (v : Val) (hu : v ≠ .unset)
    (hb : v = .bool false → isBoolField d n = true) :
    (v ≠ .none ∧ ¬ (isBoolField d n = true ∧ v = .bool false)) ↔ IsSet v := by
  unfold IsSet
  constructor
  · rintro ⟨h1, h2⟩
    refine ⟨hu, h1, ?_⟩
    intro hv
    exact h2 ⟨hb hv, hv⟩
  · rintro ⟨_, h1, h2⟩
    exact ⟨h1, fun h => h2 h.2⟩

/-- On `Uniform` assignments of `Closed` definitions the code's reading and the property's reading coincide. -/
theorem codeRulesOK_iff_rulesOK (d : Def) (a : Assignment) (hc : Closed d) (hu : Uniform d a) :
    CodeRulesOK d a ↔ RulesOK d a := by
  unfold CodeRulesOK RulesOK RulesOKWith
  obtain ⟨hc1, hc2⟩ := hc
  obtain ⟨hu1, hu2, hu3, hu4⟩ := hu
  constructor
  · rintro ⟨hM, hR, hX⟩
    refine ⟨hM, ?_, ?_⟩
    · intro f hf hset hreq
      have hne : a f.name ≠ .unset := hM f hf (hc1 f hf hreq)
      have ht := (triggers_iff_isSet f (a f.name) hne (hu3 f hf) (hu4 f hf hreq)).mpr hset
      obtain ⟨rs, hrs, hall⟩ := hR f hf ht hreq
      refine ⟨rs, hrs, ?_⟩
      intro r hr
      obtain ⟨g, hg, hgn, hge⟩ := hc2 f hf rs hrs r hr
      have hne' : a r.name ≠ .unset := by rw [← hgn]; exact hM g hg hge
      obtain ⟨h1, h2⟩ := hall r hr
      exact ⟨(codeReq_iff_isSet d r.name (a r.name) hne' (hu2 f hf rs hrs r hr)).mp h1, h2⟩
    · intro g hg
      obtain ⟨hx1, hx2⟩ := hX g hg
      refine ⟨?_, ?_⟩
      · intro n m hn hm sn sm
        exact hx1 n m hn hm ((truthy_iff_isSet _ (hu1 g hg _ hn n rfl)).mpr sn)
          ((truthy_iff_isSet _ (hu1 g hg _ hm m rfl)).mpr sm)
      · rcases hx2 with h | ⟨n, hn, sn⟩
        · exact Or.inl h
        · exact Or.inr ⟨n, hn, (truthy_iff_isSet _ (hu1 g hg _ hn n rfl)).mp sn⟩
  · rintro ⟨hM, hR, hX⟩
    refine ⟨hM, ?_, ?_⟩
    · intro f hf ht hreq
      have hne : a f.name ≠ .unset := hM f hf (hc1 f hf hreq)
      have hset := (triggers_iff_isSet f (a f.name) hne (hu3 f hf) (hu4 f hf hreq)).mp ht
      obtain ⟨rs, hrs, hall⟩ := hR f hf hset hreq
      refine ⟨rs, hrs, ?_⟩
      intro r hr
      obtain ⟨g, hg, hgn, hge⟩ := hc2 f hf rs hrs r hr
      have hne' : a r.name ≠ .unset := by rw [← hgn]; exact hM g hg hge
      obtain ⟨h1, h2⟩ := hall r hr
      exact ⟨(codeReq_iff_isSet d r.name (a r.name) hne' (hu2 f hf rs hrs r hr)).mpr h1, h2⟩
    · intro g hg
      obtain ⟨hx1, hx2⟩ := hX g hg
      refine ⟨?_, ?_⟩
      · intro n m hn hm sn sm
        exact hx1 n m hn hm ((truthy_iff_isSet _ (hu1 g hg _ hn n rfl)).mp sn)
          ((truthy_iff_isSet _ (hu1 g hg _ hm m rfl)).mp sm)
      · rcases hx2 with h | ⟨n, hn, sn⟩
        · exact Or.inl h
        · exact Or.inr ⟨n, hn, (truthy_iff_isSet _ (hu1 g hg _ hn n rfl)).mpr sn⟩

/-! ### the executable spec decides `RulesOK` -/

theorem isSetb_iff (v : Val) : isSetb v = true ↔ IsSet v := by
  unfold isSetb IsSet; cases v <;> simp

theorem reqOKb_iff (a : Assignment) (r : Req) :
    reqOKb a r = true ↔ ReqOK (fun _ v => IsSet v) a r := by
  unfold reqOKb ReqOK
  rw [Bool.and_eq_true, isSetb_iff]
  apply and_congr_right
  intro _
  cases hal : r.allowed <;> simp

theorem rulesOKb_iff (d : Def) (a : Assignment) (hwf : WF d) : rulesOKb d a = true ↔ RulesOK d a := by
  unfold rulesOKb RulesOK RulesOKWith
  rw [Bool.and_eq_true, Bool.and_eq_true, List.all_eq_true, List.all_eq_true, List.all_eq_true]
  rw [and_assoc]
  refine and_congr ?_ (and_congr ?_ ?_)
  · apply forall_congr'; intro f; apply imp_congr_right; intro _
    cases f.exempt <;> simp
  · apply forall_congr'; intro f; apply imp_congr_right; intro _
    by_cases hs : IsSet (a f.name)
    · have hb := (isSetb_iff _).mpr hs
      by_cases hr : f.requires = []
      · simp [hb, hr]
      · have hne : f.requires.isEmpty = false := by
          cases hreq : f.requires with
          | nil => exact (hr hreq).elim
          | cons _ _ => rfl
        simp only [hb, hne, Bool.not_true, Bool.false_or, List.any_eq_true, List.all_eq_true]
        constructor
        · rintro ⟨rs, hrs, h⟩ _ _
          exact ⟨rs, hrs, fun r hr => (reqOKb_iff a r).mp (h r hr)⟩
        · intro h
          obtain ⟨rs, hrs, h⟩ := h hs hr
          exact ⟨rs, hrs, fun r hr => (reqOKb_iff a r).mpr (h r hr)⟩
    · have hb : isSetb (a f.name) = false := by
        cases h : isSetb (a f.name) with
        | false => rfl
        | true => exact (hs ((isSetb_iff _).mp h)).elim
      simp [hb, hs]
  · apply forall_congr'; intro g; apply imp_congr_right; intro hg
    have hnd := hwf g hg
    have hcount := filter_length_le_one_iff (fun n => isSetb (a n)) (g.filterMap id) hnd
    have hpos := filter_length_pos_iff (fun n => isSetb (a n)) (g.filterMap id)
    simp only [mem_filterMap_id, isSetb_iff] at hcount hpos
    rw [← hcount, ← hpos]
    simp only [Bool.and_eq_true, Bool.or_eq_true, decide_eq_true_eq, List.contains_iff_mem, beq_iff_eq]
    constructor
    · rintro ⟨h1, h2⟩
      refine ⟨h1, ?_⟩
      rcases h2 with h | h
      · exact Or.inl h
      · exact Or.inr (by omega)
    · rintro ⟨h1, h2⟩
      refine ⟨h1, ?_⟩
      rcases h2 with h | h
      · exact Or.inl h
      · exact Or.inr (by omega)

def decRulesOK (d : Def) (a : Assignment) (hwf : WF d) : Decidable (RulesOK d a) :=
  decidable_of_iff _ (rulesOKb_iff d a hwf)

end PydraModel.Rules
