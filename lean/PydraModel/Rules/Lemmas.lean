import PydraModel.Rules.Spec
namespace PydraModel.Rules

/-! ### lists -/

/-- In a duplicate-free list, "at most one element satisfies `p`" is a statement about the filtered length. -/
theorem filter_length_le_one_iff {α} (p : α → Bool) (l : List α) (hnd : l.Nodup) :
    (l.filter p).length ≤ 1 ↔ ∀ x y, x ∈ l → y ∈ l → p x = true → p y = true → x = y := by
  induction l with
  | nil => simp
  | cons h t ih =>
    rw [List.nodup_cons] at hnd
    have ih := ih hnd.2
    by_cases hp : p h = true
    · simp only [List.filter_cons, hp, if_true, List.length_cons]
      constructor
      · intro hlen x y hx hy px py
        have ht : t.filter p = [] := by
          cases hft : t.filter p with
          | nil => rfl
          | cons z zs => rw [hft] at hlen; simp at hlen
        have hnone : ∀ z ∈ t, p z = true → False := by
          intro z hz pz
          have : z ∈ t.filter p := List.mem_filter.mpr ⟨hz, pz⟩
          rw [ht] at this; simp at this
        rcases List.mem_cons.mp hx with rfl | hx'
        · rcases List.mem_cons.mp hy with rfl | hy'
          · rfl
          · exact (hnone y hy' py).elim
        · exact (hnone x hx' px).elim
      · intro hall
        have : t.filter p = [] := by
          apply List.filter_eq_nil_iff.mpr
          intro z hz pz
          have := hall h z (by simp) (by simp [hz]) hp pz
          subst this
          exact hnd.1 hz
        simp [this]
    · simp only [List.filter_cons, hp]
      simp only [Bool.false_eq_true, if_false]
      rw [ih]
      constructor
      · intro hall x y hx hy px py
        rcases List.mem_cons.mp hx with rfl | hx'
        · exact (hp px).elim
        · rcases List.mem_cons.mp hy with rfl | hy'
          · exact (hp py).elim
          · exact hall x y hx' hy' px py
      · intro hall x y hx hy px py
        exact hall x y (by simp [hx]) (by simp [hy]) px py

theorem filter_length_pos_iff {α} (p : α → Bool) (l : List α) :
    (l.filter p).length ≠ 0 ↔ ∃ x, x ∈ l ∧ p x = true := by
  constructor
  · intro h
    cases hf : l.filter p with
    | nil => rw [hf] at h; simp at h
    | cons z zs =>
      have : z ∈ l.filter p := by rw [hf]; simp
      exact ⟨z, List.mem_filter.mp this⟩
  · rintro ⟨x, hx, px⟩ h
    have : x ∈ l.filter p := List.mem_filter.mpr ⟨hx, px⟩
    have h0 : l.filter p = [] := List.length_eq_zero_iff.mp h
    rw [h0] at this; simp at this

theorem mem_filterMap_id {α} (g : List (Option α)) (n : α) : n ∈ g.filterMap id ↔ some n ∈ g := by
  simp [List.mem_filterMap]

/-! ### requirement clause -/

theorem reqSatisfied_iff (d : Def) (a : Assignment) (r : Req) :
    reqSatisfied d a r = true ↔
      ReqOK (fun n v => v ≠ .none ∧ ¬ (isBoolField d n = true ∧ v = .bool false)) a r := by
  unfold reqSatisfied ReqOK
  cases hv : a r.name <;> cases hb : isBoolField d r.name <;> cases hal : r.allowed <;>
    simp [inAllowed, hb]

theorem rsSatisfied_iff (d : Def) (a : Assignment) (rs : List Req) :
    rsSatisfied d a rs = true ↔
      ∀ r ∈ rs, ReqOK (fun n v => v ≠ .none ∧ ¬ (isBoolField d n = true ∧ v = .bool false)) a r := by
  unfold rsSatisfied
  rw [List.all_eq_true]
  exact forall_congr' (fun r => imp_congr_right (fun _ => reqSatisfied_iff d a r))

/-- the per-field part of the loop reports nothing iff the mandatory and the requires clause hold for it -/
theorem fieldViolations_nil_iff (d : Def) (a : Assignment) (f : Field) :
    fieldViolations d a f = [] ↔
      (f.exempt = false → a f.name ≠ .unset) ∧
      (triggers f (a f.name) = true → f.requires ≠ [] →
        ∃ rs ∈ f.requires, ∀ r ∈ rs,
          ReqOK (fun n v => v ≠ .none ∧ ¬ (isBoolField d n = true ∧ v = .bool false)) a r) := by
  unfold fieldViolations
  rw [List.append_eq_nil_iff]
  apply and_congr
  · by_cases hu : a f.name = .unset <;> cases hx : f.exempt <;> simp [hu]
  · by_cases ht : triggers f (a f.name) = true
    · by_cases hr : f.requires = []
      · simp [ht, hr]
      · have hne : f.requires.isEmpty = false := by
          cases hreq : f.requires with
          | nil => exact (hr hreq).elim
          | cons _ _ => rfl
        by_cases hany : f.requires.any (rsSatisfied d a) = true
        · have : ∃ rs ∈ f.requires, rsSatisfied d a rs = true := List.any_eq_true.mp hany
          obtain ⟨rs, hrs, hs⟩ := this
          simp only [ht, hne, hany]
          simp only [Bool.not_true, Bool.and_false, Bool.false_eq_true, if_false, true_iff]
          intro _ _
          exact ⟨rs, hrs, (rsSatisfied_iff d a rs).mp hs⟩
        · have hany' : f.requires.any (rsSatisfied d a) = false := by simpa using hany
          simp only [ht, hne, hany']
          simp only [Bool.not_false, Bool.and_true, if_true]
          constructor
          · intro h; simp at h
          · intro h
            exfalso
            obtain ⟨rs, hrs, hs⟩ := h trivial hr
            exact hany (List.any_eq_true.mpr ⟨rs, hrs, (rsSatisfied_iff d a rs).mpr hs⟩)
    · have ht' : triggers f (a f.name) = false := by simpa using ht
      simp [ht']

/-! ### xor clause -/

theorem xorViolations_nil_iff (a : Assignment) (g : List (Option Name)) (hnd : (g.filterMap id).Nodup) :
    xorViolations a g = [] ↔
      (∀ n m, some n ∈ g → some m ∈ g → truthy (a n) = true → truthy (a m) = true → n = m) ∧
      (none ∈ g ∨ ∃ n, some n ∈ g ∧ truthy (a n) = true) := by
  have hcount := filter_length_le_one_iff (fun n => truthy (a n)) (g.filterMap id) hnd
  have hpos := filter_length_pos_iff (fun n => truthy (a n)) (g.filterMap id)
  simp only [mem_filterMap_id] at hcount hpos
  rw [← hcount, ← hpos]
  unfold xorViolations
  simp only []
  by_cases h1 : ((g.filterMap id).filter (fun n => truthy (a n))).length > 1
  · simp only [h1, if_true]
    constructor
    · intro h; simp at h
    · intro h; omega
  · simp only [h1, if_false]
    have hle : ((g.filterMap id).filter (fun n => truthy (a n))).length ≤ 1 := by omega
    by_cases h0 : ((g.filterMap id).filter (fun n => truthy (a n))).length = 0
    · have hnil : (g.filterMap id).filter (fun n => truthy (a n)) = [] := List.length_eq_zero_iff.mp h0
      by_cases hn : none ∈ g
      · simp [hnil, hn]
      · simp [hnil, hn]
    · have hne : ((g.filterMap id).filter (fun n => truthy (a n))).isEmpty = false := by
        cases hf : (g.filterMap id).filter (fun n => truthy (a n)) with
        | nil => rw [hf] at h0; simp at h0
        | cons _ _ => rfl
      simp only [hne]
      simp only [Bool.false_and, Bool.false_eq_true, if_false, true_iff]
      exact ⟨hle, Or.inr h0⟩

theorem ruleViolations_nil_iff (d : Def) (a : Assignment) :
    ruleViolations d a = [] ↔
      (∀ f ∈ d.fields, fieldViolations d a f = []) ∧ (∀ g ∈ d.xor, xorViolations a g = []) := by
  unfold ruleViolations
  rw [List.append_eq_nil_iff, List.flatMap_eq_nil_iff, List.flatMap_eq_nil_iff]

end PydraModel.Rules
