import PydraModel.Basic
/-
Engine `Rules` (DESIGN §5.7, property C31): `Task._rule_violations` (pydra/compose/base/task.py),
`Requirement.satisfied` / `RequirementSet.satisfied` (pydra/compose/base/field.py).

The model follows the loops of the pinned code, including its three different notions of "set":

* the field's own requirements are checked unless the value `is None`, `is False`, or is `True` on an
  optional file-set field                                       (`triggers`)
* a requirement on field `r` is satisfied unless the value `is None`, or `is False` *and* `r`'s type is
  exactly `bool`; `attrs.NOTHING` counts as present          (`reqSatisfied`)
* an xor group counts the fields whose value is truthy (`if v`)   (`truthy`)

Lazy values (`Val.lazy`: an input of a workflow node connected to an upstream output) are what the check sees when
`Workflow.construct` calls `node._task._check_rules()`: the field's own checks are skipped (`if is_lazy(value):
continue`), as a required field it counts as present (but never matches allowed values), and it is truthy for xor.
(`Job.__init__` rejects lazy values in `_check_resolved` before its own rule check.)
-/
namespace PydraModel.Rules

abbrev Name := String

/-- The values a field of the property's domain can hold. `unset` is `attrs.NOTHING`. -/
inductive Val where
  | unset
  | none
  | bool (b : Bool)
  | str (s : String)
  /-- a `LazyField` (workflow construction time) -/
  | lazy
  deriving DecidableEq, Repr, Inhabited

/-- `Requirement(name, allowed_values)` -/
structure Req where
  name : Name
  allowed : Option (List String)
  deriving DecidableEq, Repr

/-- What `_rule_violations` looks at in a field. -/
structure Field where
  name : Name
  /-- `field.type is bool` -/
  isBool : Bool
  /-- `is_optional(field.type) and is_fileset_or_union(field.type)` -/
  optFileset : Bool
  /-- `path_template` or `readonly`: no "Mandatory field" error -/
  exempt : Bool
  /-- `field.requires`: alternatives (OR) of requirement sets (AND) -/
  requires : List (List Req)
  deriving DecidableEq, Repr

structure Def where
  fields : List Field
  /-- `Task._xor`: groups of field names, possibly containing `None` -/
  xor : List (List (Option Name))
  deriving Repr

abbrev Assignment := Name → Val

inductive Violation where
  | mandatory (f : Name)
  | requires (f : Name)
  | xorMany (set : List Name)
  | xorNone (group : List Name)
  deriving DecidableEq, Repr

/-- `{f.name: f for f in get_fields(inputs)}[name].type is bool` -/
def isBoolField (d : Def) (n : Name) : Bool :=
  match d.fields.find? (fun f => f.name == n) with
  | some f => f.isBool
  | none => false

/-- `value in self.allowed_values` for a list of strings -/
def inAllowed : Val → List String → Bool
  | .str s, vs => vs.contains s
  | _, _ => false

/-- `Requirement.satisfied` -/
def reqSatisfied (d : Def) (a : Assignment) (r : Req) : Bool :=
  let v := a r.name
  if v == .none || (isBoolField d r.name && v == .bool false) then false
  else match r.allowed with
    | none => true
    | some vs => inAllowed v vs

/-- `RequirementSet.satisfied` -/
def rsSatisfied (d : Def) (a : Assignment) (rs : List Req) : Bool := rs.all (reqSatisfied d a)

/-- the guard in front of the requirement check of a field (a lazy value skips the field: `continue`) -/
def triggers (f : Field) (v : Val) : Bool :=
  !(v == .lazy || v == .none || v == .bool false || (f.optFileset && v == .bool true))

/-- body of the `for field in get_fields(self)` loop -/
def fieldViolations (d : Def) (a : Assignment) (f : Field) : List Violation :=
  (if a f.name == .unset && !f.exempt then [.mandatory f.name] else []) ++
  (if triggers f (a f.name) && !f.requires.isEmpty && !(f.requires.any (rsSatisfied d a))
   then [.requires f.name] else [])

/-- Python truthiness of the value (`if v`); `bool(attrs.NOTHING)` is `False` -/
def truthy : Val → Bool
  | .unset => false
  | .none => false
  | .bool b => b
  | .str s => s != ""
  | .lazy => true

/-- body of the `for xor_set in self._xor` loop -/
def xorViolations (a : Assignment) (g : List (Option Name)) : List Violation :=
  let names := g.filterMap id
  let areSet := names.filter (fun n => truthy (a n))
  if areSet.length > 1 then [.xorMany areSet]
  else if areSet.isEmpty && !(g.contains none) then [.xorNone names]
  else []

/-- `Task._rule_violations` -/
def ruleViolations (d : Def) (a : Assignment) : List Violation :=
  d.fields.flatMap (fieldViolations d a) ++ d.xor.flatMap (xorViolations a)

/-- xor groups are `frozenset`s: no name occurs twice in a group -/
def WF (d : Def) : Prop := ∀ g ∈ d.xor, (g.filterMap id).Nodup

instance (d : Def) : Decidable (WF d) := by unfold WF; infer_instance

/-- assignment from an association list (driver input); missing names are unset -/
def assignOf (l : List (Name × Val)) : Assignment := fun n =>
  match l.find? (fun p => p.1 == n) with
  | some p => p.2
  | none => .unset

end PydraModel.Rules
