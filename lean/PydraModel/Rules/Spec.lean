import PydraModel.Rules.Model
/-
C31 reference: the property statement as a predicate.

"every set field with requirements has at least one requirement set whose fields are all set (to an
allowed value where given), and at most one field of each exclusive group is set (exactly one unless
the group allows none), with mandatory fields set"
-/
namespace PydraModel.Rules

/-- the property's single notion of "set": a value was given and it is neither `None` nor `False` -/
def IsSet (v : Val) : Prop := v ≠ .unset ∧ v ≠ .none ∧ v ≠ .bool false

instance (v : Val) : Decidable (IsSet v) := by unfold IsSet; infer_instance

/-- a requirement holds: the field is set, to an allowed value where values are given -/
def ReqOK (setR : Name → Val → Prop) (a : Assignment) (r : Req) : Prop :=
  setR r.name (a r.name) ∧ ∀ vs, r.allowed = some vs → inAllowed (a r.name) vs = true

/-- The property with the notion of "set" as a parameter of each clause. -/
def RulesOKWith (trig : Field → Val → Prop) (setR : Name → Val → Prop) (setX : Val → Prop)
    (d : Def) (a : Assignment) : Prop :=
  -- mandatory fields are set
  (∀ f ∈ d.fields, f.exempt = false → a f.name ≠ .unset) ∧
  -- every set field with requirements has a requirement set that holds
  (∀ f ∈ d.fields, trig f (a f.name) → f.requires ≠ [] → ∃ rs ∈ f.requires, ∀ r ∈ rs, ReqOK setR a r) ∧
  -- every exclusive group: at most one member set; exactly one unless the group contains None
  (∀ g ∈ d.xor,
      (∀ n m, some n ∈ g → some m ∈ g → setX (a n) → setX (a m) → n = m) ∧
      (none ∈ g ∨ ∃ n, some n ∈ g ∧ setX (a n)))

/-- C31's predicate: one notion of "set" everywhere. -/
def RulesOK (d : Def) (a : Assignment) : Prop :=
  RulesOKWith (fun _ v => IsSet v) (fun _ v => IsSet v) IsSet d a

/-- The same predicate with the three notions the code uses. -/
def CodeRulesOK (d : Def) (a : Assignment) : Prop :=
  RulesOKWith (fun f v => triggers f v = true)
    (fun n v => v ≠ .none ∧ ¬ (isBoolField d n = true ∧ v = .bool false))
    (fun v => truthy v = true) d a

/-! Executable form of `RulesOK` (decision procedure; `rulesOKb_iff` in `Rules/Lemmas.lean`). -/

def isSetb (v : Val) : Bool := !(v == .unset || v == .none || v == .bool false)

def reqOKb (a : Assignment) (r : Req) : Bool :=
  isSetb (a r.name) && (match r.allowed with | none => true | some vs => inAllowed (a r.name) vs)

def rulesOKb (d : Def) (a : Assignment) : Bool :=
  d.fields.all (fun f => f.exempt || a f.name != .unset) &&
  d.fields.all (fun f => !(isSetb (a f.name)) || f.requires.isEmpty || f.requires.any (fun rs => rs.all (reqOKb a))) &&
  d.xor.all (fun g =>
    let s := (g.filterMap id).filter (fun n => isSetb (a n))
    s.length ≤ 1 && (g.contains none || s.length == 1))

end PydraModel.Rules
