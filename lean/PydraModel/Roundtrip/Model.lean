import PydraModel.Gen.FieldDefaults
/-
Engine `Roundtrip` (DESIGN §5.7, property C32): `unstructure` / `structure` / `filter_out_defaults`
(pydra/utils/general.py), the part of `ensure_field_objects` / `shell.define` / `python.define` /
`Task._check_arg_refs` that `structure` goes through.

A field is its list of attribute values (types, callables, converters, enums are opaque atoms); the attribute
names and the class defaults come from `Gen/FieldDefaults.lean` (regenerated from the interpreter).

What the model keeps of the code, including its defects:
* `attrs.asdict(filter=filter_out_defaults)` drops every attribute equal to the class default and — recursing —
  turns `requires` into a list of *dictionaries* `{"requirements": [{"name": …}]}`
* on the way back `requires_converter` iterates those dictionaries' *keys*, so every non-empty requirement set
  comes back as the single requirement on a field called `requirements`              (D53)
* `structure` works on a deep copy of the dictionary (since the repair of D54, commit 8e1662de): it is a pure
  function of the dictionary.  The former shallow-copy behaviour (python's `define` left its field objects and the
  `function` field in the caller's nested `inputs`, so a second `structure` of the same dictionary was refused) is
  kept as `structureDictShallow` for the record.
-/
namespace PydraModel.Roundtrip
open PydraModel.Gen.FieldDefaults

abbrev Req := String × Option (List String)

inductive Val where
  | atom (tag : String)
  | none
  | bool (b : Bool)
  | int (i : Int)
  | str (s : String)
  | strs (l : List String)
  | reqs (r : List (List Req))
  deriving DecidableEq, Repr, Inhabited

def ofRaw : RawVal → Val
  | .atom t => .atom t
  | .none => .none
  | .bool b => .bool b
  | .int i => .int i
  | .str s => .str s
  | .strs l => .strs l
  | .reqs r => .reqs r

/-- values as they sit in the dictionary -/
inductive SVal where
  | plain (v : Val)
  /-- `[{"requirements": [{"name": n, "allowed_values": […]}…]}…]` -/
  | reqDicts (r : List (List Req))
  deriving DecidableEq, Repr

/-- `attrs.asdict(recurse=True)` + `full_val_serializer` -/
def ser : Val → SVal
  | .reqs r => .reqDicts r
  | v => .plain v

/-- the converters of the field class applied to a dictionary value; `requires_converter` on a list of
    dictionaries: `RequirementSet(d)` → `requirements_converter(d)` → `[Requirement.parse(k) for k in d]`, and a
    dictionary iterates its keys (`{}` for an empty set, whose `requirements` equals the factory default) -/
def deser : SVal → Val
  | .plain v => v
  | .reqDicts r => .reqs (r.map (fun rs => if rs.isEmpty then [] else [("requirements", Option.none)]))

abbrev Attrs := List (String × Val)

structure Field where
  name : String
  /-- all attributes except `name`, in class order -/
  attrs : Attrs
  deriving DecidableEq, Repr

/-- class table without the `name` attribute -/
def tableOf (cls : String) : Attrs :=
  match classes.lookup cls with
  | some l => (l.filter (fun kv => kv.1 != "name")).map (fun kv => (kv.1, ofRaw kv.2))
  | none => []

/-- `filter_out_defaults`: keep an attribute iff its value differs from the class default -/
def unstructureField (T : Attrs) (f : Field) : List (String × SVal) :=
  (f.attrs.filter (fun kv => T.lookup kv.1 != some kv.2)).map (fun kv => (kv.1, ser kv.2))

/-- `arg_type(name=…, **kwds)`: attributes absent from the dictionary take the class default -/
def structureField (T : Attrs) (name : String) (kv : List (String × SVal)) : Field :=
  { name, attrs := T.map (fun kd => (kd.1, match kv.lookup kd.1 with
                                            | some sv => deser sv
                                            | none => kd.2)) }

inductive Flavor where
  | python | shell
  deriving DecidableEq, Repr

def Flavor.tag : Flavor → String
  | .python => "python"
  | .shell => "shell"

structure Def where
  flavor : Flavor
  name : String
  /-- the function / the executable: opaque -/
  executor : Val
  /-- user input fields (without `executable` / `append_args` / `function`) -/
  inputs : List Field
  /-- user output fields (without shell's `return_code` / `stdout` / `stderr`) -/
  outputs : List Field
  xor : List (List (Option String))
  deriving DecidableEq, Repr

/-- an entry of the nested `inputs` / `outputs` dictionaries: keyword dictionary, or (after python's `define`
    has run on this very dictionary) a field object -/
inductive Entry where
  | raw (kv : List (String × SVal))
  | obj (f : Field)
  deriving DecidableEq, Repr

structure Dict where
  flavor : Flavor
  name : String
  executor : Val
  inputs : List (String × Entry)
  outputs : List (String × Entry)
  xor : List (List (Option String))
  deriving DecidableEq, Repr

def argTable (fl : Flavor) : Attrs := tableOf (fl.tag ++ ".arg")
def outTable (fl : Flavor) : Attrs := tableOf (fl.tag ++ ".out")
def outargTable : Attrs := tableOf "shell.outarg"

/-- `ensure_field_objects`: an output dictionary with a `path_template` key becomes a `shell.outarg`, any other
    one the flavour's `out` -/
def outTableFor (fl : Flavor) (isOutarg : Bool) : Attrs := if isOutarg then outargTable else outTable fl

/-- the field is a `shell.outarg` (it has the attribute `path_template`) -/
def Field.isOutarg (f : Field) : Bool := (f.attrs.map (·.1)).contains "path_template"

/-- `unstructure` -/
def unstructureDef (d : Def) : Dict :=
  { flavor := d.flavor, name := d.name, executor := d.executor,
    inputs := d.inputs.map (fun f => (f.name, .raw (unstructureField (argTable d.flavor) f))),
    outputs := d.outputs.map (fun f => (f.name, .raw (unstructureField (outTableFor d.flavor f.isOutarg) f))),
    xor := d.xor }

inductive Err where
  /-- `ValueError: Unrecognised input names ({'function'}) not present in the signature` -/
  | unrecognisedInput
  /-- `ValueError: 'Unrecognised' field names in referenced in the requirements` / `… in the xor` -/
  | unrecognisedRef
  /-- `ValueError: Name of the argument must be the same as the key in the dictionary` -/
  | nameMismatch
  deriving DecidableEq, Repr

def entryField (T : Attrs) (n : String) : Entry → Except Err Field
  | .raw kv => .ok (structureField T n kv)
  | .obj f => if f.name = n then .ok f else .error .nameMismatch

/-- an entry of the `outputs` dictionary: the class is chosen by the presence of the key `path_template` -/
def outEntryField (fl : Flavor) (n : String) : Entry → Except Err Field
  | .raw kv => .ok (structureField (outTableFor fl ((kv.map (·.1)).contains "path_template")) n kv)
  | .obj f => if f.name = n then .ok f else .error .nameMismatch

def Field.get (f : Field) (k : String) : Val := (f.attrs.lookup k).getD .none

def Field.set (f : Field) (k : String) (v : Val) : Field :=
  { f with attrs := f.attrs.map (fun kv => if kv.1 = k then (k, v) else kv) }

/-- names a requirement of the field refers to -/
def Field.reqNames (f : Field) : List String :=
  match f.get "requires" with
  | .reqs r => r.flatten.map (·.1)
  | _ => []

/-! `shell.define`: inputs without a position take the free slots `0 … n` in dictionary order
    (`remaining_positions`; slot 0 is the executable, a negative position `p` occupies slot `n + 1 + p`). -/

def slotOf (numArgs : Nat) : Val → Option Int
  | .int p => some (if p ≥ 0 then p else (numArgs : Int) + p)
  | _ => Option.none

def assignGo : List Field → List Int → List Field
  | [], _ => []
  | f :: fs, free =>
    if f.get "position" = .none then
      match free with
      | p :: ps => f.set "position" (.int p) :: assignGo fs ps
      | [] => f :: assignGo fs []          -- `IndexError` in the code; not reachable: there are enough slots
    else f :: assignGo fs free

def assignPositions (fs : List Field) : List Field :=
  let numArgs := fs.length + 1
  let used := (0 : Int) :: fs.filterMap (fun f => slotOf numArgs (f.get "position"))
  let free := ((List.range numArgs).map (fun (i : Nat) => Int.ofNat i)).filter (fun i => !used.contains i)
  assignGo fs free

/-- put the (re-positioned) outargs back into the list of outputs, in order -/
def mergeOutargs : List Field → List Field → List Field
  | [], _ => []
  | f :: fs, oas =>
    if f.isOutarg then
      match oas with
      | o :: os => o :: mergeOutargs fs os
      | [] => f :: mergeOutargs fs []
    else f :: mergeOutargs fs oas

def baseInputs : Flavor → List String
  | .python => ["function"]
  | .shell => ["executable", "append_args"]

/-- `Task._check_arg_refs` -/
def refsOK (fl : Flavor) (inputs outputs : List Field) (xor : List (List (Option String))) : Bool :=
  let names := inputs.map (·.name) ++ (outputs.filter Field.isOutarg).map (·.name) ++ baseInputs fl
  (inputs ++ outputs).all (fun f => f.reqNames.all (fun n => names.contains n)) &&
  xor.all (fun g => g.all (fun x => match x with | some n => names.contains n | Option.none => true))

deriving instance DecidableEq for Except

/-- `mapM` in `Except`, spelled out -/
def mapE {α β ε} (g : α → Except ε β) : List α → Except ε (List β)
  | [] => .ok []
  | x :: xs =>
    match g x with
    | .error e => .error e
    | .ok y =>
      match mapE g xs with
      | .error e => .error e
      | .ok ys => .ok (y :: ys)

/-- `structure` (pure: it works on `deepcopy(task_class_dict)`) -/
def structureDict (dct : Dict) : Except Err Def :=
  -- python: `extract_function_inputs_and_outputs` refuses input names that are not parameters of the function
  if dct.flavor = .python ∧ (dct.inputs.map (·.1)).contains "function" = true then .error .unrecognisedInput else
  match mapE (fun ne => entryField (argTable dct.flavor) ne.1 ne.2) dct.inputs with
  | .error e => .error e
  | .ok inputs0 =>
    match mapE (fun ne => outEntryField dct.flavor ne.1 ne.2) dct.outputs with
    | .error e => .error e
    | .ok outputs0 =>
      -- `shell.define`: the outargs join the inputs, then every unpositioned one gets the next free slot
      let positioned := match dct.flavor with
        | .shell => assignPositions (inputs0 ++ outputs0.filter Field.isOutarg)
        | .python => inputs0 ++ outputs0.filter Field.isOutarg
      let inputs := positioned.take inputs0.length
      let outputs := mergeOutargs outputs0 (positioned.drop inputs0.length)
      if refsOK dct.flavor inputs outputs dct.xor = true then
        .ok { flavor := dct.flavor, name := dct.name, executor := dct.executor, inputs, outputs, xor := dct.xor }
      else .error .unrecognisedRef

/-! #### the behaviour before the repair of D54 (`dct = copy(task_class_dict)`, shallow) — for the record -/

/-- the caller's dictionary as `python.define` used to leave it: field objects and the `function` field stored in the
    nested dictionaries -/
def pythonLeftovers (dct : Dict) (inputs outputs : List Field) : Dict :=
  { dct with
    inputs := inputs.map (fun f => (f.name, Entry.obj f)) ++
              [("function", Entry.obj { name := "function", attrs := [] })],
    outputs := outputs.map (fun f => (f.name, Entry.obj f)) }

/-- `structure` with the shallow copy: the recreated definition, and the caller's dictionary as the call left it
    (`shell.define` worked on a copy of the nested dictionaries anyway) -/
def structureDictShallow (dct : Dict) : Except Err (Def × Dict) :=
  (structureDict dct).map (fun d =>
    (d, match dct.flavor with
        | .shell => dct
        | .python => pythonLeftovers dct d.inputs d.outputs))

end PydraModel.Roundtrip
