import PydraModel.Roundtrip.Lemmas
import PydraModel.Rules.Model
namespace PydraModel.Roundtrip

/-- Facts about the regenerated class tables that the round-trip theorem needs: attribute names are distinct. -/
def TableOK : Prop :=
  ((argTable .shell).map Prod.fst).Nodup ∧ ((outTable .shell).map Prod.fst).Nodup ∧
  ((argTable .python).map Prod.fst).Nodup ∧ ((outTable .python).map Prod.fst).Nodup

instance : Decidable TableOK := by unfold TableOK; infer_instance

theorem TableOK.arg (h : TableOK) (fl : Flavor) : ((argTable fl).map Prod.fst).Nodup := by
  cases fl
  · exact h.2.2.1
  · exact h.1

theorem TableOK.out (h : TableOK) (fl : Flavor) : ((outTable fl).map Prod.fst).Nodup := by
  cases fl
  · exact h.2.2.2
  · exact h.2.1

/-- a definition as `python.define` / `shell.define` produce it -/
def DefWF (d : Def) : Prop :=
  (∀ f ∈ d.inputs, FieldWF (argTable d.flavor) f) ∧
  (∀ f ∈ d.outputs, FieldWF (outTable d.flavor) f) ∧
  -- it passed `Task._check_arg_refs`
  refsOK d.flavor d.inputs d.outputs d.xor = true ∧
  -- `shell.define` has given every input a position
  (d.flavor = .shell → ∀ f ∈ d.inputs, f.get "position" ≠ .none) ∧
  -- `function` is reserved (`python.define` raises otherwise)
  (d.inputs.map (·.name)).contains "function" = false

instance (d : Def) : Decidable (DefWF d) := by unfold DefWF; infer_instance

def SerOKDef (d : Def) : Prop := ∀ f ∈ d.inputs ++ d.outputs, SerOK f

instance (d : Def) : Decidable (SerOKDef d) := by unfold SerOKDef; infer_instance

theorem mapE_roundtrip (T : Attrs) (hT : (T.map Prod.fst).Nodup) (fs : List Field)
    (hwf : ∀ f ∈ fs, FieldWF T f) (hser : ∀ f ∈ fs, SerOK f) :
    mapE (fun ne => entryField T ne.1 ne.2) (fs.map (fun f => (f.name, Entry.raw (unstructureField T f)))) = .ok fs := by
  induction fs with
  | nil => rfl
  | cons f fs ih =>
    have h1 := structureField_unstructureField T hT f (hwf f (by simp)) (hser f (by simp))
    have h2 := ih (fun g hg => hwf g (by simp [hg])) (fun g hg => hser g (by simp [hg]))
    have h0 : entryField T f.name (Entry.raw (unstructureField T f)) = .ok f := by simp [entryField, h1]
    simp only [List.map_cons, mapE, h0, h2]

theorem assignGo_id (fs : List Field) (free : List Int) (h : ∀ f ∈ fs, f.get "position" ≠ .none) :
    assignGo fs free = fs := by
  induction fs generalizing free with
  | nil => rfl
  | cons f fs ih =>
    unfold assignGo
    have hf := h f (by simp)
    simp only [hf, if_false]
    rw [ih free (fun g hg => h g (by simp [hg]))]

/-- positions are assigned once: `shell.define` leaves positioned inputs alone -/
theorem assignPositions_id (fs : List Field) (h : ∀ f ∈ fs, f.get "position" ≠ .none) :
    assignPositions fs = fs := by
  unfold assignPositions
  exact assignGo_id fs _ h

theorem unstructure_names (d : Def) : (unstructureDef d).inputs.map (·.1) = d.inputs.map (·.name) := by
  simp [unstructureDef, List.map_map, Function.comp_def]

/-! ### what the rule check sees of a definition (`Rules` engine) -/

def toRulesField (f : Field) : Rules.Field :=
  { name := f.name,
    isBool := f.get "type" == .atom "type:<class 'bool'>",
    optFileset := false,
    exempt := f.get "readonly" == .bool true,
    requires := match f.get "requires" with
      | .reqs r => r.map (fun rs => rs.map (fun q => ({ name := q.1, allowed := q.2 } : Rules.Req)))
      | _ => [] }

def toRules (d : Def) : Rules.Def := { fields := d.inputs.map toRulesField, xor := d.xor }

end PydraModel.Roundtrip
