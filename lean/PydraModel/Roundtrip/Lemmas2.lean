import PydraModel.Roundtrip.Lemmas
import PydraModel.Rules.Model
namespace PydraModel.Roundtrip

/-- Facts about the regenerated class tables that the round-trip theorems need: attribute names are distinct, and
    `path_template` (the attribute by which `structure` recognises an outarg) defaults to `None`. -/
def TableOK : Prop :=
  ((argTable .shell).map Prod.fst).Nodup ∧ ((outTable .shell).map Prod.fst).Nodup ∧
  ((argTable .python).map Prod.fst).Nodup ∧ ((outTable .python).map Prod.fst).Nodup ∧
  (outargTable.map Prod.fst).Nodup ∧ outargTable.lookup "path_template" = some .none

instance : Decidable TableOK := by unfold TableOK; infer_instance

theorem TableOK.arg (h : TableOK) (fl : Flavor) : ((argTable fl).map Prod.fst).Nodup := by
  cases fl
  · exact h.2.2.1
  · exact h.1

theorem TableOK.out (h : TableOK) (fl : Flavor) (b : Bool) : ((outTableFor fl b).map Prod.fst).Nodup := by
  unfold outTableFor
  cases b
  · cases fl
    · exact h.2.2.2.1
    · exact h.2.1
  · exact h.2.2.2.2.1

/-- requirement sets occur under the attribute `requires` only (how field classes are declared) -/
def ReqsOnly (f : Field) : Prop :=
  f.attrs.all (fun kv => match kv.2 with | .reqs _ => kv.1 == "requires" | _ => true) = true

instance (f : Field) : Decidable (ReqsOnly f) := by unfold ReqsOnly; infer_instance

theorem ReqsOnly.spec {f : Field} (h : ReqsOnly f) : ∀ kv ∈ f.attrs, ∀ r, kv.2 = .reqs r → kv.1 = "requires" := by
  intro kv hkv r hr
  unfold ReqsOnly at h
  have := List.all_eq_true.mp h kv hkv
  rw [hr] at this
  simpa using this

def ReqsOnlyDef (d : Def) : Prop := ∀ f ∈ d.inputs ++ d.outputs, ReqsOnly f

instance (d : Def) : Decidable (ReqsOnlyDef d) := by unfold ReqsOnlyDef; infer_instance

/-- a definition as `python.define` / `shell.define` produce it -/
def DefWF (d : Def) : Prop :=
  (∀ f ∈ d.inputs, FieldWF (argTable d.flavor) f) ∧
  (∀ f ∈ d.outputs, FieldWF (outTableFor d.flavor f.isOutarg) f) ∧
  -- an outarg has its path template (that is what makes it one)
  (∀ f ∈ d.outputs, f.isOutarg = true → f.get "path_template" ≠ .none) ∧
  -- it passed `Task._check_arg_refs`
  refsOK d.flavor d.inputs d.outputs d.xor = true ∧
  -- `shell.define` has given every input and outarg a position
  (d.flavor = .shell → ∀ f ∈ d.inputs ++ d.outputs.filter Field.isOutarg, f.get "position" ≠ .none) ∧
  -- `function` is reserved (`python.define` raises otherwise)
  (d.inputs.map (·.name)).contains "function" = false ∧
  -- requirement sets sit under `requires`
  ReqsOnlyDef d

instance (d : Def) : Decidable (DefWF d) := by unfold DefWF; infer_instance

def SerOKDef (d : Def) : Prop := ∀ f ∈ d.inputs ++ d.outputs, SerOK f

instance (d : Def) : Decidable (SerOKDef d) := by unfold SerOKDef; infer_instance

/-- what the round trip makes of a definition, if `structure` accepts it -/
def roundDef (d : Def) : Def :=
  { d with inputs := d.inputs.map (roundField (argTable d.flavor)),
           outputs := d.outputs.map (fun f => roundField (outTableFor d.flavor f.isOutarg) f) }

/-! ### lists -/

theorem lookup_some_mem {β} (l : List (String × β)) {k : String} {v : β} (h : l.lookup k = some v) : (k, v) ∈ l := by
  induction l with
  | nil => simp at h
  | cons x xs ih =>
    obtain ⟨k', v'⟩ := x
    rw [List.lookup_cons] at h
    by_cases hk : (k == k') = true
    · simp only [hk] at h
      have : k = k' := by simpa using hk
      cases h; subst this; simp
    · have hk' : (k == k') = false := by simpa using hk
      simp only [hk'] at h
      simp [ih h]

theorem lookup_map_val {β} (l : List (String × β)) (h : String → β → β) (k : String) :
    (l.map (fun kv => (kv.1, h kv.1 kv.2))).lookup k = (l.lookup k).map (h k) := by
  induction l with
  | nil => simp
  | cons x xs ih =>
    obtain ⟨k', v'⟩ := x
    simp only [List.map_cons, List.lookup_cons]
    by_cases hk : (k == k') = true
    · have : k = k' := by simpa using hk
      subst this; simp
    · have hk' : (k == k') = false := by simpa using hk
      simp only [hk']
      exact ih

/-! ### one field, without `SerOK` -/

theorem roundField_name (T : Attrs) (f : Field) : (roundField T f).name = f.name := rfl

theorem roundField_keys (T : Attrs) (f : Field) :
    (roundField T f).attrs.map Prod.fst = f.attrs.map Prod.fst := by
  simp [roundField, roundAttr, List.map_map, Function.comp_def]

theorem roundField_isOutarg (T : Attrs) (f : Field) : (roundField T f).isOutarg = f.isOutarg := by
  show ((roundField T f).attrs.map Prod.fst).contains "path_template" = (f.attrs.map Prod.fst).contains "path_template"
  rw [roundField_keys]

/-- the round trip leaves every attribute other than `requires` alone -/
theorem roundField_get (T : Attrs) (f : Field) (hro : ReqsOnly f) (k : String) (hk : k ≠ "requires") :
    (roundField T f).get k = f.get k := by
  have h := lookup_map_val f.attrs (fun k v => if T.lookup k = some v then v else deser (ser v)) k
  show (List.lookup k (f.attrs.map (roundAttr T))).getD Val.none = (List.lookup k f.attrs).getD Val.none
  have h' : f.attrs.map (roundAttr T)
      = f.attrs.map (fun kv => (kv.1, (fun k v => if T.lookup k = some v then v else deser (ser v)) kv.1 kv.2)) := rfl
  rw [h', h]
  cases hl : f.attrs.lookup k with
  | none => rfl
  | some v =>
    simp only [Option.map_some, Option.getD_some]
    by_cases hd : T.lookup k = some v
    · simp [hd]
    · simp only [hd, if_false]
      apply deser_ser_of_not_reqs
      intro r hr
      exact hk (hro.spec (k, v) (lookup_some_mem f.attrs hl) r hr)

/-- `structure` recognises an outarg in the dictionary exactly when the field was one -/
theorem unstructured_has_template (hT : TableOK) (fl : Flavor) (f : Field)
    (_hwf : FieldWF (outTableFor fl f.isOutarg) f) (htpl : f.isOutarg = true → f.get "path_template" ≠ .none) :
    ((unstructureField (outTableFor fl f.isOutarg) f).map (·.1)).contains "path_template" = f.isOutarg := by
  cases hio : f.isOutarg with
  | false =>
    have hno : "path_template" ∉ f.attrs.map Prod.fst := by
      unfold Field.isOutarg at hio
      intro hm
      have : (f.attrs.map (·.1)).contains "path_template" = true := by simpa using hm
      rw [hio] at this; cases this
    cases hc : ((unstructureField (outTableFor fl false) f).map (·.1)).contains "path_template" with
    | false => rfl
    | true =>
      exfalso
      have hm : "path_template" ∈ (unstructureField (outTableFor fl false) f).map (·.1) := by simpa using hc
      unfold unstructureField at hm
      simp only [List.map_map, List.mem_map, List.mem_filter, Function.comp_def] at hm
      obtain ⟨kv, ⟨hkv, _⟩, hk⟩ := hm
      exact hno (List.mem_map.mpr ⟨kv, hkv, hk⟩)
  | true =>
    have hg := htpl hio
    unfold Field.get at hg
    cases hl : f.attrs.lookup "path_template" with
    | none => rw [hl] at hg; simp at hg
    | some v =>
      rw [hl] at hg
      have hv : v ≠ .none := by simpa using hg
      have hmem := lookup_some_mem f.attrs hl
      have hT' : (outTableFor fl true).lookup "path_template" = some .none := by
        unfold outTableFor; simp only [if_true]; exact hT.2.2.2.2.2
      have : "path_template" ∈ (unstructureField (outTableFor fl true) f).map (·.1) := by
        unfold unstructureField
        simp only [List.map_map, List.mem_map, List.mem_filter, Function.comp_def]
        refine ⟨("path_template", v), ⟨hmem, ?_⟩, rfl⟩
        simp only [hT']
        simpa using fun h => hv h.symm
      simpa using this

theorem mapE_inputs_gen (T : Attrs) (hT : (T.map Prod.fst).Nodup) (fs : List Field) (hwf : ∀ f ∈ fs, FieldWF T f) :
    mapE (fun ne => entryField T ne.1 ne.2) (fs.map (fun f => (f.name, Entry.raw (unstructureField T f))))
      = .ok (fs.map (roundField T)) := by
  induction fs with
  | nil => rfl
  | cons f fs ih =>
    have h1 := structureField_unstructureField_gen T hT f (hwf f (by simp))
    have h2 := ih (fun g hg => hwf g (by simp [hg]))
    have h0 : entryField T f.name (Entry.raw (unstructureField T f)) = .ok (roundField T f) := by
      simp [entryField, h1]
    simp only [List.map_cons, mapE, h0, h2]

theorem mapE_outputs_gen (hT : TableOK) (fl : Flavor) (fs : List Field)
    (hwf : ∀ f ∈ fs, FieldWF (outTableFor fl f.isOutarg) f)
    (htpl : ∀ f ∈ fs, f.isOutarg = true → f.get "path_template" ≠ .none) :
    mapE (fun ne => outEntryField fl ne.1 ne.2)
        (fs.map (fun f => (f.name, Entry.raw (unstructureField (outTableFor fl f.isOutarg) f))))
      = .ok (fs.map (fun f => roundField (outTableFor fl f.isOutarg) f)) := by
  induction fs with
  | nil => rfl
  | cons f fs ih =>
    have hsel := unstructured_has_template hT fl f (hwf f (by simp)) (htpl f (by simp))
    have h1 := structureField_unstructureField_gen _ (hT.out fl f.isOutarg) f (hwf f (by simp))
    have h2 := ih (fun g hg => hwf g (by simp [hg])) (fun g hg => htpl g (by simp [hg]))
    have h0 : outEntryField fl f.name (Entry.raw (unstructureField (outTableFor fl f.isOutarg) f))
        = .ok (roundField (outTableFor fl f.isOutarg) f) := by
      simp only [outEntryField, hsel, h1]
    simp only [List.map_cons, mapE, h0, h2]

/-! ### positions -/

theorem assignGo_id (fs : List Field) (free : List Int) (h : ∀ f ∈ fs, f.get "position" ≠ .none) :
    assignGo fs free = fs := by
  induction fs generalizing free with
  | nil => rfl
  | cons f fs ih =>
    unfold assignGo
    have hf := h f (by simp)
    simp only [hf, if_false]
    rw [ih free (fun g hg => h g (by simp [hg]))]

/-- positions are assigned once: `shell.define` leaves positioned inputs alone -/
theorem assignPositions_id (fs : List Field) (h : ∀ f ∈ fs, f.get "position" ≠ .none) :
    assignPositions fs = fs := by
  unfold assignPositions
  exact assignGo_id fs _ h

theorem mergeOutargs_self (fs : List Field) : mergeOutargs fs (fs.filter Field.isOutarg) = fs := by
  induction fs with
  | nil => rfl
  | cons f fs ih =>
    cases h : f.isOutarg with
    | true => simp [mergeOutargs, h, ih]
    | false => simp [mergeOutargs, h, ih]

theorem unstructure_names (d : Def) : (unstructureDef d).inputs.map (·.1) = d.inputs.map (·.name) := by
  simp [unstructureDef, List.map_map, Function.comp_def]

theorem filter_isOutarg_round (fl : Flavor) (fs : List Field) :
    (fs.map (fun f => roundField (outTableFor fl f.isOutarg) f)).filter Field.isOutarg
      = (fs.filter Field.isOutarg).map (fun f => roundField (outTableFor fl f.isOutarg) f) := by
  induction fs with
  | nil => rfl
  | cons f fs ih =>
    simp only [List.map_cons, List.filter_cons, roundField_isOutarg]
    cases h : f.isOutarg <;> simp [ih, h]

/-! ### what the rule check sees of a definition (`Rules` engine) -/

def toRulesField (f : Field) : Rules.Field :=
  { name := f.name,
    isBool := f.get "type" == .atom "type:<class 'bool'>",
    optFileset := false,
    exempt := f.get "readonly" == .bool true,
    requires := match f.get "requires" with
      | .reqs r => r.map (fun rs => rs.map (fun q => ({ name := q.1, allowed := q.2 } : Rules.Req)))
      | _ => [] }

def toRules (d : Def) : Rules.Def := { fields := d.inputs.map toRulesField, xor := d.xor }

end PydraModel.Roundtrip
