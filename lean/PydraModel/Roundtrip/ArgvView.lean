import PydraModel.Roundtrip.Lemmas2
import PydraModel.Argv.Model
/-
The field records of the `Roundtrip` engine as the `Argv` engine (C22: `ShellTask._command_args`) sees them.
Definitions and the lemma that the view does not look at `requires`.
-/
namespace PydraModel.Roundtrip
open PydraModel

/-- atoms of the `type` attribute for which `_command_pos_args` sees `bool` after stripping `Optional` -/
def boolTypeTags : List String :=
  ["type:<class 'bool'>", "type:bool | None", "type:typing.Optional[bool]", "type:None | bool"]

def isMultiTag (t : String) : Bool := "type:pydra.utils.typing.MultiInputObj".toList.isPrefixOf t.toList

/-- the attributes `_command_args` reads: name, type (bool? multi-input?), argstr, position, sep.
    `none` for the argstr = "not part of the command" (`argstr=None`) -/
def toArgvField (f : Field) : Except Argv.Err Argv.Field :=
  let ty := match f.get "type" with | .atom t => t | _ => ""
  let sep := match f.get "sep" with | .str s => s.toList | _ => [' ']
  let pos := match f.get "position" with | .int i => some i | _ => none
  match f.get "argstr" with
  | .str s =>
    match Argv.parseArgstr s.toList with
    | .ok a => .ok { name := f.name.toList, isBool := boolTypeTags.contains ty, isMulti := isMultiTag ty,
                     argstr := some a, position := pos, sep }
    | .error e => .error e
  | _ => .ok { name := f.name.toList, isBool := boolTypeTags.contains ty, isMulti := isMultiTag ty,
               argstr := none, position := pos, sep }

/-- a field bound to its position after `shell.define` and to its value -/
def toBound (vals : String → Argv.Value) (f : Field) : Except Argv.Err Argv.Bound :=
  match toArgvField f with
  | .ok af => .ok ⟨af, af.position, vals f.name⟩
  | .error e => .error e

/-- the executable words (splitting of a one-string executable is C22's business, not modelled here) -/
def exeOf : Val → List Argv.Str
  | .str s => [s.toList]
  | .strs l => l.map String.toList
  | _ => []

/-- the fields `_command_args` loops over: the inputs, then the outargs -/
def cmdFields (d : Def) : List Field := d.inputs ++ d.outputs.filter Field.isOutarg

/-- `ShellTask._command_args` of the definition for the given field values and `append_args` (engine `Argv`) -/
def commandArgsOf (d : Def) (vals : String → Argv.Value) (appendArgs : List Argv.Str) :
    Except Argv.Err (List Argv.Str) :=
  match mapE (toBound vals) (cmdFields d) with
  | .ok bs => Argv.commandArgs (exeOf d.executor) bs appendArgs
  | .error e => .error e

theorem toArgvField_round (T : Attrs) (f : Field) (hro : ReqsOnly f) :
    toArgvField (roundField T f) = toArgvField f := by
  unfold toArgvField
  rw [roundField_get T f hro "type" (by decide), roundField_get T f hro "sep" (by decide),
      roundField_get T f hro "position" (by decide), roundField_get T f hro "argstr" (by decide), roundField_name]

theorem toBound_round (vals : String → Argv.Value) (T : Attrs) (f : Field) (hro : ReqsOnly f) :
    toBound vals (roundField T f) = toBound vals f := by
  unfold toBound
  rw [toArgvField_round T f hro, roundField_name]

theorem mapE_congr {α β ε} (g h : α → Except ε β) (l : List α) (hgh : ∀ x ∈ l, g x = h x) : mapE g l = mapE h l := by
  induction l with
  | nil => rfl
  | cons x xs ih =>
    unfold mapE
    rw [hgh x (by simp), ih (fun y hy => hgh y (by simp [hy]))]

theorem mapE_map {α β γ ε} (g : β → Except ε γ) (h : α → β) (l : List α) : mapE g (l.map h) = mapE (fun x => g (h x)) l := by
  induction l with
  | nil => rfl
  | cons x xs ih => simp only [List.map_cons, mapE, ih]

theorem cmdFields_roundDef (d : Def) :
    cmdFields (roundDef d) = d.inputs.map (roundField (argTable d.flavor)) ++
      (d.outputs.filter Field.isOutarg).map (fun f => roundField (outTableFor d.flavor f.isOutarg) f) := by
  unfold cmdFields roundDef
  simp only [filter_isOutarg_round]

theorem mapE_append {α β ε} (g : α → Except ε β) (l1 l2 : List α) :
    mapE g (l1 ++ l2) = match mapE g l1 with
      | .error e => .error e
      | .ok a => match mapE g l2 with
        | .error e => .error e
        | .ok b => .ok (a ++ b) := by
  induction l1 with
  | nil => simp only [List.nil_append, mapE]; cases mapE g l2 <;> rfl
  | cons x xs ih =>
    simp only [List.cons_append, mapE, ih]
    cases g x with
    | error e => rfl
    | ok y =>
      cases mapE g xs with
      | error e => rfl
      | ok ys => cases mapE g l2 <;> rfl

/-- the argv view of a definition does not change when its fields go through the dictionary form -/
theorem commandArgsOf_roundDef (d : Def) (hro : ReqsOnlyDef d) (vals : String → Argv.Value) (app : List Argv.Str) :
    commandArgsOf (roundDef d) vals app = commandArgsOf d vals app := by
  unfold commandArgsOf
  have hexe : (roundDef d).executor = d.executor := rfl
  rw [hexe, cmdFields_roundDef]
  have h1 : mapE (toBound vals) (d.inputs.map (roundField (argTable d.flavor))) = mapE (toBound vals) d.inputs := by
    rw [mapE_map]
    apply mapE_congr
    intro f hf
    exact toBound_round vals _ f (hro f (by simp [hf]))
  have h2 : mapE (toBound vals) ((d.outputs.filter Field.isOutarg).map
        (fun f => roundField (outTableFor d.flavor f.isOutarg) f))
      = mapE (toBound vals) (d.outputs.filter Field.isOutarg) := by
    rw [mapE_map]
    apply mapE_congr
    intro f hf
    exact toBound_round vals _ f (hro f (by simp [(List.mem_filter.mp hf).1]))
  unfold cmdFields
  rw [mapE_append, mapE_append, h1, h2]

end PydraModel.Roundtrip
