import PydraModel.Roundtrip.Model
namespace PydraModel.Roundtrip

/-! ### association lists with distinct keys -/

theorem lookup_of_mem {β} (l : List (String × β)) (hnd : (l.map Prod.fst).Nodup) {k : String} {v : β}
    (h : (k, v) ∈ l) : l.lookup k = some v := by
  induction l with
  | nil => simp at h
  | cons x xs ih =>
    obtain ⟨k', v'⟩ := x
    simp only [List.map_cons, List.nodup_cons] at hnd
    rcases List.mem_cons.mp h with heq | hmem
    · cases heq; simp
    · have hne : k ≠ k' := by
        intro hk; subst hk
        exact hnd.1 (List.mem_map.mpr ⟨(k, v), hmem, rfl⟩)
      have hb : (k == k') = false := by simpa using hne
      rw [List.lookup_cons, hb]
      exact ih hnd.2 hmem

theorem lookup_filter_map_none {β γ} (l : List (String × β)) (p : String × β → Bool) (g : β → γ) (k : String)
    (h : k ∉ l.map Prod.fst) : ((l.filter p).map (fun kv => (kv.1, g kv.2))).lookup k = none := by
  induction l with
  | nil => simp
  | cons x xs ih =>
    obtain ⟨k', v'⟩ := x
    simp only [List.map_cons, List.mem_cons, not_or] at h
    have hb : (k == k') = false := by simpa using h.1
    by_cases hp : p (k', v') = true
    · simp only [List.filter_cons, hp, if_true, List.map_cons, List.lookup_cons, hb]
      exact ih h.2
    · simp only [List.filter_cons, hp]
      exact ih h.2

theorem lookup_filter_map {β γ} (l : List (String × β)) (hnd : (l.map Prod.fst).Nodup)
    (p : String × β → Bool) (g : β → γ) {k : String} {v : β} (h : (k, v) ∈ l) :
    ((l.filter p).map (fun kv => (kv.1, g kv.2))).lookup k = if p (k, v) = true then some (g v) else none := by
  induction l with
  | nil => simp at h
  | cons x xs ih =>
    obtain ⟨k', v'⟩ := x
    simp only [List.map_cons, List.nodup_cons] at hnd
    rcases List.mem_cons.mp h with heq | hmem
    · cases heq
      by_cases hp : p (k, v) = true
      · simp [hp]
      · simp only [List.filter_cons, hp]
        simp only [Bool.false_eq_true, if_false]
        exact lookup_filter_map_none xs p g k hnd.1
    · have hne : k ≠ k' := by
        intro hk; subst hk
        exact hnd.1 (List.mem_map.mpr ⟨(k, v), hmem, rfl⟩)
      have hb : (k == k') = false := by simpa using hne
      by_cases hp : p (k', v') = true
      · simp only [List.filter_cons, hp, if_true, List.map_cons, List.lookup_cons, hb]
        exact ih hnd.2 hmem
      · simp only [List.filter_cons, hp]
        exact ih hnd.2 hmem

/-! ### one field -/

/-- the field has exactly the attributes of its class, in class order -/
def FieldWF (T : Attrs) (f : Field) : Prop := f.attrs.map Prod.fst = T.map Prod.fst

instance (T : Attrs) (f : Field) : Decidable (FieldWF T f) := by unfold FieldWF; infer_instance

/-- every attribute value survives the dictionary form -/
def SerOK (f : Field) : Prop := ∀ kv ∈ f.attrs, deser (ser kv.2) = kv.2

instance (f : Field) : Decidable (SerOK f) := by unfold SerOK; infer_instance

theorem map_eq_self_iff {α} (g : α → α) (l : List α) : l.map g = l ↔ ∀ x ∈ l, g x = x := by
  induction l with
  | nil => simp
  | cons x xs ih => simp [ih]

/-- what `requires_converter` makes of the dictionary form of one requirement set -/
def mangle (rs : List Req) : List Req := if rs.isEmpty then [] else [("requirements", Option.none)]

/-- Exactly which values survive the dictionary form: everything except a `requires` containing a requirement set
    other than the empty one and (sic) the single unconditional requirement on a field called `requirements`. -/
theorem deser_ser_iff (v : Val) :
    deser (ser v) = v ↔ ∀ r, v = .reqs r → ∀ rs ∈ r, rs = [] ∨ rs = [("requirements", Option.none)] := by
  cases v with
  | reqs r =>
    have h1 : deser (ser (.reqs r)) = .reqs (r.map mangle) := rfl
    rw [h1, Val.reqs.injEq, map_eq_self_iff]
    constructor
    · intro h r' hr' rs hrs
      cases hr'
      have := h rs hrs
      unfold mangle at this
      cases hx : rs with
      | nil => exact Or.inl rfl
      | cons y ys => rw [hx] at this; simp at this; exact Or.inr (by rw [← this.1, ← this.2])
    · intro h rs hrs
      rcases h r rfl rs hrs with rfl | rfl <;> simp [mangle]
  | _ => simp [ser, deser]

theorem deser_ser_of_not_reqs (v : Val) (h : ∀ r, v ≠ .reqs r) : deser (ser v) = v :=
  (deser_ser_iff v).mpr (fun r hr => (h r hr).elim)

/-- what the round trip does to one attribute: untouched if it equals the class default (it is dropped and the
    default re-applied), otherwise sent through the dictionary form -/
def roundAttr (T : Attrs) (kv : String × Val) : String × Val :=
  (kv.1, if T.lookup kv.1 = some kv.2 then kv.2 else deser (ser kv.2))

def roundField (T : Attrs) (f : Field) : Field := { f with attrs := f.attrs.map (roundAttr T) }

/-- Round trip of one field *without* assuming that its values survive: the result is the field with every
    non-default attribute sent through the dictionary form. -/
theorem structureField_unstructureField_gen (T : Attrs) (hT : (T.map Prod.fst).Nodup) (f : Field)
    (hwf : FieldWF T f) :
    structureField T f.name (unstructureField T f) = roundField T f := by
  unfold FieldWF at hwf
  have hlen : T.length = f.attrs.length := by
    have := congrArg List.length hwf
    simpa using this.symm
  have hnd : (f.attrs.map Prod.fst).Nodup := by rw [hwf]; exact hT
  unfold structureField roundField
  cases f with
  | mk name attrs =>
    simp only [Field.mk.injEq, true_and]
    simp only at hlen hnd hwf
    apply List.ext_getElem
    · simp [hlen]
    · intro i h1 h2
      simp only [List.getElem_map]
      have hi : i < T.length := by simpa using h1
      have h2' : i < attrs.length := by simpa using h2
      have hk : (attrs[i]'h2').1 = (T[i]'hi).1 := by
        have := congrArg (fun l => l[i]?) hwf
        simp only [List.getElem?_map] at this
        rw [List.getElem?_eq_getElem h2', List.getElem?_eq_getElem hi] at this
        simpa using this
      have hmemT : (T[i]'hi) ∈ T := List.getElem_mem hi
      have hmemA : (attrs[i]'h2') ∈ attrs := List.getElem_mem h2'
      rcases hT' : T[i]'hi with ⟨k, dflt⟩
      rcases hA' : attrs[i]'h2' with ⟨k', v⟩
      rw [hT', hA'] at hk
      simp only at hk
      subst hk
      rw [hT'] at hmemT
      rw [hA'] at hmemA
      have hlT : T.lookup k' = some dflt := lookup_of_mem T hT hmemT
      have hlU := lookup_filter_map attrs hnd (fun kv => T.lookup kv.1 != some kv.2) ser hmemA
      unfold unstructureField roundAttr
      simp only
      rw [hlU, hlT]
      by_cases hd : dflt = v
      · subst hd; simp
      · have : (some dflt != some v) = true := by simpa using hd
        have hne : ¬ (some dflt = some v) := by simpa using hd
        simp only [this, if_true, hne, if_false]

theorem roundField_of_serOK (T : Attrs) (f : Field) (hser : SerOK f) : roundField T f = f := by
  unfold roundField
  cases f with
  | mk name attrs =>
    simp only [Field.mk.injEq, true_and]
    rw [map_eq_self_iff]
    intro kv hkv
    unfold roundAttr
    have := hser kv hkv
    by_cases h : T.lookup kv.1 = some kv.2
    · simp [h]
    · simp [h, this]

/-- Round trip of one field, for any class table with distinct attribute names. -/
theorem structureField_unstructureField (T : Attrs) (hT : (T.map Prod.fst).Nodup) (f : Field)
    (hwf : FieldWF T f) (hser : SerOK f) :
    structureField T f.name (unstructureField T f) = f := by
  rw [structureField_unstructureField_gen T hT f hwf, roundField_of_serOK T f hser]

end PydraModel.Roundtrip
