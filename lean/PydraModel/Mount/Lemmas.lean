import PydraModel.Mount.Model
namespace PydraModel.Mount

/-- canonical spelling of an absolute path with the given components -/
def render (cs : List Str) : Str := if cs = [] then ['/'] else cs.flatMap (fun c => '/' :: c)

/-- a mount point as `mount` prints it: absolute, no `//`, no `.` piece, no trailing `/` -/
def Normalized (p : Str) : Prop := p = render (comps p)

theorem comps_ne_nil {p : Str} {c : Str} (h : c ∈ comps p) : c ≠ [] := by
  unfold comps at h
  have := (List.mem_filter.mp h).2
  intro hc; subst hc; simp at this

theorem flatMap_len_le (cs r : List Str) :
    (cs.flatMap (fun c => '/' :: c)).length ≤ ((cs ++ r).flatMap (fun c => '/' :: c)).length := by
  simp [List.flatMap_append]

theorem render_lt_of_strict_prefix {cs ds : List Str} (hp : cs <+: ds) (hne : cs.length < ds.length)
    (hd : ∀ c ∈ ds, c ≠ []) : (render cs).length < (render ds).length := by
  obtain ⟨r, rfl⟩ := hp
  cases r with
  | nil => simp at hne
  | cons x r =>
    have hx : x ≠ [] := hd x (by simp)
    have hxl : 0 < x.length := List.length_pos_iff.mpr hx
    unfold render
    by_cases hcs : cs = []
    · subst hcs; simp [List.flatMap_cons]; omega
    · have : cs ++ x :: r ≠ [] := by simp
      simp [hcs, List.flatMap_append, List.flatMap_cons]

/-- the first match of `find?` in a list sorted by a key is a key-maximal match -/
theorem find?_maximal {α} (key : α → Nat) (p : α → Bool) (l : List α)
    (hs : l.Pairwise (fun a b => key b ≤ key a)) {e : α} (hf : l.find? p = some e) :
    e ∈ l ∧ p e = true ∧ ∀ e' ∈ l, p e' = true → key e' ≤ key e := by
  induction l with
  | nil => simp at hf
  | cons x xs ih =>
    rw [List.pairwise_cons] at hs
    by_cases hx : p x = true
    · simp [hx] at hf; subst hf
      refine ⟨by simp, hx, ?_⟩
      intro e' he' _
      rcases List.mem_cons.mp he' with rfl | h
      · exact Nat.le_refl _
      · exact hs.1 e' h
    · simp [hx] at hf
      obtain ⟨h1, h2, h3⟩ := ih hs.2 hf
      refine ⟨by simp [h1], h2, ?_⟩
      intro e' he' hp'
      rcases List.mem_cons.mp he' with rfl | h
      · exact absurd hp' hx
      · exact h3 e' h hp'

theorem insertByLen_mem (e : Entry) (t : Table) (x : Entry) : x ∈ insertByLen e t ↔ x = e ∨ x ∈ t := by
  induction t with
  | nil => simp [insertByLen]
  | cons y ys ih =>
    unfold insertByLen; split
    · simp
    · simp [ih]; constructor
      · rintro (h | h | h) <;> simp [h]
      · rintro (h | h | h) <;> simp [h]

theorem insertByLen_sorted (e : Entry) (t : Table)
    (h : t.Pairwise (fun a b => b.1.length ≤ a.1.length)) :
    (insertByLen e t).Pairwise (fun a b => b.1.length ≤ a.1.length) := by
  induction t with
  | nil => simp [insertByLen]
  | cons y ys ih =>
    rw [List.pairwise_cons] at h
    unfold insertByLen; split
    · rename_i hle
      refine List.pairwise_cons.mpr ⟨?_, List.pairwise_cons.mpr h⟩
      intro b hb
      rcases List.mem_cons.mp hb with rfl | hb
      · exact hle
      · exact Nat.le_trans (h.1 b hb) hle
    · rename_i hlt
      refine List.pairwise_cons.mpr ⟨?_, ih h.2⟩
      intro b hb
      rcases (insertByLen_mem e ys b).mp hb with rfl | hb
      · omega
      · exact h.1 b hb

theorem sortByLenDesc_sorted (t : Table) :
    (sortByLenDesc t).Pairwise (fun a b => b.1.length ≤ a.1.length) := by
  unfold sortByLenDesc
  induction t with
  | nil => simp
  | cons x xs ih => simpa [List.foldr_cons] using insertByLen_sorted x _ ih

theorem sortByLenDesc_mem (t : Table) (x : Entry) : x ∈ sortByLenDesc t ↔ x ∈ t := by
  unfold sortByLenDesc
  induction t with
  | nil => simp
  | cons y ys ih => simp [List.foldr_cons, insertByLen_mem, ih]

end PydraModel.Mount
