import PydraModel.Basic
/-
Engine `Mount` (DESIGN §5.9): `MountIndentifier.get_mount`, `on_cifs`, `on_same_mount` and the
table-building part of `parse_mount_table` (pydra/utils/mount_identifier.py).
Strings are `List Char` (Python `str` as a sequence of code points).
-/
namespace PydraModel.Mount

abbrev Str := List Char
abbrev Entry := Str × Str          -- (mount point, fstype)
abbrev Table := List Entry

/-- `PurePosixPath(p).parts` without the root: split on '/', drop empty and "." pieces. -/
def comps (p : Str) : List Str :=
  (splitOnChar '/' p).filter (fun c => !(c == [] || c == ['.']))

/-- Default answer of `get_mount` when no entry matches. -/
def rootEntry : Entry := (['/'], "ext4".toList)

/-- `get_mount` with Python's `str.startswith` (the algorithm of the pinned commit, defect D22). -/
def getMountStr (tbl : Table) (path : Str) : Entry :=
  match tbl.find? (fun e => e.1.isPrefixOf path) with
  | some e => e
  | none => rootEntry

/-- `get_mount` comparing whole path components: first entry whose components are a prefix. -/
def getMountComp (tbl : Table) (path : Str) : Entry :=
  match tbl.find? (fun e => (comps e.1).isPrefixOf (comps path)) with
  | some e => e
  | none => rootEntry

def onCifs (get : Table → Str → Entry) (tbl : Table) (p : Str) : Bool :=
  (get tbl p).2 == "cifs".toList

def onSameMount (get : Table → Str → Entry) (tbl : Table) (p q : Str) : Bool :=
  comps (get tbl p).1 == comps (get tbl q).1       -- `Path(..) == Path(..)`

/-- Insertion into a list kept sorted by descending length; equal lengths keep arrival order
    (Python's `sorted(..., key=len, reverse=True)` is stable, and `reverse=True` preserves
    the original order of equal keys). -/
def insertByLen (e : Entry) : Table → Table
  | [] => [e]
  | x :: xs => if x.1.length ≤ e.1.length then e :: x :: xs else x :: insertByLen e xs

def sortByLenDesc (t : Table) : Table := t.foldr insertByLen []

def lower (s : Str) : Str := s.map Char.toLower

/-- `parse_mount_table` after the regex has produced `(path, fstype)` pairs:
    sort longest first, keep the entries lying under some CIFS mount point.
    `under` is the prefix test used by the filter. -/
def parseTable (under : Str → Str → Bool) (pairs : Table) : Table :=
  let info := sortByLenDesc pairs
  let cifs := (info.filter (fun e => lower e.2 == "cifs".toList)).map (·.1)
  info.filter (fun m => cifs.any (fun c => under m.1 c))

end PydraModel.Mount
