import PydraModel.Files.Model
/-
Helper lemmas for the `Files` engine:

* `Rel` — "same container structure, same non-file leaves, file leaves related by `p`" and what follows from it;
* `traverse_spec` — ONE mutual induction over nested values: whatever is preserved by a single call of `func`
  (and composes) holds for the whole `apply_to_instances` traversal;
* `Contract` — the assumed behaviour of `fileformats.FileSet.copy`;
* `copyNested_spec` — invariants of one `copy_nested_files` call under the contract.
-/
namespace PydraModel.Files
open PydraModel.Mount (Str Table)

/-! ### structural relation between a value and its image -/

mutual
def Rel (p : FileObj → FileObj → Prop) : Val → Val → Prop
  | .atom a, w => w = .atom a
  | .file x, w => ∃ d, w = .file d ∧ p x d
  | .node _ k cs, w => ∃ ds, w = .node 0 k ds ∧ RelL p cs ds
def RelL (p : FileObj → FileObj → Prop) : List Val → List Val → Prop
  | [], ws => ws = []
  | c :: cs, ws => ∃ d ds, ws = d :: ds ∧ Rel p c d ∧ RelL p cs ds
end

mutual
theorem Rel.mono {p q : FileObj → FileObj → Prop} (h : ∀ x d, p x d → q x d) :
    ∀ (v w : Val), Rel p v w → Rel q v w
  | .atom _, _, hr => by simpa [Rel] using hr
  | .file x, w, hr => by
    simp only [Rel] at hr ⊢
    obtain ⟨d, hw, hp⟩ := hr
    exact ⟨d, hw, h _ _ hp⟩
  | .node _ k cs, w, hr => by
    simp only [Rel] at hr ⊢
    obtain ⟨ds, hw, hl⟩ := hr
    exact ⟨ds, hw, RelL.mono h cs ds hl⟩
theorem RelL.mono {p q : FileObj → FileObj → Prop} (h : ∀ x d, p x d → q x d) :
    ∀ (vs ws : List Val), RelL p vs ws → RelL q vs ws
  | [], _, hr => by simpa [RelL] using hr
  | c :: cs, ws, hr => by
    simp only [RelL] at hr ⊢
    obtain ⟨d, ds, hw, h1, h2⟩ := hr
    exact ⟨d, ds, hw, Rel.mono h c d h1, RelL.mono h cs ds h2⟩
end

-- Monotonicity restricted to the leaves that actually occur.
mutual
theorem Rel.mono_leaves {p q : FileObj → FileObj → Prop} :
    ∀ (v w : Val), (∀ x ∈ leaves v, ∀ d, p x d → q x d) → Rel p v w → Rel q v w
  | .atom _, _, _, hr => by simpa [Rel] using hr
  | .file x, w, h, hr => by
    simp only [Rel] at hr ⊢
    obtain ⟨d, hw, hp⟩ := hr
    exact ⟨d, hw, h x (by simp [leaves]) d hp⟩
  | .node _ k cs, w, h, hr => by
    simp only [Rel] at hr ⊢
    obtain ⟨ds, hw, hl⟩ := hr
    exact ⟨ds, hw, RelL.mono_leaves cs ds (by simpa [leaves] using h) hl⟩
theorem RelL.mono_leaves {p q : FileObj → FileObj → Prop} :
    ∀ (vs ws : List Val), (∀ x ∈ leavesL vs, ∀ d, p x d → q x d) → RelL p vs ws → RelL q vs ws
  | [], _, _, hr => by simpa [RelL] using hr
  | c :: cs, ws, h, hr => by
    simp only [RelL] at hr ⊢
    obtain ⟨d, ds, hw, h1, h2⟩ := hr
    refine ⟨d, ds, hw, Rel.mono_leaves c d (fun x hx => h x (by simp [leavesL, hx])) h1,
      RelL.mono_leaves cs ds (fun x hx => h x (by simp [leavesL, hx])) h2⟩
end

-- A relation that is functional on the leaves pins the image down: it is the plain tree map.
mutual
theorem Rel.eq_map {p : FileObj → FileObj → Prop} {g : FileObj → FileObj} :
    ∀ (v w : Val), (∀ x ∈ leaves v, ∀ d, p x d → d = g x) → Rel p v w → w = mapVal g v
  | .atom _, _, _, hr => by simpa [Rel, mapVal] using hr
  | .file x, w, h, hr => by
    simp only [Rel] at hr
    obtain ⟨d, hw, hp⟩ := hr
    rw [hw, h x (by simp [leaves]) d hp, mapVal]
  | .node _ k cs, w, h, hr => by
    simp only [Rel] at hr
    obtain ⟨ds, hw, hl⟩ := hr
    rw [hw, mapVal, RelL.eq_map cs ds (by simpa [leaves] using h) hl]
theorem RelL.eq_map {p : FileObj → FileObj → Prop} {g : FileObj → FileObj} :
    ∀ (vs ws : List Val), (∀ x ∈ leavesL vs, ∀ d, p x d → d = g x) → RelL p vs ws → ws = mapList g vs
  | [], _, _, hr => by simpa [RelL, mapList] using hr
  | c :: cs, ws, h, hr => by
    simp only [RelL] at hr
    obtain ⟨d, ds, hw, h1, h2⟩ := hr
    rw [hw, mapList, Rel.eq_map c d (fun x hx => h x (by simp [leavesL, hx])) h1,
      RelL.eq_map cs ds (fun x hx => h x (by simp [leavesL, hx])) h2]
end

mutual
theorem mapVal_comp_const (g : FileObj → FileObj) (c : FileObj) :
    ∀ v : Val, mapVal (fun _ => c) (mapVal g v) = mapVal (fun _ => c) v
  | .atom _ => by simp [mapVal]
  | .file _ => by simp [mapVal]
  | .node _ k cs => by simp [mapVal, mapList_comp_const g c cs]
theorem mapList_comp_const (g : FileObj → FileObj) (c : FileObj) :
    ∀ vs : List Val, mapList (fun _ => c) (mapList g vs) = mapList (fun _ => c) vs
  | [] => by simp [mapList]
  | v :: vs => by simp [mapList, mapVal_comp_const g c v, mapList_comp_const g c vs]
end

-- Related values have the same shape (containers, order, non-file leaves).
mutual
theorem Rel.shape_eq {p : FileObj → FileObj → Prop} :
    ∀ (v w : Val), Rel p v w → mapVal (fun _ => (default : FileObj)) w = mapVal (fun _ => default) v
  | .atom _, _, hr => by
    simp only [Rel] at hr
    rw [hr]
  | .file x, w, hr => by
    simp only [Rel] at hr
    obtain ⟨d, hw, _⟩ := hr
    rw [hw]; simp [mapVal]
  | .node _ k cs, w, hr => by
    simp only [Rel] at hr
    obtain ⟨ds, hw, hl⟩ := hr
    rw [hw]; simp [mapVal, RelL.shape_eq cs ds hl]
theorem RelL.shape_eq {p : FileObj → FileObj → Prop} :
    ∀ (vs ws : List Val), RelL p vs ws →
      mapList (fun _ => (default : FileObj)) ws = mapList (fun _ => default) vs
  | [], _, hr => by
    simp only [RelL] at hr
    rw [hr]
  | c :: cs, ws, hr => by
    simp only [RelL] at hr
    obtain ⟨d, ds, hw, h1, h2⟩ := hr
    rw [hw]; simp [mapList, Rel.shape_eq c d h1, RelL.shape_eq cs ds h2]
end

-- Every file leaf of the source has an image.
mutual
theorem Rel.leaf_image {p : FileObj → FileObj → Prop} :
    ∀ (v w : Val), Rel p v w → ∀ x ∈ leaves v, ∃ d, d ∈ leaves w ∧ p x d
  | .atom _, _, _, x, hx => by simp [leaves] at hx
  | .file y, w, hr, x, hx => by
    simp only [Rel] at hr
    obtain ⟨d, hw, hp⟩ := hr
    simp [leaves] at hx
    subst hx
    exact ⟨d, by simp [hw, leaves], hp⟩
  | .node _ k cs, w, hr, x, hx => by
    simp only [Rel] at hr
    obtain ⟨ds, hw, hl⟩ := hr
    obtain ⟨d, hd, hp⟩ := RelL.leaf_image cs ds hl x (by simpa [leaves] using hx)
    exact ⟨d, by simpa [hw, leaves] using hd, hp⟩
theorem RelL.leaf_image {p : FileObj → FileObj → Prop} :
    ∀ (vs ws : List Val), RelL p vs ws → ∀ x ∈ leavesL vs, ∃ d, d ∈ leavesL ws ∧ p x d
  | [], _, _, x, hx => by simp [leavesL] at hx
  | c :: cs, ws, hr, x, hx => by
    simp only [RelL] at hr
    obtain ⟨d, ds, hw, h1, h2⟩ := hr
    simp only [leavesL, List.mem_append] at hx
    rcases hx with hx | hx
    · obtain ⟨e, he, hp⟩ := Rel.leaf_image c d h1 x hx
      exact ⟨e, by simp [hw, leavesL, he], hp⟩
    · obtain ⟨e, he, hp⟩ := RelL.leaf_image cs ds h2 x hx
      exact ⟨e, by simp [hw, leavesL, he], hp⟩
end

-- …and every file leaf of the image comes from one (nothing is invented).
mutual
theorem Rel.leaf_preimage {p : FileObj → FileObj → Prop} :
    ∀ (v w : Val), Rel p v w → ∀ d ∈ leaves w, ∃ x, x ∈ leaves v ∧ p x d
  | .atom _, _, hr, d, hd => by
    simp only [Rel] at hr
    simp [hr, leaves] at hd
  | .file y, w, hr, d, hd => by
    simp only [Rel] at hr
    obtain ⟨d', hw, hp⟩ := hr
    simp [hw, leaves] at hd
    subst hd
    exact ⟨y, by simp [leaves], hp⟩
  | .node _ k cs, w, hr, d, hd => by
    simp only [Rel] at hr
    obtain ⟨ds, hw, hl⟩ := hr
    obtain ⟨x, hx, hp⟩ := RelL.leaf_preimage cs ds hl d (by simpa [hw, leaves] using hd)
    exact ⟨x, by simpa [leaves] using hx, hp⟩
theorem RelL.leaf_preimage {p : FileObj → FileObj → Prop} :
    ∀ (vs ws : List Val), RelL p vs ws → ∀ d ∈ leavesL ws, ∃ x, x ∈ leavesL vs ∧ p x d
  | [], _, hr, d, hd => by
    simp only [RelL] at hr
    simp [hr, leavesL] at hd
  | c :: cs, ws, hr, d, hd => by
    simp only [RelL] at hr
    obtain ⟨d', ds, hw, h1, h2⟩ := hr
    simp only [hw, leavesL, List.mem_append] at hd
    rcases hd with hd | hd
    · obtain ⟨x, hx, hp⟩ := Rel.leaf_preimage c d' h1 d hd
      exact ⟨x, by simp [leavesL, hx], hp⟩
    · obtain ⟨x, hx, hp⟩ := RelL.leaf_preimage cs ds h2 d hd
      exact ⟨x, by simp [leavesL, hx], hp⟩
end

/-! ### the traversal, once and for all -/

section Traverse
set_option linter.unusedSectionVars false
variable {σ ε : Type} (f : σ → FileObj → Except ε (FileObj × σ))
variable (I : σ → Prop) (Q : σ → List FileObj → σ → Prop) (R : σ → FileObj → FileObj → Prop)
variable (Qnil : ∀ s, Q s [] s)
variable (Qapp : ∀ a xs b ys c, Q a xs b → Q b ys c → Q a (xs ++ ys) c)
variable (Rmono : ∀ s xs s' x d, Q s xs s' → R s x d → R s' x d)
variable (step : ∀ s x d s', I s → f s x = .ok (d, s') → I s' ∧ Q s [x] s' ∧ R s' x d)

include Qnil Qapp Rmono step in
mutual
/-- `apply_to_instances` started without a cache: an invariant `I`, a composable transition relation `Q` indexed by the
    leaves processed, and a monotone "resolved to" relation `R`, each established by single calls of `func`, hold for
    the whole traversal. -/
theorem traverse_spec : ∀ (v : Val) (s : σ) (w : Val) (s' : σ), I s → applyToInstances f [] s v = .ok (w, s') →
    I s' ∧ Q s (leaves v) s' ∧ Rel (R s') v w
  | .atom a, s, w, s', hI, h => by
    simp only [applyToInstances, Except.ok.injEq, Prod.mk.injEq] at h
    obtain ⟨rfl, rfl⟩ := h
    exact ⟨hI, by simpa [leaves] using Qnil s, by simp [Rel]⟩
  | .file x, s, w, s', hI, h => by
    simp only [applyToInstances, List.lookup] at h
    cases hf : f s x with
    | error e => simp [hf] at h
    | ok r =>
      obtain ⟨d, s1⟩ := r
      simp only [hf, Except.ok.injEq, Prod.mk.injEq] at h
      obtain ⟨rfl, rfl⟩ := h
      obtain ⟨h1, h2, h3⟩ := step s x d s1 hI hf
      exact ⟨h1, by simpa [leaves] using h2, by simp only [Rel]; exact ⟨d, rfl, h3⟩⟩
  | .node i k cs, s, w, s', hI, h => by
    simp only [applyToInstances, List.lookup] at h
    cases hl : applyList f s cs with
    | error e => simp [hl] at h
    | ok r =>
      obtain ⟨ds, s1⟩ := r
      simp only [hl, Except.ok.injEq, Prod.mk.injEq] at h
      obtain ⟨rfl, rfl⟩ := h
      obtain ⟨h1, h2, h3⟩ := traverseL_spec cs s ds s1 hI hl
      exact ⟨h1, by simpa [leaves] using h2, by simp only [Rel]; exact ⟨ds, rfl, h3⟩⟩
theorem traverseL_spec : ∀ (vs : List Val) (s : σ) (ws : List Val) (s' : σ), I s → applyList f s vs = .ok (ws, s') →
    I s' ∧ Q s (leavesL vs) s' ∧ RelL (R s') vs ws
  | [], s, ws, s', hI, h => by
    simp only [applyList, Except.ok.injEq, Prod.mk.injEq] at h
    obtain ⟨rfl, rfl⟩ := h
    exact ⟨hI, by simpa [leavesL] using Qnil s, by simp [RelL]⟩
  | c :: cs, s, ws, s', hI, h => by
    simp only [applyList] at h
    cases hc : applyToInstances f [] s c with
    | error e => simp [hc] at h
    | ok r =>
      obtain ⟨d, s1⟩ := r
      simp only [hc] at h
      cases hl : applyList f s1 cs with
      | error e => simp [hl] at h
      | ok r2 =>
        obtain ⟨ds, s2⟩ := r2
        simp only [hl, Except.ok.injEq, Prod.mk.injEq] at h
        obtain ⟨rfl, rfl⟩ := h
        obtain ⟨h1, h2, h3⟩ := traverse_spec c s d s1 hI hc
        obtain ⟨g1, g2, g3⟩ := traverseL_spec cs s1 ds s2 h1 hl
        refine ⟨g1, by simpa [leavesL] using Qapp _ _ _ _ _ h2 g2, ?_⟩
        simp only [RelL]
        exact ⟨d, ds, rfl, Rel.mono (fun x e hx => Rmono _ _ _ x e g2 hx) c d h3, g3⟩
end
end Traverse

/-- The id-keyed `cache` argument is inert at the only call site: a traversal that starts with an empty cache never
    consults a non-empty one (nested calls are made without it). -/
theorem applyToInstances_cache_miss {σ ε : Type} (f : σ → FileObj → Except ε (FileObj × σ)) (cache : IdCache) (s : σ)
    (v : Val) (h : ∀ i r, (i, r) ∈ cache → match v with | .atom _ => True | .file x => x.oid ≠ i | .node j _ _ => j ≠ i) :
    applyToInstances f cache s v = applyToInstances f [] s v := by
  have key : ∀ (c : IdCache) (i : Nat), (∀ r, (i, r) ∈ c → False) → c.lookup i = none := by
    intro c
    induction c with
    | nil => intro _ _; rfl
    | cons e es ih =>
      intro i hi
      obtain ⟨j, r⟩ := e
      have hne : (i == j) = false := by
        cases hij : (i == j) with
        | false => rfl
        | true => exact absurd (by simp [beq_iff_eq.mp hij]) (hi r)
      simp only [List.lookup, hne]
      exact ih i (fun r' hr' => hi r' (by simp [hr']))
  cases v with
  | atom a => simp [applyToInstances]
  | file x =>
    have := key cache x.oid (fun r hr => (h x.oid r hr) rfl)
    simp [applyToInstances, this]
  | node j k cs =>
    have := key cache j (fun r hr => (h j r hr) rfl)
    simp [applyToInstances, this]

/-! ### the contract of `FileSet.copy` -/

/-- `p` lies inside directory `d`. -/
def Under (d p : Path) : Prop := (d ++ ['/']) <+: p

/-- What pydra relies on (DESIGN §4).  `Copied x d op` is whatever else the primitive promises about one executed
    operation (content equality on disk, link kind, name = stem + optional counter suffix + extension); it is threaded
    through unchanged. -/
structure Contract (P : Prim) (Copied : FileObj → FileObj → Op → Prop) : Prop where
  /-- the operation performed is among those requested and supported -/
  allowed : ∀ a x r, P a x = .ok r → (a.mode.and a.supported).has r.op = true
  /-- "leave": the very same object comes back, nothing is touched -/
  leave : ∀ a x r, P a x = .ok r → r.op = .leave → r.dst = x ∧ r.clashes = a.clashes ∧ r.ex = a.ex
  /-- otherwise every destination is inside `dest_dir`, not in the clash set and did not exist -/
  fresh : ∀ a x r, P a x = .ok r → r.op ≠ .leave → ∀ p ∈ r.dst.paths, Under a.destDir p ∧ p ∉ a.clashes ∧ p ∉ a.ex
  /-- …and is added to the clash set (and exists afterwards) -/
  clashes : ∀ a x r, P a x = .ok r → r.op ≠ .leave → ∀ p, p ∈ r.clashes ↔ (p ∈ a.clashes ∨ p ∈ r.dst.paths)
  ex : ∀ a x r, P a x = .ok r → r.op ≠ .leave → ∀ p, p ∈ r.ex ↔ (p ∈ a.ex ∨ p ∈ r.dst.paths)
  /-- same class, same content -/
  content : ∀ a x r, P a x = .ok r → r.dst.content = x.content ∧ r.dst.cls = x.cls
  copied : ∀ a x r, P a x = .ok r → Copied x r.dst r.op

section Nested
variable {P : Prim} {Copied : FileObj → FileObj → Op → Prop} (hP : Contract P Copied)
variable (env : Env) (S0 ex0 : List Path)

/-- `mode & supported` as `copy_fileset` passes it on for the file-set `x`. -/
def selOf (env : Env) (x : FileObj) : Mode :=
  env.mode.and (reduceSupported env.get env.tbl env.destDir x.paths env.supported)

/-- What is known about one memo entry in state `s`. -/
structure Good (Copied : FileObj → FileObj → Op → Prop) (env : Env) (S0 ex0 : List Path) (s : St) (e : Entry) : Prop where
  key : e.key = e.src.key
  copied : Copied e.src e.dst e.op
  content : e.dst.content = e.src.content ∧ e.dst.cls = e.src.cls
  allowed : (selOf env e.src).has e.op = true
  leave : e.op = .leave → e.dst = e.src
  fresh : e.op ≠ .leave → ∀ p ∈ e.dst.paths,
    Under env.destDir p ∧ p ∉ S0 ∧ p ∉ ex0 ∧ p ∈ s.clashes ∧ p ∈ s.ex

/-- Two entries that both created something created disjoint things. -/
def DisjE (a b : Entry) : Prop := a.op ≠ .leave → b.op ≠ .leave → ∀ p ∈ a.dst.paths, p ∉ b.dst.paths

structure Inv (Copied : FileObj → FileObj → Op → Prop) (env : Env) (S0 ex0 : List Path) (s : St) : Prop where
  nodup : s.memo.Pairwise (fun a b => a.key ≠ b.key)
  good : ∀ e ∈ s.memo, Good Copied env S0 ex0 s e
  disj : s.memo.Pairwise DisjE
  subS : ∀ p ∈ S0, p ∈ s.clashes
  subEx : ∀ p ∈ ex0, p ∈ s.ex
  exactS : ∀ p ∈ s.clashes, p ∈ S0 ∨ ∃ e ∈ s.memo, e.op ≠ .leave ∧ p ∈ e.dst.paths
  exactEx : ∀ p ∈ s.ex, p ∈ ex0 ∨ ∃ e ∈ s.memo, e.op ≠ .leave ∧ p ∈ e.dst.paths

/-- Transition relation: the memo only grows, and only by entries for the leaves processed. -/
def Trans (s : St) (xs : List FileObj) (s' : St) : Prop :=
  (∀ e ∈ s.memo, e ∈ s'.memo) ∧ (∀ e ∈ s'.memo, e ∈ s.memo ∨ e.src ∈ xs)

/-- `x` is resolved to `d` by the memo of `s`. -/
def Res (s : St) (x d : FileObj) : Prop := ∃ e ∈ s.memo, e.key = x.key ∧ e.dst = d

theorem Trans.nil (s : St) : Trans s [] s := ⟨fun _ h => h, fun _ h => Or.inl h⟩

theorem Trans.app (a : St) (xs : List FileObj) (b : St) (ys : List FileObj) (c : St)
    (h1 : Trans a xs b) (h2 : Trans b ys c) : Trans a (xs ++ ys) c := by
  refine ⟨fun e he => h2.1 e (h1.1 e he), fun e he => ?_⟩
  rcases h2.2 e he with h | h
  · rcases h1.2 e h with h' | h'
    · exact Or.inl h'
    · exact Or.inr (List.mem_append.mpr (Or.inl h'))
  · exact Or.inr (List.mem_append.mpr (Or.inr h))

theorem Res.mono (s : St) (xs : List FileObj) (s' : St) (x d : FileObj) (h : Trans s xs s') (hr : Res s x d) :
    Res s' x d := by
  obtain ⟨e, he, hk, hd⟩ := hr
  exact ⟨e, h.1 e he, hk, hd⟩

include hP in
/-- One call of the closure `copy_fileset` keeps the invariant. -/
theorem copyFileset_step (s : St) (x d : FileObj) (s' : St) (hI : Inv Copied env S0 ex0 s)
    (h : copyFileset P env s x = .ok (d, s')) :
    Inv Copied env S0 ex0 s' ∧ Trans s [x] s' ∧ Res s' x d := by
  unfold copyFileset at h
  cases hfind : s.memo.find? (fun e => e.key == x.key) with
  | some e =>
    simp only [hfind, Except.ok.injEq, Prod.mk.injEq] at h
    obtain ⟨rfl, rfl⟩ := h
    refine ⟨hI, ⟨fun _ h => h, fun _ h => Or.inl h⟩, e, List.mem_of_find?_eq_some hfind, ?_, rfl⟩
    have := List.find?_some hfind
    simpa using this
  | none =>
    simp only [hfind] at h
    generalize hargs : argsOf env s x = args at h
    cases hp : P args x with
    | error e => simp [hp] at h
    | ok r =>
      simp only [hp, Except.ok.injEq, Prod.mk.injEq] at h
      obtain ⟨rfl, rfl⟩ := h
      have hcl : args.clashes = s.clashes := by rw [← hargs]; rfl
      have hex : args.ex = s.ex := by rw [← hargs]; rfl
      have hdd : args.destDir = env.destDir := by rw [← hargs]; rfl
      have hsel : args.mode.and args.supported = selOf env x := by rw [← hargs]; rfl
      -- uniform consequences of the contract
      have monoS : ∀ p ∈ s.clashes, p ∈ r.clashes := by
        intro p hp'
        by_cases hl : r.op = .leave
        · rw [(hP.leave _ _ _ hp hl).2.1, hcl]; exact hp'
        · exact (hP.clashes _ _ _ hp hl p).mpr (Or.inl (hcl ▸ hp'))
      have monoE : ∀ p ∈ s.ex, p ∈ r.ex := by
        intro p hp'
        by_cases hl : r.op = .leave
        · rw [(hP.leave _ _ _ hp hl).2.2, hex]; exact hp'
        · exact (hP.ex _ _ _ hp hl p).mpr (Or.inl (hex ▸ hp'))
      have exS : ∀ p ∈ r.clashes, p ∈ s.clashes ∨ (r.op ≠ .leave ∧ p ∈ r.dst.paths) := by
        intro p hp'
        by_cases hl : r.op = .leave
        · rw [(hP.leave _ _ _ hp hl).2.1, hcl] at hp'; exact Or.inl hp'
        · rcases (hP.clashes _ _ _ hp hl p).mp hp' with h1 | h1
          · exact Or.inl (hcl ▸ h1)
          · exact Or.inr ⟨hl, h1⟩
      have exE : ∀ p ∈ r.ex, p ∈ s.ex ∨ (r.op ≠ .leave ∧ p ∈ r.dst.paths) := by
        intro p hp'
        by_cases hl : r.op = .leave
        · rw [(hP.leave _ _ _ hp hl).2.2, hex] at hp'; exact Or.inl hp'
        · rcases (hP.ex _ _ _ hp hl p).mp hp' with h1 | h1
          · exact Or.inl (hex ▸ h1)
          · exact Or.inr ⟨hl, h1⟩
      have hnone := List.find?_eq_none.mp hfind
      let ne : Entry := ⟨x.key, x, r.dst, r.op⟩
      have goodNew : Good Copied env S0 ex0
          { memo := s.memo ++ [ne], clashes := r.clashes, ex := r.ex, nextId := s.nextId + 1 } ne := by
        refine ⟨rfl, hP.copied _ _ _ hp, hP.content _ _ _ hp, ?_, fun hl => (hP.leave _ _ _ hp hl).1, ?_⟩
        · have := hP.allowed _ _ _ hp
          rw [hsel] at this
          exact this
        · intro hl p hpm
          obtain ⟨hu, hnS, hnE⟩ := hP.fresh _ _ _ hp hl p hpm
          refine ⟨hdd ▸ hu, fun h0 => hnS (hcl ▸ hI.subS p h0), fun h0 => hnE (hex ▸ hI.subEx p h0), ?_, ?_⟩
          · exact (hP.clashes _ _ _ hp hl p).mpr (Or.inr hpm)
          · exact (hP.ex _ _ _ hp hl p).mpr (Or.inr hpm)
      refine ⟨⟨?_, ?_, ?_, ?_, ?_, ?_, ?_⟩, ⟨?_, ?_⟩, ?_⟩
      · -- keys stay distinct
        refine List.pairwise_append.mpr ⟨hI.nodup, List.pairwise_singleton _ _, ?_⟩
        intro a ha b hb
        simp only [List.mem_singleton] at hb
        subst hb
        intro hk
        have := hnone a ha
        simp [hk] at this
      · intro e he
        rcases List.mem_append.mp he with he | he
        · have g := hI.good e he
          exact ⟨g.key, g.copied, g.content, g.allowed, g.leave, fun hl p hpm =>
            let ⟨a1, a2, a3, a4, a5⟩ := g.fresh hl p hpm
            ⟨a1, a2, a3, monoS p a4, monoE p a5⟩⟩
        · simp only [List.mem_singleton] at he
          subst he
          exact goodNew
      · refine List.pairwise_append.mpr ⟨hI.disj, List.pairwise_singleton _ _, ?_⟩
        intro a ha b hb
        simp only [List.mem_singleton] at hb
        subst hb
        intro hla hlb p hpa hpb
        have h4 := ((hI.good a ha).fresh hla p hpa).2.2.2.1
        exact (hP.fresh _ _ _ hp hlb p hpb).2.1 (hcl ▸ h4)
      · exact fun p hp0 => monoS p (hI.subS p hp0)
      · exact fun p hp0 => monoE p (hI.subEx p hp0)
      · intro p hpm
        rcases exS p hpm with h1 | ⟨hl, h1⟩
        · rcases hI.exactS p h1 with h2 | ⟨e, he, h2⟩
          · exact Or.inl h2
          · exact Or.inr ⟨e, List.mem_append.mpr (Or.inl he), h2⟩
        · exact Or.inr ⟨ne, List.mem_append.mpr (Or.inr (List.mem_singleton.mpr rfl)), hl, h1⟩
      · intro p hpm
        rcases exE p hpm with h1 | ⟨hl, h1⟩
        · rcases hI.exactEx p h1 with h2 | ⟨e, he, h2⟩
          · exact Or.inl h2
          · exact Or.inr ⟨e, List.mem_append.mpr (Or.inl he), h2⟩
        · exact Or.inr ⟨ne, List.mem_append.mpr (Or.inr (List.mem_singleton.mpr rfl)), hl, h1⟩
      · exact fun e he => List.mem_append.mpr (Or.inl he)
      · intro e he
        rcases List.mem_append.mp he with he | he
        · exact Or.inl he
        · simp only [List.mem_singleton] at he
          subst he
          exact Or.inr (List.mem_singleton.mpr rfl)
      · exact ⟨ne, List.mem_append.mpr (Or.inr (List.mem_singleton.mpr rfl)), rfl, rfl⟩

/-- Facts about one finished `copy_nested_files` call. -/
structure NestedSpec (Copied : FileObj → FileObj → Op → Prop) (env : Env) (S0 ex0 : List Path) (v w : Val) (s : St) :
    Prop where
  inv : Inv Copied env S0 ex0 s
  /-- each copy was made for a leaf of the value -/
  src_leaf : ∀ e ∈ s.memo, e.src ∈ leaves v
  /-- the result is the value with every file leaf replaced by what the memo holds for its key -/
  rel : Rel (Res s) v w

include hP in
theorem copyNested_spec (S : Option (List Path)) (n : Nat) (v w : Val) (s : St)
    (h : copyNested P env S ex0 n v = .ok (w, s)) (hS : S.getD [] = S0) :
    NestedSpec Copied env S0 ex0 v w s := by
  unfold copyNested at h
  rw [hS] at h
  have hI0 : Inv Copied env S0 ex0 { memo := [], clashes := S0, ex := ex0, nextId := n } :=
    ⟨List.Pairwise.nil, by simp, List.Pairwise.nil, fun _ h => h, fun _ h => h, fun _ h => Or.inl h, fun _ h => Or.inl h⟩
  obtain ⟨h1, h2, h3⟩ := traverse_spec (copyFileset P env) (Inv Copied env S0 ex0) Trans Res Trans.nil Trans.app
    Res.mono (copyFileset_step hP env S0 ex0) v _ w s hI0 h
  refine ⟨h1, fun e he => ?_, h3⟩
  rcases h2.2 e he with h' | h'
  · simp at h'
  · exact h'

end Nested

/-! ### small facts used by the property files -/

/-- Lookup in a memo whose keys are distinct is functional. -/
theorem res_unique {s : St} (hn : s.memo.Pairwise (fun a b => a.key ≠ b.key)) {x d d' : FileObj}
    (h1 : Res s x d) (h2 : Res s x d') : d = d' := by
  obtain ⟨e1, m1, k1, rfl⟩ := h1
  obtain ⟨e2, m2, k2, rfl⟩ := h2
  have : e1 = e2 := by
    apply Classical.byContradiction
    intro hne
    have hk : e1.key = e2.key := k1.trans k2.symm
    have key : ∀ (l : List Entry), l.Pairwise (fun a b => a.key ≠ b.key) → e1 ∈ l → e2 ∈ l → False := by
      intro l hl
      induction hl with
      | nil => intro h; simp at h
      | cons hhd _ ih =>
        intro a1 a2
        rcases List.mem_cons.mp a1 with r1 | r1 <;> rcases List.mem_cons.mp a2 with r2 | r2
        · exact hne (r1.trans r2.symm)
        · exact hhd _ r2 (r1 ▸ hk)
        · exact hhd _ r1 (r2 ▸ hk.symm)
        · exact ih r1 r2
    exact key _ hn m1 m2
  rw [this]

/-- The resolver of a finished call: what the memo holds for the key of `x` (`x` itself if nothing). -/
def resolve (memo : List Entry) (x : FileObj) : FileObj :=
  match memo.find? (fun e => e.key == x.key) with
  | some e => e.dst
  | none => x

theorem res_resolve {s : St} (hn : s.memo.Pairwise (fun a b => a.key ≠ b.key)) {x d : FileObj} (h : Res s x d) :
    d = resolve s.memo x := by
  obtain ⟨e, he, hk, rfl⟩ := h
  unfold resolve
  cases hf : s.memo.find? (fun e => e.key == x.key) with
  | none =>
    have := List.find?_eq_none.mp hf e he
    simp [hk] at this
  | some e' =>
    have hm := List.mem_of_find?_eq_some hf
    have hk' : e'.key = x.key := by simpa using List.find?_some hf
    exact res_unique hn ⟨e, he, hk, rfl⟩ ⟨e', hm, hk', rfl⟩

/-! ### loops over the fields of an `Outputs` object / a task -/

/-- A relation holding position by position between the input fields, the output fields and the copies made. -/
def PerField {α : Type} (Φ : α → Str × Val → List Entry → Prop) :
    List α → List (Str × Val) → List (List Entry) → Prop
  | [], [], [] => True
  | a :: as, b :: bs, m :: ms => Φ a b m ∧ PerField Φ as bs ms
  | _, _, _ => False

theorem PerField.mono {α : Type} {Φ Ψ : α → Str × Val → List Entry → Prop} :
    ∀ (as : List α) (bs : List (Str × Val)) (ms : List (List Entry)),
      (∀ a b m, a ∈ as → m ∈ ms → Φ a b m → Ψ a b m) → PerField Φ as bs ms → PerField Ψ as bs ms
  | [], [], [], _, _ => by simp [PerField]
  | a :: as, b :: bs, m :: ms, h, hp => by
    simp only [PerField] at hp ⊢
    exact ⟨h a b m (by simp) (by simp) hp.1,
      PerField.mono as bs ms (fun a' b' m' ha hm => h a' b' m' (by simp [ha]) (by simp [hm])) hp.2⟩
  | [], [], _ :: _, _, hp => by simp [PerField] at hp
  | [], _ :: _, _, _, hp => by simp [PerField] at hp
  | _ :: _, [], _, _, hp => by simp [PerField] at hp
  | _ :: _, _ :: _, [], _, hp => by simp [PerField] at hp

theorem PerField.get {α : Type} {Φ : α → Str × Val → List Entry → Prop} :
    ∀ (as : List α) (bs : List (Str × Val)) (ms : List (List Entry)) (i : Nat) (a : α) (m : List Entry),
      PerField Φ as bs ms → as[i]? = some a → ms[i]? = some m → ∃ b, bs[i]? = some b ∧ Φ a b m
  | [], _, _, i, a, m, _, ha, _ => by simp at ha
  | _ :: _, [], _, _, _, _, hp, _, _ => by simp [PerField] at hp
  | _ :: _, _ :: _, [], _, _, _, hp, _, _ => by simp [PerField] at hp
  | a0 :: as, b0 :: bs, m0 :: ms, 0, a, m, hp, ha, hm => by
    simp only [PerField] at hp
    simp at ha hm
    subst ha; subst hm
    exact ⟨b0, by simp, hp.1⟩
  | a0 :: as, b0 :: bs, m0 :: ms, i + 1, a, m, hp, ha, hm => by
    simp only [PerField] at hp
    simp at ha hm
    obtain ⟨b, hb, hΦ⟩ := PerField.get as bs ms i a m hp.2 ha hm
    exact ⟨b, by simpa using hb, hΦ⟩

/-- Every copy list is the copy list of some field. -/
theorem PerField.mem {α : Type} {Φ : α → Str × Val → List Entry → Prop} :
    ∀ (as : List α) (bs : List (Str × Val)) (ms : List (List Entry)),
      PerField Φ as bs ms → ∀ m ∈ ms, ∃ a ∈ as, ∃ b ∈ bs, Φ a b m
  | [], [], [], _, m, hm => by simp at hm
  | a :: as, b :: bs, m0 :: ms, hp, m, hm => by
    simp only [PerField] at hp
    rcases List.mem_cons.mp hm with rfl | hm
    · exact ⟨a, by simp, b, by simp, hp.1⟩
    · obtain ⟨a', ha', b', hb', h'⟩ := PerField.mem as bs ms hp.2 m hm
      exact ⟨a', by simp [ha'], b', by simp [hb'], h'⟩
  | [], [], _ :: _, hp, _, _ => by simp [PerField] at hp
  | [], _ :: _, _, hp, _, _ => by simp [PerField] at hp
  | _ :: _, [], _, hp, _, _ => by simp [PerField] at hp
  | _ :: _, _ :: _, [], hp, _, _ => by simp [PerField] at hp

/-- A symmetric relation that holds pairwise holds between any two different members. -/
theorem pairwise_sym_mem {α : Type} {R : α → α → Prop} (hs : ∀ a b, R a b → R b a) :
    ∀ (l : List α), l.Pairwise R → ∀ a ∈ l, ∀ b ∈ l, a ≠ b → R a b := by
  intro l hl
  induction hl with
  | nil => intro a ha; simp at ha
  | cons hhd _ ih =>
    intro a ha b hb hne
    rcases List.mem_cons.mp ha with r1 | r1 <;> rcases List.mem_cons.mp hb with r2 | r2
    · exact absurd (r1.trans r2.symm) hne
    · exact r1 ▸ hhd _ r2
    · exact hs _ _ (r2 ▸ hhd _ r1)
    · exact ih a r1 b r2 hne

theorem DisjE.symm (a b : Entry) (h : DisjE a b) : DisjE b a :=
  fun hb ha p hpb hpa => h ha hb p hpa hpb

/-- What is known after the field loop of `copyfile_workflow` (one clash set handed from field to field). -/
structure LoopFacts (Copied : FileObj → FileObj → Op → Prop) (env : Env) (S ex : List Path)
    (fields : List (Str × Val)) (r : Collected) : Prop where
  per : PerField (fun a b m => b.1 = a.1 ∧ ∃ st S0 ex0, st.memo = m ∧ NestedSpec Copied env S0 ex0 a.2 b.2 st)
    fields r.fields r.memos
  monoS : ∀ p ∈ S, p ∈ r.clashes
  exactS : ∀ p ∈ r.clashes, p ∈ S ∨ ∃ m ∈ r.memos, ∃ e ∈ m, e.op ≠ .leave ∧ p ∈ e.dst.paths
  freshS : ∀ m ∈ r.memos, ∀ e ∈ m, e.op ≠ .leave → ∀ p ∈ e.dst.paths,
    p ∉ S ∧ p ∉ ex ∧ p ∈ r.clashes ∧ Under env.destDir p
  disj : r.memos.flatten.Pairwise DisjE

theorem collectLoop_spec {P : Prim} {Copied : FileObj → FileObj → Op → Prop} (hP : Contract P Copied) (env : Env) :
    ∀ (fields : List (Str × Val)) (S ex : List Path) (n : Nat) (r : Collected),
      collectLoop P env fields S ex n = .ok r → LoopFacts Copied env S ex fields r
  | [], S, ex, n, r, h => by
    simp only [collectLoop, Except.ok.injEq] at h
    subst h
    exact ⟨by simp [PerField], fun _ h => h, fun _ h => Or.inl h, by simp, by simp⟩
  | (name, v) :: fs, S, ex, n, r, h => by
    simp only [collectLoop] at h
    cases hc : copyNested P env (some S) ex n v with
    | error e => simp [hc] at h
    | ok q =>
      obtain ⟨v', st⟩ := q
      simp only [hc] at h
      cases hl : collectLoop P env fs st.clashes st.ex st.nextId with
      | error e => simp [hl] at h
      | ok r' =>
        simp only [hl, Except.ok.injEq] at h
        subst h
        have spec := copyNested_spec hP env S ex (some S) n v v' st hc rfl
        have ih := collectLoop_spec hP env fs st.clashes st.ex st.nextId r' hl
        refine ⟨?_, ?_, ?_, ?_, ?_⟩
        · simp only [PerField]
          exact ⟨⟨by simp, st, S, ex, rfl, spec⟩, ih.per⟩
        · exact fun p hp => ih.monoS p (spec.inv.subS p hp)
        · intro p hp
          rcases ih.exactS p hp with h1 | ⟨m, hm, e, he, h2⟩
          · rcases spec.inv.exactS p h1 with h3 | ⟨e, he, h3⟩
            · exact Or.inl h3
            · exact Or.inr ⟨st.memo, by simp, e, he, h3⟩
          · exact Or.inr ⟨m, by simp [hm], e, he, h2⟩
        · intro m hm e he hl' p hp
          simp only [List.mem_cons] at hm
          rcases hm with rfl | hm
          · obtain ⟨a1, a2, a3, a4, _⟩ := (spec.inv.good e he).fresh hl' p hp
            exact ⟨a2, a3, ih.monoS p a4, a1⟩
          · obtain ⟨b1, b2, b3, b4⟩ := ih.freshS m hm e he hl' p hp
            exact ⟨fun h0 => b1 (spec.inv.subS p h0), fun h0 => b2 (spec.inv.subEx p h0), b3, b4⟩
        · simp only [List.flatten_cons]
          refine List.pairwise_append.mpr ⟨spec.inv.disj, ih.disj, ?_⟩
          intro a ha b hb hla hlb p hpa hpb
          obtain ⟨m, hm, hbm⟩ := List.mem_flatten.mp hb
          have h4 := ((spec.inv.good a ha).fresh hla p hpa).2.2.2.1
          exact (ih.freshS m hm b hbm hlb p hpb).1 h4

/-! ### the staging gate -/

mutual
theorem containsType_iff : ∀ t : Ty, containsType t = true ↔ ∃ n, n ∈ Ty.fileLeaves t
  | .file n => by simp [containsType, Ty.fileLeaves]
  | .atom _ => by simp [containsType, Ty.fileLeaves]
  | .union args => by simp only [containsType, Ty.fileLeaves]; exact containsAny_iff args
  | .mapping k v => by
    simp only [containsType, Ty.fileLeaves, Bool.or_eq_true, List.mem_append, containsType_iff k, containsType_iff v]
    constructor
    · rintro (⟨n, h⟩ | ⟨n, h⟩)
      · exact ⟨n, Or.inl h⟩
      · exact ⟨n, Or.inr h⟩
    · rintro ⟨n, h | h⟩
      · exact Or.inl ⟨n, h⟩
      · exact Or.inr ⟨n, h⟩
  | .seq args _ => by simp only [containsType, Ty.fileLeaves]; exact containsAny_iff args
theorem containsAny_iff : ∀ ts : List Ty, containsAny ts = true ↔ ∃ n, n ∈ Ty.fileLeavesL ts
  | [] => by simp [containsAny, Ty.fileLeavesL]
  | t :: ts => by
    simp only [containsAny, Ty.fileLeavesL, Bool.or_eq_true, List.mem_append, containsType_iff t, containsAny_iff ts]
    constructor
    · rintro (⟨n, h⟩ | ⟨n, h⟩)
      · exact ⟨n, Or.inl h⟩
      · exact ⟨n, Or.inr h⟩
    · rintro ⟨n, h | h⟩
      · exact Or.inl ⟨n, h⟩
      · exact Or.inr ⟨n, h⟩
end

end PydraModel.Files
