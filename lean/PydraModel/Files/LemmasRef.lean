import PydraModel.Files.Lemmas
/-
Lemmas about the concrete counter-suffix primitive `copyOneRef` (Files/Model.lean) and the error side of the traversal:

* a successful `copyOneRef` call unfolded (`copyOneRef_ok`) — used to show that it meets `Contract` (Props/C33);
* `traverse_err`: what failing calls of `func` can make the traversal fail with;
* with the reference primitive, `FileExistsError` needs an existing path inside the destination directory that is not
  in the clash set (`copyOneRef_err`), and the field loop of `copyfile_workflow` never gets into that situation
  (`collectLoop_ref_err`).
-/
namespace PydraModel.Files
open PydraModel.Mount (Str Table)

theorem scan_accept (S ex : List Path) : ∀ (l : List Path), scan S ex l = .accept → ∀ p ∈ l, p ∉ S ∧ p ∉ ex
  | [], _, p, hp => by simp at hp
  | q :: qs, h, p, hp => by
    unfold scan at h
    by_cases h1 : q ∈ S
    · simp [h1] at h
    · by_cases h2 : q ∈ ex
      · simp [h1, h2] at h
      · simp only [h1, h2, if_false] at h
        rcases List.mem_cons.mp hp with rfl | hp
        · exact ⟨h1, h2⟩
        · exact scan_accept S ex qs h p hp

theorem search_ok (S ex : List Path) (cands : Nat → List Path) :
    ∀ (fuel c : Nat) (ds : List Path), search S ex cands fuel c = .ok ds →
      ∃ c', ds = cands c' ∧ ∀ p ∈ ds, p ∉ S ∧ p ∉ ex
  | 0, _, _, h => by simp [search] at h
  | fuel + 1, c, ds, h => by
    unfold search at h
    cases hs : scan S ex (cands c) with
    | accept =>
      simp only [hs, Except.ok.injEq] at h
      subst h
      exact ⟨c, rfl, scan_accept S ex _ hs⟩
    | retry =>
      simp only [hs] at h
      exact search_ok S ex cands fuel (c + 1) ds h
    | raise => simp [hs] at h

/-- What `copyOneRef` promises beyond the contract: same class, one destination per source path, each named
    `dest_dir/<stem>[ (<counter>)]<ext>` with ONE counter for the whole file-set. -/
def CopiedRef (destDir : Path) (x d : FileObj) (op : Op) : Prop :=
  op = .leave ∧ d = x ∨ op ≠ .leave ∧ ∃ c, d.paths = x.paths.map (fun p => candidate destDir p c)

theorem chooseOp_has (sel : Mode) (op : Op) (h : chooseOp sel = some op) : sel.has op = true := by
  unfold chooseOp at h
  cases hl : sel.leave <;> cases hs : sel.sym <;> cases hh : sel.hard <;> cases hc : sel.copy <;>
    simp [hl, hs, hh, hc] at h <;> subst h <;> simp [Mode.has, hl, hs, hh, hc]

theorem candidate_under (d p : Path) (c : Nat) : Under d (candidate d p c) := by
  unfold Under candidate
  exact ⟨clashStem (splitName (nameOf p)).1 c ++ (splitName (nameOf p)).2, by simp [List.append_assoc]⟩

/-- Unfolding of a successful `copyOneRef` call. -/
theorem copyOneRef_ok (a : CopyArgs) (x : FileObj) (r : CopyOut) (h : copyOneRef a x = .ok r) :
    (r.op = .leave ∧ r.dst = x ∧ r.clashes = a.clashes ∧ r.ex = a.ex ∧ (a.mode.and a.supported).has .leave = true)
    ∨ (r.op ≠ .leave ∧ (a.mode.and a.supported).has r.op = true ∧
        ∃ c, r.dst = { oid := a.fresh, cls := x.cls, paths := x.paths.map (fun p => candidate a.destDir p c),
                       content := x.content }
          ∧ (∀ p ∈ r.dst.paths, p ∉ a.clashes ∧ p ∉ a.ex)
          ∧ r.clashes = a.clashes ++ r.dst.paths ∧ r.ex = a.ex ++ r.dst.paths) := by
  unfold copyOneRef at h
  split at h
  · simp at h
  · split at h
    · simp at h
    · cases hc : chooseOp (a.mode.and a.supported) with
      | none => simp [hc] at h
      | some op =>
        have hhas := chooseOp_has _ _ hc
        cases op with
        | leave =>
          simp only [hc, Except.ok.injEq] at h
          subst h
          exact Or.inl ⟨rfl, rfl, rfl, rfl, hhas⟩
        | hard | sym | copy =>
          simp only [hc] at h
          cases hs : search a.clashes a.ex (fun c => x.paths.map (fun p => candidate a.destDir p c))
              (a.clashes.length + 2) 0 with
          | error e => simp [hs] at h
          | ok ds =>
            simp only [hs, Except.ok.injEq] at h
            subst h
            obtain ⟨c, hds, hfr⟩ := search_ok _ _ _ _ _ _ hs
            exact Or.inr ⟨by simp, hhas, c, by simp [hds], hfr, rfl, rfl⟩

/-! ### error side -/

section ErrSide
set_option linter.unusedSectionVars false
variable {σ ε : Type} (f : σ → FileObj → Except ε (FileObj × σ))
variable (I : σ → Prop) (E : ε → Prop)
variable (step_ok : ∀ s x d s', I s → f s x = .ok (d, s') → I s')
variable (step_err : ∀ s x e, I s → f s x = .error e → E e)

include step_ok in
theorem traverse_inv (v : Val) (s : σ) (w : Val) (s' : σ) (hI : I s) (h : applyToInstances f [] s v = .ok (w, s')) :
    I s' :=
  (traverse_spec f I (fun _ _ _ => True) (fun _ _ _ => True) (fun _ => trivial) (fun _ _ _ _ _ _ _ => trivial)
    (fun _ _ _ _ _ _ _ => trivial) (fun s x d s' hI h => ⟨step_ok s x d s' hI h, trivial, trivial⟩) v s w s' hI h).1

include step_ok in
theorem traverseL_inv (vs : List Val) (s : σ) (ws : List Val) (s' : σ) (hI : I s) (h : applyList f s vs = .ok (ws, s')) :
    I s' :=
  (traverseL_spec f I (fun _ _ _ => True) (fun _ _ _ => True) (fun _ => trivial) (fun _ _ _ _ _ _ _ => trivial)
    (fun _ _ _ _ _ _ _ => trivial) (fun s x d s' hI h => ⟨step_ok s x d s' hI h, trivial, trivial⟩) vs s ws s' hI h).1

include step_ok step_err in
mutual
/-- Error side of the traversal: if every failing call of `func` from an invariant state fails with an `E`-error, so
    does the traversal. -/
theorem traverse_err : ∀ (v : Val) (s : σ) (e : ε), I s → applyToInstances f [] s v = .error e → E e
  | .atom a, s, e, _, h => by simp [applyToInstances] at h
  | .file x, s, e, hI, h => by
    simp only [applyToInstances, List.lookup] at h
    cases hf : f s x with
    | error e' =>
      simp only [hf, Except.error.injEq] at h
      exact h ▸ step_err s x e' hI hf
    | ok r => obtain ⟨d, s1⟩ := r; simp [hf] at h
  | .node i k cs, s, e, hI, h => by
    simp only [applyToInstances, List.lookup] at h
    cases hl : applyList f s cs with
    | error e' =>
      simp only [hl, Except.error.injEq] at h
      exact h ▸ traverseL_err cs s e' hI hl
    | ok r => obtain ⟨ds, s1⟩ := r; simp [hl] at h
theorem traverseL_err : ∀ (vs : List Val) (s : σ) (e : ε), I s → applyList f s vs = .error e → E e
  | [], s, e, _, h => by simp [applyList] at h
  | c :: cs, s, e, hI, h => by
    simp only [applyList] at h
    cases hc : applyToInstances f [] s c with
    | error e' =>
      simp only [hc, Except.error.injEq] at h
      exact h ▸ traverse_err c s e' hI hc
    | ok r =>
      obtain ⟨d, s1⟩ := r
      simp only [hc] at h
      have hI1 := traverse_inv f I step_ok c s d s1 hI hc
      cases hl : applyList f s1 cs with
      | error e' =>
        simp only [hl, Except.error.injEq] at h
        exact h ▸ traverseL_err cs s1 e' hI1 hl
      | ok r2 => obtain ⟨ds, s2⟩ := r2; simp [hl] at h
end
end ErrSide

theorem scan_raise (S ex : List Path) : ∀ (l : List Path), scan S ex l = .raise → ∃ p ∈ l, p ∉ S ∧ p ∈ ex
  | [], h => by simp [scan] at h
  | q :: qs, h => by
    unfold scan at h
    by_cases h1 : q ∈ S
    · simp [h1] at h
    · by_cases h2 : q ∈ ex
      · exact ⟨q, by simp, h1, h2⟩
      · simp only [h1, h2, if_false] at h
        obtain ⟨p, hp, hh⟩ := scan_raise S ex qs h
        exact ⟨p, by simp [hp], hh⟩

theorem search_err (S ex : List Path) (cands : Nat → List Path) :
    ∀ (fuel c : Nat) (e : Err), search S ex cands fuel c = .error e →
      e = "model:fuel".toList ∨ ∃ c', scan S ex (cands c') = .raise
  | 0, _, e, h => by
    simp only [search, Except.error.injEq] at h
    exact Or.inl h.symm
  | fuel + 1, c, e, h => by
    unfold search at h
    cases hs : scan S ex (cands c) with
    | accept => simp [hs] at h
    | retry =>
      simp only [hs] at h
      exact search_err S ex cands fuel (c + 1) e h
    | raise => exact Or.inr ⟨c, hs⟩

/-- Everything that exists inside the destination directory is in the clash set. -/
def Covered (destDir : Path) (s : St) : Prop := ∀ p ∈ s.ex, Under destDir p → p ∈ s.clashes

/-- The errors left once clashes are out of the picture: an empty or (for this reference primitive) unsupported
    file-set, a copy mode that cannot be satisfied, or the search bound of the model. -/
def BenignErr (sel : FileObj → Mode) (e : Err) : Prop :=
  e = "ValueError".toList ∨ e = "model:unsupported-by-ref".toList
    ∨ (e = "UnsatisfiableCopyModeError".toList ∧ ∃ x, chooseOp (sel x) = none)
    ∨ e = "model:fuel".toList

theorem copyOneRef_err (a : CopyArgs) (x : FileObj) (e : Err) (h : copyOneRef a x = .error e)
    (hc : ∀ p ∈ a.ex, Under a.destDir p → p ∈ a.clashes) : BenignErr (fun _ => a.mode.and a.supported) e := by
  unfold copyOneRef at h
  split at h
  · simp only [Except.error.injEq] at h; exact Or.inl h.symm
  · split at h
    · simp only [Except.error.injEq] at h; exact Or.inr (Or.inl h.symm)
    · cases hco : chooseOp (a.mode.and a.supported) with
      | none =>
        simp only [hco, Except.error.injEq] at h
        exact Or.inr (Or.inr (Or.inl ⟨h.symm, x, hco⟩))
      | some op =>
        cases op with
        | leave => simp [hco] at h
        | hard | sym | copy =>
          simp only [hco] at h
          cases hs : search a.clashes a.ex (fun c => x.paths.map (fun p => candidate a.destDir p c))
              (a.clashes.length + 2) 0 with
          | ok ds => simp [hs] at h
          | error e' =>
            simp only [hs, Except.error.injEq] at h
            subst h
            rcases search_err _ _ _ _ _ _ hs with hf | ⟨c, hr⟩
            · exact Or.inr (Or.inr (Or.inr hf))
            · exfalso
              obtain ⟨p, hp, hnS, hex⟩ := scan_raise _ _ _ hr
              simp only [List.mem_map] at hp
              obtain ⟨q, _, rfl⟩ := hp
              exact hnS (hc _ hex (candidate_under _ _ _))

theorem copyFileset_ref_ok (env : Env) (s : St) (x d : FileObj) (s' : St) (hI : Covered env.destDir s)
    (h : copyFileset copyOneRef env s x = .ok (d, s')) : Covered env.destDir s' := by
  unfold copyFileset at h
  cases hfind : s.memo.find? (fun e => e.key == x.key) with
  | some e =>
    simp only [hfind, Except.ok.injEq, Prod.mk.injEq] at h
    exact h.2 ▸ hI
  | none =>
    simp only [hfind] at h
    cases hp : copyOneRef (argsOf env s x) x with
    | error e => simp [hp] at h
    | ok r =>
      simp only [hp, Except.ok.injEq, Prod.mk.injEq] at h
      obtain ⟨_, rfl⟩ := h
      intro p hpex hu
      show p ∈ r.clashes
      have hpex' : p ∈ r.ex := hpex
      rcases copyOneRef_ok _ x r hp with ⟨_, _, h3, h4, _⟩ | ⟨_, _, c, _, _, hS, hE⟩
      · rw [h3]; rw [h4] at hpex'
        exact hI p hpex' hu
      · rw [hS]; rw [hE] at hpex'
        rcases List.mem_append.mp hpex' with h0 | h0
        · exact List.mem_append.mpr (Or.inl (hI p h0 hu))
        · exact List.mem_append.mpr (Or.inr h0)

theorem copyFileset_ref_err (env : Env) (s : St) (x : FileObj) (e : Err) (hI : Covered env.destDir s)
    (h : copyFileset copyOneRef env s x = .error e) : BenignErr (selOf env) e := by
  unfold copyFileset at h
  cases hfind : s.memo.find? (fun e => e.key == x.key) with
  | some e' => simp [hfind] at h
  | none =>
    simp only [hfind] at h
    cases hp : copyOneRef (argsOf env s x) x with
    | ok r => simp [hp] at h
    | error e' =>
      simp only [hp, Except.error.injEq] at h
      subst h
      rcases copyOneRef_err _ x e' hp hI with h1 | h1 | ⟨h1, _, h2⟩ | h1
      · exact Or.inl h1
      · exact Or.inr (Or.inl h1)
      · exact Or.inr (Or.inr (Or.inl ⟨h1, x, h2⟩))
      · exact Or.inr (Or.inr (Or.inr h1))

theorem collectLoop_ref_err (env : Env) :
    ∀ (fields : List (Str × Val)) (S ex : List Path) (n : Nat) (e : Err),
      (∀ p ∈ ex, Under env.destDir p → p ∈ S) → collectLoop copyOneRef env fields S ex n = .error e →
      BenignErr (selOf env) e
  | [], S, ex, n, e, _, h => by simp [collectLoop] at h
  | (name, v) :: fs, S, ex, n, e, hc, h => by
    simp only [collectLoop] at h
    have hI0 : Covered env.destDir { memo := [], clashes := S, ex := ex, nextId := n } := hc
    cases hn : copyNested copyOneRef env (some S) ex n v with
    | error e' =>
      simp only [hn, Except.error.injEq] at h
      subst h
      exact traverse_err (copyFileset copyOneRef env) (Covered env.destDir) (BenignErr (selOf env))
        (copyFileset_ref_ok env) (copyFileset_ref_err env) v _ e' hI0 hn
    | ok q =>
      obtain ⟨v', st⟩ := q
      simp only [hn] at h
      have hI1 : Covered env.destDir st :=
        traverse_inv (copyFileset copyOneRef env) (Covered env.destDir) (copyFileset_ref_ok env) v _ v' st hI0 hn
      cases hl : collectLoop copyOneRef env fs st.clashes st.ex st.nextId with
      | ok r => simp [hl] at h
      | error e' =>
        simp only [hl, Except.error.injEq] at h
        subst h
        exact collectLoop_ref_err env fs st.clashes st.ex st.nextId e' hI1 hl

end PydraModel.Files
